import Pm.Dev2Login
import Pm.Dev2Login2
import Pm.Daemon
/-! Helper lemmas for C09 (byte streams between the daemon and its devices/clients):
    the telnet decoder of `device_tcp.c:_telnet_preprocess` as a stream function, its specification,
    the read side of `_handle_ready_device`, `_process_expect`'s consumption, reconnects, and the write side. -/
namespace Pm.Dev2.Tel

/-! ## 1. the decoder as a stream function -/

/-- result of decoding a stream: the state the decoder is left in, the bytes kept for the script, the option
    replies queued for the device -/
structure Dec where
  st : Nat
  cmd : UInt8
  kept : Bytes
  replies : Bytes
deriving DecidableEq, Repr

/-- the step function `telnetFilter` folds over the newly read bytes -/
def foldStep (acc : Nat × UInt8 × List UInt8 × List UInt8) (b : UInt8) : Nat × UInt8 × List UInt8 × List UInt8 :=
  let (st, cmd, kept, reply) := acc
  let (st', cmd', k, r) := telnetStep st cmd b
  (st', cmd', kept ++ k, reply ++ r)

def Dec.ofTuple (t : Nat × UInt8 × List UInt8 × List UInt8) : Dec := ⟨t.1, t.2.1, t.2.2.1, t.2.2.2⟩

/-- the decoder continued from state `(st, cmd)`: one fold of `telnetStep` over the stream -/
def decodeFrom (st : Nat) (cmd : UInt8) (s : Bytes) : Dec := Dec.ofTuple (s.foldl foldStep (st, cmd, [], []))

/-- the ideal decoder: one fold of `telnetStep` over the whole stream, from the state of a fresh connection -/
def decode (s : Bytes) : Dec := decodeFrom 0 0 s

/-- the same by recursion on the stream (head first) -/
def run (st : Nat) (cmd : UInt8) : Bytes → Dec
  | [] => ⟨st, cmd, [], []⟩
  | b :: bs =>
    let r := telnetStep st cmd b
    let q := run r.1 r.2.1 bs
    ⟨q.st, q.cmd, r.2.2.1 ++ q.kept, r.2.2.2 ++ q.replies⟩

theorem foldl_foldStep (s : Bytes) (st : Nat) (cmd : UInt8) (k0 r0 : Bytes) :
    s.foldl foldStep (st, cmd, k0, r0) =
      ((run st cmd s).st, (run st cmd s).cmd, k0 ++ (run st cmd s).kept, r0 ++ (run st cmd s).replies) := by
  induction s generalizing st cmd k0 r0 with
  | nil => simp [run]
  | cons b bs ih =>
    simp only [List.foldl_cons, run]
    rw [show foldStep (st, cmd, k0, r0) b =
          ((telnetStep st cmd b).1, (telnetStep st cmd b).2.1, k0 ++ (telnetStep st cmd b).2.2.1, r0 ++ (telnetStep st cmd b).2.2.2) from rfl]
    rw [ih]
    simp [List.append_assoc]

theorem decodeFrom_eq_run (st : Nat) (cmd : UInt8) (s : Bytes) : decodeFrom st cmd s = run st cmd s := by
  unfold decodeFrom
  rw [foldl_foldStep]
  simp [Dec.ofTuple]

@[simp] theorem decodeFrom_nil (st : Nat) (cmd : UInt8) : decodeFrom st cmd [] = ⟨st, cmd, [], []⟩ := rfl

theorem decodeFrom_cons (st : Nat) (cmd : UInt8) (b : UInt8) (bs : Bytes) :
    decodeFrom st cmd (b :: bs) =
      ⟨(decodeFrom (telnetStep st cmd b).1 (telnetStep st cmd b).2.1 bs).st,
       (decodeFrom (telnetStep st cmd b).1 (telnetStep st cmd b).2.1 bs).cmd,
       (telnetStep st cmd b).2.2.1 ++ (decodeFrom (telnetStep st cmd b).1 (telnetStep st cmd b).2.1 bs).kept,
       (telnetStep st cmd b).2.2.2 ++ (decodeFrom (telnetStep st cmd b).1 (telnetStep st cmd b).2.1 bs).replies⟩ := by
  simp only [decodeFrom_eq_run, run]

/-- decoding `a ++ b` is decoding `a`, then continuing on `b` from the state `a` left -/
theorem decodeFrom_append (st : Nat) (cmd : UInt8) (a b : Bytes) :
    decodeFrom st cmd (a ++ b) =
      ⟨(decodeFrom (decodeFrom st cmd a).st (decodeFrom st cmd a).cmd b).st,
       (decodeFrom (decodeFrom st cmd a).st (decodeFrom st cmd a).cmd b).cmd,
       (decodeFrom st cmd a).kept ++ (decodeFrom (decodeFrom st cmd a).st (decodeFrom st cmd a).cmd b).kept,
       (decodeFrom st cmd a).replies ++ (decodeFrom (decodeFrom st cmd a).st (decodeFrom st cmd a).cmd b).replies⟩ := by
  induction a generalizing st cmd with
  | nil => simp
  | cons x xs ih =>
    rw [List.cons_append, decodeFrom_cons, ih, decodeFrom_cons]
    simp [List.append_assoc]

/-- `telnetFilter` is: continue the decoder on the new bytes from the device's carried state, append what it keeps
    to `fromBuf` and queue its replies in `toBuf` (`clipTo`: `dev->to` holds 65536 bytes, the oldest give way) -/
theorem telnetFilter_eq (d : Dev) (new : Bytes) :
    telnetFilter d new =
      { d with tstate := (decodeFrom d.tstate d.tcmd new).st, tcmd := (decodeFrom d.tstate d.tcmd new).cmd,
               fromBuf := d.fromBuf ++ (decodeFrom d.tstate d.tcmd new).kept,
               toBuf := clipTo (d.toBuf ++ (decodeFrom d.tstate d.tcmd new).replies) } := rfl

/-- no bytes, no change — for an output buffer within its capacity (the model writes `clipTo (toBuf ++ [])`) -/
theorem telnetFilter_nil (d : Dev) (hcap : d.toBuf.length ≤ 65536) : telnetFilter d [] = d := by
  rw [telnetFilter_eq]; simp [clipTo_of_le _ hcap]

/-- segmentation independence, two chunks -/
theorem telnetFilter_append (d : Dev) (a b : Bytes) :
    telnetFilter (telnetFilter d a) b = telnetFilter d (a ++ b) := by
  rw [telnetFilter_eq d (a ++ b), decodeFrom_append, telnetFilter_eq (telnetFilter d a) b, telnetFilter_eq d a]
  simp [List.append_assoc, clipTo_clipTo_append]

/-- segmentation independence, any number of chunks (the output buffer within its capacity to begin with: needed for the
    empty list of chunks only) -/
theorem telnetFilter_chunks (d : Dev) (chunks : List Bytes) (hcap : d.toBuf.length ≤ 65536) :
    chunks.foldl telnetFilter d = telnetFilter d chunks.flatten := by
  induction chunks generalizing d with
  | nil => simp [telnetFilter_nil d hcap]
  | cons c cs ih =>
    rw [List.foldl_cons, ih _ (by rw [telnetFilter_eq]; exact clipTo_length_le _), List.flatten_cons, telnetFilter_append]

/-! ## 2. what the decoder keeps, specified without the state machine -/

/-- DONT, DO, WONT, WILL: the commands followed by one option byte -/
def isOptCmd (c : UInt8) : Bool := c == 254 || c == 253 || c == 252 || c == 251

/-- the answer to `IAC cmd opt` (`_telnet_recvopt`): only `DO` is answered — `WILL` for SGA and TM, `WONT` for
    TTYPE, NAWS, NEW-ENVIRON, XDISPLOC, TSPEED, ECHO, LFLOW, BINARY, nothing for any other option -/
def optReply (cmd o : UInt8) : Bytes :=
  if cmd == 253 then
    (if o == 3 || o == 6 then [255, 251, o]
     else if o == 24 || o == 31 || o == 39 || o == 35 || o == 32 || o == 1 || o == 33 || o == 0 then [255, 252, o]
     else [])
  else []

/-- specification of the kept bytes, by recursion on the stream: `IAC IAC ↦ 0xFF`, `IAC (DO|DONT|WILL|WONT) o ↦ ε`,
    `IAC x ↦ ε` for every other `x`, an unfinished command at the end of the stream ↦ ε, every other byte itself -/
def strip : Bytes → Bytes
  | [] => []
  | b :: r =>
    if b ≠ 255 then b :: strip r
    else match r with
      | [] => []
      | c :: r' =>
        if c = 255 then 255 :: strip r'
        else if isOptCmd c then
          match r' with
          | [] => []
          | _ :: r'' => strip r''
        else strip r'

/-- specification of the replies, by recursion on the stream -/
def answers : Bytes → Bytes
  | [] => []
  | b :: r =>
    if b ≠ 255 then answers r
    else match r with
      | [] => []
      | c :: r' =>
        if c = 255 then answers r'
        else if isOptCmd c then
          match r' with
          | [] => []
          | o :: r'' => optReply c o ++ answers r''
        else answers r'

/-- the unfinished command a stream ends in: `[]`, `[IAC]` or `[IAC, cmd]` -/
def pendingTail : Bytes → Bytes
  | [] => []
  | b :: r =>
    if b ≠ 255 then pendingTail r
    else match r with
      | [] => [255]
      | c :: r' =>
        if c = 255 then pendingTail r'
        else if isOptCmd c then
          match r' with
          | [] => [255, c]
          | _ :: r'' => pendingTail r''
        else pendingTail r'

theorem telnetStep_zero (cmd b : UInt8) :
    telnetStep 0 cmd b = if b = 255 then (1, cmd, [], []) else (0, cmd, [b], []) := by
  simp [telnetStep]

theorem telnetStep_one (cmd b : UInt8) :
    telnetStep 1 cmd b = if b = 255 then (0, cmd, [b], []) else if isOptCmd b then (2, b, [], []) else (0, cmd, [], []) := by
  simp [telnetStep, isOptCmd]

theorem telnetStep_two (n : Nat) (cmd b : UInt8) : telnetStep (n + 2) cmd b = (0, cmd, [], optReply cmd b) := by
  simp [telnetStep, optReply]

theorem strip_ne (b : UInt8) (r : Bytes) (hb : b ≠ 255) : strip (b :: r) = b :: strip r := by
  rw [strip.eq_def]; simp [hb]
theorem strip_iac_nil : strip [255] = [] := by
  rw [strip.eq_def]; simp
theorem strip_iac_cons (c : UInt8) (r : Bytes) :
    strip (255 :: c :: r) = if c = 255 then 255 :: strip r else if isOptCmd c then strip (r.drop 1) else strip r := by
  rw [strip.eq_def]; cases r <;> simp [strip]

theorem answers_ne (b : UInt8) (r : Bytes) (hb : b ≠ 255) : answers (b :: r) = answers r := by
  rw [answers.eq_def]; simp [hb]
theorem answers_iac_nil : answers [255] = [] := by
  rw [answers.eq_def]; simp
theorem answers_iac_cons (c : UInt8) (r : Bytes) :
    answers (255 :: c :: r) = if c = 255 then answers r else if isOptCmd c then
      (match r with | [] => [] | o :: r'' => optReply c o ++ answers r'') else answers r := by
  rw [answers.eq_def]; cases r <;> simp

theorem pendingTail_ne (b : UInt8) (r : Bytes) (hb : b ≠ 255) : pendingTail (b :: r) = pendingTail r := by
  rw [pendingTail.eq_def]; simp [hb]
theorem pendingTail_iac_nil : pendingTail [255] = [255] := by
  rw [pendingTail.eq_def]; simp
theorem pendingTail_iac_cons (c : UInt8) (r : Bytes) :
    pendingTail (255 :: c :: r) = if c = 255 then pendingTail r else if isOptCmd c then
      (match r with | [] => [255, c] | _ :: r'' => pendingTail r'') else pendingTail r := by
  rw [pendingTail.eq_def]; cases r <;> simp

/-- the three states of the decoder against the specification, in one induction on the stream -/
theorem decodeFrom_kept_spec (s : Bytes) : ∀ cmd : UInt8,
    (decodeFrom 0 cmd s).kept = strip s ∧
    (decodeFrom 1 cmd s).kept = strip (255 :: s) ∧
    ∀ n, (decodeFrom (n + 2) cmd s).kept = strip (s.drop 1) := by
  induction s with
  | nil => intro cmd; simp [strip]
  | cons b r ih =>
    intro cmd
    refine ⟨?_, ?_, ?_⟩
    · rw [decodeFrom_cons, telnetStep_zero]
      by_cases hb : b = 255
      · simp only [hb, ↓reduceIte, List.nil_append]; exact (ih cmd).2.1
      · simp only [hb, ↓reduceIte]; rw [(ih cmd).1, strip_ne _ _ hb]; rfl
    · rw [decodeFrom_cons, telnetStep_one, strip_iac_cons]
      by_cases hb : b = 255
      · simp only [hb, ↓reduceIte]; rw [(ih cmd).1]; simp
      · simp only [hb, ↓reduceIte]
        cases ho : isOptCmd b
        · simp only [Bool.false_eq_true, ↓reduceIte, List.nil_append]; exact (ih cmd).1
        · simp only [↓reduceIte, List.nil_append]; exact (ih b).2.2 0
    · intro n
      rw [decodeFrom_cons, telnetStep_two]
      simp only [List.nil_append, List.drop_succ_cons, List.drop_zero]
      exact (ih cmd).1

theorem decodeFrom_replies_spec (s : Bytes) : ∀ cmd : UInt8,
    (decodeFrom 0 cmd s).replies = answers s ∧
    (decodeFrom 1 cmd s).replies = answers (255 :: s) ∧
    ∀ n, (decodeFrom (n + 2) cmd s).replies = (match s with | [] => [] | o :: r => optReply cmd o ++ answers r) := by
  induction s with
  | nil => intro cmd; simp [answers]
  | cons b r ih =>
    intro cmd
    refine ⟨?_, ?_, ?_⟩
    · rw [decodeFrom_cons, telnetStep_zero]
      by_cases hb : b = 255
      · simp only [hb, ↓reduceIte, List.nil_append]; exact (ih cmd).2.1
      · simp only [hb, ↓reduceIte, List.nil_append]; rw [(ih cmd).1, answers_ne _ _ hb]
    · rw [decodeFrom_cons, telnetStep_one, answers_iac_cons]
      by_cases hb : b = 255
      · simp only [hb, ↓reduceIte, List.nil_append]; exact (ih cmd).1
      · simp only [hb, ↓reduceIte]
        cases ho : isOptCmd b
        · simp only [Bool.false_eq_true, ↓reduceIte, List.nil_append]; exact (ih cmd).1
        · simp only [↓reduceIte, List.nil_append]; exact (ih b).2.2 0
    · intro n
      rw [decodeFrom_cons, telnetStep_two]
      simp only
      rw [(ih cmd).1]

/-- the state the decoder is left in is the length of the unfinished command, and in state 2 the command byte it
    carries is that command's -/
theorem decodeFrom_state_spec (s : Bytes) : ∀ cmd : UInt8,
    ((decodeFrom 0 cmd s).st = (pendingTail s).length ∧
      ((decodeFrom 0 cmd s).st = 2 → pendingTail s = [255, (decodeFrom 0 cmd s).cmd])) ∧
    ((decodeFrom 1 cmd s).st = (pendingTail (255 :: s)).length ∧
      ((decodeFrom 1 cmd s).st = 2 → pendingTail (255 :: s) = [255, (decodeFrom 1 cmd s).cmd])) ∧
    ∀ n, s ≠ [] → ((decodeFrom (n + 2) cmd s).st = (pendingTail (s.drop 1)).length ∧
      ((decodeFrom (n + 2) cmd s).st = 2 → pendingTail (s.drop 1) = [255, (decodeFrom (n + 2) cmd s).cmd])) := by
  induction s with
  | nil => intro cmd; simp [pendingTail]
  | cons b r ih =>
    intro cmd
    refine ⟨?_, ?_, ?_⟩
    · rw [decodeFrom_cons, telnetStep_zero]
      by_cases hb : b = 255
      · simp only [hb, ↓reduceIte]; exact (ih cmd).2.1
      · simp only [hb, ↓reduceIte]
        have : pendingTail (b :: r) = pendingTail r := pendingTail_ne _ _ hb
        rw [this]; exact (ih cmd).1
    · rw [decodeFrom_cons, telnetStep_one]
      by_cases hb : b = 255
      · simp only [hb, ↓reduceIte]
        have : pendingTail (255 :: 255 :: r) = pendingTail r := by simp [pendingTail_iac_cons]
        rw [this]; exact (ih cmd).1
      · simp only [hb, ↓reduceIte]
        cases ho : isOptCmd b
        · simp only [Bool.false_eq_true, ↓reduceIte]
          have : pendingTail (255 :: b :: r) = pendingTail r := by simp [pendingTail_iac_cons, hb, ho]
          rw [this]; exact (ih cmd).1
        · simp only [↓reduceIte]
          cases r with
          | nil => simp [pendingTail_iac_cons, hb, ho]
          | cons o r'' =>
            have : pendingTail (255 :: b :: o :: r'') = pendingTail ((o :: r'').drop 1) := by simp [pendingTail_iac_cons, hb, ho]
            rw [this]; exact (ih b).2.2 0 (by simp)
    · intro n _
      rw [decodeFrom_cons, telnetStep_two]
      simp only [List.drop_succ_cons, List.drop_zero]
      exact (ih cmd).1

theorem decode_kept (s : Bytes) : (decode s).kept = strip s := (decodeFrom_kept_spec s 0).1
theorem decode_replies (s : Bytes) : (decode s).replies = answers s := (decodeFrom_replies_spec s 0).1
theorem decode_st (s : Bytes) : (decode s).st = (pendingTail s).length := (decodeFrom_state_spec s 0).1.1
theorem decode_cmd (s : Bytes) (h : (decode s).st = 2) : pendingTail s = [255, (decode s).cmd] :=
  (decodeFrom_state_spec s 0).1.2 h

/-- the unfinished command at the end of a stream is nothing, a lone `IAC`, or `IAC` and an option command -/
theorem pendingTail_cases (s : Bytes) :
    pendingTail s = [] ∨ pendingTail s = [255] ∨ ∃ c, c ≠ 255 ∧ isOptCmd c = true ∧ pendingTail s = [255, c] := by
  fun_induction pendingTail s <;> simp_all

theorem strip_clean (s : Bytes) (h : 255 ∉ s) : strip s = s := by
  induction s with
  | nil => simp [strip]
  | cons b r ih =>
    have hb : b ≠ 255 := fun e => h (by simp [e])
    rw [strip_ne _ _ hb, ih (fun hm => h (by simp [hm]))]

theorem answers_clean (s : Bytes) (h : 255 ∉ s) : answers s = [] := by
  induction s with
  | nil => simp [answers]
  | cons b r ih =>
    have hb : b ≠ 255 := fun e => h (by simp [e])
    rw [answers_ne _ _ hb, ih (fun hm => h (by simp [hm]))]

theorem pendingTail_clean (s : Bytes) (h : 255 ∉ s) : pendingTail s = [] := by
  induction s with
  | nil => simp [pendingTail]
  | cons b r ih =>
    have hb : b ≠ 255 := fun e => h (by simp [e])
    rw [pendingTail_ne _ _ hb, ih (fun hm => h (by simp [hm]))]

/-- continuing the decoder after `s` on `t` keeps what the specification keeps of `t` prefixed with the command `s`
    left unfinished: the carried state is exactly that unfinished command -/
theorem decodeFrom_resume_kept (s t : Bytes) :
    (decodeFrom (decode s).st (decode s).cmd t).kept = strip (pendingTail s ++ t) := by
  have hst := decode_st s
  have hcmd := decode_cmd s
  rcases pendingTail_cases s with h | h | ⟨c, hc, ho, h⟩
  · rw [h] at hst ⊢; simp only [List.length_nil] at hst; rw [hst]; exact (decodeFrom_kept_spec t _).1
  · rw [h] at hst ⊢; simp only [List.length_cons, List.length_nil] at hst; rw [hst]; exact (decodeFrom_kept_spec t _).2.1
  · rw [h] at hst ⊢; simp only [List.length_cons, List.length_nil] at hst
    rw [hst, (decodeFrom_kept_spec t _).2.2 0]
    simp [strip_iac_cons, hc, ho]

/-- the specification is compositional: what is kept of `s ++ t` is what is kept of `s`, then what is kept of `t`
    read after the command `s` left unfinished -/
theorem strip_append (s t : Bytes) : strip (s ++ t) = strip s ++ strip (pendingTail s ++ t) := by
  rw [← decode_kept, ← decode_kept, ← decodeFrom_resume_kept]
  unfold decode
  rw [decodeFrom_append]

theorem strip_append_of_complete (s t : Bytes) (h : pendingTail s = []) : strip (s ++ t) = strip s ++ strip t := by
  rw [strip_append, h]; rfl

/-- nothing is invented: the kept bytes are never more than the bytes received -/
theorem strip_length_le (s : Bytes) : (strip s).length ≤ s.length := by
  fun_induction strip s <;> simp_all <;> omega

/-! ## 3. the read side of `_handle_ready_device` and `_process_expect` -/

/-- POLLOUT while CONNECTING: `assert(dev->finish_connect != NULL)`, `tcp_finish_connect`, and what `_handle_ready_device`
    makes of its outcome -/
def finishTail (c : CS) : CS × Bool × Bool :=
  if c.dev.conn == 0 then (c, true, true)
  else if c.dev.conn == 2 then ({ c with dev := enqueueLogin c.dev }, false, true)
  else (c, false, true)
def readyFinish (c : CS) : CS × Bool × Bool :=
  if c.dev.isPipe then ({ c with sys := c.sys ++ [.abort "assert finish_connect != NULL"], aborted := true }, false, true) else
  finishTail (if (finishConnectOne c).2 then (finishConnectOne c).1 else finishConnectFail (finishConnectOne c).1)

/-- `_handle_ready_device` from "ready for writing" to just before "ready for reading": the state, ioerr, and
    whether the read bit is skipped -/
def readyWrite (c : CS) : CS × Bool × Bool :=
  let f := c.env.revents
  if f &&& 2 != 0 then
    if c.dev.conn == 1 then readyFinish c
    else
      if c.dev.toBuf.isEmpty then (c, true, false)
      else if c.env.writeOk then
        if c.env.wcap == 0 then ({ c with sys := c.sys ++ [.write [] true] }, true, false)
        else ({ c with sys := c.sys ++ [.write (c.dev.toBuf.take c.env.wcap) true], dev := { c.dev with toBuf := c.dev.toBuf.drop c.env.wcap } }, false, false)
      else ({ c with sys := c.sys ++ [.write c.dev.toBuf false] }, true, false)
  else (c, false, false)

/-- `_handle_read` + preprocessing once the capacity half (`clipRead`) is done: what happens with the bytes read -/
def readyRd (c : CS) : CS × Bool :=
  match c.env.read with
  | some (some bs) =>
    if bs.isEmpty then ({ c with sys := c.sys ++ [.read 0] }, true)
    else ({ c with sys := c.sys ++ [.read bs.length],
                   dev := if c.dev.isPipe then { c.dev with fromBuf := c.dev.fromBuf ++ bs } else telnetFilter c.dev bs }, false)
  | some none => ({ c with sys := c.sys ++ [.read (-1)] }, true)
  | none => ({ c with sys := c.sys ++ [.abort "no read answer"], aborted := true }, false)

/-- `_handle_ready_device`, "ready for reading" (`f` = the poll flags) -/
def readyRead (f : Nat) (c : CS) : CS × Bool :=
  if f &&& 1 != 0 then readyRd (clipRead c) else (c, false)

/-- `handleReady` cut into its two halves -/
theorem handleReady_eq (c : CS) :
    handleReady c =
      (if c.dev.conn == 0 then ({ c with sys := c.sys ++ [.abort "assert connect_state != NOT_CONNECTED"], aborted := true }, false) else
       if c.dev.fd.isNone then ({ c with sys := c.sys ++ [.abort "assert fd != NO_FD"], aborted := true }, false) else
       if c.env.revents &&& 4 != 0 || c.env.revents &&& 8 != 0 || c.env.revents &&& 16 != 0 then (c, true) else
       if (readyWrite c).2.1 then ((readyWrite c).1, true) else
       if (readyWrite c).2.2 then ((readyWrite c).1, false) else
       readyRead c.env.revents (readyWrite c).1) := rfl

/-- what the daemon appends to `fromBuf` when it has read `bs` from the device's descriptor: the bytes themselves on a
    coprocess, the decoder's output continued from the carried state on a tcp device -/
def keptOf (d : Dev) (bs : Bytes) : Bytes := if d.isPipe then bs else (decodeFrom d.tstate d.tcmd bs).kept

/-- the device after the daemon has taken in `bs` -/
def absorb (d : Dev) (bs : Bytes) : Dev :=
  if d.isPipe then { d with fromBuf := d.fromBuf ++ bs } else telnetFilter d bs

theorem absorb_fromBuf (d : Dev) (bs : Bytes) : (absorb d bs).fromBuf = d.fromBuf ++ keptOf d bs := by
  unfold absorb keptOf; split <;> simp [telnetFilter_eq]

theorem absorb_isPipe (d : Dev) (bs : Bytes) : (absorb d bs).isPipe = d.isPipe := by
  unfold absorb; split <;> simp [telnetFilter_eq]

theorem absorb_fromSize (d : Dev) (bs : Bytes) : (absorb d bs).fromSize = d.fromSize := by
  unfold absorb; split <;> simp [telnetFilter_eq]

theorem absorb_state (d : Dev) (bs : Bytes) :
    ((absorb d bs).tstate, (absorb d bs).tcmd) =
      if d.isPipe then (d.tstate, d.tcmd) else ((decodeFrom d.tstate d.tcmd bs).st, (decodeFrom d.tstate d.tcmd bs).cmd) := by
  unfold absorb; split <;> simp [telnetFilter_eq]

theorem absorb_append (d : Dev) (a b : Bytes) : absorb (absorb d a) b = absorb d (a ++ b) := by
  unfold absorb
  cases h : d.isPipe
  · simp [telnetFilter_eq, decodeFrom_append, h, clipTo_clipTo_append]
  · simp

theorem readyRd_cases (c : CS) :
    ((∀ bs, c.env.read = some (some bs) → bs = []) ∧ (readyRd c).1.dev = c.dev) ∨
    (∃ bs, c.env.read = some (some bs) ∧ bs ≠ [] ∧ (readyRd c).2 = false ∧
      (readyRd c).1.dev = absorb c.dev bs) := by
  unfold readyRd absorb
  split
  · split
    · rename_i bs hr hbs
      left; refine ⟨fun bs' h' => ?_, rfl⟩
      rw [hr] at h'; cases h'; simpa using hbs
    · rename_i bs hr hbs
      right; exact ⟨bs, hr, by simpa using hbs, rfl, rfl⟩
  · rename_i hr; left; exact ⟨fun bs' h' => (by rw [hr] at h'; cases h'), rfl⟩
  · rename_i hr; left; exact ⟨fun bs' h' => (by rw [hr] at h'; cases h'), rfl⟩

/-- the read half, every case: either nothing is taken in — the device is as before except, possibly, for the size of
    its input buffer (which grows when it is full, before the `read` is attempted) — or the kernel had `bs`, non-empty,
    and the daemon took in `readOf c.dev bs`, the prefix its buffer asked for, after the capacity half `devClip` -/
theorem readyRead_cases (f : Nat) (c : CS) :
    (∃ n, (readyRead f c).1.dev = { c.dev with fromSize := n }) ∨
    (∃ bs, c.env.read = some (some bs) ∧ bs ≠ [] ∧ f &&& 1 ≠ 0 ∧ (readyRead f c).2 = false ∧
      (readyRead f c).1.dev = absorb (devClip c.dev bs) (readOf c.dev bs)) := by
  unfold readyRead
  split
  · rename_i hf
    rcases readyRd_cases (clipRead c) with ⟨h1, h2⟩ | ⟨bs', h1, h2, h3, h4⟩
    · left
      refine ⟨clipSize c, ?_⟩
      rw [h2]
      apply clipRead_dev_nodata
      intro bs hr
      have := h1 _ (clipRead_read_data c bs hr)
      exact Classical.byContradiction fun hne => readOf_ne_nil c.dev bs hne this
    · right
      obtain ⟨bs, hb1, hb2⟩ := clipRead_data_inv c bs' h1
      refine ⟨bs, hb1, ?_, by simpa using hf, h3, ?_⟩
      · intro h0; subst h0; rw [readOf_nil] at hb2; exact h2 hb2
      · rw [h4, clipRead_dev_data c bs hb1, hb2]
  · left; exact ⟨c.dev.fromSize, rfl⟩

/-- when `readyRd` runs with data `bs` -/
theorem readyRd_data (c : CS) (bs : Bytes) (hr : c.env.read = some (some bs)) (hbs : bs ≠ []) :
    readyRd c = ({ c with sys := c.sys ++ [.read bs.length], dev := absorb c.dev bs }, false) := by
  unfold readyRd absorb
  have : bs.isEmpty = false := by cases bs <;> simp_all
  simp only [hr, this, Bool.false_eq_true, ↓reduceIte]

/-- when the read branch runs and the kernel has `bs`: the capacity half, then `readOf c.dev bs` is taken in and logged -/
theorem readyRead_data (f : Nat) (c : CS) (bs : Bytes) (hf : f &&& 1 ≠ 0) (hr : c.env.read = some (some bs)) (hbs : bs ≠ []) :
    readyRead f c = ({ c with env := { c.env with read := some (some (readOf c.dev bs)) },
                              sys := c.sys ++ [.read (readOf c.dev bs).length],
                              dev := absorb (devClip c.dev bs) (readOf c.dev bs) }, false) := by
  unfold readyRead
  have hf' : (f &&& 1 != 0) = true := by simpa using hf
  simp only [hf', ↓reduceIte]
  rw [readyRd_data (clipRead c) (readOf c.dev bs) (clipRead_read_data c bs hr) (readOf_ne_nil c.dev bs hbs),
    clipRead_data_eq c bs hr]

/-- `tcp_finish_connect_one`: on success the connection is up and the telnet decoder is at rest (`_telnet_init`);
    on failure the device is untouched; the buffers are not touched either way -/
theorem finishConnectOne_cases (c : CS) :
    ((finishConnectOne c).2 = true ∧
        (finishConnectOne c).1.dev = { c.dev with conn := 2, statConnects := c.dev.statConnects + 1, tstate := 0, tcmd := 0 }) ∨
    ((finishConnectOne c).2 = false ∧ (finishConnectOne c).1.dev = c.dev) := by
  unfold finishConnectOne
  split
  · split
    · left; exact ⟨rfl, rfl⟩
    · right; exact ⟨rfl, rfl⟩
  · right; exact ⟨rfl, rfl⟩

theorem finishConnectOne_env (c : CS) :
    (finishConnectOne c).1.env.read = c.env.read ∧ (finishConnectOne c).1.env.revents = c.env.revents ∧
    (finishConnectOne c).1.env.writeOk = c.env.writeOk := by
  unfold finishConnectOne
  split
  · split <;> exact ⟨rfl, rfl, rfl⟩
  · exact ⟨rfl, rfl, rfl⟩

theorem finishConnectOne_tel (c : CS) :
    ((finishConnectOne c).2 = false ∧ TelSame c.dev (finishConnectOne c).1.dev ∧ (finishConnectOne c).1.dev.conn = c.dev.conn) ∨
    ((finishConnectOne c).2 = true ∧ TelUp c.dev (finishConnectOne c).1.dev) := by
  rcases finishConnectOne_cases c with ⟨h1, h2⟩ | ⟨h1, h2⟩
  · right; rw [h2]; exact ⟨h1, rfl, rfl, rfl, rfl⟩
  · left; rw [h2]; exact ⟨h1, ⟨rfl, rfl, rfl⟩, rfl⟩

/-- **POLLOUT while CONNECTING**, every case: the read bit is skipped; neither buffer, nor the transport kind, nor the size of
    the input buffer is touched; nothing is read or written; and either a connection is up (CONNECTED, decoder at rest, one
    more connect counted: on the pending address, or on a later one that connected at once), or every remaining address failed
    (NOT_CONNECTED, an i/o error for the caller), or a later address is in progress (still CONNECTING) — in the last two cases
    decoder and counter are as they were -/
theorem finishTail_facts (c : CS) :
    (finishTail c).2.2 = true ∧ (finishTail c).2.1 = (c.dev.conn == 0) ∧ (finishTail c).1.sys = c.sys ∧
    (finishTail c).1.dev.fromBuf = c.dev.fromBuf ∧ (finishTail c).1.dev.isPipe = c.dev.isPipe ∧
    (finishTail c).1.dev.fromSize = c.dev.fromSize ∧ (finishTail c).1.dev.toBuf = c.dev.toBuf ∧
    (finishTail c).1.dev.conn = c.dev.conn ∧ (finishTail c).1.dev.tstate = c.dev.tstate ∧
    (finishTail c).1.dev.tcmd = c.dev.tcmd ∧ (finishTail c).1.dev.statConnects = c.dev.statConnects := by
  unfold finishTail
  split
  · rename_i h; exact ⟨rfl, h.symm, rfl, rfl, rfl, rfl, rfl, rfl, rfl, rfl, rfl⟩
  · rename_i h
    have h' : (c.dev.conn == 0) = false := by simpa using h
    split
    · exact ⟨rfl, h'.symm, rfl, rfl, rfl, rfl, rfl, rfl, rfl, rfl, rfl⟩
    · exact ⟨rfl, h'.symm, rfl, rfl, rfl, rfl, rfl, rfl, rfl, rfl, rfl⟩

theorem readyFinish_facts (c : CS) (h1 : c.dev.conn = 1) :
    (readyFinish c).2.2 = true ∧
    (readyFinish c).1.dev.fromBuf = c.dev.fromBuf ∧ (readyFinish c).1.dev.isPipe = c.dev.isPipe ∧
    (readyFinish c).1.dev.fromSize = c.dev.fromSize ∧ (readyFinish c).1.dev.toBuf = c.dev.toBuf ∧
    (∃ δ, (readyFinish c).1.sys = c.sys ++ δ ∧ NoIO δ) ∧
    (((readyFinish c).2.1 = false ∧ (readyFinish c).1.dev.conn = 2 ∧ (readyFinish c).1.dev.tstate = 0 ∧
        (readyFinish c).1.dev.tcmd = 0 ∧ (readyFinish c).1.dev.statConnects = c.dev.statConnects + 1) ∨
     ((readyFinish c).2.1 = true ∧ (readyFinish c).1.dev.conn = 0 ∧ (readyFinish c).1.dev.tstate = c.dev.tstate ∧
        (readyFinish c).1.dev.tcmd = c.dev.tcmd ∧ (readyFinish c).1.dev.statConnects = c.dev.statConnects) ∨
     ((readyFinish c).2.1 = false ∧ (readyFinish c).1.dev.conn = 1 ∧ (readyFinish c).1.dev.tstate = c.dev.tstate ∧
        (readyFinish c).1.dev.tcmd = c.dev.tcmd ∧ (readyFinish c).1.dev.statConnects = c.dev.statConnects)) := by
  unfold readyFinish
  split
  · exact ⟨rfl, rfl, rfl, rfl, rfl, ⟨_, rfl, by intro s h; simp at h; subst h; rfl⟩, Or.inr (Or.inr ⟨rfl, h1, rfl, rfl, rfl⟩)⟩
  · have hF : WalkFrame c (if (finishConnectOne c).2 = true then (finishConnectOne c).1 else finishConnectFail (finishConnectOne c).1) := by
      split
      · exact finishConnectOne_frame c
      · exact (finishConnectOne_frame c).trans (finishConnectFail_frame _)
    have hT : (TelSame c.dev (if (finishConnectOne c).2 = true then (finishConnectOne c).1 else finishConnectFail (finishConnectOne c).1).dev ∧
          ((if (finishConnectOne c).2 = true then (finishConnectOne c).1 else finishConnectFail (finishConnectOne c).1).dev.conn = 0 ∨
           (if (finishConnectOne c).2 = true then (finishConnectOne c).1 else finishConnectFail (finishConnectOne c).1).dev.conn = 1)) ∨
        TelUp c.dev (if (finishConnectOne c).2 = true then (finishConnectOne c).1 else finishConnectFail (finishConnectOne c).1).dev := by
      rcases finishConnectOne_tel c with ⟨hb, ⟨t1, t2, t3⟩, t4⟩ | ⟨hb, hu⟩
      · simp only [hb, Bool.false_eq_true, ↓reduceIte]
        rcases finishConnectFail_tel (finishConnectOne c).1 with ⟨⟨a1, a2, a3⟩, b⟩ | ⟨b1, b2, b3, b4⟩
        · left; exact ⟨⟨a1.trans t1, a2.trans t2, a3.trans t3⟩, b.imp id (fun h => by rw [h, t4, h1])⟩
        · right; exact ⟨b1, b2, b3, by rw [b4, t3]⟩
      · simp only [hb, ↓reduceIte]; right; exact hu
    generalize (if (finishConnectOne c).2 = true then (finishConnectOne c).1 else finishConnectFail (finishConnectOne c).1) = c2 at *
    obtain ⟨f1, f2, f3, f4, f5, f6, f7, f8, f9, f10, f11⟩ := finishTail_facts c2
    refine ⟨f1, f4.trans hF.dev.fromBuf, f5.trans hF.dev.isPipe, f6.trans hF.dev.fromSize, f7.trans hF.dev.toBuf,
      by rw [f3]; exact hF.log, ?_⟩
    rw [f2, f8, f9, f10, f11]
    rcases hT with ⟨⟨a1, a2, a3⟩, h | h⟩ | ⟨b1, b2, b3, b4⟩
    · right; left; exact ⟨by simp [h], h, a1, a2, a3⟩
    · right; right; exact ⟨by simp [h], h, a1, a2, a3⟩
    · left; exact ⟨by simp [b1], b1, b2, b3, b4⟩

theorem readyWrite_fromBuf (c : CS) :
    (readyWrite c).1.dev.fromBuf = c.dev.fromBuf ∧ (readyWrite c).1.dev.isPipe = c.dev.isPipe ∧
    (readyWrite c).1.dev.fromSize = c.dev.fromSize := by
  unfold readyWrite
  dsimp only
  split
  · split
    · rename_i h1
      have := readyFinish_facts c (by simpa using h1)
      exact ⟨this.2.1, this.2.2.1, this.2.2.2.1⟩
    · repeat' split
      all_goals simp_all
  · exact ⟨rfl, rfl, rfl⟩

/-- when the read bit is still looked at after the write half, the write half has not touched the connection, the
    decoder or the environment: at most it has written (part of) `toBuf` out -/
theorem readyWrite_noskip (c : CS) (h : (readyWrite c).2.2 = false) :
    (readyWrite c).1.dev.tstate = c.dev.tstate ∧ (readyWrite c).1.dev.tcmd = c.dev.tcmd ∧
    (readyWrite c).1.dev.conn = c.dev.conn ∧ (readyWrite c).1.dev.statConnects = c.dev.statConnects ∧
    (readyWrite c).1.env = c.env := by
  unfold readyWrite at h ⊢
  dsimp only at h ⊢
  split
  · rename_i hf
    simp only [hf, ↓reduceIte] at h
    split
    · rename_i h1
      simp only [h1, ↓reduceIte] at h
      rw [(readyFinish_facts c (by simpa using h1)).1] at h; cases h
    · repeat' split
      all_goals simp_all
  · exact ⟨rfl, rfl, rfl, rfl, rfl⟩

/-- when the read bit is skipped, a connection attempt has just been continued: either a connection is up, with the decoder at
    rest, or every remaining address failed, or a later address is in progress -/
theorem readyWrite_skip (c : CS) (h : (readyWrite c).2.2 = true) :
    c.dev.conn = 1 ∧
    (((readyWrite c).2.1 = false ∧ (readyWrite c).1.dev.conn = 2 ∧ (readyWrite c).1.dev.tstate = 0 ∧
        (readyWrite c).1.dev.tcmd = 0 ∧ (readyWrite c).1.dev.statConnects = c.dev.statConnects + 1) ∨
     ((readyWrite c).2.1 = true ∧ (readyWrite c).1.dev.conn = 0 ∧ (readyWrite c).1.dev.tstate = c.dev.tstate ∧
        (readyWrite c).1.dev.tcmd = c.dev.tcmd ∧ (readyWrite c).1.dev.statConnects = c.dev.statConnects) ∨
     ((readyWrite c).2.1 = false ∧ (readyWrite c).1.dev.conn = 1 ∧ (readyWrite c).1.dev.tstate = c.dev.tstate ∧
        (readyWrite c).1.dev.tcmd = c.dev.tcmd ∧ (readyWrite c).1.dev.statConnects = c.dev.statConnects)) := by
  unfold readyWrite at h ⊢
  dsimp only at h ⊢
  split
  · rename_i hf
    simp only [hf, ↓reduceIte] at h
    split
    · rename_i h1
      exact ⟨by simpa using h1, (readyFinish_facts c (by simpa using h1)).2.2.2.2.2.2⟩
    · rename_i h1
      simp only [h1, Bool.false_eq_true, ↓reduceIte] at h
      repeat' split at h
      all_goals simp_all
  · rename_i hf
    simp only [hf, Bool.false_eq_true, ↓reduceIte] at h

/-- the read-side view of a device: transport, decoder state, unconsumed decoded bytes -/
structure RView where
  isPipe : Bool
  st : Nat
  cmd : UInt8
  buf : Bytes
deriving DecidableEq, Repr

def rview (d : Dev) : RView := ⟨d.isPipe, d.tstate, d.tcmd, d.fromBuf⟩

/-- the daemon read `bs` from the descriptor -/
def RView.read (v : RView) (bs : Bytes) : RView :=
  if v.isPipe then { v with buf := v.buf ++ bs }
  else { v with st := (decodeFrom v.st v.cmd bs).st, cmd := (decodeFrom v.st v.cmd bs).cmd, buf := v.buf ++ (decodeFrom v.st v.cmd bs).kept }

/-- the first `k` pending bytes went away: an `expect` consumed them, or — only when `MAX_DEV_BUF` unconsumed bytes are
    pending — a `read` overwrote them -/
def RView.consume (v : RView) (k : Nat) : RView := { v with buf := v.buf.drop k }

theorem rview_absorb (d : Dev) (bs : Bytes) : rview (absorb d bs) = (rview d).read bs := by
  unfold absorb rview RView.read
  cases h : d.isPipe <;> simp [telnetFilter_eq, h]

theorem rview_devClip (d : Dev) (bs : Bytes) : rview (devClip d bs) = (rview d).consume (dropOf d bs) := rfl

theorem rview_setFromSize (d : Dev) (n : Nat) : rview { d with fromSize := n } = rview d := rfl

/-- C09 read side, one call of `_handle_ready_device`, every case: either nothing was taken in, or the read branch
    ran — the kernel had `bs`, the daemon read the prefix `readOf c.dev bs` its buffer asked for, and the view advanced by
    exactly these bytes after losing its `dropOf c.dev bs` oldest ones (0 unless the buffer is full at `MAX_DEV_BUF`) —,
    or a connection attempt completed and the decoder was reset -/
theorem handleReady_view (c : CS) :
    rview (handleReady c).1.dev = rview c.dev ∧ (handleReady c).1.dev.statConnects = c.dev.statConnects ∨
    (∃ bs, c.env.read = some (some bs) ∧ bs ≠ [] ∧ c.env.revents &&& 1 ≠ 0 ∧ (handleReady c).2 = false ∧
       (handleReady c).1.dev.conn = c.dev.conn ∧ (handleReady c).1.dev.statConnects = c.dev.statConnects ∧
       rview (handleReady c).1.dev = ((rview c.dev).consume (dropOf c.dev bs)).read (readOf c.dev bs)) ∨
    (c.dev.conn = 1 ∧ (handleReady c).1.dev.conn = 2 ∧ (handleReady c).2 = false ∧
       (handleReady c).1.dev.statConnects = c.dev.statConnects + 1 ∧
       rview (handleReady c).1.dev = { rview c.dev with st := 0, cmd := 0 }) := by
  rw [handleReady_eq]
  split
  · left; exact ⟨rfl, rfl⟩
  split
  · left; exact ⟨rfl, rfl⟩
  split
  · left; exact ⟨rfl, rfl⟩
  have hfb := readyWrite_fromBuf c
  cases hskip : (readyWrite c).2.2
  · have hn := readyWrite_noskip c hskip
    have hv : rview (readyWrite c).1.dev = rview c.dev := by
      unfold rview; rw [hfb.1, hfb.2.1, hn.1, hn.2.1]
    split
    · left; exact ⟨hv, hn.2.2.2.1⟩
    · simp only [Bool.false_eq_true, ↓reduceIte]
      rcases readyRead_cases c.env.revents (readyWrite c).1 with ⟨n, h⟩ | ⟨bs, h1, h2, h3, h4, h5⟩
      · left; rw [h]; exact ⟨by rw [rview_setFromSize]; exact hv, hn.2.2.2.1⟩
      · right; left
        have hro : readOf (readyWrite c).1.dev bs = readOf c.dev bs := readOf_congr hfb.2.2 hfb.1 bs
        have hdo : dropOf (readyWrite c).1.dev bs = dropOf c.dev bs := by
          unfold dropOf devReadPlan; rw [hfb.2.2, hfb.1]
        refine ⟨bs, by rw [← hn.2.2.2.2]; exact h1, h2, h3, h4, ?_, ?_, ?_⟩
        · rw [h5]; unfold absorb; split <;> simp [telnetFilter_eq, hn.2.2.1]
        · rw [h5]; unfold absorb; split <;> simp [telnetFilter_eq, hn.2.2.2.1]
        · rw [h5, rview_absorb, rview_devClip, hv, hro, hdo]
  · obtain ⟨h1, h2⟩ := readyWrite_skip c hskip
    rcases h2 with ⟨ha, hb, hc, hd, he⟩ | ⟨ha, hb, hc, hd, he⟩ | ⟨ha, hb, hc, hd, he⟩
    · right; right
      simp only [ha, Bool.false_eq_true, ↓reduceIte]
      refine ⟨h1, hb, trivial, he, ?_⟩
      unfold rview; rw [hfb.1, hfb.2.1, hc, hd]
    · left
      simp only [ha, ↓reduceIte]
      refine ⟨?_, he⟩
      unfold rview; rw [hfb.1, hfb.2.1, hc, hd]
    · left
      simp only [ha, Bool.false_eq_true, ↓reduceIte]
      refine ⟨?_, he⟩
      unfold rview; rw [hfb.1, hfb.2.1, hc, hd]

/-- the write half when the device is connected and there is something to write: one `write` of `toBuf`, of which the
    kernel takes the first `wcap` bytes — the rest stays queued; `EAGAIN` (`wcap = 0`) and a failed `write` keep `toBuf`
    and are I/O errors (the caller reconnects) -/
theorem readyWrite_connected (c : CS) (hf : c.env.revents &&& 2 ≠ 0) (hc : c.dev.conn ≠ 1) (hb : c.dev.toBuf ≠ []) :
    readyWrite c =
      if c.env.writeOk then
        if c.env.wcap == 0 then ({ c with sys := c.sys ++ [.write [] true] }, true, false)
        else ({ c with sys := c.sys ++ [.write (c.dev.toBuf.take c.env.wcap) true],
                       dev := { c.dev with toBuf := c.dev.toBuf.drop c.env.wcap } }, false, false)
      else ({ c with sys := c.sys ++ [.write c.dev.toBuf false] }, true, false) := by
  unfold readyWrite
  have hf' : (c.env.revents &&& 2 != 0) = true := by simpa using hf
  have hc' : (c.dev.conn == 1) = false := by simpa using hc
  have hb' : c.dev.toBuf.isEmpty = false := by cases h : c.dev.toBuf <;> simp_all
  simp only [hf', hc', hb', ↓reduceIte, Bool.false_eq_true]

theorem readyWrite_idle (c : CS) (hf : c.env.revents &&& 2 = 0) : readyWrite c = (c, false, false) := by
  unfold readyWrite
  have hf' : (c.env.revents &&& 2 != 0) = false := by simpa using hf
  simp only [hf', ↓reduceIte, Bool.false_eq_true]

theorem readyRead_idle (f : Nat) (c : CS) (hf : f &&& 1 = 0) : readyRead f c = (c, false) := by
  unfold readyRead
  have hf' : (f &&& 1 != 0) = false := by simpa using hf
  simp only [hf', ↓reduceIte, Bool.false_eq_true]

/-- the entry conditions of `_handle_ready_device` under which the code reaches "ready for writing" -/
structure ReadyOk (c : CS) : Prop where
  conn : c.dev.conn ≠ 0
  fd : c.dev.fd.isSome = true
  noHup : c.env.revents &&& 4 = 0
  noErr : c.env.revents &&& 8 = 0
  noNval : c.env.revents &&& 16 = 0

theorem handleReady_ok (c : CS) (h : ReadyOk c) :
    handleReady c =
      (if (readyWrite c).2.1 then ((readyWrite c).1, true) else
       if (readyWrite c).2.2 then ((readyWrite c).1, false) else
       readyRead c.env.revents (readyWrite c).1) := by
  rw [handleReady_eq]
  have h1 : (c.dev.conn == 0) = false := by simpa using h.conn
  have h2 : c.dev.fd.isNone = false := by have := h.fd; cases hh : c.dev.fd <;> simp_all
  have h3 : (c.env.revents &&& 4 != 0 || c.env.revents &&& 8 != 0 || c.env.revents &&& 16 != 0) = false := by
    simp [h.noHup, h.noErr, h.noNval]
  simp only [h1, h2, h3, ↓reduceIte, Bool.false_eq_true]

/-- C09 read side, the read branch alone (poll reported the descriptor readable, not writable; the kernel has `bs`):
    the capacity half (`clipRead`: the buffer grows if it is full, `dropOf c.dev bs` oldest bytes give way), then the
    daemon takes in exactly the bytes read, `readOf c.dev bs` -/
theorem handleReady_read_only (c : CS) (bs : Bytes) (h : ReadyOk c)
    (hout : c.env.revents &&& 2 = 0) (hin : c.env.revents &&& 1 ≠ 0)
    (hr : c.env.read = some (some bs)) (hbs : bs ≠ []) :
    handleReady c = ({ c with env := { c.env with read := some (some (readOf c.dev bs)) },
                              sys := c.sys ++ [.read (readOf c.dev bs).length],
                              dev := absorb (devClip c.dev bs) (readOf c.dev bs) }, false) := by
  rw [handleReady_ok c h, readyWrite_idle c hout]
  simp only [Bool.false_eq_true, ↓reduceIte]
  exact readyRead_data _ _ _ hin hr hbs

/-- C09 both sides in one call (readable and writable, connected, something queued, the kernel takes `wcap ≥ 1`
    bytes): the first `wcap` bytes of `toBuf` are written out, then the bytes read are taken in (option replies of this
    read are queued behind what stayed) -/
theorem handleReady_write_read (c : CS) (bs : Bytes) (h : ReadyOk c)
    (hout : c.env.revents &&& 2 ≠ 0) (hin : c.env.revents &&& 1 ≠ 0) (hc : c.dev.conn ≠ 1) (hb : c.dev.toBuf ≠ [])
    (hw : c.env.writeOk = true) (hcap : c.env.wcap ≠ 0) (hr : c.env.read = some (some bs)) (hbs : bs ≠ []) :
    handleReady c =
      ({ c with env := { c.env with read := some (some (readOf c.dev bs)) },
                sys := c.sys ++ [.write (c.dev.toBuf.take c.env.wcap) true, .read (readOf c.dev bs).length],
                dev := absorb (devClip { c.dev with toBuf := c.dev.toBuf.drop c.env.wcap } bs) (readOf c.dev bs) }, false) := by
  rw [handleReady_ok c h, readyWrite_connected c hout hc hb]
  have hcap' : (c.env.wcap == 0) = false := by simpa using hcap
  simp only [hw, hcap', ↓reduceIte, Bool.false_eq_true]
  rw [readyRead_data _ _ bs hin (by exact hr) hbs]
  have e1 : readOf { c.dev with toBuf := c.dev.toBuf.drop c.env.wcap } bs = readOf c.dev bs := readOf_congr rfl rfl bs
  dsimp only
  rw [e1]
  simp only [List.append_assoc, List.cons_append, List.nil_append, hw]

/-- device write side, the write branch alone: the kernel takes the first `wcap` bytes of `toBuf` and the rest stays
    queued (`wcap ≥ 1`; not an error); `wcap = 0` is `EAGAIN` — an empty write is logged, `toBuf` is unchanged and an I/O
    error is reported; on failure the payload offered was `toBuf`, `toBuf` is unchanged and an I/O error is reported -/
theorem handleReady_write_only (c : CS) (h : ReadyOk c)
    (hout : c.env.revents &&& 2 ≠ 0) (hin : c.env.revents &&& 1 = 0) (hc : c.dev.conn ≠ 1) (hb : c.dev.toBuf ≠ []) :
    handleReady c =
      if c.env.writeOk then
        if c.env.wcap == 0 then ({ c with sys := c.sys ++ [.write [] true] }, true)
        else ({ c with sys := c.sys ++ [.write (c.dev.toBuf.take c.env.wcap) true],
                       dev := { c.dev with toBuf := c.dev.toBuf.drop c.env.wcap } }, false)
      else ({ c with sys := c.sys ++ [.write c.dev.toBuf false] }, true) := by
  rw [handleReady_ok c h, readyWrite_connected c hout hc hb]
  cases hw : c.env.writeOk
  · simp
  · cases hcap : (c.env.wcap == 0)
    · simp only [↓reduceIte, Bool.false_eq_true]
      rw [readyRead_idle _ _ hin]
    · simp

/-! `_process_expect` -/

/-- `_memtrans(str, len, '\0', '\377')`: how the pending bytes are presented to the regex engine -/
def present (buf : Bytes) : Bytes := buf.map fun b => if b == 0 then 255 else b

theorem present_length (buf : Bytes) : (present buf).length = buf.length := by simp [present]
theorem present_take (buf : Bytes) (k : Nat) : (present buf).take k = present (buf.take k) := by simp [present, List.map_take]
theorem present_of_no_nul (buf : Bytes) (h : 0 ∉ buf) : present buf = buf := by
  unfold present
  conv => rhs; rw [← List.map_id buf]
  apply List.map_congr_left
  intro b hb
  have : b ≠ 0 := fun e => h (e ▸ hb)
  simp [this]

/-- nothing pending: the engine is not asked and nothing changes in the buffer -/
theorem stmtExpect_empty (d : Dev) (a : Action) (o : Oracle) (pat : Nat) (h : d.fromBuf = []) :
    (stmtExpect d a o pat).dev.fromBuf = [] ∧ (stmtExpect d a o pat).oracle = o ∧
    (stmtExpect d a o pat).finished = false := by
  unfold stmtExpect; simp [h]

/-- something pending: the engine is asked exactly once, about the whole pending buffer with NUL shown as 0xFF;
    no match leaves the buffer alone -/
theorem stmtExpect_nomatch (d : Dev) (a : Action) (o : Oracle) (pat : Nat) (h : d.fromBuf ≠ [])
    (hn : (askRx o pat (present d.fromBuf)).2.1 = none) :
    (stmtExpect d a o pat).dev.fromBuf = d.fromBuf ∧ (stmtExpect d a o pat).oracle = (askRx o pat (present d.fromBuf)).1 ∧
    (stmtExpect d a o pat).finished = false := by
  unfold stmtExpect
  have he : d.fromBuf.isEmpty = false := by cases hh : d.fromBuf <;> simp_all
  simp only [he, Bool.false_eq_true, ↓reduceIte]
  unfold present at hn ⊢
  generalize askRx o pat _ = r at *
  obtain ⟨o', ans, errs⟩ := r
  simp only at hn; subst hn
  simp

/-- a match consumes the prefix up to the end of the whole match and nothing else; the match object keeps the
    subject as presented -/
theorem stmtExpect_match (d : Dev) (a : Action) (o : Oracle) (pat : Nat) (offs : List (Int × Int)) (h : d.fromBuf ≠ [])
    (hm : (askRx o pat (present d.fromBuf)).2.1 = some offs) :
    (stmtExpect d a o pat).dev.fromBuf = d.fromBuf.drop (offs.headD (0, 0)).2.toNat ∧
    (stmtExpect d a o pat).oracle = (askRx o pat (present d.fromBuf)).1 ∧
    (stmtExpect d a o pat).finished = true ∧
    (stmtExpect d a o pat).dev.xmStr = some (present d.fromBuf) ∧ (stmtExpect d a o pat).dev.xmOffs = offs := by
  unfold stmtExpect
  have he : d.fromBuf.isEmpty = false := by cases hh : d.fromBuf <;> simp_all
  simp only [he, Bool.false_eq_true, ↓reduceIte]
  unfold present at hm ⊢
  generalize askRx o pat _ = r at *
  obtain ⟨o', ans, errs⟩ := r
  simp only at hm; subst hm
  simp

/-- in every case `_process_expect` only consumes a prefix, and touches neither the decoder nor the transport -/
theorem stmtExpect_view (d : Dev) (a : Action) (o : Oracle) (pat : Nat) :
    ∃ k, rview (stmtExpect d a o pat).dev = (rview d).consume k := by
  unfold stmtExpect
  dsimp only
  split
  · exact ⟨0, by simp [rview, RView.consume]⟩
  · generalize askRx o pat _ = r
    obtain ⟨o', ans, errs⟩ := r
    cases ans with
    | none => exact ⟨0, by simp [rview, RView.consume]⟩
    | some offs => exact ⟨(offs.headD (0, 0)).2.toNat, by simp [rview, RView.consume]⟩

/-! ### reads and consumes interleaved, on the view -/

def RView.keptOf (v : RView) (s : Bytes) : Bytes := if v.isPipe then s else (decodeFrom v.st v.cmd s).kept

theorem RView.read_buf (v : RView) (s : Bytes) : (v.read s).buf = v.buf ++ v.keptOf s := by
  unfold RView.read RView.keptOf; split <;> rfl

theorem RView.read_nil (v : RView) : v.read [] = v := by
  unfold RView.read; split <;> simp

theorem RView.read_append (v : RView) (a b : Bytes) : (v.read a).read b = v.read (a ++ b) := by
  unfold RView.read
  cases h : v.isPipe
  · simp [decodeFrom_append]
  · simp

theorem RView.consume_keptOf (v : RView) (k : Nat) (s : Bytes) : (v.consume k).keptOf s = v.keptOf s := rfl

/-- what happens on one connection, seen from the buffer: the descriptor delivers a chunk, or an `expect` consumes
    the first `k` pending bytes -/
inductive Ev where
  | read (bs : Bytes)
  | consume (k : Nat)
deriving Repr, DecidableEq

def RView.step (v : RView) : Ev → RView
  | .read bs => v.read bs
  | .consume k => v.consume k

/-- everything the descriptor delivered, in order -/
def readsOf : List Ev → Bytes
  | [] => []
  | .read bs :: r => bs ++ readsOf r
  | .consume _ :: r => readsOf r

/-- everything the expects consumed, in order -/
def consumedBy (v : RView) : List Ev → Bytes
  | [] => []
  | .read bs :: r => consumedBy (v.read bs) r
  | .consume k :: r => v.buf.take k ++ consumedBy (v.consume k) r

/-- C09 read side over a whole connection: however the stream is cut into reads and wherever the expects consume,
    what was consumed followed by what is still pending is what one reading of the whole stream would have left
    pending with nothing consumed — and the decoder ends in the same state -/
theorem trace_conservation (v : RView) (evs : List Ev) :
    consumedBy v evs ++ (evs.foldl RView.step v).buf = (v.read (readsOf evs)).buf ∧
    (evs.foldl RView.step v).st = (v.read (readsOf evs)).st ∧
    (evs.foldl RView.step v).cmd = (v.read (readsOf evs)).cmd ∧
    (evs.foldl RView.step v).isPipe = v.isPipe := by
  induction evs generalizing v with
  | nil => simp [consumedBy, readsOf, RView.read_nil]
  | cons e r ih =>
    cases e with
    | read bs =>
      simp only [List.foldl_cons, RView.step, consumedBy, readsOf]
      have := ih (v.read bs)
      rw [RView.read_append] at this
      refine ⟨this.1, this.2.1, this.2.2.1, ?_⟩
      rw [this.2.2.2]; unfold RView.read; split <;> rfl
    | consume k =>
      simp only [List.foldl_cons, RView.step, consumedBy, readsOf]
      have := ih (v.consume k)
      refine ⟨?_, ?_, ?_, this.2.2.2⟩
      · rw [List.append_assoc, this.1, RView.read_buf, RView.read_buf, RView.consume_keptOf]
        show List.take k v.buf ++ (List.drop k v.buf ++ _) = _
        rw [← List.append_assoc, List.take_append_drop]
      · rw [this.2.1]; unfold RView.read RView.consume; split <;> rfl
      · rw [this.2.2.1]; unfold RView.read RView.consume; split <;> rfl

/-- a fresh tcp connection: decoder at rest, nothing pending -/
def RView.freshTcp : RView := ⟨false, 0, 0, []⟩
/-- a fresh coprocess connection -/
def RView.freshPipe (st : Nat) (cmd : UInt8) : RView := ⟨true, st, cmd, []⟩

theorem trace_tcp (evs : List Ev) :
    consumedBy .freshTcp evs ++ (evs.foldl RView.step .freshTcp).buf = strip (readsOf evs) := by
  rw [(trace_conservation _ evs).1, RView.read_buf, ← decode_kept]
  simp [RView.freshTcp, RView.keptOf, decode]

theorem trace_pipe (st : Nat) (cmd : UInt8) (evs : List Ev) :
    consumedBy (.freshPipe st cmd) evs ++ (evs.foldl RView.step (.freshPipe st cmd)).buf = readsOf evs := by
  rw [(trace_conservation _ evs).1, RView.read_buf]
  simp [RView.freshPipe, RView.keptOf]

/-! ### the same on the model's own steps -/

/-- the bytes `_handle_ready_device` takes in: when the read branch is reached and the kernel has `bs`, the prefix of
    `bs` that the `read` asked for (`readOf`: free space of the input buffer, or a chunk when it is full); nothing
    otherwise -/
def readTaken (c : CS) : Bytes :=
  if c.dev.conn == 0 || c.dev.fd.isNone ||
     (c.env.revents &&& 4 != 0 || c.env.revents &&& 8 != 0 || c.env.revents &&& 16 != 0) ||
     (readyWrite c).2.1 || (readyWrite c).2.2 || c.env.revents &&& 1 == 0 then []
  else match c.env.read with
    | some (some bs) => readOf c.dev bs
    | _ => []

/-- the number of oldest pending bytes that `read` overwrites (`dropOf`: 0 unless the buffer is full at `MAX_DEV_BUF`) -/
def readDropped (c : CS) : Nat :=
  if c.dev.conn == 0 || c.dev.fd.isNone ||
     (c.env.revents &&& 4 != 0 || c.env.revents &&& 8 != 0 || c.env.revents &&& 16 != 0) ||
     (readyWrite c).2.1 || (readyWrite c).2.2 || c.env.revents &&& 1 == 0 then 0
  else match c.env.read with
    | some (some bs) => dropOf c.dev bs
    | _ => 0

theorem readOf_afterWrite (c : CS) (bs : Bytes) : readOf (readyWrite c).1.dev bs = readOf c.dev bs :=
  readOf_congr (readyWrite_fromBuf c).2.2 (readyWrite_fromBuf c).1 bs

theorem dropOf_afterWrite (c : CS) (bs : Bytes) : dropOf (readyWrite c).1.dev bs = dropOf c.dev bs := by
  unfold dropOf devReadPlan; rw [(readyWrite_fromBuf c).2.2, (readyWrite_fromBuf c).1]

/-- the bytes taken in are recorded as one `read` of that length at the end of the system-call log -/
theorem handleReady_taken_sys (c : CS) (h : readTaken c ≠ []) :
    ∃ pre, (handleReady c).1.sys = pre ++ [.read (readTaken c).length] := by
  unfold readTaken at h ⊢
  rw [handleReady_eq]
  split at h
  · exact absurd rfl h
  · rename_i hcond
    simp only [Bool.or_eq_true, not_or, Bool.not_eq_true] at hcond
    obtain ⟨⟨⟨⟨⟨h1, h2⟩, h3⟩, h4⟩, h5⟩, h6⟩ := hcond
    have h3' : (c.env.revents &&& 4 != 0 || c.env.revents &&& 8 != 0 || c.env.revents &&& 16 != 0) = false := by
      simpa using h3
    simp only [h1, h2, h3', h4, h5, h6, Bool.false_eq_true, ↓reduceIte, Bool.or_self]
    have hn := readyWrite_noskip c h5
    have hin : c.env.revents &&& 1 ≠ 0 := by simpa using h6
    split at h
    · rename_i bs hr
      have hbs : bs ≠ [] := by intro h0; subst h0; exact h (readOf_nil _)
      rw [readyRead_data _ _ bs hin (by rw [hn.2.2.2.2]; exact hr) hbs, readOf_afterWrite]
      exact ⟨_, rfl⟩
    · exact absurd rfl h

theorem readyRead_nodata (f : Nat) (c : CS) (h : ∀ bs, c.env.read = some (some bs) → bs = []) :
    ∃ n, (readyRead f c).1.dev = { c.dev with fromSize := n } := by
  rcases readyRead_cases f c with h1 | ⟨bs, ha, hb, _⟩
  · exact h1
  · exact absurd (h bs ha) hb

theorem RView.consume_zero (v : RView) : v.consume 0 = v := by simp [RView.consume]
theorem RView.read_nil' (v : RView) : (v.consume 0).read [] = v := by
  rw [RView.consume_zero, RView.read_nil]

/-- on an established connection one call of `_handle_ready_device` advances the view by exactly `readTaken`, after the
    `readDropped` oldest pending bytes were overwritten -/
theorem handleReady_view_connected (c : CS) (h2 : c.dev.conn = 2) :
    rview (handleReady c).1.dev = ((rview c.dev).consume (readDropped c)).read (readTaken c) ∧
    (handleReady c).1.dev.conn = 2 := by
  unfold readTaken readDropped
  rw [handleReady_eq]
  have h1 : (c.dev.conn == 0) = false := by simp [h2]
  simp only [h1, Bool.false_eq_true, ↓reduceIte, Bool.false_or]
  split
  · rename_i hfd
    simp only [hfd, Bool.true_or, ↓reduceIte]; exact ⟨(RView.read_nil' _).symm, h2⟩
  rename_i hfd
  simp only [hfd, Bool.false_or]
  split
  · rename_i hfl
    simp only [hfl, Bool.true_or, ↓reduceIte]; exact ⟨(RView.read_nil' _).symm, h2⟩
  rename_i hfl
  simp only [hfl, Bool.false_or]
  have hfb := readyWrite_fromBuf c
  cases hskip : (readyWrite c).2.2
  · have hn := readyWrite_noskip c hskip
    have hv : rview (readyWrite c).1.dev = rview c.dev := by
      unfold rview; rw [hfb.1, hfb.2.1, hn.1, hn.2.1]
    have hc : (readyWrite c).1.dev.conn = 2 := by rw [hn.2.2.1]; exact h2
    cases hio : (readyWrite c).2.1
    · simp only [Bool.false_eq_true, ↓reduceIte, Bool.false_or]
      by_cases hin : c.env.revents &&& 1 = 0
      · rw [readyRead_idle _ _ hin]
        have : (c.env.revents &&& 1 == 0) = true := by simpa using hin
        simp only [this, ↓reduceIte]
        exact ⟨by rw [hv, RView.read_nil'], hc⟩
      · have : (c.env.revents &&& 1 == 0) = false := by simpa using hin
        simp only [this, Bool.false_eq_true, ↓reduceIte]
        have nodata : (∀ bs, c.env.read = some (some bs) → bs = []) →
            rview (readyRead c.env.revents (readyWrite c).1).1.dev = rview c.dev ∧
            (readyRead c.env.revents (readyWrite c).1).1.dev.conn = 2 := by
          intro hnd
          obtain ⟨n, hn'⟩ := readyRead_nodata c.env.revents (readyWrite c).1 (by rw [hn.2.2.2.2]; exact hnd)
          rw [hn']; exact ⟨by rw [rview_setFromSize]; exact hv, hc⟩
        cases hh : c.env.read with
        | none =>
          have := nodata (fun bs h => by rw [hh] at h; cases h)
          exact ⟨by rw [this.1, RView.read_nil'], this.2⟩
        | some x =>
          cases x with
          | none =>
            have := nodata (fun bs h => by rw [hh] at h; cases h)
            exact ⟨by rw [this.1, RView.read_nil'], this.2⟩
          | some bs =>
            cases bs with
            | nil =>
              have := nodata (fun bs h => by rw [hh] at h; cases h; rfl)
              simp only [readOf_nil, dropOf_nil]
              exact ⟨by rw [this.1, RView.read_nil'], this.2⟩
            | cons b r =>
              rw [readyRead_data _ _ (b :: r) hin (by rw [hn.2.2.2.2]; exact hh) (by simp)]
              simp only
              refine ⟨by rw [rview_absorb, rview_devClip, hv, readOf_afterWrite, dropOf_afterWrite], ?_⟩
              unfold absorb; split <;> simp [telnetFilter_eq, hc]
    · simp only [↓reduceIte, Bool.true_or]
      exact ⟨by rw [hv, RView.read_nil'], hc⟩
  · have := (readyWrite_skip c hskip).1
    omega

/-- a step of the model on an established connection: one `_handle_ready_device` with some kernel answers, or one
    `_process_expect` -/
inductive Op where
  | ready (env : Env)
  | expect (a : Action) (o : Oracle) (pat : Nat)

def Op.run (d : Dev) : Op → Dev
  | .ready env => (handleReady { dev := d, env := env, sys := [] }).1.dev
  | .expect a o pat => (stmtExpect d a o pat).dev

/-- bytes read from the descriptor in this step -/
def Op.taken (d : Dev) : Op → Bytes
  | .ready env => readTaken { dev := d, env := env, sys := [] }
  | .expect _ _ _ => []

/-- bytes this step removed from the head of `fromBuf`: what an `expect` matched; what a `read` overwrote (nothing unless
    the buffer is full at `MAX_DEV_BUF`, `readDropped_eq_zero`) -/
def Op.consumed (d : Dev) (op : Op) : Bytes :=
  match op with
  | .ready env => d.fromBuf.take (readDropped { dev := d, env := env, sys := [] })
  | .expect _ _ _ => d.fromBuf.take (d.fromBuf.length - (op.run d).fromBuf.length)

def opsTaken (d : Dev) : List Op → Bytes
  | [] => []
  | op :: r => op.taken d ++ opsTaken (op.run d) r

def opsConsumed (d : Dev) : List Op → Bytes
  | [] => []
  | op :: r => op.consumed d ++ opsConsumed (op.run d) r

theorem stmtExpect_conn (d : Dev) (a : Action) (o : Oracle) (pat : Nat) : (stmtExpect d a o pat).dev.conn = d.conn :=
  (stmtExpect_link d a o pat).1.conn

theorem Op.run_view (d : Dev) (h2 : d.conn = 2) (op : Op) :
    (op.run d).conn = 2 ∧ (rview (op.run d)).isPipe = (rview d).isPipe ∧
    op.consumed d ++ (rview (op.run d)).buf = (rview d).buf ++ (rview d).keptOf (op.taken d) ∧
    ((rview (op.run d)).st, (rview (op.run d)).cmd) = (((rview d).read (op.taken d)).st, ((rview d).read (op.taken d)).cmd) := by
  cases op with
  | ready env =>
    have := handleReady_view_connected { dev := d, env := env, sys := [] } h2
    simp only [Op.run, Op.taken, Op.consumed]
    rw [this.1]
    refine ⟨this.2, ?_, ?_, ?_⟩
    · unfold RView.read RView.consume; split <;> rfl
    · rw [RView.read_buf, RView.consume_keptOf]
      show List.take _ d.fromBuf ++ (List.drop _ d.fromBuf ++ _) = d.fromBuf ++ _
      rw [← List.append_assoc, List.take_append_drop]
    · unfold RView.read RView.consume; split <;> rfl
  | expect a o pat =>
    obtain ⟨k, hk⟩ := stmtExpect_view d a o pat
    simp only [Op.run, Op.taken, Op.consumed]
    refine ⟨by rw [stmtExpect_conn]; exact h2, by rw [hk]; rfl, ?_, by rw [hk, RView.read_nil]; rfl⟩
    have hb : (stmtExpect d a o pat).dev.fromBuf = d.fromBuf.drop k := by
      have := congrArg RView.buf hk; exact this
    show List.take (d.fromBuf.length - (stmtExpect d a o pat).dev.fromBuf.length) d.fromBuf ++
        (stmtExpect d a o pat).dev.fromBuf = d.fromBuf ++ _
    rw [hb]
    have : (rview d).keptOf [] = [] := by unfold RView.keptOf; split <;> rfl
    rw [this, List.append_nil, List.length_drop]
    by_cases hkl : k ≤ d.fromBuf.length
    · have : d.fromBuf.length - (d.fromBuf.length - k) = k := by omega
      rw [this, List.take_append_drop]
    · have h1 : d.fromBuf.length - (d.fromBuf.length - k) = d.fromBuf.length := by omega
      rw [h1, List.take_length, List.drop_eq_nil_of_le (by omega), List.append_nil]

/-- C09 read side on the model's own steps: from any state of an established connection, after any sequence of
    `_handle_ready_device` calls (any kernel answers) and `_process_expect` calls (any patterns, any answers of the
    regex engine), the bytes the expects removed followed by `fromBuf` are the old `fromBuf` followed by the decoder's
    output, continued from the carried state, on the concatenation of everything the descriptor delivered -/
theorem ops_conservation (d : Dev) (h2 : d.conn = 2) (ops : List Op) :
    opsConsumed d ops ++ (ops.foldl Op.run d).fromBuf = d.fromBuf ++ keptOf d (opsTaken d ops) ∧
    rview (ops.foldl Op.run d) = { (rview d).read (opsTaken d ops) with buf := (ops.foldl Op.run d).fromBuf } ∧
    (ops.foldl Op.run d).conn = 2 := by
  induction ops generalizing d with
  | nil =>
    simp only [opsConsumed, opsTaken, List.foldl_nil, List.nil_append]
    refine ⟨?_, by rw [RView.read_nil]; rfl, h2⟩
    unfold keptOf; split <;> simp
  | cons op r ih =>
    obtain ⟨hc, hp, hb, hs⟩ := Op.run_view d h2 op
    obtain ⟨i1, i2, i3⟩ := ih (op.run d) hc
    simp only [opsConsumed, opsTaken, List.foldl_cons]
    refine ⟨?_, ?_, i3⟩
    · rw [List.append_assoc, i1, ← List.append_assoc]
      have hb' : op.consumed d ++ (op.run d).fromBuf = d.fromBuf ++ (rview d).keptOf (op.taken d) := hb
      rw [hb', List.append_assoc]
      congr 1
      -- kept of the concatenation = kept of the first part ++ kept of the rest from the state reached
      have hk : keptOf (op.run d) (opsTaken (op.run d) r) = ((rview d).read (op.taken d)).keptOf (opsTaken (op.run d) r) := by
        have hst : (op.run d).tstate = ((rview d).read (op.taken d)).st := congrArg Prod.fst hs
        have hcm : (op.run d).tcmd = ((rview d).read (op.taken d)).cmd := congrArg Prod.snd hs
        have hpp : (op.run d).isPipe = ((rview d).read (op.taken d)).isPipe := by
          have : (op.run d).isPipe = d.isPipe := hp
          rw [this]; unfold RView.read; split <;> rfl
        unfold keptOf RView.keptOf
        rw [hst, hcm, hpp]
      rw [hk]
      have := RView.read_buf ((rview d).read (op.taken d)) (opsTaken (op.run d) r)
      rw [RView.read_append, RView.read_buf, RView.read_buf] at this
      have h3 : keptOf d (op.taken d ++ opsTaken (op.run d) r) = (rview d).keptOf (op.taken d ++ opsTaken (op.run d) r) := rfl
      rw [h3]
      exact (List.append_cancel_left (by rw [← List.append_assoc]; exact this)).symm
    · rw [i2, ← RView.read_append]
      have hv : rview (op.run d) = { (rview d).read (op.taken d) with buf := (op.run d).fromBuf } := by
        have hst : (op.run d).tstate = ((rview d).read (op.taken d)).st := congrArg Prod.fst hs
        have hcm : (op.run d).tcmd = ((rview d).read (op.taken d)).cmd := congrArg Prod.snd hs
        have hpp : (op.run d).isPipe = ((rview d).read (op.taken d)).isPipe := by
          have : (op.run d).isPipe = d.isPipe := hp
          rw [this]; unfold RView.read; split <;> rfl
        unfold rview at hst hcm hpp ⊢
        simp only [hst, hcm, hpp]
      rw [hv]
      unfold RView.read
      simp only
      split <;> rfl

/-! ## 4. nothing survives a reconnect -/

/-- `_disconnect` flushes both buffers -/
theorem disconnectDev_clean (c : CS) :
    (disconnectDev c).dev.fromBuf = [] ∧ (disconnectDev c).dev.toBuf = [] ∧ (disconnectDev c).dev.conn = 0 ∧
    (disconnectDev c).dev.isPipe = c.dev.isPipe := by
  unfold disconnectDev
  refine ⟨rfl, rfl, rfl, ?_⟩
  dsimp only
  cases c.dev.fd <;> cases hp : c.dev.isPipe <;> cases hq : c.dev.cpid <;> simp [hp]

/-- a fresh connection: the decoder is at rest (tcp) and there is nothing pending -/
def FreshIfUp (d : Dev) : Prop := d.conn = 2 → d.isPipe = false → d.tstate = 0 ∧ d.tcmd = 0

theorem tcpConnect_cases (c : CS) :
    (tcpConnect c).1.dev.fromBuf = c.dev.fromBuf ∧ (tcpConnect c).1.dev.toBuf = c.dev.toBuf ∧
    (tcpConnect c).1.dev.isPipe = c.dev.isPipe ∧
    ((tcpConnect c).1.dev.conn = 2 → c.dev.conn = 0 → (tcpConnect c).1.dev.tstate = 0 ∧ (tcpConnect c).1.dev.tcmd = 0) := by
  have hF := tcpConnect_frame c
  refine ⟨hF.dev.fromBuf, hF.dev.toBuf, hF.dev.isPipe, fun h2 h0 => ?_⟩
  rcases tcpConnect_tel c with ⟨_, h | h | h⟩ | ⟨_, b2, b3, _⟩
  · omega
  · omega
  · omega
  · exact ⟨b2, b3⟩

theorem pipeConnect_cases (c : CS) :
    (pipeConnect c).1.dev.fromBuf = c.dev.fromBuf ∧ (pipeConnect c).1.dev.toBuf = c.dev.toBuf ∧
    (pipeConnect c).1.dev.isPipe = c.dev.isPipe := by
  unfold pipeConnect
  repeat' split
  all_goals simp

/-- the bookkeeping at the head of `_connect` -/
def connectPrep (c : CS) : CS :=
  { c with dev := { c.dev with lastRetry := c.env.now, retryCount := c.dev.retryCount + 1 } }

theorem connectDev_eq (c : CS) :
    connectDev c =
      if ((if c.dev.isPipe then pipeConnect (connectPrep c) else tcpConnect (connectPrep c)).2 &&
          !(if c.dev.isPipe then pipeConnect (connectPrep c) else tcpConnect (connectPrep c)).1.aborted) = true then
        { (if c.dev.isPipe then pipeConnect (connectPrep c) else tcpConnect (connectPrep c)).1 with
          dev := enqueueLogin (if c.dev.isPipe then pipeConnect (connectPrep c) else tcpConnect (connectPrep c)).1.dev }
      else (if c.dev.isPipe then pipeConnect (connectPrep c) else tcpConnect (connectPrep c)).1 := rfl

/-- `_connect` touches neither buffer; a tcp connection it brings up starts with the decoder at rest -/
theorem connectDev_cases (c : CS) :
    (connectDev c).dev.fromBuf = c.dev.fromBuf ∧ (connectDev c).dev.toBuf = c.dev.toBuf ∧
    (connectDev c).dev.isPipe = c.dev.isPipe ∧ (c.dev.conn = 0 → FreshIfUp (connectDev c).dev) := by
  rw [connectDev_eq]
  unfold FreshIfUp
  have ht := tcpConnect_cases (connectPrep c)
  have hpp := pipeConnect_cases (connectPrep c)
  have e1 : (connectPrep c).dev.fromBuf = c.dev.fromBuf := rfl
  have e2 : (connectPrep c).dev.toBuf = c.dev.toBuf := rfl
  have e3 : (connectPrep c).dev.isPipe = c.dev.isPipe := rfl
  have e4 : (connectPrep c).dev.conn = c.dev.conn := rfl
  rw [e1, e2, e3] at ht hpp
  rw [e4] at ht
  generalize tcpConnect (connectPrep c) = rt at *
  generalize pipeConnect (connectPrep c) = rp at *
  cases hp : c.dev.isPipe
  · simp only [Bool.false_eq_true, ↓reduceIte]
    obtain ⟨ha, hb, hc, hd⟩ := ht
    split
    · simp only [enqueueLogin]
      exact ⟨ha, hb, by rw [hc, hp], fun h0 h2 _ => hd h2 h0⟩
    · exact ⟨ha, hb, by rw [hc, hp], fun h0 h2 _ => hd h2 h0⟩
  · simp only [↓reduceIte]
    obtain ⟨ha, hb, hc⟩ := hpp
    split
    · simp only [enqueueLogin]
      exact ⟨ha, hb, by rw [hc, hp], fun _ _ h3 => by rw [hc, hp] at h3; simp at h3⟩
    · exact ⟨ha, hb, by rw [hc, hp], fun _ _ h3 => by rw [hc, hp] at h3; simp at h3⟩

/-- `_reconnect` of a device that was connected or connecting: whatever happens next (back-off, a new attempt,
    a new connection at once), nothing received or queued on the old connection is left, and if a tcp connection
    is up afterwards its decoder is at rest -/
theorem reconnectDev_clean (c : CS) (tmo : Option Time) (h : c.dev.conn ≠ 0) :
    (reconnectDev c tmo).1.dev.fromBuf = [] ∧ (reconnectDev c tmo).1.dev.toBuf = [] ∧
    (reconnectDev c tmo).1.dev.isPipe = c.dev.isPipe ∧ FreshIfUp (reconnectDev c tmo).1.dev := by
  unfold reconnectDev
  have hb : (c.dev.conn != 0) = true := by simpa using h
  simp only [hb, ↓reduceIte]
  obtain ⟨h1, h2, h3, h4⟩ := disconnectDev_clean c
  generalize disconnectDev c = c1 at *
  have hcd := connectDev_cases c1
  split
  · simp only; rw [hcd.1, hcd.2.1, hcd.2.2.1]; exact ⟨h1, h2, h4, hcd.2.2.2 h3⟩
  · exact ⟨h1, h2, h4, fun h2' => by rw [h3] at h2'; simp at h2'⟩
  · exact ⟨h1, h2, h4, fun h2' => by rw [h3] at h2'; simp at h2'⟩

/-- `_reconnect` of a device that was not connected: the buffers are left as they are (they are empty: see
    `Quiet`), and a tcp connection that comes up starts with the decoder at rest -/
theorem reconnectDev_idle (c : CS) (tmo : Option Time) (h : c.dev.conn = 0) :
    (reconnectDev c tmo).1.dev.fromBuf = c.dev.fromBuf ∧ (reconnectDev c tmo).1.dev.toBuf = c.dev.toBuf ∧
    (reconnectDev c tmo).1.dev.isPipe = c.dev.isPipe ∧ FreshIfUp (reconnectDev c tmo).1.dev := by
  unfold reconnectDev
  have hb : (c.dev.conn != 0) = false := by simp [h]
  simp only [hb, Bool.false_eq_true, ↓reduceIte]
  have hcd := connectDev_cases c
  split
  · simp only; exact ⟨hcd.1, hcd.2.1, hcd.2.2.1, hcd.2.2.2 h⟩
  · exact ⟨rfl, rfl, rfl, fun h2' => by rw [h] at h2'; simp at h2'⟩
  · exact ⟨rfl, rfl, rfl, fun h2' => by rw [h] at h2'; simp at h2'⟩

theorem absorb_conn (d : Dev) (bs : Bytes) : (absorb d bs).conn = d.conn := by
  unfold absorb; split <;> simp [telnetFilter_eq]

theorem readyRead_conn (f : Nat) (c : CS) : (readyRead f c).1.dev.conn = c.dev.conn := by
  rcases readyRead_cases f c with ⟨n, h⟩ | ⟨bs, _, _, _, _, he⟩
  · rw [h]
  · rw [he, absorb_conn, devClip_conn]

/-- every way `_handle_ready_device` can bring a connection up leaves the decoder at rest and takes nothing in -/
theorem handleReady_up (c : CS) (h : c.dev.conn ≠ 2) (h2 : (handleReady c).1.dev.conn = 2) :
    (handleReady c).1.dev.tstate = 0 ∧ (handleReady c).1.dev.tcmd = 0 ∧
    (handleReady c).1.dev.fromBuf = c.dev.fromBuf := by
  rw [handleReady_eq] at h2 ⊢
  split at h2; · exact absurd h2 h
  split at h2; · exact absurd h2 h
  split at h2; · exact absurd h2 h
  rename_i h1 h3 h4
  simp only [h1, h3, h4]
  cases hskip : (readyWrite c).2.2
  · exfalso
    have hn := readyWrite_noskip c hskip
    simp only [hskip, Bool.false_eq_true, ↓reduceIte] at h2
    split at h2
    · rw [hn.2.2.1] at h2; exact h h2
    · rw [readyRead_conn, hn.2.2.1] at h2; exact h h2
  · obtain ⟨_, hh⟩ := readyWrite_skip c hskip
    have hfb := (readyWrite_fromBuf c).1
    simp only [hskip, ↓reduceIte] at h2 ⊢
    rcases hh with ⟨ha, hb, hc, hd, he⟩ | ⟨ha, hb, _⟩ | ⟨ha, hb, _⟩
    · simp only [ha, Bool.false_eq_true, ↓reduceIte]; exact ⟨hc, hd, hfb⟩
    · simp only [ha, ↓reduceIte] at h2; omega
    · simp only [ha, Bool.false_eq_true, ↓reduceIte] at h2; omega

/-! ## 5. the write side -/

/-- what `_process_send` queues goes to the end of `toBuf`; `dev->to` holds 65536 bytes and the oldest queued bytes give way
    beyond that (`clipTo`).  (A `send` that is waiting for its bytes to drain, or whose hostlist sort asserts, queues nothing:
    `s = []`, for which the capacity hypothesis is needed.) -/
theorem stmtSend_appends (d : Dev) (a : Action) (o : Oracle) (e : ExecCtx) (fmt : Bytes) (hcap : d.toBuf.length ≤ 65536) :
    ∃ s, (stmtSend d a o e fmt).dev.toBuf = clipTo (d.toBuf ++ s) := by
  unfold stmtSend
  split
  · dsimp only
    split
    · exact ⟨[], by simp [clipTo_of_le _ hcap]⟩
    · rename_i s _
      split
      · exact ⟨s, rfl⟩
      · exact ⟨s, rfl⟩
  · split
    · exact ⟨[], by simp [clipTo_of_le _ hcap]⟩
    · exact ⟨[], by simp [clipTo_of_le _ hcap]⟩

/-- the statement as it read before the capacity was modelled: below the limit `_process_send` appends -/
theorem stmtSend_appends_below (d : Dev) (a : Action) (o : Oracle) (e : ExecCtx) (fmt : Bytes) (hcap : d.toBuf.length ≤ 65536) :
    ∃ s, (stmtSend d a o e fmt).dev.toBuf = clipTo (d.toBuf ++ s) ∧
      ((d.toBuf ++ s).length ≤ 65536 → (stmtSend d a o e fmt).dev.toBuf = d.toBuf ++ s) := by
  obtain ⟨s, h⟩ := stmtSend_appends d a o e fmt hcap
  exact ⟨s, h, fun hf => by rw [h, clipTo_of_le _ hf]⟩

/-- the payloads of the successful device `write`s in a system-call log, concatenated -/
def devWritten : List Sys → Bytes
  | [] => []
  | .write b true :: r => b ++ devWritten r
  | _ :: r => devWritten r

theorem devWritten_append (l1 l2 : List Sys) : devWritten (l1 ++ l2) = devWritten l1 ++ devWritten l2 := by
  induction l1 with
  | nil => simp [devWritten]
  | cons x r ih =>
    cases x with
    | write b ok => cases ok <;> simp [devWritten, ih]
    | _ => simp [devWritten, ih]

theorem devWritten_noIO (δ : List Sys) (h : NoIO δ) : devWritten δ = [] := by
  induction δ with
  | nil => rfl
  | cons x r ih =>
    have hx := h x (by simp)
    have hr : NoIO r := fun s hs => h s (by simp [hs])
    cases x <;> simp_all [devWritten, Sys.isIO]

/-- finishing a connect writes nothing and queues nothing -/
theorem readyFinish_conserve (c : CS) (h1 : c.dev.conn = 1) :
    devWritten (readyFinish c).1.sys = devWritten c.sys ∧ (readyFinish c).1.dev.toBuf = c.dev.toBuf := by
  obtain ⟨_, _, _, _, h5, ⟨δ, h6, h7⟩, _⟩ := readyFinish_facts c h1
  exact ⟨by rw [h6, devWritten_append, devWritten_noIO δ h7, List.append_nil], h5⟩

/-- the write half: what has been written successfully so far followed by what is still queued does not change —
    a successful `write` moves all of `toBuf` to the descriptor, a failed one moves nothing -/
theorem readyWrite_conserve (c : CS) :
    devWritten (readyWrite c).1.sys ++ (readyWrite c).1.dev.toBuf = devWritten c.sys ++ c.dev.toBuf := by
  unfold readyWrite
  dsimp only
  split
  · split
    · rename_i h1
      obtain ⟨e1, e2⟩ := readyFinish_conserve c (by simpa using h1)
      rw [e1, e2]
    · repeat' split
      all_goals simp_all [devWritten_append, devWritten]
  · rfl

/-- the option replies the daemon queues when the descriptor delivered `bs` -/
def repliesOf (d : Dev) (bs : Bytes) : Bytes := if d.isPipe then [] else (decodeFrom d.tstate d.tcmd bs).replies

theorem absorb_toBuf (d : Dev) (bs : Bytes) (hcap : d.toBuf.length ≤ 65536) :
    (absorb d bs).toBuf = clipTo (d.toBuf ++ repliesOf d bs) := by
  unfold absorb repliesOf; split <;> simp [telnetFilter_eq, clipTo_of_le _ hcap]

/-- the write half in two pieces: the bytes `wr` a successful `write` took (none otherwise) are the front of `toBuf`, the rest
    stays queued -/
theorem readyWrite_split (c : CS) :
    ∃ wr, devWritten (readyWrite c).1.sys = devWritten c.sys ++ wr ∧ wr ++ (readyWrite c).1.dev.toBuf = c.dev.toBuf := by
  have hsum := readyWrite_conserve c
  have hlog : ∃ wr, devWritten (readyWrite c).1.sys = devWritten c.sys ++ wr := by
    unfold readyWrite
    dsimp only
    split
    · split
      · rename_i h1
        exact ⟨[], by rw [(readyFinish_conserve c (by simpa using h1)).1, List.append_nil]⟩
      · repeat' split
        all_goals first
          | (refine ⟨[], ?_⟩; simp_all [devWritten_append, devWritten]; done)
          | (refine ⟨c.dev.toBuf.take c.env.wcap, ?_⟩; simp_all [devWritten_append, devWritten]; done)
    · exact ⟨[], by simp⟩
  obtain ⟨wr, hwr⟩ := hlog
  refine ⟨wr, hwr, ?_⟩
  rw [hwr, List.append_assoc] at hsum
  exact List.append_cancel_left hsum

theorem readyRd_conserve (c : CS) (hcap : c.dev.toBuf.length ≤ 65536) :
    ∃ bs, devWritten (readyRd c).1.sys = devWritten c.sys ∧
      (readyRd c).1.dev.toBuf = clipTo (c.dev.toBuf ++ repliesOf c.dev bs) := by
  have hnil : clipTo (c.dev.toBuf ++ repliesOf c.dev []) = c.dev.toBuf := by
    have : repliesOf c.dev [] = [] := by unfold repliesOf; split <;> rfl
    rw [this, List.append_nil, clipTo_of_le _ hcap]
  unfold readyRd
  split
  · split
    · exact ⟨[], by simp [devWritten_append, devWritten], hnil.symm⟩
    · rename_i bs _ _
      refine ⟨bs, ?_, ?_⟩
      · show devWritten (c.sys ++ [Sys.read ↑bs.length]) = _
        simp [devWritten_append, devWritten]
      · show (absorb c.dev bs).toBuf = _
        rw [absorb_toBuf _ _ hcap]
  · exact ⟨[], by simp [devWritten_append, devWritten], hnil.symm⟩
  · exact ⟨[], by simp [devWritten_append, devWritten], hnil.symm⟩

theorem readyRead_conserve (f : Nat) (c : CS) (hcap : c.dev.toBuf.length ≤ 65536) :
    ∃ bs, devWritten (readyRead f c).1.sys = devWritten c.sys ∧
      (readyRead f c).1.dev.toBuf = clipTo (c.dev.toBuf ++ repliesOf c.dev bs) := by
  unfold readyRead
  split
  · obtain ⟨bs, h1, h2⟩ := readyRd_conserve (clipRead c) (by rw [clipRead_toBuf]; exact hcap)
    refine ⟨bs, by rw [h1]; simp, ?_⟩
    rw [h2]; unfold repliesOf; simp
  · refine ⟨[], rfl, ?_⟩
    have : repliesOf c.dev [] = [] := by unfold repliesOf; split <;> rfl
    rw [this, List.append_nil, clipTo_of_le _ hcap]

/-- device write side, one call of `_handle_ready_device`, every case: a successful `write` moves a front piece `wr` of
    `toBuf` to the descriptor, the rest `kept` stays queued, and behind it go the telnet option replies to what was read in
    this call — `clipTo`: of more than 65536 bytes the oldest queued ones give way (`dev->to` is a cbuf in overwrite mode).
    Nothing *written* is ever lost, duplicated or reordered; what is *queued* loses bytes only at its old end and only
    beyond the capacity. -/
theorem handleReady_write_conserve (c : CS) (hcap : c.dev.toBuf.length ≤ 65536) :
    ∃ bs wr kept, wr ++ kept = c.dev.toBuf ∧ devWritten (handleReady c).1.sys = devWritten c.sys ++ wr ∧
      (handleReady c).1.dev.toBuf = clipTo (kept ++ repliesOf c.dev bs) := by
  have hnil : repliesOf c.dev [] = [] := by unfold repliesOf; split <;> rfl
  have same : ∀ c' : CS, devWritten c'.sys = devWritten c.sys → c'.dev.toBuf = c.dev.toBuf →
      ∃ bs wr kept, wr ++ kept = c.dev.toBuf ∧ devWritten c'.sys = devWritten c.sys ++ wr ∧
        c'.dev.toBuf = clipTo (kept ++ repliesOf c.dev bs) := fun c' h1 h2 =>
    ⟨[], [], c.dev.toBuf, rfl, by simp [h1], by rw [h2, hnil, List.append_nil, clipTo_of_le _ hcap]⟩
  rw [handleReady_eq]
  split
  · exact same _ (by simp [devWritten_append, devWritten]) rfl
  split
  · exact same _ (by simp [devWritten_append, devWritten]) rfl
  split
  · exact same _ rfl rfl
  obtain ⟨wr, hw1, hw2⟩ := readyWrite_split c
  have hck : (readyWrite c).1.dev.toBuf.length ≤ 65536 := by
    rw [← hw2, List.length_append] at hcap; exact Nat.le_trans (Nat.le_add_left _ _) hcap
  split
  · exact ⟨[], wr, (readyWrite c).1.dev.toBuf, hw2, hw1, by rw [hnil, List.append_nil, clipTo_of_le _ hck]⟩
  split
  · exact ⟨[], wr, (readyWrite c).1.dev.toBuf, hw2, hw1, by rw [hnil, List.append_nil, clipTo_of_le _ hck]⟩
  · rename_i hio hskip
    obtain ⟨bs, hb1, hb2⟩ := readyRead_conserve c.env.revents (readyWrite c).1 hck
    have hn := readyWrite_noskip c (by simpa using hskip)
    have hfb := readyWrite_fromBuf c
    refine ⟨bs, wr, (readyWrite c).1.dev.toBuf, hw2, by rw [hb1, hw1], ?_⟩
    rw [hb2]
    unfold repliesOf
    rw [hn.1, hn.2.1, hfb.2.1]

/-- the statement as it read before the capacity was modelled — the bytes written successfully so far followed by `toBuf` only
    ever grow at the end, by the telnet option replies to what was read in this call — holds whenever what stays queued and
    the replies fit the buffer together; in particular whenever the buffer is not full afterwards -/
theorem handleReady_write_conserve_below (c : CS) (hcap : c.dev.toBuf.length ≤ 65536) :
    ∃ bs, ((c.dev.toBuf ++ repliesOf c.dev bs).length ≤ 65536 ∨ (handleReady c).1.dev.toBuf.length < 65536 →
      devWritten (handleReady c).1.sys ++ (handleReady c).1.dev.toBuf =
        devWritten c.sys ++ c.dev.toBuf ++ repliesOf c.dev bs) := by
  obtain ⟨bs, wr, kept, h1, h2, h3⟩ := handleReady_write_conserve c hcap
  refine ⟨bs, fun hf => ?_⟩
  have hfit : (kept ++ repliesOf c.dev bs).length ≤ 65536 := by
    rcases hf with hf | hf
    · rw [← h1] at hf; simp only [List.length_append] at hf ⊢
      exact Nat.le_trans (Nat.add_le_add_right (Nat.le_add_left _ _) _) hf
    · rw [h3, clipTo_length] at hf
      have := Nat.lt_of_not_le (fun hge => by rw [Nat.min_eq_right hge] at hf; exact Nat.lt_irrefl _ hf)
      exact Nat.le_of_lt this
  rw [h2, h3, clipTo_of_le _ hfit, ← h1]; simp [List.append_assoc]

end Pm.Dev2.Tel

namespace Pm.Daemon.Tel

/-! ### the client's write side (`client.c:_handle_write`) -/

/-- the payloads of the `write`s on descriptor `fd` in the daemon's system-call log, concatenated -/
def written (fd : Nat) : List Sys → List UInt8
  | [] => []
  | .write fd' b _ _ :: r => (if fd' = fd then b else []) ++ written fd r
  | .accept _ :: r => written fd r
  | .close _ :: r => written fd r
  | .read _ _ :: r => written fd r

theorem written_append (fd : Nat) (l1 l2 : List Sys) : written fd (l1 ++ l2) = written fd l1 ++ written fd l2 := by
  induction l1 with
  | nil => simp [written]
  | cons x r ih => cases x <;> simp [written, ih]

/-- one `_handle_write`: the payload of the `write` it issues (if any) followed by what stays in `toBuf` is the old
    `toBuf` — whatever the descriptor's capacity, blocking or not, error or not -/
theorem handleWrite_conserve (w : W) (c : Cli) :
    written c.fd (handleWrite w c).1.sys ++ (handleWrite w c).2.toBuf = written c.fd w.sys ++ c.toBuf ∧
    (handleWrite w c).2.fd = c.fd := by
  unfold handleWrite
  dsimp only
  repeat' split
  all_goals simp [written_append, written, setCap, List.take_append_drop]

/-- the writes of one client never appear on another descriptor -/
theorem handleWrite_other (w : W) (c : Cli) (fd : Nat) (h : fd ≠ c.fd) :
    written fd (handleWrite w c).1.sys = written fd w.sys := by
  unfold handleWrite
  dsimp only
  have h' : ¬ c.fd = fd := fun e => h e.symm
  repeat' split
  all_goals simp [written_append, written, setCap, h']

/-- what can happen to a client's output queue: the daemon queues more (`_client_printf`), or poll reports the
    descriptor writable and the kernel takes at most `n` bytes (negative: the write fails) -/
inductive WEv where
  | put (b : List UInt8)
  | cap (n : Int)

def wstep (s : W × Cli) : WEv → W × Cli
  | .put b => (s.1, put s.2 b)
  | .cap n => handleWrite (setCap s.1 s.2.fd n) s.2

def putsOf : List WEv → List UInt8
  | [] => []
  | .put b :: r => b ++ putsOf r
  | .cap _ :: r => putsOf r

/-- C09 write side, client: over any sequence of capacities and of further output being queued, the bytes written to
    the descriptor followed by what is still queued are the bytes that were queued, in order, each once -/
theorem client_write_conservation (w : W) (c : Cli) (evs : List WEv) :
    written c.fd (evs.foldl wstep (w, c)).1.sys ++ (evs.foldl wstep (w, c)).2.toBuf =
      written c.fd w.sys ++ c.toBuf ++ putsOf evs ∧
    (evs.foldl wstep (w, c)).2.fd = c.fd := by
  induction evs generalizing w c with
  | nil => simp [putsOf]
  | cons e r ih =>
    cases e with
    | put b =>
      simp only [List.foldl_cons, wstep, putsOf]
      have := ih w (put c b)
      simp only [put] at this ⊢
      rw [this.1, this.2]; simp [List.append_assoc]
    | cap n =>
      simp only [List.foldl_cons, wstep, putsOf]
      have h1 := handleWrite_conserve (setCap w c.fd n) c
      have := ih (handleWrite (setCap w c.fd n) c).1 (handleWrite (setCap w c.fd n) c).2
      rw [h1.2] at this
      rw [this.1, this.2, h1.1]
      simp [setCap]

end Pm.Daemon.Tel

/-! axioms check -/
