import Pm.RedfishSt
/-! helper lemmas for C19, part 4: the shell loop terminates (every list drains) -/
namespace Pm.Redfish

/-- rounds an in-flight message still needs -/
def rem (i : PM) : Nat := if i.cmd = .stat then 1 else if i.waitState then 1 else 2

theorem rem_pos (i : PM) : 1 ≤ rem i := by
  unfold rem; repeat' split
  all_goals omega
theorem rem_le (i : PM) : rem i ≤ 2 := by
  unfold rem; repeat' split
  all_goals omega

/-- a power message carries the operator's command `C`; once the command was "sent" the simulated state agrees -/
def Good (C : Cmd) (st : St) (i : PM) : Prop :=
  i.cmd = .stat ∨ (i.cmd = C ∧ (i.waitState = true → isOn st i.plug = (C == .on)))

def below (c : Cfg) (z : Option Nat) (a : Nat) : Prop :=
  match z with | none => True | some x => a = x ∨ x ∈ ancUp c a

/-- waiter `w` has an unprocessed in-flight message on an ancestor (at or below `z`), close enough for bound `k` -/
def Fr (c : Cfg) (k : Nat) (rest later : List PM) (w : PM) (z : Option Nat) : Prop :=
  ∃ i, ((i ∈ rest ∧ rem i + 2 * depth c w.plug ≤ k + 2 * depth c i.plug) ∨
        (i ∈ later ∧ rem i + 2 * depth c w.plug + 1 ≤ k + 2 * depth c i.plug)) ∧
       i.plug ∈ ancUp c w.plug ∧ below c z i.plug

theorem Fr_mono {c : Cfg} {k : Nat} {rest later rest' later' : List PM} {w : PM} {z : Option Nat}
    (h : Fr c k rest later w z) (h1 : ∀ i ∈ rest, i ∈ rest') (h2 : ∀ i ∈ later, i ∈ later') :
    Fr c k rest' later' w z := by
  obtain ⟨i, hi, r⟩ := h
  refine ⟨i, ?_, r⟩
  rcases hi with ⟨a, b⟩ | ⟨a, b⟩
  · exact Or.inl ⟨h1 i a, b⟩
  · exact Or.inr ⟨h2 i a, b⟩

theorem Fr_none {c : Cfg} {k : Nat} {rest later : List PM} {w : PM} {z : Option Nat}
    (h : Fr c k rest later w z) : Fr c k rest later w none := by
  obtain ⟨i, hi, r, _⟩ := h
  exact ⟨i, hi, r, trivial⟩

theorem below_trans {c : Cfg} (hw : WF c = true) {x y a : Nat} (h : below c (some x) a) (hxy : x = y ∨ y ∈ ancUp c x) :
    below c (some y) a := by
  unfold below at *
  rcases h with rfl | h
  · exact hxy
  · rcases hxy with rfl | hxy
    · exact Or.inr h
    · exact Or.inr (anc_trans hw h hxy)

theorem Fr_up {c : Cfg} (hw : WF c = true) {k : Nat} {rest later : List PM} {w : PM} {x y : Nat}
    (h : Fr c k rest later w (some x)) (hxy : x = y ∨ y ∈ ancUp c x) : Fr c k rest later w (some y) := by
  obtain ⟨i, hi, r, b⟩ := h
  exact ⟨i, hi, r, below_trans hw b hxy⟩

/-- the head of `rest` is not needed as a witness when it is not at or below `z`/not an ancestor -/
theorem Fr_drop {c : Cfg} {k : Nat} {i : PM} {rest later : List PM} {w : PM} {z : Option Nat}
    (h : Fr c k (i :: rest) later w z) (hn : ¬ (i.plug ∈ ancUp c w.plug ∧ below c z i.plug)) :
    Fr c k rest later w z := by
  obtain ⟨i0, hi, r, b⟩ := h
  refine ⟨i0, ?_, r, b⟩
  rcases hi with ⟨a, bd⟩ | hi
  · rcases List.mem_cons.1 a with rfl | a
    · exact absurd ⟨r, b⟩ hn
    · exact Or.inl ⟨a, bd⟩
  · exact Or.inr hi

/-- tree fact: an ancestor `a0` of `w` strictly below `a` is at or below the child of `a` on the way to `w` -/
theorem below_child {c : Cfg} (hw : WF c = true) {w a a0 : Nat} (ha : a ∈ ancUp c w) (h0 : a0 ∈ ancUp c w)
    (hb : a ∈ ancUp c a0) : below c (some (childOf c w a)) a0 := by
  have hx := childOf_spec hw ha
  unfold below
  rcases hx.2 with e | e
  · -- the child is w itself: a0 is above w, but below a = parent w
    exfalso
    rw [e] at hx
    rw [ancUp_cons hw hx.1] at h0
    rcases List.mem_cons.1 h0 with rfl | h0
    · exact anc_irrefl hw _ hb
    · exact anc_irrefl hw _ (anc_trans hw hb h0)
  · rcases anc_comparable hw h0 e with h | h | h
    · exact Or.inl h
    · -- a0 above x
      exfalso
      rw [ancUp_cons hw hx.1] at h
      rcases List.mem_cons.1 h with rfl | h
      · exact anc_irrefl hw _ hb
      · exact anc_irrefl hw _ (anc_trans hw hb h)
    · exact Or.inr h

structure RInv (c : Cfg) (k : Nat) (C : Cmd) (P rest new : List PM) (m : M) : Prop where
  act : m.active = P ++ rest ++ new
  rest_ok : ∀ i ∈ rest, rem i ≤ k ∧ Good C m.st i
  later_ok : ∀ i ∈ new ++ m.delayed, rem i + 1 ≤ k ∧ Good C m.st i
  wait_ok : ∀ w ∈ m.waiting, (w.cmd = .stat ∨ w.cmd = C) ∧ w.waitState = false
  fr : ∀ w ∈ m.waiting, Fr c k rest (new ++ m.delayed) w none
  stale : ∀ w ∈ m.waiting, ∀ j ∈ P, j.plug ∈ ancUp c w.plug → Fr c k rest (new ++ m.delayed) w (some j.plug)

theorem mem_keepF_off {c : Cfg} {a : Nat} {s : Stat} {ws : List PM} {w : PM} (hs : s ≠ .on) :
    w ∈ keepF c a s ws ↔ w ∈ ws ∧ a ∉ ancUp c w.plug := by
  simp [keepF, hs, descB, List.mem_filter, isDesc]

theorem mem_keepF_on {c : Cfg} {a : Nat} {ws : List PM} {w : PM} :
    w ∈ keepF c a .on ws ↔ w ∈ ws ∧ (a ∈ ancUp c w.plug → parentOf c w.plug ≠ some a) := by
  simp [keepF, descB, directB, List.mem_filter, isDesc, parentOf]
  intro _
  constructor
  · rintro (h | h) h'
    · exact absurd h' h
    · exact h
  · intro h
    by_cases h' : a ∈ ancUp c w.plug
    · exact Or.inr (h h')
    · exact Or.inl h'

theorem mem_movedF_on {c : Cfg} {a : Nat} {ws : List PM} {w : PM} :
    w ∈ movedF c a .on ws ↔ w ∈ ws ∧ a ∈ ancUp c w.plug ∧ parentOf c w.plug = some a := by
  simp [movedF, descB, directB, List.mem_filter, isDesc, parentOf]

theorem RInv_pw_off {c : Cfg} {k : Nat} {C : Cmd} {P rest new : List PM} {i : PM} {m : M} {s : Stat}
    (h : RInv c k C P (i :: rest) new m) (hs : s ≠ .on) :
    RInv c k C (P ++ [i]) rest new (processWaiters c m i.plug s) := by
  rw [processWaiters_eq']
  simp only [hs, ne_eq, not_false_eq_true, if_true]
  have hmv : movedF c i.plug s m.waiting = [] := by simp [movedF, hs]
  constructor
  · simp [afterPass1, hmv, h.act]
  · intro j hj; exact h.rest_ok j (List.mem_cons_of_mem _ hj)
  · exact h.later_ok
  · intro w hw; exact h.wait_ok w ((mem_keepF_off hs).1 hw).1
  · intro w hw
    have ⟨hw1, hw2⟩ := (mem_keepF_off hs).1 hw
    exact Fr_drop (h.fr w hw1) (fun hh => hw2 hh.1)
  · intro w hw j hj hja
    have ⟨hw1, hw2⟩ := (mem_keepF_off hs).1 hw
    rcases List.mem_append.1 hj with hj | hj
    · exact Fr_drop (h.stale w hw1 j hj hja) (fun hh => hw2 hh.1)
    · simp at hj; subst hj; exact absurd hja hw2

theorem plugActive_item {m : M} {x : Nat} {cmd : Cmd} (h : plugActive m x cmd = true) : ∃ j ∈ m.active, j.plug = x := by
  unfold plugActive at h
  rw [List.any_eq_true] at h
  obtain ⟨j, hj, h⟩ := h
  simp at h
  exact ⟨j, hj, h.1⟩

theorem Fr_k3 {c : Cfg} (hw : WF c = true) {k : Nat} {rest later : List PM} {w : PM} {z : Option Nat}
    (h : Fr c k rest later w z) : 3 ≤ k := by
  obtain ⟨i0, hi, r, _⟩ := h
  have := depth_anc_lt hw r
  have := rem_pos i0
  rcases hi with ⟨_, b⟩ | ⟨_, b⟩ <;> omega

/-- either the waiter already has a frontier strictly below `i.plug`, or its distance bound is available -/
theorem fr_split {c : Cfg} (hw : WF c = true) {k : Nat} {i : PM} {rest later : List PM} {w : PM}
    (h : Fr c k (i :: rest) later w none) (ha : i.plug ∈ ancUp c w.plug) :
    Fr c k rest later w (some (childOf c w.plug i.plug)) ∨ 1 + 2 * depth c w.plug ≤ k + 2 * depth c i.plug := by
  obtain ⟨i0, hi, r, _⟩ := h
  have hp := rem_pos i0
  rcases anc_comparable hw r ha with e | e | e
  · right; rw [← e]; rcases hi with ⟨_, b⟩ | ⟨_, b⟩ <;> omega
  · right; have := depth_anc_lt hw e; rcases hi with ⟨_, b⟩ | ⟨_, b⟩ <;> omega
  · left
    refine ⟨i0, ?_, r, below_child hw ha r e⟩
    rcases hi with ⟨a, bd⟩ | hi
    · rcases List.mem_cons.1 a with rfl | a
      · exact absurd e (anc_irrefl hw _)
      · exact Or.inl ⟨a, bd⟩
    · exact Or.inr hi

theorem RInv_pw_on {c : Cfg} (hw : WF c = true) {k : Nat} {C : Cmd} {P rest new : List PM} {i : PM} {m : M}
    (h : RInv c k C P (i :: rest) new m) :
    ∃ new', RInv c k C (P ++ [i]) rest new' (processWaiters c m i.plug .on) := by
  rw [processWaiters_eq']
  simp only [ne_eq, not_true_eq_false, if_false]
  obtain ⟨qs, e, hq1, hq2⟩ := pass2_fold c i.plug (keepF c i.plug .on m.waiting) (afterPass1 c m i.plug .on)
  rw [e]
  refine ⟨new ++ movedF c i.plug .on m.waiting ++ qs, ?_⟩
  have hsub : ∀ j ∈ new ++ m.delayed, j ∈ (new ++ movedF c i.plug .on m.waiting ++ qs) ++ m.delayed := by
    intro j hj; simp only [List.mem_append] at hj ⊢; grind
  -- the key fact: every kept waiter below `i.plug` has a frontier at or below the child
  have NF : ∀ w ∈ keepF c i.plug .on m.waiting, i.plug ∈ ancUp c w.plug →
      Fr c k rest ((new ++ movedF c i.plug .on m.waiting ++ qs) ++ m.delayed) w (some (childOf c w.plug i.plug)) := by
    intro w hwk ha
    have ⟨hw1, hw2⟩ := mem_keepF_on.1 hwk
    have hx := childOf_spec hw ha
    have hxa : i.plug ∈ ancUp c (childOf c w.plug i.plug) := childOf_anc hw ha
    have hxw : childOf c w.plug i.plug ∈ ancUp c w.plug := childOf_proper hw ha (hw2 ha)
    rcases fr_split hw (h.fr w hw1) ha with hl | B
    · exact Fr_mono hl (fun _ a => a) hsub
    · obtain ⟨j, hj, hjx⟩ := plugActive_item (hq2 w hwk (isDesc_iff.2 ha))
      have hdx := depth_childOf hw ha
      have hr := rem_le j
      generalize childOf c w.plug i.plug = x at *
      simp only [afterPass1, h.act] at hj
      simp only [List.mem_append, List.mem_cons] at hj
      rcases hj with (((hj | hj | hj) | hj) | hj) | hj
      · have := h.stale w hw1 j hj (hjx ▸ hxw)
        rw [hjx] at this
        refine Fr_mono (Fr_drop this ?_) (fun _ a => a) hsub
        rintro ⟨_, hb⟩
        rcases hb with hb | hb
        · rw [hb] at hxa; exact anc_irrefl hw _ hxa
        · exact anc_irrefl hw _ (anc_trans hw hb hxa)
      · subst hj; rw [hjx] at hxa; exact absurd hxa (anc_irrefl hw _)
      · exact ⟨j, Or.inl ⟨hj, by rw [hjx]; omega⟩, hjx ▸ hxw, Or.inl hjx⟩
      · exact ⟨j, Or.inr ⟨by simp [hj], by rw [hjx]; omega⟩, hjx ▸ hxw, Or.inl hjx⟩
      · exact ⟨j, Or.inr ⟨by simp [hj], by rw [hjx]; omega⟩, hjx ▸ hxw, Or.inl hjx⟩
      · exact ⟨j, Or.inr ⟨by simp [hj], by rw [hjx]; omega⟩, hjx ▸ hxw, Or.inl hjx⟩
  constructor
  · simp [afterPass1, h.act]
  · intro j hj; exact h.rest_ok j (List.mem_cons_of_mem _ hj)
  · intro j hj
    simp only [afterPass1] at hj ⊢
    simp only [List.mem_append] at hj
    rcases hj with ((hj | hj) | hj) | hj
    · exact h.later_ok j (by simp [hj])
    · have ⟨h1, h2, _⟩ := mem_movedF_on.1 hj
      have k3 := Fr_k3 hw (h.fr j h1)
      have := rem_le j
      have wk := h.wait_ok j h1
      refine ⟨by omega, ?_⟩
      rcases wk.1 with e | e
      · exact Or.inl e
      · exact Or.inr ⟨e, by simp [wk.2]⟩
    · obtain ⟨w, hwk, _, rfl⟩ := hq1 j hj
      have k3 := Fr_k3 hw (h.fr w (mem_keepF_on.1 hwk).1)
      exact ⟨by simp [rem, query]; omega, Or.inl rfl⟩
    · exact h.later_ok j (by simp [hj])
  · intro w hwk; exact h.wait_ok w (mem_keepF_on.1 hwk).1
  · intro w hwk
    have ⟨hw1, hw2⟩ := mem_keepF_on.1 hwk
    by_cases ha : i.plug ∈ ancUp c w.plug
    · exact Fr_none (NF w hwk ha)
    · exact Fr_mono (Fr_drop (h.fr w hw1) (fun hh => ha hh.1)) (fun _ a => a) hsub
  · intro w hwk j hj hja
    have ⟨hw1, hw2⟩ := mem_keepF_on.1 hwk
    by_cases ha : i.plug ∈ ancUp c w.plug
    · have nf := NF w hwk ha
      have hxa : i.plug ∈ ancUp c (childOf c w.plug i.plug) := childOf_anc hw ha
      rcases List.mem_append.1 hj with hj | hj
      · -- old stale entry: the witness may have been `i`
        obtain ⟨i1, hi1, r1, b1⟩ := h.stale w hw1 j hj hja
        rcases hi1 with ⟨hm, bd⟩ | hi1
        · rcases List.mem_cons.1 hm with rfl | hm
          · exact Fr_up hw (Fr_up hw nf (Or.inr hxa)) b1
          · exact ⟨i1, Or.inl ⟨hm, bd⟩, r1, b1⟩
        · exact ⟨i1, Or.inr ⟨hsub _ hi1.1, hi1.2⟩, r1, b1⟩
      · simp at hj; subst hj
        exact Fr_up hw nf (Or.inr hxa)
    · rcases List.mem_append.1 hj with hj | hj
      · exact Fr_mono (Fr_drop (h.stale w hw1 j hj hja) (fun hh => ha hh.1)) (fun _ a => a) hsub
      · simp at hj; subst hj; exact absurd hja ha

theorem RInv_congr {c : Cfg} {k : Nat} {C : Cmd} {P rest new : List PM} {m m' : M}
    (h : RInv c k C P rest new m) (e1 : m'.active = m.active) (e2 : m'.delayed = m.delayed)
    (e3 : m'.waiting = m.waiting) (e4 : m'.st = m.st) : RInv c k C P rest new m' := by
  constructor
  · rw [e1]; exact h.act
  · rw [e4]; exact h.rest_ok
  · rw [e2, e4]; exact h.later_ok
  · rw [e3]; exact h.wait_ok
  · rw [e2, e3]; exact h.fr
  · rw [e2, e3]; exact h.stale

theorem RInv_outIf {c : Cfg} {k : Nat} {C : Cmd} {P rest new : List PM} {m : M} (b : Bool) (l : Line)
    (h : RInv c k C P rest new m) : RInv c k C P rest new (outIf m b l) := by
  cases b <;> exact RInv_congr h (by simp [outIf]) (by simp [outIf]) (by simp [outIf]) (by simp [outIf])

theorem Good_powerSt {c : Cfg} {C : Cmd} {st : St} {j : PM} (p : Nat) (h : Good C st j) :
    Good C (powerSt c st C p) j := by
  rcases h with h | ⟨h1, h2⟩
  · exact Or.inl h
  · cases C with
    | stat => exact Or.inl h1
    | on =>
      refine Or.inr ⟨h1, fun hwt => ?_⟩
      have := h2 hwt
      rw [isOn_powerSt_on]; simp at this ⊢; exact Or.inr this
    | off =>
      refine Or.inr ⟨h1, fun hwt => ?_⟩
      have := h2 hwt
      have hf : (Cmd.off == Cmd.on) = false := rfl
      rw [isOn_powerSt_off _ _ _ _ _ (by decide)]; rw [hf] at this ⊢; simp [this]

/-- the head of `rest` is replaced by a continuation `i'` (same plug, one round less) among the later ones -/
theorem Fr_replace {c : Cfg} {k : Nat} {i i' : PM} {rest later later' : List PM} {w : PM} {z : Option Nat}
    (h : Fr c k (i :: rest) later w z) (hp : i'.plug = i.plug) (hr : rem i' + 1 ≤ rem i) (hm : i' ∈ later')
    (hsub : ∀ j ∈ later, j ∈ later') : Fr c k rest later' w z := by
  obtain ⟨i0, hi, r, b⟩ := h
  rcases hi with ⟨a, bd⟩ | hi
  · rcases List.mem_cons.1 a with rfl | a
    · exact ⟨i', Or.inr ⟨hm, by rw [hp]; omega⟩, hp ▸ r, hp ▸ b⟩
    · exact ⟨i0, Or.inl ⟨a, bd⟩, r, b⟩
  · exact ⟨i0, Or.inr ⟨hsub _ hi.1, hi.2⟩, r, b⟩

theorem RInv_fresh {c : Cfg} (hw : WF c = true) {k : Nat} {C : Cmd} {P rest new : List PM} {i i' : PM} {m : M}
    (h : RInv c k C P (i :: rest) new m) (hc : i.cmd ≠ .stat) (hwt : i.waitState = false)
    (hi' : i' = { i with output := true, waitState := true }) :
    RInv c k C (P ++ [i]) rest new
      { m with st := powerSt c m.st i.cmd i.plug, delayed := m.delayed ++ [i'] } := by
  have hi := h.rest_ok i (by simp)
  have hC : i.cmd = C := by rcases hi.2 with e | e; exact absurd e hc; exact e.1
  have hri : rem i = 2 := by simp [rem, hc, hwt]
  have hri' : rem i' = 1 := by simp [rem, hc, hi']
  have hpl : i'.plug = i.plug := by simp [hi']
  have hcm : i'.cmd = i.cmd := by simp [hi']
  have hsub : ∀ j ∈ new ++ m.delayed, j ∈ new ++ (m.delayed ++ [i']) := by
    intro j hj; simp only [List.mem_append] at hj ⊢; grind
  have hmem : i' ∈ new ++ (m.delayed ++ [i']) := by simp
  clear hi'
  subst hC
  constructor
  · simp [h.act]
  · intro j hj
    have := h.rest_ok j (List.mem_cons_of_mem _ hj)
    exact ⟨this.1, Good_powerSt _ this.2⟩
  · intro j hj
    simp only [List.mem_append, List.mem_singleton] at hj
    rcases hj with hj | hj | hj
    · have := h.later_ok j (by simp [hj]); exact ⟨this.1, Good_powerSt _ this.2⟩
    · have := h.later_ok j (by simp [hj]); exact ⟨this.1, Good_powerSt _ this.2⟩
    · subst hj
      refine ⟨by omega, Or.inr ⟨hcm, fun _ => ?_⟩⟩
      rw [hpl]
      cases hcc : i.cmd with
      | stat => exact absurd hcc hc
      | on => rw [isOn_powerSt_on]; simp
      | off => rw [isOn_powerSt_off _ _ _ _ _ (by decide)]; simp
  · exact h.wait_ok
  · intro w hwm
    exact Fr_replace (i' := i') (h.fr w hwm) hpl (by omega) hmem hsub
  · intro w hwm j hj hja
    rcases List.mem_append.1 hj with hj | hj
    · exact Fr_replace (i' := i') (h.stale w hwm j hj hja) hpl (by omega) hmem hsub
    · simp at hj; subst hj
      obtain ⟨i0, hi0, r, _⟩ := h.fr w hwm
      rcases anc_comparable hw r hja with e | e | e
      · exact Fr_replace (i' := i') ⟨i0, hi0, r, Or.inl e⟩ hpl (by omega) hmem hsub
      · have := depth_anc_lt hw e
        have := rem_pos i0
        refine ⟨i', Or.inr ⟨hmem, ?_⟩, hpl ▸ hja, Or.inl hpl⟩
        rw [hpl]
        rcases hi0 with ⟨_, b⟩ | ⟨_, b⟩ <;> omega
      · exact Fr_replace (i' := i') ⟨i0, hi0, r, Or.inr e⟩ hpl (by omega) hmem hsub

theorem RInv_step {c : Cfg} (hw : WF c = true) {k : Nat} {C : Cmd} {P rest new : List PM} {i : PM} {m : M}
    (h : RInv c k C P (i :: rest) new m) :
    ∃ new', RInv c k C (P ++ [i]) rest new' (processOne c m i) := by
  by_cases hf : hostFails c i.plug = true
  · rw [processOne_fail _ _ _ hf]
    exact ⟨new, RInv_pw_off (RInv_outIf _ _ h) (by decide)⟩
  · have hf : hostFails c i.plug = false := by simpa using hf
    by_cases hc : i.cmd = .stat
    · rw [processOne_stat _ _ _ hf hc]
      generalize statStr c m i.plug = s
      by_cases hs : s = .on
      · subst hs; exact RInv_pw_on hw (RInv_outIf _ _ h)
      · exact ⟨new, RInv_pw_off (RInv_outIf _ _ h) hs⟩
    · cases hwt : i.waitState
      · rw [processOne_fresh _ _ _ hf hc hwt]
        exact ⟨new, RInv_fresh hw h hc hwt rfl⟩
      · rcases (h.rest_ok i (by simp)).2 with e | ⟨e1, e2⟩
        · exact absurd e hc
        · have hst := e2 hwt
          have hs : (statStr c m i.plug == .on) = (i.cmd == .on) := by
            unfold statStr; rw [hst, e1]; cases C <;> decide
          rw [processOne_done _ _ _ hf hc hwt hs]
          have h' : RInv c k C P (i :: rest) new { m with out := m.out ++ [.ok i.plug] } :=
            RInv_congr h rfl rfl rfl rfl
          generalize statStr c m i.plug = s
          by_cases hs : s = .on
          · subst hs; exact RInv_pw_on hw h'
          · exact ⟨new, RInv_pw_off h' hs⟩

/-- invariant at the top of the shell loop: everything drains within `k` rounds -/
structure SInv (c : Cfg) (k : Nat) (C : Cmd) (m : M) : Prop where
  items : ∀ i ∈ m.active ++ m.delayed, rem i ≤ k ∧ Good C m.st i
  wait_ok : ∀ w ∈ m.waiting, (w.cmd = .stat ∨ w.cmd = C) ∧ w.waitState = false
  fr : ∀ w ∈ m.waiting, ∃ i ∈ m.active ++ m.delayed, i.plug ∈ ancUp c w.plug ∧
        rem i + 2 * depth c w.plug ≤ k + 2 * depth c i.plug

theorem RInv_fold {c : Cfg} (hw : WF c = true) {k : Nat} {C : Cmd} (rest : List PM) :
    ∀ (P new : List PM) (m : M), RInv c k C P rest new m →
    ∃ new', RInv c k C (P ++ rest) [] new' (rest.foldl (fun m pm => processOne c m pm) m) := by
  induction rest with
  | nil => intro P new m h; exact ⟨new, by simpa using h⟩
  | cons i rest ih =>
    intro P new m h
    obtain ⟨new', h'⟩ := RInv_step hw h
    obtain ⟨new'', h''⟩ := ih (P ++ [i]) new' _ h'
    exact ⟨new'', by simpa using h''⟩

/-- one trip round the shell loop, as in `runLoop` -/
def roundM (c : Cfg) (m : M) : M :=
  let m := { m with active := m.active ++ m.delayed, delayed := [] }
  let batch := m.active
  let m := batch.foldl (fun m pm => processOne c m pm) m
  { m with active := m.active.drop batch.length }

def isDone (m : M) : Bool := m.active.isEmpty && m.delayed.isEmpty && m.waiting.isEmpty

theorem runLoop_succ (c : Cfg) (f : Nat) (m : M) :
    runLoop c (f + 1) m = if isDone m then m else runLoop c f (roundM c m) := by
  rfl

theorem SInv_round {c : Cfg} (hw : WF c = true) {k : Nat} {C : Cmd} {m : M} (h : SInv c (k + 1) C m) :
    SInv c k C (roundM c m) := by
  have h0 : RInv c (k + 1) C [] (m.active ++ m.delayed) []
      { m with active := m.active ++ m.delayed, delayed := [] } := by
    constructor
    · simp
    · exact h.items
    · intro i hi; simp at hi
    · exact h.wait_ok
    · intro w hwm
      obtain ⟨i, hi, r, b⟩ := h.fr w hwm
      exact ⟨i, Or.inl ⟨hi, b⟩, r, trivial⟩
    · intro w _ j hj; simp at hj
  obtain ⟨new', h1⟩ := RInv_fold hw (m.active ++ m.delayed) [] [] _ h0
  simp only [List.nil_append] at h1
  unfold roundM
  simp only
  generalize List.foldl (fun m pm => processOne c m pm) { m with active := m.active ++ m.delayed, delayed := [] }
    (m.active ++ m.delayed) = m' at h1
  have hact := h1.act
  simp only [List.append_nil] at hact
  constructor
  · intro i hi
    simp only [hact, List.drop_left] at hi
    have := h1.later_ok i hi
    exact ⟨by omega, this.2⟩
  · exact h1.wait_ok
  · intro w hwm
    obtain ⟨i, hi, r, _⟩ := h1.fr w hwm
    simp only [hact, List.drop_left]
    rcases hi with ⟨hi, _⟩ | ⟨hi, b⟩
    · simp at hi
    · exact ⟨i, hi, r, by omega⟩

theorem SInv_zero {c : Cfg} {C : Cmd} {m : M} (h : SInv c 0 C m) : isDone m = true := by
  have ha : m.active ++ m.delayed = [] := by
    cases hl : m.active ++ m.delayed with
    | nil => rfl
    | cons i l =>
      have := (h.items i (by rw [hl]; simp)).1
      have := rem_pos i
      omega
  have hwt : m.waiting = [] := by
    cases hl : m.waiting with
    | nil => rfl
    | cons w l =>
      obtain ⟨i, hi, _⟩ := h.fr w (by rw [hl]; simp)
      rw [ha] at hi; simp at hi
  simp at ha
  simp [isDone, ha.1, ha.2, hwt]

theorem runLoop_done {c : Cfg} (hw : WF c = true) {C : Cmd} (k : Nat) : ∀ (f : Nat) (m : M), SInv c k C m → k < f →
    isDone (runLoop c f m) = true := by
  induction k with
  | zero =>
    intro f m h hf
    obtain ⟨f, rfl⟩ : ∃ g, f = g + 1 := ⟨f - 1, by omega⟩
    rw [runLoop_succ]; simp [SInv_zero h]
  | succ k ih =>
    intro f m h hf
    obtain ⟨f, rfl⟩ : ∃ g, f = g + 1 := ⟨f - 1, by omega⟩
    rw [runLoop_succ]
    by_cases hd : isDone m = true
    · simp [hd]
    · simp only [hd, Bool.false_eq_true, if_false]
      exact ih f _ (SInv_round hw h) (by omega)

end Pm.Redfish
