import Pm.FrameCli
/-! Helper lemmas for C05: the relation between the two worlds is re-established by every pass with a quiet client phase,
    hence kept over any number of such passes.  The list of processed devices in the accumulator is write-only, and a
    device enters its step only through `strip` (its stale store copy is replaced by the shared store). -/
namespace Pm.Daemon
open Pm Pm.Client
open Pm.Dev2 (Oracle Dev Action SAgree QOn QOff ActsOK NoMis withArgs)

/-- the accumulator without the list of processed devices -/
def sansDevs (a : DevAcc) : DevAcc := { a with devs := [] }

theorem strip_fst {nd nd' : Bytes × Dev} (h : strip nd = strip nd') : nd.1 = nd'.1 := by
  have := congrArg Prod.fst h; exact this

theorem strip_withArgs {nd nd' : Bytes × Dev} (h : strip nd = strip nd') (s : Pm.Dev2.Store) :
    ({ nd.2 with args := s } : Dev) = { nd'.2 with args := s } := by
  have h2 : withArgs nd.2 [] = withArgs nd'.2 [] := congrArg Prod.snd h
  have := congrArg (fun d => withArgs d s) h2
  exact this

theorem strip_fd {nd nd' : Bytes × Dev} (h : strip nd = strip nd') : nd.2.fd = nd'.2.fd := by
  have h2 : withArgs nd.2 [] = withArgs nd'.2 [] := congrArg Prod.snd h
  have := congrArg Dev.fd h2; exact this

theorem strip_acts {nd nd' : Bytes × Dev} (h : strip nd = strip nd') : nd.2.acts = nd'.2.acts := by
  have h2 : withArgs nd.2 [] = withArgs nd'.2 [] := congrArg Prod.snd h
  have := congrArg Dev.acts h2; exact this

theorem strip_plugs {nd nd' : Bytes × Dev} (h : strip nd = strip nd') : nd.2.plugs = nd'.2.plugs := by
  have h2 : withArgs nd.2 [] = withArgs nd'.2 [] := congrArg Prod.snd h
  have := congrArg Dev.plugs h2; exact this

/-- a device enters its step only through `strip` -/
theorem devStep_strip (p : PassIn) (w : W) (o : Oracle) {nd nd' : Bytes × Dev} (h : strip nd = strip nd') :
    devStep p w o nd = devStep p w o nd' := by
  have e := strip_withArgs h w.store
  unfold devStep devEnv
  dsimp only
  rw [e]

theorem devPass_sansDevs (p : PassIn) (a b : DevAcc) {nd nd' : Bytes × Dev} (hab : sansDevs a = sansDevs b) (h : strip nd = strip nd') :
    sansDevs (devPass p a nd) = sansDevs (devPass p b nd') ∧ strip (stepped p a nd) = strip (stepped p b nd') := by
  obtain ⟨w, yl, ms, tm, o, dv, dd⟩ := a
  obtain ⟨w', yl', ms', tm', o', dv', dd'⟩ := b
  simp only [sansDevs, DevAcc.mk.injEq] at hab
  obtain ⟨rfl, rfl, rfl, rfl, rfl, -, rfl⟩ := hab
  cases dd with
  | true =>
    rw [devPass_dead _ _ _ rfl, devPass_dead _ _ _ rfl]
    exact ⟨rfl, by simpa [stepped] using h⟩
  | false =>
    have hs := devStep_strip p w o h
    have h1 := strip_fst h
    have h3 := strip_fd h
    constructor
    · rw [devPass_eq, devPass_eq]
      unfold devPass'
      simp only [Bool.false_eq_true, ↓reduceIte, sansDevs]
      rw [hs, h1, h3]
    · simp only [stepped, Bool.false_eq_true, ↓reduceIte]
      rw [hs]
      unfold strip
      rw [h1]

theorem foldl_sansDevs (p : PassIn) (l l' : List (Bytes × Dev)) (a b : DevAcc) (hab : sansDevs a = sansDevs b)
    (hl : l.map strip = l'.map strip) : sansDevs (l.foldl (devPass p) a) = sansDevs (l'.foldl (devPass p) b) := by
  induction l generalizing l' a b with
  | nil =>
    cases l' with
    | nil => exact hab
    | cons _ _ => simp at hl
  | cons x r ih =>
    cases l' with
    | nil => simp at hl
    | cons x' r' =>
      simp only [List.map_cons, List.cons.injEq] at hl
      rw [List.foldl_cons, List.foldl_cons]
      exact ih r' _ _ (devPass_sansDevs p a b hab hl.1).1 hl.2

theorem foldl_strip_devs (p : PassIn) (l l' : List (Bytes × Dev)) (a b : DevAcc) (hab : sansDevs a = sansDevs b)
    (hdv : a.devs.map strip = b.devs.map strip) (hl : l.map strip = l'.map strip) :
    (l.foldl (devPass p) a).devs.map strip = (l'.foldl (devPass p) b).devs.map strip := by
  induction l generalizing l' a b with
  | nil =>
    cases l' with
    | nil => exact hdv
    | cons _ _ => simp at hl
  | cons x r ih =>
    cases l' with
    | nil => simp at hl
    | cons x' r' =>
      simp only [List.map_cons, List.cons.injEq] at hl
      obtain ⟨h1, h2⟩ := devPass_sansDevs p a b hab hl.1
      rw [List.foldl_cons, List.foldl_cons]
      refine ih r' _ _ h1 ?_ hl.2
      rw [devPass_devs_eq, devPass_devs_eq, List.map_append, List.map_append, hdv]
      simp [h2]

theorem sansDevs_withOr (a b : DevAcc) (o : Oracle) (h : sansDevs a = sansDevs b) : sansDevs (withOr a o) = sansDevs (withOr b o) := by
  obtain ⟨w, yl, ms, tm, oa, dv, dd⟩ := a
  obtain ⟨w', yl', ms', tm', ob, dv', dd'⟩ := b
  simp only [sansDevs, DevAcc.mk.injEq] at h
  obtain ⟨rfl, rfl, rfl, rfl, -, -, rfl⟩ := h
  rfl

theorem sansDevs_w {a b : DevAcc} (h : sansDevs a = sansDevs b) : a.w = b.w := by have := congrArg DevAcc.w h; exact this
theorem sansDevs_oracle {a b : DevAcc} (h : sansDevs a = sansDevs b) : a.oracle = b.oracle := by have := congrArg DevAcc.oracle h; exact this
theorem sansDevs_dead {a b : DevAcc} (h : sansDevs a = sansDevs b) : a.dead = b.dead := by have := congrArg DevAcc.dead h; exact this

theorem stepOut_strip (p : PassIn) (a b : DevAcc) {nd nd' : Bytes × Dev} (hab : sansDevs a = sansDevs b) (h : strip nd = strip nd') :
    stepOut p a nd = stepOut p b nd' := by
  unfold stepOut
  rw [sansDevs_w hab, sansDevs_oracle hab, devStep_strip p b.w b.oracle h]

theorem getElem?_of_map_strip {l l' : List (Bytes × Dev)} (hl : l.map strip = l'.map strip) (i : Nat) (nd' : Bytes × Dev)
    (h : l'[i]? = some nd') : ∃ nd, l[i]? = some nd ∧ strip nd = strip nd' := by
  have h1 : (l.map strip)[i]? = (l'.map strip)[i]? := by rw [hl]
  rw [List.getElem?_map, List.getElem?_map, h] at h1
  cases hq : l[i]? with
  | none => rw [hq] at h1; simp at h1
  | some nd => rw [hq] at h1; simp at h1; exact ⟨nd, rfl, h1⟩

theorem take_map_strip {l l' : List (Bytes × Dev)} (hl : l.map strip = l'.map strip) (i : Nat) :
    (l.take i).map strip = (l'.take i).map strip := by
  rw [List.map_take, List.map_take, hl]

/-- `ExactOn` does not depend on the stale store copies of the devices, nor on the processed-device list -/
theorem ExactOn.transfer {p : PassIn} {a b : DevAcc} {l l' : List (Bytes × Dev)} {xs : List Pm.Dev2.RxCall}
    (h : ExactOn p a l xs) (hab : sansDevs a = sansDevs b) (hl : l.map strip = l'.map strip) : ExactOn p b l' xs := by
  have hab' := sansDevs_withOr a b ⟨xs⟩ hab
  constructor
  · intro i nd' hi
    obtain ⟨nd, hnd, hs⟩ := getElem?_of_map_strip hl i nd' hi
    have hacc : sansDevs (accAt p (withOr a ⟨xs⟩) l i) = sansDevs (accAt p (withOr b ⟨xs⟩) l' i) :=
      foldl_sansDevs p (l.take i) (l'.take i) _ _ hab' (take_map_strip hl i)
    have := h.1 i nd hnd
    rw [stepOut_strip p _ _ hacc hs] at this
    exact this
  · have := foldl_sansDevs p l l' _ _ hab' hl
    rw [← sansDevs_oracle this]
    exact h.2

/-! ### the relation between two worlds that a quiet pass re-establishes -/

/-- two device lists that differ, stale store copies apart, at most at position `j` -/
def DevsRel (j : Nat) (l l' : List (Bytes × Dev)) : Prop :=
  l.length = l'.length ∧ ∀ i, i ≠ j → (l[i]?).map strip = (l'[i]?).map strip

theorem DevsRel.take {j : Nat} {l l' : List (Bytes × Dev)} (h : DevsRel j l l') : (l.take j).map strip = (l'.take j).map strip := by
  apply List.ext_getElem?
  intro i
  rw [List.getElem?_map, List.getElem?_map, List.getElem?_take, List.getElem?_take]
  by_cases hi : i < j
  · simp only [hi, ↓reduceIte]; exact h.2 i (by omega)
  · simp only [hi, ↓reduceIte]

theorem DevsRel.drop {j : Nat} {l l' : List (Bytes × Dev)} (h : DevsRel j l l') :
    (l.drop (j + 1)).map strip = (l'.drop (j + 1)).map strip := by
  apply List.ext_getElem?
  intro i
  rw [List.getElem?_map, List.getElem?_map, List.getElem?_drop, List.getElem?_drop]
  exact h.2 (j + 1 + i) (by omega)

theorem split_at (l : List (Bytes × Dev)) (j : Nat) (hj : j < l.length) :
    l = l.take j ++ l[j] :: l.drop (j + 1) ∧ (l.take j).length = j := by
  constructor
  · conv => lhs; rw [← List.take_append_drop j l]
    congr 1
    exact List.drop_eq_getElem_cons hj
  · simp; omega

/-- a quiet pass does not end the process: `exited` is not touched by the device phase -/
theorem foldl_exited (p : PassIn) (l : List (Bytes × Dev)) (a : DevAcc) : (l.foldl (devPass p) a).w.exited = a.w.exited := by
  induction l generalizing a with
  | nil => rfl
  | cons x r ih =>
    rw [List.foldl_cons, ih]
    have := congrArg W.exited (devPass_rest p a x).1
    exact this

theorem mem_split_index {pre post : List (Bytes × Dev)} {B nd : Bytes × Dev} (h : nd ∈ pre ++ post) :
    ∃ i, i ≠ pre.length ∧ (pre ++ B :: post)[i]? = some nd := by
  rw [List.mem_append] at h
  rcases h with h | h
  · obtain ⟨i, hi, he⟩ := List.getElem_of_mem h
    refine ⟨i, by omega, ?_⟩
    rw [List.getElem?_append_left hi, List.getElem?_eq_getElem hi, he]
  · obtain ⟨i, hi, he⟩ := List.getElem_of_mem h
    refine ⟨pre.length + (i + 1), by omega, ?_⟩
    rw [List.getElem?_append_right (by omega)]
    simp [List.getElem?_eq_getElem hi, he]

/-- the relation between the two worlds, between passes -/
structure PassRel (Q : Bytes → Bool) (g j : Nat) (w w' : W) : Prop where
  cli : cliRec w g = cliRec w' g
  gok : GOk Q w g
  store : SAgree Q w.store w'.store
  nsock : w.nsock = w'.nsock
  npair : w.npair = w'.npair
  nfork : w.nfork = w'.nfork
  devs : DevsRel j w.devs w'.devs
  ex : w.exited = false
  ex' : w'.exited = false

/-- what is assumed of one pass (inputs `p`, `p'`; oracle answers `xp ++ xB ++ xq` resp. `xp ++ xB' ++ xq`) -/
structure PassHyps (Q : Bytes → Bool) (g j : Nat) (w w' : W) (p p' : PassIn) (xp xB xB' xq : List Pm.Dev2.RxCall) : Prop where
  j_lt : j < w.devs.length
  acc : p.acc = 0
  acc' : p'.acc = 0
  quiet : ∀ c ∈ w.clients, QuietCli p.envs c
  quiet' : ∀ c ∈ w'.clients, QuietCli p'.envs c
  uniq : UniqueIds w.clients
  uniq' : UniqueIds w'.clients
  clock : SameClock p p'
  hx : w.pendingX = xp ++ (xB ++ xq)
  hx' : w'.pendingX = xp ++ (xB' ++ xq)
  others : ∀ i nd, i ≠ j → w.devs[i]? = some nd → SameEvents p p' nd ∧ QOn Q nd.2 ∧ ActsOK Q nd.2.acts
  g0 : g ≠ 0
  hB : ∀ B, w.devs[j]? = some B → (∀ x ∈ B.2.acts, x.clientId ≠ g) ∧ QOff Q B.2 ∧
    ExactOn p ((w.devs.take j).foldl (devPass p) (acc0 (cliPostPoll w p.acc p.envs))) [B] xB
  hB' : ∀ B', w'.devs[j]? = some B' → (∀ x ∈ B'.2.acts, x.clientId ≠ g) ∧ QOff Q B'.2 ∧
    ExactOn p' ((w'.devs.take j).foldl (devPass p') (acc0 (cliPostPoll w' p'.acc p'.envs))) [B'] xB'
  alive : (w.devs.foldl (devPass p) (acc0 (cliPostPoll w p.acc p.envs))).dead = false
  alive' : (w'.devs.foldl (devPass p') (acc0 (cliPostPoll w' p'.acc p'.envs))).dead = false
  E1 : ExactOn p (acc0 (cliPostPoll w p.acc p.envs)) (w.devs.take j) xp
  E1' : ExactOn p' (acc0 (cliPostPoll w' p'.acc p'.envs)) (w'.devs.take j) xp
  c1 : (accAt p (acc0 (cliPostPoll w p.acc p.envs)) w.devs (j + 1)).w.nsock = (accAt p' (acc0 (cliPostPoll w' p'.acc p'.envs)) w'.devs (j + 1)).w.nsock
  c2 : (accAt p (acc0 (cliPostPoll w p.acc p.envs)) w.devs (j + 1)).w.npair = (accAt p' (acc0 (cliPostPoll w' p'.acc p'.envs)) w'.devs (j + 1)).w.npair
  c3 : (accAt p (acc0 (cliPostPoll w p.acc p.envs)) w.devs (j + 1)).w.nfork = (accAt p' (acc0 (cliPostPoll w' p'.acc p'.envs)) w'.devs (j + 1)).w.nfork

theorem accAt_split (p : PassIn) (a : DevAcc) (pre post : List (Bytes × Dev)) (B : Bytes × Dev) :
    accAt p a (pre ++ B :: post) (pre.length + 1) = devPass p (pre.foldl (devPass p) a) B := by
  unfold accAt
  have : (pre ++ B :: post).take (pre.length + 1) = pre ++ [B] := by
    rw [List.take_append, List.take_of_length_le (Nat.le_succ _)]
    simp
  rw [this, List.foldl_append]
  rfl

/-- the step with the two device lists split explicitly -/
theorem pass_rel_core (Q : Bytes → Bool) (g j : Nat) (w w' : W) (p p' : PassIn) (xp xB xB' xq : List Pm.Dev2.RxCall)
    (pre post pre' post' : List (Bytes × Dev)) (B B' : Bytes × Dev) (a0 a0' : DevAcc)
    (hr : PassRel Q g j w w')
    (e0 : cliPostPoll w p.acc p.envs = { w with sys := [], caps := p.envs.map fun (e : FdEnv) => (e.fd, e.cap) })
    (e0' : cliPostPoll w' p'.acc p'.envs = { w' with sys := [], caps := p'.envs.map fun (e : FdEnv) => (e.fd, e.cap) })
    (ha0 : acc0 (cliPostPoll w p.acc p.envs) = a0) (ha0' : acc0 (cliPostPoll w' p'.acc p'.envs) = a0')
    (hs : w.devs = pre ++ B :: post) (hs' : w'.devs = pre' ++ B' :: post') (hpl : pre.length = j) (hpl' : pre'.length = j)
    (hpre : pre.map strip = pre'.map strip) (hpost : post.map strip = post'.map strip)
    (hclock : SameClock p p') (hx : w.pendingX = xp ++ (xB ++ xq)) (hx' : w'.pendingX = xp ++ (xB' ++ xq))
    (hothers : ∀ nd ∈ pre ++ post, SameEvents p p' nd ∧ QOn Q nd.2 ∧ ActsOK Q nd.2.acts)
    (hg : g ≠ 0) (hq : ∀ x ∈ B.2.acts, x.clientId ≠ g) (hq' : ∀ x ∈ B'.2.acts, x.clientId ≠ g)
    (hQ : QOff Q B.2) (hQ' : QOff Q B'.2)
    (halive : ((pre ++ B :: post).foldl (devPass p) a0).dead = false)
    (halive' : ((pre' ++ B' :: post').foldl (devPass p') a0').dead = false)
    (E1 : ExactOn p a0 pre xp) (E1' : ExactOn p' a0' pre' xp)
    (E2 : ExactOn p (pre.foldl (devPass p) a0) [B] xB) (E2' : ExactOn p' (pre'.foldl (devPass p') a0') [B'] xB')
    (c1 : (devPass p (pre.foldl (devPass p) a0) B).w.nsock = (devPass p' (pre'.foldl (devPass p') a0') B').w.nsock)
    (c2 : (devPass p (pre.foldl (devPass p) a0) B).w.npair = (devPass p' (pre'.foldl (devPass p') a0') B').w.npair)
    (c3 : (devPass p (pre.foldl (devPass p) a0) B).w.nfork = (devPass p' (pre'.foldl (devPass p') a0') B').w.nfork) :
    PassRel Q g j (daemonPass w p).1 (daemonPass w' p').1 := by
  subst hpl
  -- run 2 over run 1's devices (the stale store copies do not matter)
  have hl2 : (pre' ++ B' :: post').map strip = (pre ++ B' :: post).map strip := by
    simp only [List.map_append, List.map_cons, hpre, hpost]
  have hv := foldl_sansDevs p' (pre' ++ B' :: post') (pre ++ B' :: post) a0' a0' rfl hl2
  have hvd := foldl_strip_devs p' (pre' ++ B' :: post') (pre ++ B' :: post) a0' a0' rfl rfl hl2
  have hpre_s := foldl_sansDevs p' pre' pre a0' a0' rfl hpre.symm
  have hBs := devPass_sansDevs p' _ _ (nd := B') (nd' := B') hpre_s rfl
  have E1v : ExactOn p' a0' pre xp := E1'.transfer rfl hpre.symm
  have E2v : ExactOn p' (pre.foldl (devPass p') a0') [B'] xB' := E2'.transfer hpre_s rfl
  have hcore : AccCore Q g pre.length a0 a0' := by
    subst ha0 ha0'
    rw [e0, e0']
    exact ⟨hr.cli, hr.gok, hr.store, rfl, fun _ _ => rfl⟩
  have ha0w : a0.w = { w with sys := [], caps := p.envs.map fun (e : FdEnv) => (e.fd, e.cap) } := by subst ha0; rw [e0]; rfl
  have ha0w' : a0'.w = { w' with sys := [], caps := p'.envs.map fun (e : FdEnv) => (e.fd, e.cap) } := by subst ha0'; rw [e0']; rfl
  have hrel := fold_noninterference Q p p' pre post B B' a0 a0' g xp xB xB' xq hclock hcore (by subst ha0; rfl)
    (by rw [ha0w, ha0w']; exact hr.nsock) (by rw [ha0w, ha0w']; exact hr.npair) (by rw [ha0w, ha0w']; exact hr.nfork)
    (by subst ha0; rw [e0]; exact hx) (by subst ha0'; rw [e0']; exact hx')
    hothers hg hq hq' hQ hQ' halive (by rw [← sansDevs_dead hv]; exact halive') E1 E1v E2 E2v
    (by rw [c1]; exact congrArg W.nsock (sansDevs_w hBs.1))
    (by rw [c2]; exact congrArg W.npair (sansDevs_w hBs.1))
    (by rw [c3]; exact congrArg W.nfork (sansDevs_w hBs.1))
  -- back to the two `daemonPass`es
  rw [daemonPass_fst, daemonPass_fst]
  dsimp only
  have hex0 : (cliPostPoll w p.acc p.envs).exited = false := by rw [e0]; exact hr.ex
  have hex0' : (cliPostPoll w' p'.acc p'.envs).exited = false := by rw [e0']; exact hr.ex'
  have hd0 : (cliPostPoll w p.acc p.envs).devs = pre ++ B :: post := by rw [e0]; exact hs
  have hd0' : (cliPostPoll w' p'.acc p'.envs).devs = pre' ++ B' :: post' := by rw [e0']; exact hs'
  simp only [hex0, hex0', Bool.false_eq_true, ↓reduceIte, hd0, hd0', ha0, ha0']
  have hw2 := sansDevs_w hv
  have hlen2 : ((pre' ++ B' :: post').foldl (devPass p') a0').devs.length = ((pre ++ B' :: post).foldl (devPass p') a0').devs.length := by
    have := congrArg List.length hvd; simpa using this
  exact {
    cli := by show cliRec _ g = cliRec _ g; rw [hw2]; exact hrel.cli
    gok := hrel.gok
    store := by show SAgree Q _ _; rw [hw2]; exact hrel.store
    nsock := by show W.nsock _ = W.nsock _; rw [hw2]; exact hrel.nsock
    npair := by show W.npair _ = W.npair _; rw [hw2]; exact hrel.npair
    nfork := by show W.nfork _ = W.nfork _; rw [hw2]; exact hrel.nfork
    devs := by
      refine ⟨by rw [hlen2]; exact hrel.len, ?_⟩
      intro i hi
      have h1 := hrel.devs i hi
      have h2 : (((pre' ++ B' :: post').foldl (devPass p') a0').devs.map strip)[i]? = (((pre ++ B' :: post).foldl (devPass p') a0').devs.map strip)[i]? := by rw [hvd]
      rw [List.getElem?_map, List.getElem?_map] at h2
      rw [h2]; exact h1
    ex := by show W.exited _ = false; rw [foldl_exited, ← ha0]; exact hex0
    ex' := by show W.exited _ = false; rw [foldl_exited, ← ha0']; exact hex0' }

/-- **one quiet pass re-establishes the relation** -/
theorem pass_rel_step (Q : Bytes → Bool) (g j : Nat) (w w' : W) (p p' : PassIn) (xp xB xB' xq : List Pm.Dev2.RxCall)
    (hr : PassRel Q g j w w') (h : PassHyps Q g j w w' p p' xp xB xB' xq) :
    PassRel Q g j (daemonPass w p).1 (daemonPass w' p').1 := by
  have e0 : cliPostPoll w p.acc p.envs = { w with sys := [], caps := p.envs.map fun (e : FdEnv) => (e.fd, e.cap) } := by
    rw [h.acc]; exact cliPostPoll_quiet w p.envs h.quiet h.uniq
  have e0' : cliPostPoll w' p'.acc p'.envs = { w' with sys := [], caps := p'.envs.map fun (e : FdEnv) => (e.fd, e.cap) } := by
    rw [h.acc']; exact cliPostPoll_quiet w' p'.envs h.quiet' h.uniq'
  have hj := h.j_lt
  have hj' : j < w'.devs.length := hr.devs.1 ▸ h.j_lt
  obtain ⟨hs, hpl⟩ := split_at w.devs j h.j_lt
  obtain ⟨hs', hpl'⟩ := split_at w'.devs j hj'
  obtain ⟨hq, hQ, E2⟩ := h.hB _ (List.getElem?_eq_getElem h.j_lt)
  obtain ⟨hq', hQ', E2'⟩ := h.hB' _ (List.getElem?_eq_getElem hj')
  have c1 := h.c1
  have c2 := h.c2
  have c3 := h.c3
  have halive := h.alive
  have halive' := h.alive'
  rw [hs] at halive
  rw [hs'] at halive'
  have cc : ∀ (f : W → Nat), f (accAt p (acc0 (cliPostPoll w p.acc p.envs)) w.devs (j + 1)).w = f (accAt p' (acc0 (cliPostPoll w' p'.acc p'.envs)) w'.devs (j + 1)).w →
      f (devPass p ((w.devs.take j).foldl (devPass p) (acc0 (cliPostPoll w p.acc p.envs))) w.devs[j]).w =
      f (devPass p' ((w'.devs.take j).foldl (devPass p') (acc0 (cliPostPoll w' p'.acc p'.envs))) w'.devs[j]).w := by
    intro f hf
    have a1 := accAt_split p (acc0 (cliPostPoll w p.acc p.envs)) (w.devs.take j) (w.devs.drop (j + 1)) w.devs[j]
    have a2 := accAt_split p' (acc0 (cliPostPoll w' p'.acc p'.envs)) (w'.devs.take j) (w'.devs.drop (j + 1)) w'.devs[j]
    rw [← hs, hpl] at a1
    rw [← hs', hpl'] at a2
    rw [← a1, ← a2]; exact hf
  exact pass_rel_core Q g j w w' p p' xp xB xB' xq _ _ _ _ _ _ _ _ hr e0 e0' rfl rfl hs hs' hpl hpl' hr.devs.take hr.devs.drop
    h.clock h.hx h.hx'
    (by
      intro nd hnd
      obtain ⟨i, hi, he⟩ := mem_split_index (B := w.devs[j]) hnd
      rw [← hs] at he
      exact h.others i nd (by omega) he)
    h.g0 hq hq' hQ hQ' halive halive' h.E1 h.E1' E2 E2' (cc W.nsock c1) (cc W.npair c2) (cc W.nfork c3)


/-! ### any number of quiet passes -/

/-- the driver records the regex answers for the next pass (the `X` lines of the harness) -/
def withX (w : W) (xs : List Pm.Dev2.RxCall) : W := { w with pendingX := xs }

/-- the world after the passes `ps`, each given with the regex answers recorded for it -/
def passes (w : W) (ps : List (PassIn × List Pm.Dev2.RxCall)) : W := ps.foldl (fun w px => (daemonPass (withX w px.2) px.1).1) w

theorem PassRel.withX {Q : Bytes → Bool} {g j : Nat} {w w' : W} (h : PassRel Q g j w w') (xs xs' : List Pm.Dev2.RxCall) :
    PassRel Q g j (withX w xs) (withX w' xs') :=
  ⟨h.cli, h.gok, h.store, h.nsock, h.npair, h.nfork, h.devs, h.ex, h.ex'⟩

/-- every pass of the two runs satisfies `PassHyps` (with its own inputs, oracle answers and their segmentation) -/
inductive GoodRun (Q : Bytes → Bool) (g j : Nat) : W → W → List ((PassIn × List Pm.Dev2.RxCall) × (PassIn × List Pm.Dev2.RxCall)) → Prop
  | nil (w w' : W) : GoodRun Q g j w w' []
  | cons (w w' : W) (p p' : PassIn) (xs xs' : List Pm.Dev2.RxCall)
      (rest : List ((PassIn × List Pm.Dev2.RxCall) × (PassIn × List Pm.Dev2.RxCall))) (xp xB xB' xq : List Pm.Dev2.RxCall) :
      PassHyps Q g j (withX w xs) (withX w' xs') p p' xp xB xB' xq →
      GoodRun Q g j (daemonPass (withX w xs) p).1 (daemonPass (withX w' xs') p').1 rest →
      GoodRun Q g j w w' (((p, xs), (p', xs')) :: rest)

/-- **the relation is kept over any number of quiet passes** -/
theorem passes_rel (Q : Bytes → Bool) (g j : Nat) (w w' : W)
    (l : List ((PassIn × List Pm.Dev2.RxCall) × (PassIn × List Pm.Dev2.RxCall)))
    (hr : PassRel Q g j w w') (h : GoodRun Q g j w w' l) :
    PassRel Q g j (passes w (l.map (·.1))) (passes w' (l.map (·.2))) := by
  induction h with
  | nil w w' => exact hr
  | cons w w' p p' xs xs' rest xp xB xB' xq hp _ ih =>
    simp only [passes, List.map_cons, List.foldl_cons] at ih ⊢
    exact ih (pass_rel_step Q g j _ _ p p' xp xB xB' xq (hr.withX xs xs') hp)


end Pm.Daemon
