/- pilot for C05: `dev_post_poll` is a fold of independent per-device steps; what a client that only
   talks to device A gets back does not depend on what device B did -/
namespace Pm.Frame

abbrev Time := Nat

structure CB where
  cid : Nat               -- client the callback is addressed to
  text : Nat              -- payload (abstract)
deriving DecidableEq

/-- the per-device part of a pass is a function of that device's state, that device's I/O answers and
    the clock; it yields the new device state, the callbacks it fired (in order) and the time it wants
    to be woken at (`_update_timeout` takes the minimum) -/
structure Sem (D E : Type) where
  stepDev : D → E → Time → D × List CB × Option Time

def optMin : Option Time → Option Time → Option Time
  | none, t => t
  | t, none => t
  | some a, some b => some (min a b)

/-- `dev_post_poll`: devices in configuration order -/
def postPoll {D E} (S : Sem D E) (now : Time) : List D → List E → List D × List CB × Option Time
  | d :: ds, e :: es =>
    let r := S.stepDev d e now
    let rs := postPoll S now ds es
    (r.1 :: rs.1, r.2.1 ++ rs.2.1, optMin r.2.2 rs.2.2)
  | ds, _ => (ds, [], none)

/-- what client `c` sees of a pass -/
def forClient (c : Nat) (cbs : List CB) : List CB := cbs.filter (·.cid = c)

/-- C05 frame: change the events of one device arbitrarily; every other device ends the pass in the
    same state, and a client none of whose callbacks come from the changed device sees the same
    callbacks in the same order -/
theorem C05_frame {D E} (S : Sem D E) (now : Time) (c : Nat) :
    ∀ (ds : List D) (es es' : List E) (j : Nat), es.length = es'.length →
      (∀ i, i ≠ j → es[i]? = es'[i]?) →
      -- device j has nothing for client c under either behaviour
      (∀ d e e', ds[j]? = some d → es[j]? = some e → es'[j]? = some e' →
          forClient c (S.stepDev d e now).2.1 = [] ∧ forClient c (S.stepDev d e' now).2.1 = []) →
      forClient c (postPoll S now ds es).2.1 = forClient c (postPoll S now ds es').2.1 ∧
      ∀ i, i ≠ j → (postPoll S now ds es).1[i]? = (postPoll S now ds es').1[i]? := by
  intro ds
  induction ds with
  | nil => intro es es' j _ _ _; simp [postPoll]
  | cons d ds ih =>
    intro es es' j hlen hsame hquiet
    cases es with
    | nil =>
      cases es' with
      | nil => simp [postPoll]
      | cons _ _ => simp at hlen
    | cons e es =>
      cases es' with
      | nil => simp at hlen
      | cons e' es' =>
        simp only [postPoll, forClient, List.filter_append]
        cases j with
        | zero =>
          have h0 := hquiet d e e' rfl rfl rfl
          have htail : es = es' := by
            apply List.ext_getElem?
            intro i
            have := hsame (i + 1) (by omega)
            simpa using this
          subst htail
          simp only [forClient] at h0
          refine ⟨by rw [h0.1, h0.2], ?_⟩
          intro i hi
          cases i with
          | zero => exact absurd rfl hi
          | succ i => simp
        | succ j =>
          have he : e = e' := by
            have := hsame 0 (by omega)
            simpa using this
          subst he
          have := ih es es' j (by simpa using hlen)
            (fun i hi => by have := hsame (i + 1) (by omega); simpa using this)
            (fun d0 e0 e0' h1 h2 h3 => hquiet d0 e0 e0' (by simpa using h1) (by simpa using h2) (by simpa using h3))
          refine ⟨by simp only [forClient] at this; rw [this.1], ?_⟩
          intro i hi
          cases i with
          | zero => simp
          | succ i => simpa using this.2 i (by omega)

end Pm.Frame

