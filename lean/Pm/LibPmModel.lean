/-! Mirror of `src/powerman/libpowerman.c` (reply scanner and API) and of the reply loop of the CLI `powerman.c`,
    as repaired (F7a length guard in `_strncmpend`, F7b line-sized node buffer, F20 EOF in `_expect`, F21 descriptor
    bookkeeping in `pm_connect`).  The server is a list of `Chunk`s: what each `read` finds.  Compared with the real code by
    `harness/u_libpm.c` on every run. -/
namespace Pm.LibPmModel

abbrev Bytes := List UInt8

inductive Chunk where
  | data (b : Bytes)
  | eof
  | err
deriving Repr

def prompt : Bytes := [112, 111, 119, 101, 114, 109, 97, 110, 62, 32]      -- "powerman> "
def LINEMAX : Nat := 131072

/-- the kernel: one `read(fd, buf, space)` against the scripted stream.  `none`: end of file (script exhausted, an explicit
    EOF, or an empty data chunk); `some none`: error; `some (some bs)`: `bs` non-empty, at most `space` bytes -/
def readK (cs : List Chunk) (space : Nat) : Option (Option Bytes) × List Chunk :=
  match cs with
  | [] => (none, [])
  | .eof :: r => (none, r)
  | .err :: r => (some none, r)
  | .data b :: r =>
    if b.isEmpty then (none, r)
    else if b.length ≤ space then (some (some b), r)
    else (some (some (b.take space)), .data (b.drop space) :: r)

/-- C string view of a byte buffer: cut at the first NUL -/
def cstr (b : Bytes) : Bytes := b.takeWhile (· != 0)

def endsWith (b s : Bytes) : Bool := b.length ≥ s.length && b.drop (b.length - s.length) == s

/-- `_server_recv_response`, the read loop: accumulate until the buffer ends in the prompt.
    Result: `.ok buf` / error code (7 = PM_ESERVEREOF, 1 = PM_ERRNOVALID) and the chunks left -/
def recvLoop : Nat → Bytes → Nat → List Chunk → Except Nat Bytes × List Chunk
  | 0, buf, _, cs => (.ok buf, cs)            -- fuel exhausted (never with the fuel `recvFuel` gives)
  | fuel + 1, buf, buflen, cs =>
    let buflen := if buflen - buf.length == 0 then buflen + LINEMAX else buflen
    match readK cs (buflen - buf.length) with
    | (none, cs') => (.error 7, cs')
    | (some none, cs') => (.error 1, cs')
    | (some (some bs), cs') =>
      let buf := buf ++ bs
      if endsWith buf prompt then (.ok buf, cs') else recvLoop fuel buf buflen cs'

def chunkBytes : List Chunk → Nat
  | [] => 0
  | .data b :: r => b.length + 1 + chunkBytes r
  | _ :: r => 1 + chunkBytes r
def recvFuel (cs : List Chunk) : Nat := chunkBytes cs + 1

/-- `_parse_response`: the lines (each with its CRLF) found by the index loop `for (i = 0; i < len - 2; i++)`, in stream
    order (the C list holds them in reverse); a CRLF in the last two bytes of the buffer is not seen -/
def parseResponse (buf : Bytes) : List Bytes :=
  let len := buf.length
  let rec go (fuel i p : Nat) (acc : List Bytes) : List Bytes :=
    match fuel with
    | 0 => acc
    | fuel + 1 =>
      if i < len - 2 then
        if buf[i]? == some 13 && buf[i+1]? == some 10 then
          go fuel (i + 1) (i + 2) (acc ++ [(buf.drop p).take (i + 2 - p)])
        else go fuel (i + 1) p acc
      else acc
  go (len + 1) 0 0 []

/-- `sscanf(s, "%d", &code)`: leading white space, optional sign, at least one digit; the value saturates at `LONG_MAX`
    like `strtol` and is then truncated to a 32-bit `int` -/
def isSpace (b : UInt8) : Bool := b == 32 || (9 ≤ b.toNat && b.toNat ≤ 13)
def isDigit (b : UInt8) : Bool := 48 ≤ b.toNat && b.toNat ≤ 57
def digitsVal (ds : Bytes) : Nat := ds.foldl (fun n d => n * 10 + (d.toNat - 48)) 0
def toInt32 (v : Int) : Int :=
  let m := v % 4294967296
  if m ≥ 2147483648 then m - 4294967296 else m
def scanInt (s : Bytes) : Option Int :=
  let s := s.dropWhile isSpace
  let (neg, s) := match s with
    | 45 :: r => (true, r)
    | 43 :: r => (false, r)
    | _ => (false, s)
  let ds := s.takeWhile isDigit
  if ds.isEmpty then none else
  let v : Int := digitsVal ds
  let v := if neg then (if v > 9223372036854775808 then -9223372036854775808 else -v) else (if v > 9223372036854775807 then 9223372036854775807 else v)
  some (toInt32 v)

def successCodes : List Int := [1, 101, 102, 103, 104, 105]
def failureCodes : List Int := [201, 202, 203, 204, 205, 208, 209, 210, 211, 213]

/-- `_server_retcode`: the C loop walks the list (stream order reversed) and lets each 1xx/2xx line overwrite the verdict,
    so the verdict is that of the FIRST such line in stream order; 8 = PM_ESERVERPARSE if there is none -/
def retcode (lines : List Bytes) : Nat :=
  lines.reverse.foldl (fun err l =>
    match scanInt (cstr l) with
    | some c => if successCodes.contains c then 0 else if failureCodes.contains c then c.toNat else err
    | none => err) 8

/-- `_server_recv_response`: (return code, lines when successful — in the C list's order, i.e. last line first) -/
def recvResponse (cs : List Chunk) : Nat × List Bytes × List Chunk :=
  match recvLoop (recvFuel cs) [] 0 cs with
  | (.error e, cs') => (e, [], cs')
  | (.ok buf, cs') =>
    let lines := parseResponse buf
    let rc := retcode lines
    (rc, if rc == 0 then lines.reverse else [], cs')

def crlf : Bytes := [13, 10]
def str (s : String) : Bytes := s.toUTF8.toList

/-- `pm_node_status`: 1 = PM_OFF, 2 = PM_ON, 0 = PM_UNKNOWN; the reply must contain exactly the line `303 node: off|on` -/
def nodeStatus (node : Bytes) (cs : List Chunk) : Nat × Option Nat × List Chunk :=
  let (rc, lines, cs') := recvResponse cs
  if rc != 0 then (rc, none, cs') else
  let node := cstr node
  let off := str "303 " ++ node ++ str ": off" ++ crlf
  let on := str "303 " ++ node ++ str ": on" ++ crlf
  let has (s : Bytes) := lines.any fun l => cstr l == s
  (0, some (if has off then 1 else if has on then 2 else 0), cs')

/-- `sscanf(line, "307 %s")`: the literal, optional white space, then a non-empty word -/
def scan307 (l : Bytes) : Option Bytes :=
  match l with
  | 51 :: 48 :: 55 :: r =>
    let w := (r.dropWhile isSpace).takeWhile (fun b => !isSpace b)
    if w.isEmpty then none else some w
  | _ => none

/-- `pm_node_iterator_create` + iteration: the 307 payloads (the C code prepends while walking its reversed list, so the
    iteration is in stream order) -/
def nodeList (cs : List Chunk) : Nat × List Bytes × List Chunk :=
  let (rc, lines, cs') := recvResponse cs
  if rc != 0 then (rc, [], cs') else
  (0, (lines.filterMap fun l => scan307 (cstr l)).reverse, cs')

/-- `pm_node_on/off/cycle`: the return code of the exchange -/
def simpleCmd (cs : List Chunk) : Nat × List Chunk :=
  let (rc, _, cs') := recvResponse cs
  (rc, cs')

/-- `pm_connect` on an already connected socket: banner exchange, then `exprange`; number of `close` calls on failure -/
def connect (cs : List Chunk) : Nat × Nat × List Chunk :=
  let (rc, _, cs1) := recvResponse cs
  if rc != 0 then (rc, 1, cs1) else
  let (rc, _, cs2) := recvResponse cs1
  if rc != 0 then (rc, 1, cs2) else (0, 0, cs2)

/-! ### the CLI's reply loop (`powerman.c`) -/

inductive CliEnd where
  | exit (status : Nat)
deriving Repr

structure Cli where
  cs : List Chunk
  out : Bytes := []          -- stdout
  errs : Bytes := []         -- stderr

/-- `xreadstr`: byte-wise reads up to and including CRLF; result without the CRLF, cut at the first NUL when used as a string.
    `.error msg`: the process exits with status 1 after printing `msg` -/
def readStr : Nat → Bytes → List Chunk → Except String Bytes × List Chunk
  | 0, _, cs => (.error "fuel", cs)
  | fuel + 1, acc, cs =>
    match readK cs 1 with
    | (none, cs') => (.error "powerman: EOF on read\n", cs')
    | (some none, cs') => (.error "powerman: read: Connection reset by peer\n", cs')
    | (some (some bs), cs') =>
      let acc := acc ++ bs
      if endsWith acc crlf then (.ok (acc.take (acc.length - 2)), cs') else readStr fuel acc cs'

/-- `_expect`: read exactly `s.length` bytes and compare -/
def expectLoop : Nat → Bytes → Nat → List Chunk → Except String Bytes × List Chunk
  | 0, _, _, cs => (.error "fuel", cs)
  | fuel + 1, acc, need, cs =>
    match readK cs need with
    | (none, cs') => (.error "powerman: lost connection with server\n", cs')
    | (some none, cs') => (.error "powerman: lost connection with server: Connection reset by peer\n", cs')
    | (some (some bs), cs') =>
      let acc := acc ++ bs
      let need := need - bs.length
      if need == 0 then (.ok acc, cs') else expectLoop fuel acc need cs'

def expect (s : Bytes) (cs : List Chunk) : Except String Unit × List Chunk :=
  match expectLoop (s.length + 1) [] s.length cs with
  | (.error m, cs') => (.error m, cs')
  | (.ok got, cs') =>
    -- strcmp: both are C strings
    if cstr got == s then (.ok (), cs') else (.error "powerman: unexpected response from server\n", cs')

/-- `strtol(buf, NULL, 10)` with the CLI's clamp: `LONG_MIN`/`LONG_MAX` ⇒ −1; no digits ⇒ 0 -/
def strtolCli (s : Bytes) : Int :=
  let s := s.dropWhile isSpace
  let (neg, s) := match s with
    | 45 :: r => (true, r)
    | 43 :: r => (false, r)
    | _ => (false, s)
  let ds := s.takeWhile isDigit
  let v : Int := digitsVal ds
  if neg then (if v ≥ 9223372036854775808 then -1 else -v) else (if v ≥ 9223372036854775807 then -1 else v)

/-- `_process_line`: returns the number, appends the text to stdout / stderr -/
def processLine (c : Cli) : Except String Int × Cli :=
  match readStr (chunkBytes c.cs + 2) [] c.cs with
  | (.error m, cs') => (.error m, { c with cs := cs' })
  | (.ok raw, cs') =>
    let buf := cstr raw
    let num := strtolCli buf
    if buf.length > 4 then
      let text := buf.drop 4 ++ [10]
      let c := { c with cs := cs' }
      -- the function returns `int`: the `long` is truncated on return (`_suppress` and `getstream` see the `long`)
      if num == 103 || num == 104 || num == 105 then (.ok (toInt32 num), c)
      else if num == 309 then (.ok (toInt32 num), { c with errs := c.errs ++ text })
      else (.ok (toInt32 num), { c with out := c.out ++ text })
    else (.error "powerman: unexpected response from server\n", { c with cs := cs' })

/-- `_process_response`: lines until a 1xx/2xx one; result `res` = the 2xx code or 0 -/
def processResponse : Nat → Cli → Except String Int × Cli
  | 0, c => (.error "fuel", c)
  | fuel + 1, c =>
    match processLine c with
    | (.error m, c) => (.error m, c)
    | (.ok num, c) =>
      if 100 ≤ num && num < 300 then (.ok (if 200 ≤ num then num else 0), c) else processResponse fuel c

/-- `sscanf(buf, "001 %s\r\n", vers) == 1` -/
def scanVersion (l : Bytes) : Option Bytes :=
  match l with
  | 48 :: 48 :: 49 :: r =>
    let w := (r.dropWhile isSpace).takeWhile (fun b => !isSpace b)
    if w.isEmpty then none else some w
  | _ => none

structure CliOpts where
  telemetry : Bool
  exprange : Bool
  version : Bytes              -- the client's PACKAGE_VERSION

def goodbye : Bytes := str "101 Goodbye" ++ crlf

/-- everything `main` does after connecting; result: exit status (as `exit()` receives it), stdout, stderr -/
def cliRun (o : CliOpts) (cs : List Chunk) : Int × Bytes × Bytes :=
  let fuel := chunkBytes cs + 2
  let fail (m : String) (c : Cli) : Int × Bytes × Bytes := (1, c.out, c.errs ++ str m)
  let c : Cli := { cs := cs }
  -- _process_version
  match readStr fuel [] c.cs with
  | (.error m, cs') => fail m { c with cs := cs' }
  | (.ok raw, cs') =>
    let c := { c with cs := cs' }
    match scanVersion (cstr raw) with
    | none => fail "powerman: unexpected response from server\n" c
    | some v =>
      let c := if v != o.version then { c with errs := c.errs ++ str "powerman: warning: server version (" ++ v ++ str ") != client (" ++ o.version ++ str ")\n" } else c
      match expect prompt c.cs with
      | (.error m, cs') => fail m { c with cs := cs' }
      | (.ok (), cs') =>
        let c := { c with cs := cs' }
        -- option exchanges and the main command are the same exchange: response, then prompt; stop at the first failure
        let exchange (c : Cli) : Except String Int × Cli :=
          match processResponse fuel c with
          | (.error m, c) => (.error m, c)
          | (.ok res, c) =>
            match expect prompt c.cs with
            | (.error m, cs') => (.error m, { c with cs := cs' })
            | (.ok (), cs') => (.ok res, { c with cs := cs' })
        let n := (if o.telemetry then 1 else 0) + (if o.exprange then 1 else 0) + 1
        let rec run (k : Nat) (c : Cli) : Except String Int × Cli :=
          match k with
          | 0 => (.ok 0, c)
          | k + 1 =>
            match exchange c with
            | (.error m, c) => (.error m, c)
            | (.ok res, c) => if res != 0 then (.ok res, c) else run k c
        match run n c with
        | (.error m, c) => fail m c
        | (.ok res, c) =>
          match expect goodbye c.cs with
          | (.error m, cs') => fail m { c with cs := cs' }
          | (.ok (), _) => (res, c.out, c.errs)

end Pm.LibPmModel
