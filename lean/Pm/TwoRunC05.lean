import Pm.TwoRun
import Pm.FrameMulti
/-! C05 with a general client phase.

    Two runs that differ only in device `B` (position `j` of the device list, plugs `PB`): its state, its descriptor's events, the
    regex answers it consumes.  Clients on descriptors outside a set `F` ("tracked": same record in both runs) may send
    anything that does not *observe* `B` (`NotObs`); clients on descriptors of `F` (they may have actions in flight on `B`,
    and so differ between the runs) send nothing.  Then every pass keeps the relation: tracked clients have the same
    record, every device but `B` is in the same state. -/
namespace Pm.Daemon.TwoRun
open Pm Pm.Client Pm.Daemon Pm.Daemon.Isolation
open Pm.Dev2 (Dev Plug SAgree QOn QOff ActsOK withArgs)

/-! ### what a request line may not do: observe `B` -/

/-- the target list `bn` names a node wired to one of the plugs `PB` (`_command_needs_device`) -/
def Touch (PB : List Plug) (bn : List Bytes) : Bool :=
  PB.any fun p => match p.node with | some n => bn.contains n | none => false

/-- the selection `t` of a `device` query (`none`: no argument, every device) covers a device with the plugs `PB` -/
def Hit (PB : List Plug) (t : Option Hostlist) : Bool :=
  match t with
  | none => true
  | some hl => PB.any fun p => match p.node with | some n => (find hl (toChars n)).isSome | none => false

theorem needsDev_touch (d : Dev) (bn : List Bytes) : needsDev d bn = Touch d.plugs bn := rfl
theorem devHit_hit (t : Option Hostlist) (d : Dev) : ClientPf.devHit t d = Hit d.plugs t := by
  cases t <;> rfl

/-- **the request line does not observe the device with the plugs `PB`** (alias table `als`).  Following the cascade of
    `_parse_input`: `help`, `nodes`, `telemetry`, `exprange`, `quit`, an over-long line and an unknown command never do; a
    power command or query with a target list does not if none of its alias-expanded targets is a node of `PB`; a `device`
    query with an argument does not if the argument selects no node of `PB`.  A bare `status`/`temp`/`beacon` (all nodes)
    and a bare `device` (all devices) *do* observe it. -/
def NotObs (PB : List Plug) (als : List (Name × List Name)) (line : Bytes) : Prop :=
  LineP (fun names => Touch PB (names.map ofChars) = false) (fun t => Hit PB t = false) als line

theorem RestP.mono {IOK IOK' : List Name → Prop} {DOK DOK' : Option Hostlist → Prop} {als : List (Name × List Name)} {str : Bytes}
    (h1 : ∀ n, IOK n → IOK' n) (h2 : ∀ t, DOK t → DOK' t) (h : RestP IOK DOK als str) : RestP IOK' DOK' als str := by
  unfold RestP at h ⊢
  split
  · rename_i hm
    rw [hm] at h
    dsimp only at h
    split
    · rename_i hb; rw [if_pos hb] at h; exact fun n => h1 n (h n)
    · rename_i hb; rw [if_neg hb] at h; exact fun a ha => h2 _ (h a ha)
  · rename_i com arg hm
    rw [hm] at h
    exact fun hl hc => h1 _ (h hl hc)

theorem LineP.mono {IOK IOK' : List Name → Prop} {DOK DOK' : Option Hostlist → Prop} {als : List (Name × List Name)} {line : Bytes}
    (h1 : ∀ n, IOK n → IOK' n) (h2 : ∀ t, DOK t → DOK' t) (h : LineP IOK DOK als line) : LineP IOK' DOK' als line :=
  fun hl a1 a2 a3 a4 a5 => RestP.mono h1 h2 (h hl a1 a2 a3 a4 a5)

/-! ### the relation between the two device lists, and what `install` and the `device` query need of it -/

/-- the device lists agree (stale store copies apart) except at position `j`, where both hold a device of the same name with the
    plugs `PB` -/
def DRL2 (j : Nat) (PB : List Plug) (l l' : Devs) : Prop :=
  DevsRel j l l' ∧ ∀ B B', l[j]? = some B → l'[j]? = some B' → B.1 = B'.1 ∧ B.2.plugs = PB ∧ B'.2.plugs = PB

theorem map_eq_pointwise {α β : Type} (f g : α → β) (l l' : List α) (hlen : l.length = l'.length)
    (h : ∀ (i : Nat) a b, l[i]? = some a → l'[i]? = some b → f a = g b) : l.map f = l'.map g := by
  apply List.ext_getElem?
  intro i
  rw [List.getElem?_map, List.getElem?_map]
  cases ha : l[i]? with
  | none =>
    have : l'[i]? = none := by
      rw [List.getElem?_eq_none_iff] at ha ⊢; omega
    rw [this]; rfl
  | some a =>
    cases hb : l'[i]? with
    | none =>
      rw [List.getElem?_eq_none_iff] at hb
      have := (List.getElem?_eq_some_iff.mp ha).1
      omega
    | some b => simp [h i a b ha hb]

theorem foldl_eq_pointwise {α β : Type} (f g : β → α → β) : ∀ (l l' : List α) (x : β), l.length = l'.length →
    (∀ (i : Nat) a b acc, l[i]? = some a → l'[i]? = some b → f acc a = g acc b) → l.foldl f x = l'.foldl g x := by
  intro l
  induction l with
  | nil => intro l' x hl _; cases l' with | nil => rfl | cons _ _ => simp at hl
  | cons a r ih =>
    intro l' x hl h
    cases l' with
    | nil => simp at hl
    | cons b r' =>
      rw [List.foldl_cons, List.foldl_cons, h 0 a b x rfl rfl]
      exact ih r' _ (by simpa using hl) (fun i a' b' acc ha hb => h (i + 1) a' b' acc (by simpa using ha) (by simpa using hb))

/-- a function of a device that does not look at its (stale) store copy agrees on two devices that are equal up to that copy -/
theorem strip_congr {α : Type} (f : Dev → α) (hf : ∀ d s, f (withArgs d s) = f d) {nd nd' : Bytes × Dev} (h : strip nd = strip nd') :
    f nd.2 = f nd'.2 := by
  have h2 : withArgs nd.2 [] = withArgs nd'.2 [] := congrArg Prod.snd h
  rw [← hf nd.2 [], ← hf nd'.2 [], h2]

theorem installDev_strip (com : Nat) (bn : List Bytes) (cid : Nat) (tele : Bool) (al : Nat) (nd : Bytes × Dev) :
    strip (Enq.installDev com bn cid tele al nd) = Enq.installDev com bn cid tele al (strip nd) := by
  unfold Enq.installDev strip
  simp only [Enq.enqueue_eq]
  show (nd.1, withArgs _ []) = (nd.1, _)
  congr 1
  have h1 : (withArgs nd.2 []).plugs = nd.2.plugs := rfl
  have h2 : (withArgs nd.2 []).scripts = nd.2.scripts := rfl
  have h3 : (withArgs nd.2 []).acts = nd.2.acts := rfl
  have h4 : (withArgs nd.2 []).conn = nd.2.conn := rfl
  rw [h1, h2, h3, h4]
  by_cases hc : (decide ((Enq.newActs nd.2.plugs nd.2.scripts com bn cid tele al).length > 0) && nd.2.conn != 2) = true
  · rw [if_pos hc, if_pos hc]; rfl
  · rw [if_neg hc, if_neg hc]; rfl

theorem strip_installDev {nd nd' : Bytes × Dev} (h : strip nd = strip nd') (com : Nat) (bn : List Bytes) (cid : Nat) (tele : Bool) (al : Nat) :
    strip (Enq.installDev com bn cid tele al nd) = strip (Enq.installDev com bn cid tele al nd') := by
  rw [installDev_strip, installDev_strip, h]

section Closure
variable {j : Nat} {PB : List Plug}

theorem DRL2.at_ne {l l' : Devs} (h : DRL2 j PB l l') (i : Nat) (hi : i ≠ j) (a b : Bytes × Dev) (ha : l[i]? = some a)
    (hb : l'[i]? = some b) : strip a = strip b := by
  have := h.1.2 i hi
  rw [ha, hb] at this
  simpa using this

/-- `install` with a target list that names no node of `PB`: the same verdict, the same number of actions, related lists -/
theorem instOK_drl2 (bn : List Bytes) (hT : Touch PB bn = false) : InstOK (DRL2 j PB) bn := by
  intro l l' h com cid tele al
  have hlen := h.1.1
  refine ⟨?_, ?_, ?_⟩
  · have : l'.map (fun (nd : Bytes × Dev) => needsDev nd.2 bn && !handles nd.2 com bn) =
        l.map (fun (nd : Bytes × Dev) => needsDev nd.2 bn && !handles nd.2 com bn) := by
      apply map_eq_pointwise _ _ _ _ hlen.symm
      intro i b a hb ha
      by_cases hi : i = j
      · subst hi
        obtain ⟨_, p1, p2⟩ := h.2 a b ha hb
        rw [needsDev_touch, needsDev_touch, p1, p2, hT]
        simp
      · exact (strip_congr (fun d => needsDev d bn && !handles d com bn) (fun _ _ => rfl) (h.at_ne i hi a b ha hb)).symm
    have e : ∀ (x : Devs), x.any (fun (nd : Bytes × Dev) => needsDev nd.2 bn && !handles nd.2 com bn) =
        (x.map (fun (nd : Bytes × Dev) => needsDev nd.2 bn && !handles nd.2 com bn)).any id := by
      intro x; rw [List.any_map]; rfl
    rw [e, e, this]
  · unfold Enq.installTotal
    congr 1
    apply map_eq_pointwise _ _ _ _ hlen.symm
    intro i b a hb ha
    by_cases hi : i = j
    · subst hi
      obtain ⟨_, p1, p2⟩ := h.2 a b ha hb
      rw [Enq.newActs_uninvolved (by rw [p2]; exact hT), Enq.newActs_uninvolved (by rw [p1]; exact hT)]
    · exact (strip_congr (fun d => (Enq.newActs d.plugs d.scripts com bn cid tele al).length) (fun _ _ => rfl) (h.at_ne i hi a b ha hb)).symm
  · refine ⟨⟨by simp [hlen], ?_⟩, ?_⟩
    · intro i hi
      rw [List.getElem?_map, List.getElem?_map]
      cases ha : l[i]? with
      | none =>
        have : l'[i]? = none := by rw [List.getElem?_eq_none_iff] at ha ⊢; omega
        rw [this]
      | some a =>
        cases hb : l'[i]? with
        | none =>
          rw [List.getElem?_eq_none_iff] at hb
          have := (List.getElem?_eq_some_iff.mp ha).1
          omega
        | some b =>
          simp only [Option.map_some]
          rw [strip_installDev (h.at_ne i hi a b ha hb)]
    · intro B B' hB hB'
      rw [List.getElem?_map] at hB hB'
      cases ha : l[j]? with
      | none => rw [ha] at hB; cases hB
      | some a =>
        cases hb : l'[j]? with
        | none => rw [hb] at hB'; cases hB'
        | some b =>
          rw [ha] at hB; rw [hb] at hB'
          simp only [Option.map_some, Option.some.injEq] at hB hB'
          obtain ⟨p0, p1, p2⟩ := h.2 a b ha hb
          have e1 : needsDev a.2 bn = false := by rw [needsDev_touch, p1]; exact hT
          have e2 : needsDev b.2 bn = false := by rw [needsDev_touch, p2]; exact hT
          rw [Enq.installDev_uninvolved e1] at hB
          rw [Enq.installDev_uninvolved e2] at hB'
          subst hB hB'
          exact ⟨p0, p1, p2⟩

/-- a `device` query whose selection covers no node of `PB`: the same reply -/
theorem devOK_drl2 (t : Option Hostlist) (hH : Hit PB t = false) : DevOK (DRL2 j PB) t := by
  intro l l' h w w' hs
  apply foldl_eq_pointwise _ _ _ _ _ h.1.1.symm
  intro i b a acc hb ha
  by_cases hi : i = j
  · subst hi
    obtain ⟨_, p1, p2⟩ := h.2 a b ha hb
    cases acc with
    | none => rfl
    | some bytes =>
      rw [ClientPf.devStep_some, ClientPf.devStep_some, devHit_hit, devHit_hit, p1, p2, hH]
      rfl
  · have hst := h.at_ne i hi a b ha hb
    have hn : a.1 = b.1 := strip_fst hst
    have := strip_congr (fun d => ClientPf.devStep w t acc (a.1, d)) (fun _ _ => rfl) hst
    have e1 : ClientPf.devStep w t acc a = ClientPf.devStep w t acc (a.1, a.2) := rfl
    have e2 : ClientPf.devStep w' t acc b = ClientPf.devStep w t acc (a.1, b.2) := by
      rw [hn]
      simp only [ClientPf.devStep, hs]
    rw [e1, e2]
    exact this.symm

/-- a request line that does not observe `B` needs nothing more of the device lists than `DRL2` gives -/
theorem lineOK_of_notObs (als : List (Name × List Name)) (line : Bytes) (h : NotObs PB als line) : LineOK (DRL2 j PB) als line :=
  LineP.mono (fun _ hn => instOK_drl2 _ hn) (fun _ ht => devOK_drl2 _ ht) h

end Closure

theorem ofChars_toChars (b : Bytes) : ofChars (toChars b) = b := by
  unfold toChars ofChars
  rw [List.map_map]
  conv => rhs; rw [← List.map_id b]
  apply List.map_congr_left
  intro x _
  simp only [Function.comp_apply, id]
  rw [Reply.toNat_ofNat_small _ x.toNat_lt]
  simp

/-- a target list that names no node of `PB`, when every node outside `Q` is a node of `PB`: all targets are `Q`-nodes -/
theorem namesQ_of_noTouch (Q : Bytes → Bool) (PB : List Plug) (hQB : ∀ nb, Q nb = false → ∃ p ∈ PB, p.node = some nb)
    (names : List Name) (h : Touch PB (names.map ofChars) = false) : NamesQ Q names := by
  intro nb hnb
  cases hq : Q nb with
  | true => rfl
  | false =>
    obtain ⟨p, hp, hn⟩ := hQB nb hq
    have : Touch PB (names.map ofChars) = true := by
      unfold Touch
      rw [List.any_eq_true]
      refine ⟨p, hp, ?_⟩
      rw [hn]
      simp only [List.contains_eq_mem, List.mem_map, decide_eq_true_eq]
      exact ⟨toChars nb, hnb, ofChars_toChars nb⟩
    rw [h] at this; cases this

/-! ### one pass: the device phase after an arbitrary client phase -/

/-- `pass_rel_core` of `Pm/FrameMulti.lean` with the facts about the worlds the client phase leaves (`w0`, `w0'`) as hypotheses
    instead of a quiet client phase -/
theorem pass_core_gen (Q : Bytes → Bool) (g j : Nat) (w w' : W) (p p' : PassIn) (xp xB xB' xq : List Pm.Dev2.RxCall)
    (w0 w0' : W) (pre post pre' post' : List (Bytes × Dev)) (B B' : Bytes × Dev)
    (hw0 : cliPostPoll w p.acc p.envs = w0) (hw0' : cliPostPoll w' p'.acc p'.envs = w0')
    (hex : w0.exited = false) (hex' : w0'.exited = false)
    (hcli : cliRec w0 g = cliRec w0' g) (hgok : GOk Q w0 g) (hst : SAgree Q w0.store w0'.store)
    (hn1 : w0.nsock = w0'.nsock) (hn2 : w0.npair = w0'.npair) (hn3 : w0.nfork = w0'.nfork)
    (hs : w0.devs = pre ++ B :: post) (hs' : w0'.devs = pre' ++ B' :: post') (hpl : pre.length = j) (hpl' : pre'.length = j)
    (hpre : pre.map strip = pre'.map strip) (hpost : post.map strip = post'.map strip)
    (hclock : SameClock p p') (hx : w0.pendingX = xp ++ (xB ++ xq)) (hx' : w0'.pendingX = xp ++ (xB' ++ xq))
    (hothers : ∀ nd ∈ pre ++ post, SameEvents p p' nd ∧ QOn Q nd.2 ∧ ActsOK Q nd.2.acts)
    (hg : g ≠ 0) (hq : ∀ x ∈ B.2.acts, x.clientId ≠ g) (hq' : ∀ x ∈ B'.2.acts, x.clientId ≠ g)
    (hQ : QOff Q B.2) (hQ' : QOff Q B'.2)
    (halive : ((pre ++ B :: post).foldl (devPass p) (acc0 w0)).dead = false)
    (halive' : ((pre' ++ B' :: post').foldl (devPass p') (acc0 w0')).dead = false)
    (E1 : ExactOn p (acc0 w0) pre xp) (E1' : ExactOn p' (acc0 w0') pre' xp)
    (E2 : ExactOn p (pre.foldl (devPass p) (acc0 w0)) [B] xB) (E2' : ExactOn p' (pre'.foldl (devPass p') (acc0 w0')) [B'] xB')
    (c1 : (devPass p (pre.foldl (devPass p) (acc0 w0)) B).w.nsock = (devPass p' (pre'.foldl (devPass p') (acc0 w0')) B').w.nsock)
    (c2 : (devPass p (pre.foldl (devPass p) (acc0 w0)) B).w.npair = (devPass p' (pre'.foldl (devPass p') (acc0 w0')) B').w.npair)
    (c3 : (devPass p (pre.foldl (devPass p) (acc0 w0)) B).w.nfork = (devPass p' (pre'.foldl (devPass p') (acc0 w0')) B').w.nfork) :
    PassRel Q g j (daemonPass w p).1 (daemonPass w' p').1 := by
  subst hpl
  have hl2 : (pre' ++ B' :: post').map strip = (pre ++ B' :: post).map strip := by
    simp only [List.map_append, List.map_cons, hpre, hpost]
  have hv := foldl_sansDevs p' (pre' ++ B' :: post') (pre ++ B' :: post) (acc0 w0') (acc0 w0') rfl hl2
  have hvd := foldl_strip_devs p' (pre' ++ B' :: post') (pre ++ B' :: post) (acc0 w0') (acc0 w0') rfl rfl hl2
  have hpre_s := foldl_sansDevs p' pre' pre (acc0 w0') (acc0 w0') rfl hpre.symm
  have hBs := devPass_sansDevs p' _ _ (nd := B') (nd' := B') hpre_s rfl
  have E1v : ExactOn p' (acc0 w0') pre xp := E1'.transfer rfl hpre.symm
  have E2v : ExactOn p' (pre.foldl (devPass p') (acc0 w0')) [B'] xB' := E2'.transfer hpre_s rfl
  have hcore : AccCore Q g pre.length (acc0 w0) (acc0 w0') := ⟨hcli, hgok, hst, rfl, fun _ _ => rfl⟩
  have hrel := fold_noninterference Q p p' pre post B B' (acc0 w0) (acc0 w0') g xp xB xB' xq hclock hcore rfl
    hn1 hn2 hn3 hx hx'
    hothers hg hq hq' hQ hQ' halive (by rw [← sansDevs_dead hv]; exact halive') E1 E1v E2 E2v
    (by rw [c1]; exact congrArg W.nsock (sansDevs_w hBs.1))
    (by rw [c2]; exact congrArg W.npair (sansDevs_w hBs.1))
    (by rw [c3]; exact congrArg W.nfork (sansDevs_w hBs.1))
  rw [daemonPass_fst, daemonPass_fst]
  dsimp only
  rw [hw0, hw0']
  simp only [hex, hex', Bool.false_eq_true, ↓reduceIte, hs, hs']
  have hw2 := sansDevs_w hv
  have hlen2 : ((pre' ++ B' :: post').foldl (devPass p') (acc0 w0')).devs.length = ((pre ++ B' :: post).foldl (devPass p') (acc0 w0')).devs.length := by
    have := congrArg List.length hvd; simpa using this
  exact {
    cli := by show cliRec _ g = cliRec _ g; rw [hw2]; exact hrel.cli
    gok := hrel.gok
    store := by show SAgree Q _ _; rw [hw2]; exact hrel.store
    nsock := by show W.nsock _ = W.nsock _; rw [hw2]; exact hrel.nsock
    npair := by show W.npair _ = W.npair _; rw [hw2]; exact hrel.npair
    nfork := by show W.nfork _ = W.nfork _; rw [hw2]; exact hrel.nfork
    devs := by
      refine ⟨by rw [hlen2]; exact hrel.len, ?_⟩
      intro i hi
      have h1 := hrel.devs i hi
      have h2 : (((pre' ++ B' :: post').foldl (devPass p') (acc0 w0')).devs.map strip)[i]? = (((pre ++ B' :: post).foldl (devPass p') (acc0 w0')).devs.map strip)[i]? := by rw [hvd]
      rw [List.getElem?_map, List.getElem?_map] at h2
      rw [h2]; exact h1
    ex := by show W.exited _ = false; rw [foldl_exited]; exact hex
    ex' := by show W.exited _ = false; rw [foldl_exited]; exact hex' }

/-! ### the client phase -/

theorem sagree_cons (Q : Bytes → Bool) : ∀ (s s' : Store) (x : Nat × List Pm.Dev2.Arg), SAgree Q s s' → SAgree Q (x :: s) (x :: s') := by
  intro s s' x h al
  have e : ∀ t : Store, Pm.Dev2.cell (x :: t) al = if al == x.1 then x.2 else Pm.Dev2.cell t al := by
    intro t
    unfold Pm.Dev2.cell
    rw [List.lookup_cons]
    split <;> simp_all
  rw [e, e]
  split
  · rfl
  · exact h al

/-- single run: every table entry after `cli_post_poll` stems from a served client with the same id and descriptor, and its
    command is that client's old one or a new one whose targets satisfy `NOK` — provided the client's request lines in this
    pass only name target lists that satisfy `NOK` -/
theorem cliPostPoll_cmdstep (NOK : List Name → Prop) (w : W) (p : PassIn) :
    ∀ x ∈ (cliPostPoll w p.acc p.envs).clients, ∃ c ∈ servedIn w p, c.id = x.id ∧ c.fd = x.fd ∧
      ((∀ l ∈ turnLines c (p.envs.find? (·.fd == c.fd)), LineP NOK (fun _ => True) w.cfg.aliases l) → CmdStep NOK c x) := by
  rw [ClientPf.cliPostPoll_eq]
  unfold servedIn
  generalize hu : ClientPf.cliAccept { w with sys := [], caps := p.envs.map fun (e : FdEnv) => (e.fd, e.cap) } p.acc = u
  have hal : u.cfg.aliases = w.cfg.aliases := by
    rw [← hu]; unfold ClientPf.cliAccept; split
    · rfl
    · split <;> rfl
  have key : ∀ (l : List Cli) (v : W), v.cfg.aliases = w.cfg.aliases → (∀ c ∈ l, c ∈ u.clients) →
      (∀ x ∈ v.clients, ∃ c ∈ u.clients, c.id = x.id ∧ c.fd = x.fd ∧
        ((∀ l ∈ turnLines c (p.envs.find? (·.fd == c.fd)), LineP NOK (fun _ => True) w.cfg.aliases l) → CmdStep NOK c x)) →
      ∀ x ∈ (l.foldl (ClientPf.cliStep p.envs) v).clients, ∃ c ∈ u.clients, c.id = x.id ∧ c.fd = x.fd ∧
        ((∀ l ∈ turnLines c (p.envs.find? (·.fd == c.fd)), LineP NOK (fun _ => True) w.cfg.aliases l) → CmdStep NOK c x) := by
    intro l
    induction l with
    | nil => intro v _ _ h; exact h
    | cons c0 r ih =>
      intro v hv hl h
      rw [List.foldl_cons]
      by_cases hex : v.exited = true
      · have e1 : ClientPf.cliStep p.envs v c0 = v := by unfold ClientPf.cliStep; simp [hex]
        rw [e1]
        exact ih v hv (fun c hc => hl c (by simp [hc])) h
      · have hex0 : v.exited = false := by simpa using hex
        obtain ⟨t1, t2⟩ := cliStep_tab p.envs v c0 hex0
        refine ih _ ?_ (fun c hc => hl c (by simp [hc])) ?_
        · rw [t1]
          show (clientPass v c0 _).1.cfg.aliases = _
          rw [clientPass_aliases, hv]
        · rw [t1]
          intro x hx
          have hx : x ∈ tabUpd (clientPass v c0 (p.envs.find? (·.fd == c0.fd))).2 c0.id v.clients := hx
          cases ho : (clientPass v c0 (p.envs.find? (·.fd == c0.fd))).2 with
          | none =>
            rw [ho] at hx
            simp only [tabUpd, List.mem_filter] at hx
            exact h x hx.1
          | some x1 =>
            rw [ho] at hx
            simp only [tabUpd, List.mem_map] at hx
            obtain ⟨y, hy, rfl⟩ := hx
            split
            · refine ⟨c0, hl c0 (by simp), (t2 x1 ho).1.symm, (t2 x1 ho).2.symm, fun hL => ?_⟩
              exact clientPass_cmd NOK v c0 _ x1 ho (by rw [hv]; exact hL)
            · exact h y hy
  exact key u.clients u hal (fun c hc => hc) (fun x hx => ⟨x, hx, rfl, rfl, fun _ => CmdStep.refl NOK x⟩)

/-- the relation between the worlds of the two runs, between passes (`Q`: the nodes that are not wired to `B`; `F`: the
    descriptors of the clients that are *not* tracked) -/
structure MRel (Q : Bytes → Bool) (F : Nat → Bool) (j : Nat) (PB : List Plug) (w w' : W) : Prop where
  cfg : w'.cfg = w.cfg
  specs : w'.specs = w.specs
  alNext : w'.alNext = w.alNext
  nextId : w'.nextId = w.nextId
  nacc : w'.nacc = w.nacc
  nsock : w'.nsock = w.nsock
  npair : w'.npair = w.npair
  nfork : w'.nfork = w.nfork
  ex : w.exited = false
  ex' : w'.exited = false
  store : SAgree Q w.store w'.store
  devs : DRL2 j PB w.devs w'.devs
  tab : w'.clients.filter (nonF F) = w.clients.filter (nonF F)
  gok : ∀ c ∈ w.clients, F c.fd = false → ∀ k, c.cmd = some k → NamesQ Q k.names
  sys : w'.sys.filter (offF F) = w.sys.filter (offF F)
  nob : ∀ B, w.devs[j]? = some B → ∀ x ∈ B.2.acts, ∀ c ∈ w.clients, F c.fd = false → x.clientId ≠ c.id
  nob' : ∀ B', w'.devs[j]? = some B' → ∀ x ∈ B'.2.acts, ∀ c ∈ w'.clients, F c.fd = false → x.clientId ≠ c.id

/-- what is assumed of the client phase of one pass: the same `accept` verdict; the same events on the descriptors outside `F`; a
    client accepted in this pass is tracked; the request lines of the tracked clients do not observe `B`; the other clients
    are inert; both worlds satisfy the id discipline -/
structure CliHyps (F : Nat → Bool) (PB : List Plug) (w w' : W) (p p' : PassIn) : Prop where
  acc : p'.acc = p.acc
  evs : ∀ fd, F fd = false → p'.envs.find? (·.fd == fd) = p.envs.find? (·.fd == fd)
  newfd : F (1000 + w.nacc) = false
  lines : ∀ c ∈ servedIn w p, F c.fd = false → ∀ l ∈ turnLines c (p.envs.find? (·.fd == c.fd)), NotObs PB w.cfg.aliases l
  inert : ∀ c ∈ w.clients, F c.fd = true → Inert p.envs c
  inert' : ∀ c ∈ w'.clients, F c.fd = true → Inert p'.envs c
  ids : IdsFresh w
  ids' : IdsFresh w'

/-! ### a single-run fact from the two-run lemma on the diagonal: the client phase leaves `B` alone -/

/-- the device lists are equal and position `j` holds the device `B` -/
def DRLfix (j : Nat) (B : Bytes × Dev) : Devs → Devs → Prop := fun l l' => l' = l ∧ l[j]? = some B

theorem instOK_fix (j : Nat) (B : Bytes × Dev) (bn : List Bytes) (hT : Touch B.2.plugs bn = false) : InstOK (DRLfix j B) bn := by
  intro l l' h com cid tele al
  obtain ⟨rfl, hj⟩ := h
  refine ⟨rfl, rfl, rfl, ?_⟩
  rw [List.getElem?_map, hj]
  simp only [Option.map_some]
  rw [Enq.installDev_uninvolved (by rw [needsDev_touch]; exact hT)]

theorem devOK_fix (j : Nat) (B : Bytes × Dev) (t : Option Hostlist) : DevOK (DRLfix j B) t := by
  intro l l' h w w' hs
  obtain ⟨rfl, _⟩ := h
  have : ClientPf.devStep w' t = ClientPf.devStep w t := by
    funext acc nd
    simp only [ClientPf.devStep, hs]
  rw [this]

theorem lineOK_fix (j : Nat) (B : Bytes × Dev) (als : List (Name × List Name)) (line : Bytes) (h : NotObs B.2.plugs als line) :
    LineOK (DRLfix j B) als line :=
  LineP.mono (fun _ hn => instOK_fix j B _ hn) (fun _ _ => devOK_fix j B _) h

/-- **the client phase leaves the device at position `j` exactly as it is** when the tracked clients' lines do not observe it and
    the other clients are inert -/
theorem cliPostPoll_fixB (F : Nat → Bool) (j : Nat) (B : Bytes × Dev) (w : W) (p : PassIn) (hB : w.devs[j]? = some B)
    (hlines : ∀ c ∈ servedIn w p, F c.fd = false → ∀ l ∈ turnLines c (p.envs.find? (·.fd == c.fd)), NotObs B.2.plugs w.cfg.aliases l)
    (hinert : ∀ c ∈ w.clients, F c.fd = true → Inert p.envs c) (hnewfd : F (1000 + w.nacc) = false) (hids : IdsFresh w) :
    (cliPostPoll w p.acc p.envs).devs[j]? = some B :=
  (cliPostPoll_merge (F := F) (DRL := DRLfix j B) (SR := SEq) hSEq w w p p rfl rfl rfl rfl ⟨rfl, hB⟩ rfl rfl rfl rfl rfl
    (fun _ _ => rfl) hnewfd (fun c hc hF l hl => lineOK_fix j B _ l (hlines c hc hF l hl)) hinert hinert hids hids).1.devs.1 ▸
  (cliPostPoll_merge (F := F) (DRL := DRLfix j B) (SR := SEq) hSEq w w p p rfl rfl rfl rfl ⟨rfl, hB⟩ rfl rfl rfl rfl rfl
    (fun _ _ => rfl) hnewfd (fun c hc hF l hl => lineOK_fix j B _ l (hlines c hc hF l hl)) hinert hinert hids hids).1.devs.2

theorem servedIn_cases2 (w : W) (p : PassIn) (c : Cli) (h : c ∈ servedIn w p) : c ∈ w.clients ∨ (c.id = w.nextId ∧ c.fd = 1000 + w.nacc) := by
  unfold servedIn ClientPf.cliAccept at h
  split at h
  · have h : c ∈ w.clients ++ [ClientPf.newClient { w with sys := [], caps := p.envs.map fun (e : FdEnv) => (e.fd, e.cap) }] := h
    rcases List.mem_append.mp h with h | h
    · exact Or.inl h
    · simp only [List.mem_singleton] at h
      subst h
      exact Or.inr ⟨rfl, rfl⟩
  · split at h <;> exact Or.inl h

/-- **the client phase in both runs** -/
theorem cliPostPoll_gen (Q : Bytes → Bool) (F : Nat → Bool) (j : Nat) (PB : List Plug) (w w' : W) (p p' : PassIn)
    (hr : MRel Q F j PB w w') (hc : CliHyps F PB w w' p p') :
    CRel F (DRL2 j PB) (SAgree Q) w.cfg.aliases (cliPostPoll w p.acc p.envs) (cliPostPoll w' p'.acc p'.envs) ∧
    (cliPostPoll w' p'.acc p'.envs).clients.filter (nonF F) = (cliPostPoll w p.acc p.envs).clients.filter (nonF F) :=
  cliPostPoll_merge (sagree_cons Q) w w' p p' hr.cfg hr.specs hr.alNext (by rw [hr.ex, hr.ex']) hr.devs hr.store hr.nextId hr.nacc hr.tab
    hc.acc hc.evs hc.newfd (fun c hcm hF l hl => lineOK_of_notObs _ l (hc.lines c hcm hF l hl)) hc.inert hc.inert' hc.ids hc.ids'

/-! ### one whole pass -/

/-- what is assumed of the device phase of one pass, stated on the worlds `w0`, `w0'` the client phase leaves (as `PassHyps` of
    `Pm/FrameMulti.lean`): same clock; the devices other than `B` have the same events, sit on `Q`-nodes and carry `Q`-plugs in
    their actions; `Q` contains no node of `B`; the regex answers are segmented
    `xp ++ xB ++ xq` / `xp ++ xB' ++ xq`; `B` is handed the same number of new descriptors in both runs; no modelled `assert` -/
structure DevHyps (Q : Bytes → Bool) (F : Nat → Bool) (j : Nat) (w0 w0' : W) (p p' : PassIn) (xp xB xB' xq : List Pm.Dev2.RxCall) : Prop where
  j_lt : j < w0.devs.length
  ex : w0.exited = false
  clock : SameClock p p'
  hx : w0.pendingX = xp ++ (xB ++ xq)
  hx' : w0'.pendingX = xp ++ (xB' ++ xq)
  others : ∀ i nd, i ≠ j → w0.devs[i]? = some nd → SameEvents p p' nd ∧ QOn Q nd.2 ∧ ActsOK Q nd.2.acts
  hB : ∀ B, w0.devs[j]? = some B → QOff Q B.2 ∧ ExactOn p ((w0.devs.take j).foldl (devPass p) (acc0 w0)) [B] xB
  hB' : ∀ B', w0'.devs[j]? = some B' → QOff Q B'.2 ∧ ExactOn p' ((w0'.devs.take j).foldl (devPass p') (acc0 w0')) [B'] xB'
  alive : (w0.devs.foldl (devPass p) (acc0 w0)).dead = false
  alive' : (w0'.devs.foldl (devPass p') (acc0 w0')).dead = false
  E1 : ExactOn p (acc0 w0) (w0.devs.take j) xp
  E1' : ExactOn p' (acc0 w0') (w0'.devs.take j) xp
  c1 : (accAt p (acc0 w0) w0.devs (j + 1)).w.nsock = (accAt p' (acc0 w0') w0'.devs (j + 1)).w.nsock
  c2 : (accAt p (acc0 w0) w0.devs (j + 1)).w.npair = (accAt p' (acc0 w0') w0'.devs (j + 1)).w.npair
  c3 : (accAt p (acc0 w0) w0.devs (j + 1)).w.nfork = (accAt p' (acc0 w0') w0'.devs (j + 1)).w.nfork

/-- the device phase for one client id `g` that has the same record in `w0` and `w0'` and nothing queued on `B` -/
theorem pass_gen_g (Q : Bytes → Bool) (F : Nat → Bool) (g j : Nat) (w w' : W) (p p' : PassIn) (xp xB xB' xq : List Pm.Dev2.RxCall)
    (w0 w0' : W) (hw0 : cliPostPoll w p.acc p.envs = w0) (hw0' : cliPostPoll w' p'.acc p'.envs = w0')
    (hex : w0.exited = false) (hex' : w0'.exited = false)
    (hcli : cliRec w0 g = cliRec w0' g) (hgok : GOk Q w0 g) (hst : SAgree Q w0.store w0'.store)
    (hn1 : w0.nsock = w0'.nsock) (hn2 : w0.npair = w0'.npair) (hn3 : w0.nfork = w0'.nfork)
    (hdv : DevsRel j w0.devs w0'.devs) (h : DevHyps Q F j w0 w0' p p' xp xB xB' xq) (hg : g ≠ 0)
    (hq : ∀ B, w0.devs[j]? = some B → ∀ x ∈ B.2.acts, x.clientId ≠ g)
    (hq' : ∀ B', w0'.devs[j]? = some B' → ∀ x ∈ B'.2.acts, x.clientId ≠ g) :
    PassRel Q g j (daemonPass w p).1 (daemonPass w' p').1 := by
  have hj := h.j_lt
  have hj' : j < w0'.devs.length := hdv.1 ▸ h.j_lt
  obtain ⟨hs, hpl⟩ := split_at w0.devs j h.j_lt
  obtain ⟨hs', hpl'⟩ := split_at w0'.devs j hj'
  obtain ⟨hQ, E2⟩ := h.hB _ (List.getElem?_eq_getElem h.j_lt)
  obtain ⟨hQ', E2'⟩ := h.hB' _ (List.getElem?_eq_getElem hj')
  have halive := h.alive
  have halive' := h.alive'
  rw [hs] at halive
  rw [hs'] at halive'
  have cc : ∀ (f : W → Nat), f (accAt p (acc0 w0) w0.devs (j + 1)).w = f (accAt p' (acc0 w0') w0'.devs (j + 1)).w →
      f (devPass p ((w0.devs.take j).foldl (devPass p) (acc0 w0)) w0.devs[j]).w =
      f (devPass p' ((w0'.devs.take j).foldl (devPass p') (acc0 w0')) w0'.devs[j]).w := by
    intro f hf
    have a1 := accAt_split p (acc0 w0) (w0.devs.take j) (w0.devs.drop (j + 1)) w0.devs[j]
    have a2 := accAt_split p' (acc0 w0') (w0'.devs.take j) (w0'.devs.drop (j + 1)) w0'.devs[j]
    rw [← hs, hpl] at a1
    rw [← hs', hpl'] at a2
    rw [← a1, ← a2]; exact hf
  exact pass_core_gen Q g j w w' p p' xp xB xB' xq w0 w0' _ _ _ _ _ _ hw0 hw0' hex hex' hcli hgok hst hn1 hn2 hn3
    hs hs' hpl hpl' hdv.take hdv.drop h.clock h.hx h.hx'
    (by
      intro nd hnd
      obtain ⟨i, hi, he⟩ := mem_split_index (B := w0.devs[j]) hnd
      rw [← hs] at he
      exact h.others i nd (by omega) he)
    hg (hq _ (List.getElem?_eq_getElem h.j_lt)) (hq' _ (List.getElem?_eq_getElem hj')) hQ hQ' halive halive' h.E1 h.E1' E2 E2'
    (cc W.nsock h.c1) (cc W.npair h.c2) (cc W.nfork h.c3)

/-- the device phase keeps what it does not own -/
theorem foldl_devPass_fixed (p : PassIn) (l : Devs) (a : DevAcc) :
    (l.foldl (devPass p) a).w.cfg = a.w.cfg ∧ (l.foldl (devPass p) a).w.specs = a.w.specs ∧
    (l.foldl (devPass p) a).w.alNext = a.w.alNext ∧ (l.foldl (devPass p) a).w.nextId = a.w.nextId ∧
    (l.foldl (devPass p) a).w.nacc = a.w.nacc ∧ (l.foldl (devPass p) a).w.sys = a.w.sys := by
  induction l generalizing a with
  | nil => exact ⟨rfl, rfl, rfl, rfl, rfl, rfl⟩
  | cons nd r ih =>
    rw [List.foldl_cons]
    obtain ⟨h1, h2, h3, h4, h5, h6⟩ := ih (devPass p a nd)
    have hr := (devPass_rest p a nd).1
    have e1 : (devPass p a nd).w.cfg = a.w.cfg := by have := congrArg W.cfg hr; exact this
    have e2 : (devPass p a nd).w.specs = a.w.specs := by have := congrArg W.specs hr; exact this
    have e3 : (devPass p a nd).w.alNext = a.w.alNext := by have := congrArg W.alNext hr; exact this
    have e4 : (devPass p a nd).w.nextId = a.w.nextId := by have := congrArg W.nextId hr; exact this
    have e5 : (devPass p a nd).w.nacc = a.w.nacc := by have := congrArg W.nacc hr; exact this
    have e6 : (devPass p a nd).w.sys = a.w.sys := by have := congrArg W.sys hr; exact this
    exact ⟨h1.trans e1, h2.trans e2, h3.trans e3, h4.trans e4, h5.trans e5, h6.trans e6⟩

theorem stepped_plugs (p : PassIn) (a : DevAcc) (nd : Bytes × Dev) : (stepped p a nd).1 = nd.1 ∧ (stepped p a nd).2.plugs = nd.2.plugs := by
  refine ⟨rfl, ?_⟩
  obtain ⟨d', h1, h2, _⟩ := devPass_devs p a nd
  rw [devPass_devs_eq] at h1
  have := List.append_cancel_left h1
  simp only [List.cons.injEq, and_true] at this
  rw [this]; exact h2

theorem servedIn_cases (w : W) (p : PassIn) (c : Cli) (h : c ∈ servedIn w p) : c ∈ w.clients ∨ c.cmd = none := by
  unfold servedIn ClientPf.cliAccept at h
  split at h
  · have h : c ∈ w.clients ++ [ClientPf.newClient { w with sys := [], caps := p.envs.map fun (e : FdEnv) => (e.fd, e.cap) }] := h
    rcases List.mem_append.mp h with h | h
    · exact Or.inl h
    · simp only [List.mem_singleton] at h
      subst h
      exact Or.inr rfl
  · split at h <;> exact Or.inl h

/-- what the device phase keeps of the world the client phase left -/
theorem daemonPass_fixed (w : W) (p : PassIn) (hex : (cliPostPoll w p.acc p.envs).exited = false) :
    (daemonPass w p).1.cfg = (cliPostPoll w p.acc p.envs).cfg ∧ (daemonPass w p).1.specs = (cliPostPoll w p.acc p.envs).specs ∧
    (daemonPass w p).1.alNext = (cliPostPoll w p.acc p.envs).alNext ∧ (daemonPass w p).1.nextId = (cliPostPoll w p.acc p.envs).nextId ∧
    (daemonPass w p).1.nacc = (cliPostPoll w p.acc p.envs).nacc ∧ (daemonPass w p).1.sys = (cliPostPoll w p.acc p.envs).sys ∧
    KeepIdFd (cliPostPoll w p.acc p.envs).clients (daemonPass w p).1.clients ∧
    (daemonPass w p).1.devs = steppedList p (acc0 (cliPostPoll w p.acc p.envs)) (cliPostPoll w p.acc p.envs).devs := by
  rw [daemonPass_fst]
  simp only [hex, Bool.false_eq_true, ↓reduceIte]
  obtain ⟨h1, h2, h3, h4, h5, h6⟩ := foldl_devPass_fixed p (cliPostPoll w p.acc p.envs).devs (acc0 (cliPostPoll w p.acc p.envs))
  refine ⟨h1, h2, h3, h4, h5, h6, foldl_devPass_keep p _ _, ?_⟩
  show ((cliPostPoll w p.acc p.envs).devs.foldl (devPass p) (acc0 (cliPostPoll w p.acc p.envs))).devs = _
  rw [foldl_devs]
  simp [acc0]

/-- **one whole pass with a general client phase.**  The relation `MRel` is kept; in particular every tracked client has the same
    record in both runs afterwards, and every device but `B` is in the same state. -/
theorem pass_gen (Q : Bytes → Bool) (F : Nat → Bool) (j : Nat) (PB : List Plug) (w w' : W) (p p' : PassIn)
    (xp xB xB' xq : List Pm.Dev2.RxCall) (hQB : ∀ nb, Q nb = false → ∃ pl ∈ PB, pl.node = some nb)
    (hr : MRel Q F j PB w w') (hc : CliHyps F PB w w' p p')
    (hd : DevHyps Q F j (cliPostPoll w p.acc p.envs) (cliPostPoll w' p'.acc p'.envs) p p' xp xB xB' xq) :
    MRel Q F j PB (daemonPass w p).1 (daemonPass w' p').1 := by
  obtain ⟨g1, g2⟩ := cliPostPoll_gen Q F j PB w w' p p' hr hc
  have hi0 := cliPostPoll_ids w p.acc p.envs hc.ids
  have hi0' := cliPostPoll_ids w' p'.acc p'.envs hc.ids'
  obtain ⟨k1, k2, k3, _, k5, k6⟩ := cliPostPoll_counters w p.acc p.envs
  obtain ⟨k1', k2', k3', _, k5', k6'⟩ := cliPostPoll_counters w' p'.acc p'.envs
  have hcmd := cliPostPoll_cmdstep (NamesQ Q) w p
  have hiF := daemonPass_ids w p hc.ids
  have hiF' := daemonPass_ids w' p' hc.ids'
  have hex := hd.ex
  have hex' : (cliPostPoll w' p'.acc p'.envs).exited = false := by rw [g1.exited]; exact hex
  obtain ⟨f1, f2, f3, f4, f5, fS, f6, f7⟩ := daemonPass_fixed w p hex
  obtain ⟨f1', f2', f3', f4', f5', fS', f6', f7'⟩ := daemonPass_fixed w' p' hex'
  -- the client phase leaves the device at position `j` alone, in both runs
  have hlen0 : (cliPostPoll w p.acc p.envs).devs.length = w.devs.length := by
    have := congrArg List.length (cliPostPoll_devfds w p.acc p.envs); simpa using this
  have hjw : j < w.devs.length := hlen0 ▸ hd.j_lt
  have hjw' : j < w'.devs.length := hr.devs.1.1 ▸ hjw
  obtain ⟨_, pB, pB'⟩ := hr.devs.2 _ _ (List.getElem?_eq_getElem hjw) (List.getElem?_eq_getElem hjw')
  have hserved' : ∀ c ∈ servedIn w' p', F c.fd = false → c ∈ servedIn w p := by
    intro c hcm hF
    rcases servedIn_cases2 w' p' c hcm with h | ⟨h1, h2⟩
    · have : c ∈ w.clients := by
        have hm : c ∈ w'.clients.filter (nonF F) := List.mem_filter.mpr ⟨h, by simp [nonF, hF]⟩
        rw [hr.tab] at hm
        exact (List.mem_filter.mp hm).1
      unfold servedIn ClientPf.cliAccept
      split
      · exact List.mem_append_left _ this
      · split <;> exact this
    · -- the client accepted in this pass: the same in both runs
      unfold servedIn ClientPf.cliAccept at hcm ⊢
      rw [hc.acc] at hcm
      split
      · rename_i ha
        rw [if_pos ha] at hcm
        have hcm : c ∈ w'.clients ++ [ClientPf.newClient { w' with sys := [], caps := p'.envs.map fun (e : FdEnv) => (e.fd, e.cap) }] := hcm
        rcases List.mem_append.mp hcm with h | h
        · have := hc.ids'.below c.id (List.mem_map.mpr ⟨c, h, rfl⟩)
          omega
        · simp only [List.mem_singleton] at h
          refine List.mem_append_right _ ?_
          simp only [List.mem_singleton]
          rw [h]
          unfold ClientPf.newClient
          simp only [hr.nextId, hr.nacc, hr.cfg]
      · rename_i ha
        rw [if_neg ha] at hcm
        split at hcm
        · have := hc.ids'.below c.id (List.mem_map.mpr ⟨c, hcm, rfl⟩)
          omega
        · have := hc.ids'.below c.id (List.mem_map.mpr ⟨c, hcm, rfl⟩)
          omega
  have hfixB : (cliPostPoll w p.acc p.envs).devs[j]? = some w.devs[j] :=
    cliPostPoll_fixB F j w.devs[j] w p (List.getElem?_eq_getElem hjw) (by rw [pB]; exact hc.lines) hc.inert hc.newfd hc.ids
  have hfixB' : (cliPostPoll w' p'.acc p'.envs).devs[j]? = some w'.devs[j] :=
    cliPostPoll_fixB F j w'.devs[j] w' p' (List.getElem?_eq_getElem hjw')
      (by
        rw [pB']
        intro c hcm hF l hl
        rw [hc.evs c.fd hF] at hl
        rw [hr.cfg]
        exact hc.lines c (hserved' c hcm hF) hF l hl)
      hc.inert' (by rw [hr.nacc]; exact hc.newfd) hc.ids'
  have hcmd' := cliPostPoll_cmdstep (NamesQ Q) w' p'
  generalize hw0 : cliPostPoll w p.acc p.envs = w0 at *
  generalize hw0' : cliPostPoll w' p'.acc p'.envs = w0' at *
  have hn1 : w0.nsock = w0'.nsock := by rw [k1, k1', hr.nsock]
  have hn2 : w0.npair = w0'.npair := by rw [k2, k2', hr.npair]
  have hn3 : w0.nfork = w0'.nfork := by rw [k3, k3', hr.nfork]
  have hnid : w0'.nextId = w0.nextId := by rw [k5, k5', hr.nextId, hc.acc]
  have hnacc : w0'.nacc = w0.nacc := by rw [k6, k6', hr.nacc, hc.acc]
  -- the tracked clients after the client phase
  have htr : ∀ c ∈ w0.clients, F c.fd = false → c ∈ w0'.clients := by
    intro c hcm hF
    have : c ∈ w0.clients.filter (nonF F) := List.mem_filter.mpr ⟨hcm, by simp [nonF, hF]⟩
    rw [← g2] at this
    exact (List.mem_filter.mp this).1
  have hgokc : ∀ c ∈ w0.clients, F c.fd = false → ∀ k, c.cmd = some k → NamesQ Q k.names := by
    intro c hcm hF k hk
    obtain ⟨c1, hc1, _, e2, hstep⟩ := hcmd c hcm
    have hF1 : F c1.fd = false := by rw [e2]; exact hF
    have hl : ∀ l ∈ turnLines c1 (p.envs.find? (·.fd == c1.fd)), LineP (NamesQ Q) (fun _ => True) w.cfg.aliases l :=
      fun l hlm => LineP.mono (fun n hn => namesQ_of_noTouch Q PB hQB n hn) (fun _ _ => trivial) (hc.lines c1 hc1 hF1 l hlm)
    rcases hstep hl with h1 | ⟨k', h1, h2⟩
    · rcases servedIn_cases w p c1 hc1 with h3 | h3
      · exact hr.gok c1 h3 hF1 k (by rw [← h1]; exact hk)
      · rw [h1, h3] at hk; cases hk
    · rw [hk] at h1; cases h1; exact h2
  -- no tracked client has an action queued on the device at position `j`
  have hqB : ∀ B, w0.devs[j]? = some B → ∀ x ∈ B.2.acts, ∀ c ∈ w0.clients, F c.fd = false → x.clientId ≠ c.id := by
    intro B hB x hx c hcm hF
    rw [hfixB] at hB
    cases hB
    obtain ⟨c1, hc1, e1, e2, _⟩ := hcmd c hcm
    rw [← e1]
    rcases servedIn_cases2 w p c1 hc1 with h | ⟨h, _⟩
    · exact hr.nob _ (List.getElem?_eq_getElem hjw) x hx c1 h (by rw [e2]; exact hF)
    · have := hc.ids.acts _ (List.getElem_mem hjw) x hx
      omega
  have hqB' : ∀ B', w0'.devs[j]? = some B' → ∀ x ∈ B'.2.acts, ∀ c ∈ w0'.clients, F c.fd = false → x.clientId ≠ c.id := by
    intro B' hB' x hx c hcm hF
    rw [hfixB'] at hB'
    cases hB'
    obtain ⟨c1, hc1, e1, e2, _⟩ := hcmd' c hcm
    rw [← e1]
    rcases servedIn_cases2 w' p' c1 hc1 with h | ⟨h, _⟩
    · exact hr.nob' _ (List.getElem?_eq_getElem hjw') x hx c1 h (by rw [e2]; exact hF)
    · have := hc.ids'.acts _ (List.getElem_mem hjw') x hx
      omega
  -- the device phase for one id
  have hstep : ∀ g, g ≠ 0 → cliRec w0 g = cliRec w0' g → GOk Q w0 g →
      (∀ B, w0.devs[j]? = some B → ∀ x ∈ B.2.acts, x.clientId ≠ g) →
      (∀ B', w0'.devs[j]? = some B' → ∀ x ∈ B'.2.acts, x.clientId ≠ g) →
      PassRel Q g j (daemonPass w p).1 (daemonPass w' p').1 :=
    fun g hg h1 h2 h3 h4 => pass_gen_g Q F g j w w' p p' xp xB xB' xq w0 w0' hw0 hw0' hex hex' h1 h2 g1.store hn1 hn2 hn3
      g1.devs.1 hd hg h3 h4
  have htracked : ∀ c ∈ w0.clients, F c.fd = false → PassRel Q c.id j (daemonPass w p).1 (daemonPass w' p').1 := by
    intro c hcm hF
    have hcm' := htr c hcm hF
    have e1 : cliRec w0 c.id = some c := hi0.cliRec_of_mem hcm
    have e2 : cliRec w0' c.id = some c := hi0'.cliRec_of_mem hcm'
    refine hstep c.id (Nat.ne_of_gt (hi0.pos c.id (List.mem_map.mpr ⟨c, hcm, rfl⟩))) (by rw [e1, e2]) ?_ ?_ ?_
    · intro c' hc' k hk
      rw [e1] at hc'; cases hc'
      exact hgokc c hcm hF k hk
    · intro B hB x hx
      exact hqB B hB x hx c hcm hF
    · intro B' hB' x hx
      exact hqB' B' hB' x hx c hcm' hF
  have hdummy : PassRel Q w0.nextId j (daemonPass w p).1 (daemonPass w' p').1 := by
    have e1 : cliRec w0 w0.nextId = none := by
      cases hq : cliRec w0 w0.nextId with
      | none => rfl
      | some c =>
        obtain ⟨hm, hid⟩ := cliRec_mem hq
        have := hi0.below c.id (List.mem_map.mpr ⟨c, hm, rfl⟩)
        omega
    have e2 : cliRec w0' w0.nextId = none := by
      cases hq : cliRec w0' w0.nextId with
      | none => rfl
      | some c =>
        obtain ⟨hm, hid⟩ := cliRec_mem hq
        have := hi0'.below c.id (List.mem_map.mpr ⟨c, hm, rfl⟩)
        omega
    refine hstep w0.nextId (Nat.ne_of_gt hi0.one) (by rw [e1, e2]) ?_ ?_ ?_
    · intro c' hc'; rw [e1] at hc'; cases hc'
    · intro B hB x hx
      have := hi0.acts B (List.mem_of_getElem? hB) x hx
      omega
    · intro B' hB' x hx
      have := hi0'.acts B' (List.mem_of_getElem? hB') x hx
      omega
  -- the relation after the pass
  obtain ⟨G, eG, kG⟩ := f6
  obtain ⟨G', eG', kG'⟩ := f6'
  refine ⟨by rw [f1, f1', g1.cfg], by rw [f2, f2', g1.specs], by rw [f3, f3', g1.alNext], by rw [f4, f4', hnid], by rw [f5, f5', hnacc],
    hdummy.nsock.symm, hdummy.npair.symm, hdummy.nfork.symm, hdummy.ex, hdummy.ex', hdummy.store, ⟨hdummy.devs, ?_⟩, ?_, ?_, by rw [fS, fS', g1.sys], ?_, ?_⟩
  · -- position `j` still holds a device of the same name with the plugs `PB`
    intro X X' hX hX'
    rw [f7] at hX
    rw [f7'] at hX'
    have hjlt := hd.j_lt
    have hjlt' : j < w0'.devs.length := g1.devs.1.1 ▸ hjlt
    have e1 := steppedList_get p w0.devs (acc0 w0) j _ (List.getElem?_eq_getElem hjlt)
    have e2 := steppedList_get p' w0'.devs (acc0 w0') j _ (List.getElem?_eq_getElem hjlt')
    rw [e1] at hX
    rw [e2] at hX'
    cases hX; cases hX'
    obtain ⟨q0, q1, q2⟩ := g1.devs.2 _ _ (List.getElem?_eq_getElem hjlt) (List.getElem?_eq_getElem hjlt')
    obtain ⟨s1, s2⟩ := stepped_plugs p (accAt p (acc0 w0) w0.devs j) w0.devs[j]
    obtain ⟨s1', s2'⟩ := stepped_plugs p' (accAt p' (acc0 w0') w0'.devs j) w0'.devs[j]
    exact ⟨by rw [s1, s1', q0], by rw [s2, q1], by rw [s2', q2]⟩
  · -- the tables still agree on the tracked clients
    rw [eG, eG', filter_map_keep F G (fun x => (kG x).2), filter_map_keep F G' (fun x => (kG' x).2), g2]
    apply List.map_congr_left
    intro c hcm
    obtain ⟨hcm0, hnF⟩ := List.mem_filter.mp hcm
    have hF : F c.fd = false := by simpa [nonF] using hnF
    have hcm0' := htr c hcm0 hF
    have r1 : cliRec (daemonPass w p).1 c.id = some (G c) := by
      unfold cliRec
      rw [eG, find_map_id G (fun x => (kG x).1) c.id]
      have : w0.clients.find? (·.id == c.id) = some c := hi0.cliRec_of_mem hcm0
      rw [this]; rfl
    have r2 : cliRec (daemonPass w' p').1 c.id = some (G' c) := by
      unfold cliRec
      rw [eG', find_map_id G' (fun x => (kG' x).1) c.id]
      have : w0'.clients.find? (·.id == c.id) = some c := hi0'.cliRec_of_mem hcm0'
      rw [this]; rfl
    have := (htracked c hcm0 hF).cli
    rw [r1, r2] at this
    exact (Option.some.inj this).symm
  · -- the commands of the tracked clients still target `Q`-nodes only
    intro c hcm hF k hk
    rw [eG] at hcm
    obtain ⟨c0, hc0, rfl⟩ := List.mem_map.mp hcm
    have hF0 : F c0.fd = false := by rw [← (kG c0).2]; exact hF
    have r1 : cliRec (daemonPass w p).1 c0.id = some (G c0) := by
      unfold cliRec
      rw [eG, find_map_id G (fun x => (kG x).1) c0.id]
      have : w0.clients.find? (·.id == c0.id) = some c0 := hi0.cliRec_of_mem hc0
      rw [this]; rfl
    exact (htracked c0 hc0 hF0).gok (G c0) r1 k hk
  · -- still no tracked client has an action queued on `B` (first run)
    intro X hX x hx c hcm hF
    rw [f7] at hX
    have hjlt := hd.j_lt
    have e1 := steppedList_get p w0.devs (acc0 w0) j _ (List.getElem?_eq_getElem hjlt)
    rw [e1] at hX
    cases hX
    rw [eG] at hcm
    obtain ⟨c0, hc0, rfl⟩ := List.mem_map.mp hcm
    have hF0 : F c0.fd = false := by rw [← (kG c0).2]; exact hF
    have hk := stepped_keys (fun cid _ => cid = 0 ∨ ∃ a ∈ w0.devs[j].2.acts, a.clientId = cid) (Or.inl rfl) p
      (accAt p (acc0 w0) w0.devs j) w0.devs[j] (fun a ha => Or.inr ⟨a, ha, rfl⟩) x hx
    rw [(kG c0).1]
    rcases hk with h0 | ⟨a, ha, h1⟩
    · have := hi0.pos c0.id (List.mem_map.mpr ⟨c0, hc0, rfl⟩)
      omega
    · rw [← h1]
      exact hqB _ (List.getElem?_eq_getElem hjlt) a ha c0 hc0 hF0
  · -- … (second run)
    intro X hX x hx c hcm hF
    rw [f7'] at hX
    have hjlt' : j < w0'.devs.length := g1.devs.1.1 ▸ hd.j_lt
    have e1 := steppedList_get p' w0'.devs (acc0 w0') j _ (List.getElem?_eq_getElem hjlt')
    rw [e1] at hX
    cases hX
    rw [eG'] at hcm
    obtain ⟨c0, hc0, rfl⟩ := List.mem_map.mp hcm
    have hF0 : F c0.fd = false := by rw [← (kG' c0).2]; exact hF
    have hk := stepped_keys (fun cid _ => cid = 0 ∨ ∃ a ∈ w0'.devs[j].2.acts, a.clientId = cid) (Or.inl rfl) p'
      (accAt p' (acc0 w0') w0'.devs j) w0'.devs[j] (fun a ha => Or.inr ⟨a, ha, rfl⟩) x hx
    rw [(kG' c0).1]
    rcases hk with h0 | ⟨a, ha, h1⟩
    · have := hi0'.pos c0.id (List.mem_map.mpr ⟨c0, hc0, rfl⟩)
      omega
    · rw [← h1]
      exact hqB' _ (List.getElem?_eq_getElem hjlt') a ha c0 hc0 hF0

/-! ### any number of passes -/

theorem MRel.withX {Q : Bytes → Bool} {F : Nat → Bool} {j : Nat} {PB : List Plug} {w w' : W} (h : MRel Q F j PB w w')
    (xs xs' : List Pm.Dev2.RxCall) : MRel Q F j PB (withX w xs) (withX w' xs') :=
  ⟨h.cfg, h.specs, h.alNext, h.nextId, h.nacc, h.nsock, h.npair, h.nfork, h.ex, h.ex', h.store, h.devs, h.tab, h.gok, h.sys, h.nob, h.nob'⟩

/-- every pass of the two runs (each given with the regex answers recorded for it) satisfies `CliHyps` and `DevHyps` -/
inductive GenRun (Q : Bytes → Bool) (F : Nat → Bool) (j : Nat) (PB : List Plug) :
    W → W → List ((PassIn × List Pm.Dev2.RxCall) × (PassIn × List Pm.Dev2.RxCall)) → Prop
  | nil (w w' : W) : GenRun Q F j PB w w' []
  | cons (w w' : W) (p p' : PassIn) (xs xs' : List Pm.Dev2.RxCall)
      (rest : List ((PassIn × List Pm.Dev2.RxCall) × (PassIn × List Pm.Dev2.RxCall))) (xp xB xB' xq : List Pm.Dev2.RxCall) :
      CliHyps F PB (withX w xs) (withX w' xs') p p' →
      DevHyps Q F j (cliPostPoll (withX w xs) p.acc p.envs) (cliPostPoll (withX w' xs') p'.acc p'.envs) p p' xp xB xB' xq →
      GenRun Q F j PB (daemonPass (withX w xs) p).1 (daemonPass (withX w' xs') p').1 rest →
      GenRun Q F j PB w w' (((p, xs), (p', xs')) :: rest)

/-- **the relation is kept over any number of passes with a general client phase** -/
theorem passes_gen (Q : Bytes → Bool) (F : Nat → Bool) (j : Nat) (PB : List Plug)
    (hQB : ∀ nb, Q nb = false → ∃ pl ∈ PB, pl.node = some nb) (w w' : W)
    (l : List ((PassIn × List Pm.Dev2.RxCall) × (PassIn × List Pm.Dev2.RxCall)))
    (hr : MRel Q F j PB w w') (h : GenRun Q F j PB w w' l) :
    MRel Q F j PB (passes w (l.map (·.1))) (passes w' (l.map (·.2))) := by
  induction h with
  | nil w w' => exact hr
  | cons w w' p p' xs xs' rest xp xB xB' xq hc hd _ ih =>
    simp only [passes, List.map_cons, List.foldl_cons] at ih ⊢
    exact ih (pass_gen Q F j PB _ _ p p' xp xB xB' xq hQB (hr.withX xs xs') hc hd)

theorem GenRun.take {Q : Bytes → Bool} {F : Nat → Bool} {j : Nat} {PB : List Plug} {w w' : W}
    {l : List ((PassIn × List Pm.Dev2.RxCall) × (PassIn × List Pm.Dev2.RxCall))} (h : GenRun Q F j PB w w' l) (n : Nat) :
    GenRun Q F j PB w w' (l.take n) := by
  induction h generalizing n with
  | nil w w' => simpa using GenRun.nil w w'
  | cons w w' p p' xs xs' rest xp xB xB' xq hc hd _ ih =>
    cases n with
    | zero => exact .nil w w'
    | succ n => exact .cons w w' p p' xs xs' _ xp xB xB' xq hc hd (ih n)

/-- **what the relation says about a tracked client and about the other devices** -/
theorem MRel.tracked {Q : Bytes → Bool} {F : Nat → Bool} {j : Nat} {PB : List Plug} {w w' : W} (h : MRel Q F j PB w w')
    (hi' : IdsFresh w') :
    (∀ g c, cliRec w g = some c → F c.fd = false → cliRec w' g = some c) ∧
    (∀ fd, F fd = false → ClientPf.written w'.sys fd = ClientPf.written w.sys fd) ∧
    (∀ i, i ≠ j → (w.devs[i]?).map strip = (w'.devs[i]?).map strip) ∧ w.devs.length = w'.devs.length ∧
    SAgree Q w.store w'.store := by
  refine ⟨?_, ?_, h.devs.1.2, h.devs.1.1, h.store⟩
  · intro g c hc hF
    obtain ⟨hm, hid⟩ := cliRec_mem hc
    have : c ∈ w.clients.filter (nonF F) := List.mem_filter.mpr ⟨hm, by simp [nonF, hF]⟩
    rw [← h.tab] at this
    have := hi'.cliRec_of_mem (List.mem_filter.mp this).1
    rw [hid] at this
    exact this
  · intro fd hfd
    have key : ∀ ss : List Sys, ClientPf.written (ss.filter (offF F)) fd = ClientPf.written ss fd := by
      intro ss
      induction ss with
      | nil => rfl
      | cons x r ih =>
        rw [List.filter_cons]
        have hc : ClientPf.written (x :: r) fd = ClientPf.written [x] fd ++ ClientPf.written r fd := ClientPf.written_append [x] r fd
        split
        · have hc2 : ClientPf.written (x :: r.filter (offF F)) fd = ClientPf.written [x] fd ++ ClientPf.written (r.filter (offF F)) fd :=
            ClientPf.written_append [x] _ fd
          rw [hc, hc2, ih]
        · rename_i hx
          rw [hc, ih]
          have : ClientPf.written [x] fd = [] := by
            cases x with
            | write f b e bl =>
              have hf : F f = true := by simpa [offF, sysFd] using hx
              have : ¬ f = fd := by intro e; rw [e, hfd] at hf; cases hf
              simp [ClientPf.written, this]
            | accept _ => rfl
            | close _ => rfl
            | read _ _ => rfl
          rw [this, List.nil_append]
    rw [← key w'.sys, ← key w.sys, h.sys]

/-- the index of the first pass in which client `g`'s command in progress is completed -/
def replyPassX (w : W) (ps : List (PassIn × List Pm.Dev2.RxCall)) (g : Nat) : Option Nat :=
  (List.range ps.length).find? fun n =>
    ((cliRec (passes w (ps.take n)) g).bind (·.cmd)).isSome &&
    (match cliRec (passes w (ps.take (n + 1))) g with | some c => c.cmd.isNone | none => false)

theorem replyPassX_congr (w w' : W) (ps ps' : List (PassIn × List Pm.Dev2.RxCall)) (g : Nat) (hl : ps'.length = ps.length)
    (h : ∀ n, cliRec (passes w' (ps'.take n)) g = cliRec (passes w (ps.take n)) g) : replyPassX w' ps' g = replyPassX w ps g := by
  unfold replyPassX
  rw [hl]
  congr 1
  funext n
  rw [h n, h (n + 1)]

theorem passes_ids (w : W) (ps : List (PassIn × List Pm.Dev2.RxCall)) (h : IdsFresh w) : IdsFresh (passes w ps) := by
  unfold passes
  induction ps generalizing w with
  | nil => exact h
  | cons x r ih =>
    rw [List.foldl_cons]
    exact ih _ (daemonPass_ids _ x.1 (h.congr rfl rfl rfl))

end Pm.Daemon.TwoRun
