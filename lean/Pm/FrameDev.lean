import Pm.Daemon
import Pm.Dev2Proof
import Pm.Dev2Walk
import Pm.InterpSends
/-! Helper lemmas for C05 (one device cannot disturb the others).

Part 1 (namespace `Pm.Dev2`): a single-run *frame* for one device's share of `dev_post_poll`:
  * every callback (`finish`/`telemetry`/`diag`) carries the client id of an action of the device's own queue
    (or `0`, the id of the internal login/ping actions);
  * every write to the shared arglist store goes to the arglist of an action of the queue (or to id `0`), and within
    a cell only entries whose node is a node of one of the device's own plugs are modified;
  * the static configuration of the device (plugs, scripts) is never changed. -/
namespace Pm.Dev2

/-- the client a callback is addressed to -/
def outCid : Out → Option Nat
  | .finish c _ => some c
  | .telemetry c _ => some c
  | .diag c _ => some c
  | _ => none

abbrev Store := List (Nat × List Arg)

/-- one arglist of the store -/
def cell (s : Store) (al : Nat) : List Arg := (s.lookup al).getD []

theorem getArgs_eq (d : Dev) (al : Nat) : getArgs d al = cell d.args al := rfl

theorem lookup_filter_ne (s : Store) (id al : Nat) (h : al ≠ id) :
    (s.filter (·.1 ≠ id)).lookup al = s.lookup al := by
  induction s with
  | nil => rfl
  | cons x r ih =>
    obtain ⟨k, v⟩ := x
    by_cases hk : k = id
    · subst hk
      have : (al == k) = false := by simp [h]
      rw [List.lookup_cons, this]
      simpa [List.filter_cons] using ih
    · by_cases hak : al = k
      · subst hak; simp [List.filter_cons, hk, List.lookup_cons]
      · have : (al == k) = false := by simp [hak]
        have e : List.filter (fun x => decide (x.fst ≠ id)) ((k, v) :: r) = (k, v) :: List.filter (fun x => decide (x.fst ≠ id)) r := by
          simp [List.filter_cons, hk]
        rw [e, List.lookup_cons, List.lookup_cons, this]; exact ih

theorem setArgs_lookup_ne (d : Dev) (id al : Nat) (as : List Arg) (h : al ≠ id) :
    (setArgs d id as).args.lookup al = d.args.lookup al := by
  have : (al == id) = false := by simp [h]
  have h2 := lookup_filter_ne d.args _ _ h
  unfold setArgs
  rw [List.lookup_cons, this]; exact h2

theorem setArgs_cell_self (d : Dev) (id : Nat) (as : List Arg) : cell (setArgs d id as).args id = as := by
  simp [setArgs, cell]

theorem setArgs_cell_ne (d : Dev) (id al : Nat) (as : List Arg) (h : al ≠ id) :
    cell (setArgs d id as).args al = cell d.args al := by
  simp [cell, setArgs_lookup_ne _ _ _ _ h]

/-- a map that rewrites only the entries of node `node` does not change the entries a predicate `Q` selects when
    `Q node = false` -/
theorem filter_map_upd_off (Q : Bytes → Bool) (node : Bytes) (upd : Arg → Arg) (hupd : ∀ g, (upd g).node = g.node)
    (hQ : Q node = false) (l : List Arg) :
    (l.map fun g => if g.node == node then upd g else g).filter (fun g => Q g.node) = l.filter (fun g => Q g.node) := by
  induction l with
  | nil => rfl
  | cons g r ih =>
    by_cases hg : g.node = node
    · simp_all [List.filter_cons]
    · simp_all [List.filter_cons]

/-- the same map commutes with a filter on nodes -/
theorem filter_map_upd (Q : Bytes → Bool) (node : Bytes) (upd : Arg → Arg) (hupd : ∀ g, (upd g).node = g.node) (l : List Arg) :
    (l.map fun g => if g.node == node then upd g else g).filter (fun g => Q g.node)
      = (l.filter (fun g => Q g.node)).map fun g => if g.node == node then upd g else g := by
  induction l with
  | nil => rfl
  | cons g r ih =>
    by_cases hg : g.node = node
    · by_cases hq : Q node = true <;> simp_all [List.filter_cons]
    · by_cases hq : Q g.node = true <;> simp_all [List.filter_cons]

/-- the nodes the device's own plugs are wired to are outside `Q` -/
def QOff (Q : Bytes → Bool) (d : Dev) : Prop := ∀ p ∈ d.plugs, ∀ n, p.node = some n → Q n = false

theorem findPlug_node (d : Dev) (pn : Bytes) (plug : Plug) (h : findPlug d pn = some plug) :
    plug ∈ d.plugs ∧ ∃ n, plug.node = some n := by
  unfold findPlug at h
  split at h
  · rename_i p hp
    split at h
    · simp at h; subst h
      refine ⟨List.mem_of_find?_eq_some hp, ?_⟩
      cases hn : p.node <;> simp_all
    · simp at h
  · simp at h

/-- what one statement may do (single run): it keeps the static configuration, the identity of the action, addresses
    callbacks to the action's client only, writes the action's own arglist only and there only entries of the
    device's own nodes -/
structure StmtFrame (Q : Bytes → Bool) (d : Dev) (a : Action) (r : StepR) : Prop where
  plugs : r.dev.plugs = d.plugs
  scripts : r.dev.scripts = d.scripts
  cid : r.act.clientId = a.clientId
  al : r.act.arglist = a.arglist
  addr : ∀ x ∈ r.out, ∀ c, outCid x = some c → c = a.clientId
  cellOther : ∀ al, al ≠ a.arglist → r.dev.args.lookup al = d.args.lookup al
  cellQ : ∀ al, (cell r.dev.args al).filter (fun g => Q g.node) = (cell d.args al).filter (fun g => Q g.node)

theorem teleMem_addr (cid pre bs) : ∀ x ∈ teleMem cid pre bs, ∀ c, outCid x = some c → c = cid := by
  unfold teleMem; grind [outCid]
theorem askRx_addr (o pat s) : ∀ x ∈ (askRx o pat s).2.2, outCid x = none := by
  unfold askRx; grind [outCid]

theorem pickState_addr (s : Bytes) (l : List (PState × Nat)) (o : Oracle) (errs : List Out)
    (h : ∀ x ∈ errs, outCid x = none) : ∀ x ∈ (pickState askRx s l o errs).2.2, outCid x = none := by
  induction l generalizing o errs with
  | nil => simpa [pickState] using h
  | cons p r ih =>
    obtain ⟨st, pat⟩ := p
    unfold pickState
    have h2 := askRx_addr o pat s
    dsimp only
    split
    · intro x hx; simp at hx; rcases hx with hx | hx
      · exact h x hx
      · exact h2 x hx
    · apply ih; intro x hx; simp at hx; rcases hx with hx | hx
      · exact h x hx
      · exact h2 x hx

theorem pickResult_addr (s : Bytes) (l : List (PResult × Nat)) (o : Oracle) (errs : List Out)
    (h : ∀ x ∈ errs, outCid x = none) : ∀ x ∈ (pickResult askRx s l o errs).2.2, outCid x = none := by
  induction l generalizing o errs with
  | nil => simpa [pickResult] using h
  | cons p r ih =>
    obtain ⟨st, pat⟩ := p
    unfold pickResult
    have h2 := askRx_addr o pat s
    dsimp only
    split
    · intro x hx; simp at hx; rcases hx with hx | hx
      · exact h x hx
      · exact h2 x hx
    · apply ih; intro x hx; simp at hx; rcases hx with hx | hx
      · exact h x hx
      · exact h2 x hx

theorem stmtExpect_frame (Q d a o pat) : StmtFrame Q d a (stmtExpect d a o pat) := by
  have h1 := askRx_addr
  have h2 := teleMem_addr
  constructor <;> (unfold stmtExpect; grind [outCid])

theorem stmtSend_frame (Q d a o e fmt) : StmtFrame Q d a (stmtSend d a o e fmt) := by
  have h2 := teleMem_addr
  constructor <;> (unfold stmtSend; grind [outCid, setTop])

theorem stmtDelay_frame (Q d a o e now us) : StmtFrame Q d a (stmtDelay d a o e now us) := by
  constructor <;> (unfold stmtDelay; grind [outCid, setTop])

theorem stmtForeach_frame (Q d a o e b n) : StmtFrame Q d a (stmtForeach d a o e b n) := by
  constructor <;> (unfold stmtForeach; grind [outCid, setTop])

theorem stmtIf_frame (Q d a o e b n) : StmtFrame Q d a (stmtIf d a o e b n) := by
  constructor <;> (unfold stmtIf; grind [outCid, setTop])

theorem setArgs_upd_cellQ (Q : Bytes → Bool) (d : Dev) (id : Nat) (node : Bytes) (upd : Arg → Arg)
    (hupd : ∀ g, (upd g).node = g.node) (hQ : Q node = false) (al : Nat) :
    (cell (setArgs d id ((getArgs d id).map fun g => if g.node == node then upd g else g)).args al).filter (fun g => Q g.node)
      = (cell d.args al).filter (fun g => Q g.node) := by
  by_cases h : al = id
  · subst h; rw [setArgs_cell_self, getArgs_eq]; exact filter_map_upd_off Q node upd hupd hQ _
  · rw [setArgs_cell_ne _ _ _ _ h]

theorem findPlug_QOff (Q : Bytes → Bool) (d : Dev) (hQ : QOff Q d) (pn : Bytes) (plug : Plug) (h : findPlug d pn = some plug) :
    Q (plug.node.getD []) = false := by
  obtain ⟨hm, n, hn⟩ := findPlug_node d pn plug h
  rw [hn]; exact hQ plug hm n hn

theorem stmtSetplugstate_frame (Q d a o e l p s i) (hQ : QOff Q d) : StmtFrame Q d a (stmtSetplugstate d a o e l p s i) := by
  have h1 := fun s l o => pickState_addr s l o [] (by simp)
  have h3 := findPlug_node d
  have h4 := setArgs_lookup_ne d a.arglist
  constructor
  · unfold stmtSetplugstate; grind [setArgs]
  · unfold stmtSetplugstate; grind [setArgs]
  · unfold stmtSetplugstate; grind
  · unfold stmtSetplugstate; grind
  · unfold stmtSetplugstate; grind [outCid]
  · unfold stmtSetplugstate; grind
  · intro al
    unfold stmtSetplugstate
    dsimp only
    split
    · rfl
    · split
      · rename_i s0 plug hs hf
        exact setArgs_upd_cellQ Q d a.arglist _ (fun g => { g with state := (pickState askRx s0 i o []).2.1, val := some s0 }) (fun g => rfl) (findPlug_QOff Q d hQ _ _ hf) al
      · rfl

theorem stmtSetresult_frame (Q d a o p s i) (hQ : QOff Q d) : StmtFrame Q d a (stmtSetresult d a o p s i) := by
  have h1 := fun s l o => pickResult_addr s l o [] (by simp)
  have h3 := findPlug_node d
  have h4 := setArgs_lookup_ne d a.arglist
  constructor
  · unfold stmtSetresult; grind [setArgs]
  · unfold stmtSetresult; grind [setArgs]
  · unfold stmtSetresult; grind
  · unfold stmtSetresult; grind
  · unfold stmtSetresult; grind [outCid]
  · unfold stmtSetresult; grind
  · intro al
    unfold stmtSetresult
    split
    · rfl
    · split
      · rename_i s0 plug hs hf
        exact setArgs_upd_cellQ Q d a.arglist _ (fun g => { g with result := (pickResult askRx s0 i o []).2.1, val := some s0 }) (fun g => rfl) (findPlug_QOff Q d hQ _ _ hf) al
      · rfl

theorem processStmt_frame (Q : Bytes → Bool) (d : Dev) (a : Action) (o : Oracle) (now : Time) (hQ : QOff Q d) :
    StmtFrame Q d a (processStmt d a o now) := by
  unfold processStmt
  dsimp only
  split
  · constructor <;> simp [outCid]
  all_goals first
    | exact stmtExpect_frame ..
    | exact stmtSend_frame ..
    | exact stmtDelay_frame ..
    | exact stmtSetplugstate_frame _ _ _ _ _ _ _ _ _ hQ
    | exact stmtSetresult_frame _ _ _ _ _ _ _ hQ
    | exact stmtForeach_frame ..
    | exact stmtIf_frame ..

theorem StmtFrame.withAcc {Q d a r} (h : StmtFrame Q d a r) (acc : List Out)
    (hacc : ∀ x ∈ acc, ∀ c, outCid x = some c → c = a.clientId) :
    StmtFrame Q d a { r with out := acc ++ r.out } where
  plugs := h.plugs
  scripts := h.scripts
  cid := h.cid
  al := h.al
  addr := by
    intro x hx c hc; simp at hx; rcases hx with hx | hx
    · exact hacc x hx c hc
    · exact h.addr x hx c hc
  cellOther := h.cellOther
  cellQ := h.cellQ

theorem StmtFrame.trans {Q d a r1 r2} (h1 : StmtFrame Q d a r1) (h2 : StmtFrame Q r1.dev r1.act r2) :
    StmtFrame Q d a r2 where
  plugs := by rw [h2.plugs, h1.plugs]
  scripts := by rw [h2.scripts, h1.scripts]
  cid := by rw [h2.cid, h1.cid]
  al := by rw [h2.al, h1.al]
  addr := by intro x hx c hc; rw [← h1.cid]; exact h2.addr x hx c hc
  cellOther := by
    intro al hal; rw [h2.cellOther al (by rw [h1.al]; exact hal), h1.cellOther al hal]
  cellQ := by intro al; rw [h2.cellQ, h1.cellQ]

theorem QOff_congr {Q : Bytes → Bool} {d d' : Dev} (h : d'.plugs = d.plugs) (hQ : QOff Q d) : QOff Q d' := by
  unfold QOff; rw [h]; exact hQ

theorem innerLoop_frame (Q : Bytes → Bool) (now : Time) (fuel : Nat) (d : Dev) (a : Action) (o : Oracle) (acc : List Out)
    (hQ : QOff Q d) (hacc : ∀ x ∈ acc, ∀ c, outCid x = some c → c = a.clientId) :
    StmtFrame Q d a (innerLoop now fuel d a o acc) := by
  induction fuel generalizing d a o acc with
  | zero =>
    have h := processStmt_frame Q d a o now hQ
    unfold innerLoop
    exact h.withAcc acc hacc
  | succ n ih =>
    have h := processStmt_frame Q d a o now hQ
    unfold innerLoop; dsimp only; split
    · have h2 := ih (processStmt d a o now).dev (processStmt d a o now).act (processStmt d a o now).oracle
        (acc ++ (processStmt d a o now).out) (QOff_congr h.plugs hQ) (by
          intro x hx c hc; simp at hx; rcases hx with hx | hx
          · rw [h.cid]; exact hacc x hx c hc
          · rw [h.cid]; exact h.addr x hx c hc)
      exact h.trans h2
    · exact h.withAcc acc hacc

/-! ### the connection layer: never touches the store or the configuration; the queue only gains the login action,
    loses it, or has its head rewound -/

structure DevFrame (d d' : Dev) : Prop where
  plugs : d'.plugs = d.plugs
  scripts : d'.scripts = d.scripts
  args : d'.args = d.args
  acts : ∀ G : Action → Prop, G (loginAction d) → (∀ a, G a → G (rewind a)) → (∀ a ∈ d.acts, G a) → ∀ a' ∈ d'.acts, G a'

theorem DevFrame.rfl' (d : Dev) : DevFrame d d := ⟨rfl, rfl, rfl, fun _ _ _ h => h⟩

theorem loginAction_congr {d d' : Dev} (h : d'.scripts = d.scripts) : loginAction d' = loginAction d := by
  unfold loginAction; rw [h]

theorem DevFrame.trans {a b c : Dev} (h1 : DevFrame a b) (h2 : DevFrame b c) : DevFrame a c where
  plugs := by rw [h2.plugs, h1.plugs]
  scripts := by rw [h2.scripts, h1.scripts]
  args := by rw [h2.args, h1.args]
  acts := by
    intro G hl hr h
    exact h2.acts G (by rw [loginAction_congr h1.scripts]; exact hl) hr (h1.acts G hl hr h)

/-- a change of fields other than the four tracked ones -/
theorem DevFrame.of_eq {d d' : Dev} (hp : d'.plugs = d.plugs) (hs : d'.scripts = d.scripts) (ha : d'.args = d.args)
    (hq : d'.acts = d.acts) : DevFrame d d' := ⟨hp, hs, ha, fun _ _ _ h => by rw [hq]; exact h⟩

/-- the four tracked fields -/
def core (d : Dev) : List Plug × (Nat → Option (List Stmt)) × Store × List Action := (d.plugs, d.scripts, d.args, d.acts)

theorem DevFrame.of_core {d d' : Dev} (h : core d' = core d) : DevFrame d d' := by
  simp only [core, Prod.mk.injEq] at h
  exact DevFrame.of_eq h.1 h.2.1 h.2.2.1 h.2.2.2

theorem finishConnectOne_core (c : CS) : core (finishConnectOne c).1.dev = core c.dev := by
  unfold finishConnectOne; grind [core]
theorem ConnFrame.core {d d' : Dev} (h : ConnFrame d d') : core d' = core d := by
  simp only [Pm.Dev2.core, h.plugs, h.scripts, h.args, h.acts]
theorem connectOne_core (c : CS) : core (connectOne c).1.dev = core c.dev := (connectOne_frame c).dev.core
theorem tcpConnect_core (c : CS) : core (tcpConnect c).1.dev = core c.dev := (tcpConnect_frame c).dev.core
theorem pipeConnect_core (c : CS) : core (pipeConnect c).1.dev = core c.dev := by
  unfold pipeConnect; grind [core]

theorem enqueueLogin_devFrame (d : Dev) : DevFrame d (enqueueLogin d) where
  plugs := rfl
  scripts := rfl
  args := rfl
  acts := by
    intro G hl hr h a' ha'
    unfold enqueueLogin at ha'
    cases hq : d.acts with
    | nil => simp [hq] at ha'; subst ha'; exact hl
    | cons a r =>
      simp [hq] at ha'
      rcases ha' with ha' | ha' | ha'
      · subst ha'; exact hl
      · subst ha'; exact hr a (h a (by simp [hq]))
      · exact h a' (by simp [hq, ha'])

theorem connectDev_devFrame (c : CS) : DevFrame c.dev (connectDev c).dev := by
  unfold connectDev
  dsimp only
  have h1 := tcpConnect_core { c with dev := { c.dev with lastRetry := c.env.now, retryCount := c.dev.retryCount + 1 } }
  have h2 := pipeConnect_core { c with dev := { c.dev with lastRetry := c.env.now, retryCount := c.dev.retryCount + 1 } }
  have h0 : DevFrame c.dev { c.dev with lastRetry := c.env.now, retryCount := c.dev.retryCount + 1 } :=
    DevFrame.of_eq rfl rfl rfl rfl
  split
  · generalize pipeConnect _ = r at *
    have hr : DevFrame c.dev r.1.dev := h0.trans (DevFrame.of_core h2)
    split
    · exact hr.trans (enqueueLogin_devFrame _)
    · exact hr
  · generalize tcpConnect _ = r at *
    have hr : DevFrame c.dev r.1.dev := h0.trans (DevFrame.of_core h1)
    split
    · exact hr.trans (enqueueLogin_devFrame _)
    · exact hr

theorem disconnectDev_devFrame (c : CS) : DevFrame c.dev (disconnectDev c).dev where
  plugs := by unfold disconnectDev; grind
  scripts := by unfold disconnectDev; grind
  args := by unfold disconnectDev; grind
  acts := by
    intro G hl hr h a' ha'
    apply h
    unfold disconnectDev at ha'
    grind

theorem reconnectDev_devFrame (c : CS) (tmo : Option Time) : DevFrame c.dev (reconnectDev c tmo).1.dev := by
  unfold reconnectDev
  dsimp only
  have hd := disconnectDev_devFrame c
  have hc := connectDev_devFrame
  split <;> split <;> first
    | exact hd.trans (hc _)
    | exact hc _
    | exact hd
    | exact DevFrame.rfl' _

theorem telnetFilter_core (d : Dev) (bs : Bytes) : core (telnetFilter d bs) = core d := by
  unfold telnetFilter; grind [core]

/-- the failed-connect clean-up inside the write half of `_handle_ready_device` -/
def hrClose (c : CS) : CS := finishConnectFail c

/-- `_handle_ready_device` cut in pieces: the write half (returns the state, ioerr, and "skip the read") -/
def hrWrite (c : CS) : CS × Bool × Bool :=
  if c.dev.conn == 1 then
    if c.dev.isPipe then ({ c with sys := c.sys ++ [.abort "assert finish_connect != NULL"], aborted := true }, false, true) else
    let r := finishConnectOne c
    let c2 := if r.2 then r.1 else hrClose r.1
    if c2.dev.conn == 0 then (c2, true, true)
    else if c2.dev.conn == 2 then ({ c2 with dev := enqueueLogin c2.dev }, false, true)
    else (c2, false, true)
  else
    if c.dev.toBuf.isEmpty then (c, true, false)
    else if c.env.writeOk then
      if c.env.wcap == 0 then ({ c with sys := c.sys ++ [.write [] true] }, true, false)
      else ({ c with sys := c.sys ++ [.write (c.dev.toBuf.take c.env.wcap) true], dev := { c.dev with toBuf := c.dev.toBuf.drop c.env.wcap } }, false, false)
    else ({ c with sys := c.sys ++ [.write c.dev.toBuf false] }, true, false)

/-- the read half, after the capacity half `clipRead` -/
def hrRead (c : CS) : CS × Bool :=
  match c.env.read with
  | some (some bs) =>
    if bs.isEmpty then ({ c with sys := c.sys ++ [.read 0] }, true)
    else ({ c with sys := c.sys ++ [.read bs.length],
                   dev := if c.dev.isPipe then { c.dev with fromBuf := c.dev.fromBuf ++ bs } else telnetFilter c.dev bs }, false)
  | some none => ({ c with sys := c.sys ++ [.read (-1)] }, true)
  | none => ({ c with sys := c.sys ++ [.abort "no read answer"], aborted := true }, false)

def handleReady' (c : CS) : CS × Bool :=
  let f := c.env.revents
  if c.dev.conn == 0 then ({ c with sys := c.sys ++ [.abort "assert connect_state != NOT_CONNECTED"], aborted := true }, false) else
  if c.dev.fd.isNone then ({ c with sys := c.sys ++ [.abort "assert fd != NO_FD"], aborted := true }, false) else
  if f &&& 4 != 0 || f &&& 8 != 0 || f &&& 16 != 0 then (c, true) else
  let w := if f &&& 2 != 0 then hrWrite c else (c, false, false)
  if w.2.1 then (w.1, true) else
  if w.2.2 then (w.1, false) else
  if f &&& 1 != 0 then hrRead (clipRead w.1) else (w.1, false)

theorem handleReady_eq (c : CS) : handleReady c = handleReady' c := by
  unfold handleReady handleReady' hrWrite hrRead hrClose
  rfl

theorem enqueueLogin_core_congr {d d' : Dev} (h : core d' = core d) : core (enqueueLogin d') = core (enqueueLogin d) := by
  simp only [core, Prod.mk.injEq] at h
  obtain ⟨h1, h2, h3, h4⟩ := h
  simp only [core, enqueueLogin, loginAction, h1, h2, h3, h4]

theorem hrClose_core (c : CS) : core (hrClose c).dev = core c.dev := (finishConnectFail_frame c).dev.core

theorem hrWrite_core (c : CS) :
    core (hrWrite c).1.dev = core c.dev ∨ core (hrWrite c).1.dev = core (enqueueLogin c.dev) := by
  have h1 := finishConnectOne_core c
  unfold hrWrite
  split
  · split
    · exact Or.inl rfl
    dsimp only
    generalize finishConnectOne c = r at *
    have h2 : core (if r.2 = true then r.1 else hrClose r.1).dev = core c.dev := by
      split
      · exact h1
      · rw [hrClose_core]; exact h1
    generalize (if r.2 = true then r.1 else hrClose r.1) = c2 at *
    split
    · exact Or.inl h2
    · split
      · exact Or.inr (enqueueLogin_core_congr h2)
      · exact Or.inl h2
  · split
    · exact Or.inl rfl
    · split
      · split <;> exact Or.inl rfl
      · exact Or.inl rfl

theorem hrRead_core0 (c : CS) : core (hrRead c).1.dev = core c.dev := by
  have h2 := telnetFilter_core
  unfold hrRead
  grind [core]

theorem clipRead_core (c : CS) : core (clipRead c).dev = core c.dev := by
  simp [core]

theorem hrRead_core (c : CS) : core (hrRead (clipRead c)).1.dev = core c.dev := by
  rw [hrRead_core0, clipRead_core]

theorem DevFrame.of_core_login {d d' : Dev} (h : core d' = core d ∨ core d' = core (enqueueLogin d)) : DevFrame d d' := by
  rcases h with h | h
  · exact DevFrame.of_core h
  · exact (enqueueLogin_devFrame d).trans (DevFrame.of_core h)

theorem handleReady_devFrame (c : CS) : DevFrame c.dev (handleReady c).1.dev := by
  rw [handleReady_eq]
  unfold handleReady'
  have hw := DevFrame.of_core_login (hrWrite_core c)
  have hr := fun c => DevFrame.of_core (hrRead_core c)
  dsimp only
  split
  · exact DevFrame.rfl' _
  split
  · exact DevFrame.rfl' _
  split
  · exact DevFrame.rfl' _
  split
  · generalize hrWrite c = w at *
    split
    · exact hw
    split
    · exact hw
    split
    · exact hw.trans (hr _)
    · exact hw
  · dsimp only
    split
    · exact DevFrame.rfl' _
    split
    · exact hr _
    · exact DevFrame.rfl' _

/-! ### `_process_action` -/

/-- every callback in `outs` is addressed to a client of the set `C` -/
def Addr (C : Nat → Prop) (outs : List Out) : Prop := ∀ x ∈ outs, ∀ cid, outCid x = some cid → C cid

theorem Addr.append {C : Nat → Prop} {l m : List Out} (h1 : Addr C l) (h2 : Addr C m) : Addr C (l ++ m) := by
  intro x hx cid hc; simp at hx; rcases hx with hx | hx
  · exact h1 x hx cid hc
  · exact h2 x hx cid hc
theorem Addr.nil {C : Nat → Prop} : Addr C [] := by intro x hx; simp at hx

/-- what a piece of the pass may do to the store: arglists outside `L` keep their cell, and in every cell the
    entries `Q` selects are kept -/
def StoreFrame (Q : Bytes → Bool) (L : Nat → Prop) (s t : Store) : Prop :=
  (∀ al, ¬ L al → t.lookup al = s.lookup al) ∧
  (∀ al, (cell t al).filter (fun g => Q g.node) = (cell s al).filter (fun g => Q g.node))

theorem StoreFrame.rfl' {Q L} (s : Store) : StoreFrame Q L s s := ⟨fun _ _ => rfl, fun _ => rfl⟩
theorem StoreFrame.trans {Q L} {s t u : Store} (h1 : StoreFrame Q L s t) (h2 : StoreFrame Q L t u) : StoreFrame Q L s u :=
  ⟨fun al h => by rw [h2.1 al h, h1.1 al h], fun al => by rw [h2.2 al, h1.2 al]⟩
theorem StoreFrame.of_eq {Q L} {s t : Store} (h : t = s) : StoreFrame Q L s t := by subst h; exact StoreFrame.rfl' _

theorem StmtFrame.store {Q d a r} {L : Nat → Prop} (h : StmtFrame Q d a r) (hL : L a.arglist) : StoreFrame Q L d.args r.dev.args :=
  ⟨fun al hal => h.cellOther al (fun e => hal (e ▸ hL)), h.cellQ⟩

structure PAFrame (Q : Bytes → Bool) (C L : Nat → Prop) (d : Dev) (r : PA) : Prop where
  plugs : r.1.dev.plugs = d.plugs
  scripts : r.1.dev.scripts = d.scripts
  addr : Addr C r.2.2.1
  store : StoreFrame Q L d.args r.1.dev.args

/-- the queue's actions belong to clients of `C` and refer to arglists of `L` -/
def Keyed (C L : Nat → Prop) (acts : List Action) : Prop := ∀ a ∈ acts, C a.clientId ∧ L a.arglist

theorem failAll_frame (Q : Bytes → Bool) (C L : Nat → Prop) (rest : List Action) (c : CS) (a : Action) (o : Oracle)
    (out : List Out) (tmo : Option Time) (ha : C a.clientId) (hrest : Keyed C L rest) (hout : Addr C out) :
    PAFrame Q C L c.dev (failAll rest c a o out tmo) := by
  have hfin : Addr C ((if a.clientId != 0 then [Out.finish a.clientId a.errnum] else []) ++
      (rest.filter (·.clientId != 0)).map fun b => Out.finish b.clientId (if a.errnum == .expfail then .abort else a.errnum)) := by
    apply Addr.append
    · intro x hx cid hc
      split at hx
      · simp at hx; subst hx; simp [outCid] at hc; subst hc; exact ha
      · simp at hx
    · intro x hx cid hc
      simp only [List.mem_map, List.mem_filter] at hx
      obtain ⟨b, ⟨hb, _⟩, rfl⟩ := hx
      simp [outCid] at hc; subst hc; exact (hrest b hb).1
  have hr := reconnectDev_devFrame { c with dev := { c.dev with acts := [], xmStr := none, xmResult := false, xmUsed := false } } tmo
  unfold failAll
  dsimp only
  split
  · generalize reconnectDev _ tmo = r at *
    exact ⟨hr.plugs, hr.scripts, hout.append hfin, StoreFrame.of_eq hr.args⟩
  · exact ⟨rfl, rfl, hout.append hfin, StoreFrame.rfl' _⟩

theorem onTimeout_frame (Q : Bytes → Bool) (C L : Nat → Prop) (rest : List Action) (c : CS) (a : Action) (o : Oracle)
    (out : List Out) (tmo : Option Time) (ha : C a.clientId) (hrest : Keyed C L rest) (hout : Addr C out) :
    PAFrame Q C L c.dev (onTimeout rest c a o out tmo) := by
  unfold onTimeout
  dsimp only
  have hT := teleMem_addr a.clientId "recv(dev): '" c.dev.fromBuf
  generalize htele : (if a.telemetry = true then
      (if (c.dev.conn != 2) = true then [Out.telemetry a.clientId (str "connect(dev): timeout")]
       else teleMem a.clientId "recv(dev): '" c.dev.fromBuf) else []) = tele
  have hnt : Addr C tele := by
    subst htele; intro x hx cid hc
    split at hx
    · split at hx
      · simp at hx; subst hx; simp [outCid] at hc; subst hc; exact ha
      · rw [hT x hx cid hc]; exact ha
    · simp at hx
  split
  · exact ⟨rfl, rfl, hout.append hnt, StoreFrame.rfl' _⟩
  · exact failAll_frame Q C L rest c _ o _ tmo ha hrest (hout.append hnt)

theorem advance_arglist (a : Action) : (advance a).arglist = a.arglist := by
  unfold advance; dsimp only; split <;> rfl
theorem stamp_arglist (now : Time) (a : Action) : (stamp now a).arglist = a.arglist := by
  unfold stamp; split <;> rfl

theorem onRun_frame (Q : Bytes → Bool) (C L : Nat → Prop) (k : CS → Oracle → List Out → Option Time → PA)
    (rest : List Action) (c : CS) (a : Action) (o : Oracle) (out : List Out) (tmo : Option Time) (left : Time)
    (hQ : QOff Q c.dev) (ha : C a.clientId ∧ L a.arglist) (hrest : Keyed C L rest) (hout : Addr C out)
    (hk : ∀ c' o' out' tmo', QOff Q c'.dev → Keyed C L c'.dev.acts → Addr C out' → PAFrame Q C L c'.dev (k c' o' out' tmo')) :
    PAFrame Q C L c.dev (onRun k rest c a o out tmo left) := by
  unfold onRun
  dsimp only
  have hIL := innerLoop_frame Q c.env.now (loopBound a) { c.dev with wake := none } a o [] hQ (by simp)
  generalize innerLoop c.env.now (loopBound a) { c.dev with wake := none } a o [] = r at *
  have hplugs : r.dev.plugs = c.dev.plugs := hIL.plugs
  have hscripts : r.dev.scripts = c.dev.scripts := hIL.scripts
  have hstore : StoreFrame Q L c.dev.args r.dev.args := hIL.store ha.2
  have hrout : Addr C r.out := by intro x hx cid hc; rw [hIL.addr x hx cid hc]; exact ha.1
  have hadvc := advance_clientId r.act
  have hadva := advance_arglist r.act
  generalize advance r.act = a' at *
  have ha' : C a'.clientId ∧ L a'.arglist := by rw [hadvc, hadva, hIL.cid, hIL.al]; exact ha
  have hract : C r.act.clientId ∧ L r.act.arglist := by rw [hIL.cid, hIL.al]; exact ha
  have hQr : ∀ (x : Dev), x.plugs = r.dev.plugs → QOff Q x := fun x hx => QOff_congr (hx.trans hplugs) hQ
  split
  · exact ⟨hplugs, hscripts, hout.append hrout, hstore⟩
  · split
    · exact ⟨hplugs, hscripts, hout.append hrout, hstore⟩
    · split
      · split
        · have := hk { c with dev := { r.dev with acts := rest, loggedIn := r.dev.loggedIn || a'.com == 0, statActions := r.dev.statActions + 1, xmStr := none, xmResult := false, xmUsed := false } }
            r.oracle ((out ++ r.out) ++ (if a'.clientId != 0 then [Out.finish a'.clientId .success] else [])) tmo
            (hQr _ rfl) hrest ((hout.append hrout).append (by
              intro x hx cid hc
              split at hx
              · simp at hx; subst hx; simp [outCid] at hc; subst hc; exact ha'.1
              · simp at hx))
          exact ⟨this.plugs.trans hplugs, this.scripts.trans hscripts, this.addr, hstore.trans this.store⟩
        · have := hk { c with dev := { r.dev with acts := a' :: rest } } r.oracle (out ++ r.out) tmo
            (hQr _ rfl) (by
              intro b hb; simp at hb; rcases hb with hb | hb
              · subst hb; exact ha'
              · exact hrest b hb) (hout.append hrout)
          exact ⟨this.plugs.trans hplugs, this.scripts.trans hscripts, this.addr, hstore.trans this.store⟩
      · have := failAll_frame Q C L rest { c with dev := r.dev } r.act r.oracle (out ++ r.out) tmo hract.1 hrest (hout.append hrout)
        exact ⟨this.plugs.trans hplugs, this.scripts.trans hscripts, this.addr, hstore.trans this.store⟩

/-- single-run frame of `_process_action`, for every fuel -/
theorem processActionF_frame (Q : Bytes → Bool) (C L : Nat → Prop) (fuel : Nat) (c : CS) (o : Oracle) (out : List Out)
    (tmo : Option Time) (hQ : QOff Q c.dev) (hacts : Keyed C L c.dev.acts) (hout : Addr C out) :
    PAFrame Q C L c.dev (processActionF fuel c o out tmo) := by
  induction fuel generalizing c o out tmo with
  | zero =>
    unfold processActionF
    exact ⟨rfl, rfl, hout.append (by intro x hx cid hc; simp at hx; subst hx; simp [outCid] at hc), StoreFrame.rfl' _⟩
  | succ n ih =>
    unfold processActionF processActionBody
    split
    · exact ⟨rfl, rfl, hout, StoreFrame.rfl' _⟩
    · split
      · exact ⟨rfl, rfl, hout, StoreFrame.rfl' _⟩
      · rename_i a0 rest hq
        dsimp only
        have hsc := stamp_clientId c.env.now a0
        have hsa := stamp_arglist c.env.now a0
        generalize stamp c.env.now a0 = a at *
        have ha0 := hacts a0 (by simp [hq])
        have ha : C a.clientId ∧ L a.arglist := by rw [hsc, hsa]; exact ha0
        have hrest : Keyed C L rest := fun b hb => hacts b (by simp [hq, hb])
        split
        · exact onTimeout_frame Q C L rest c a o out tmo ha.1 hrest hout
        · split
          · exact ⟨rfl, rfl, hout, StoreFrame.rfl' _⟩
          · exact onRun_frame Q C L _ rest c a o out tmo _ hQ ha hrest hout (fun c' o' out' tmo' h1 h2 h3 => ih c' o' out' tmo' h1 h2 h3)

/-! ### `dev_post_poll` for one device, cut in pieces -/

def ppReady (d : Dev) (env : Env) : CS × Bool :=
  let c : CS := { dev := d, env := env, sys := [] }
  let flags := if c.dev.fd.isSome then env.revents else 0
  if flags != 0 then handleReady { c with env := { env with revents := flags } } else (c, false)

def ppReconnect (c : CS) (ioerr : Bool) : CS × Option Time :=
  if ioerr || c.dev.conn == 0 then reconnectDev c none else (c, none)

def pingAction (d : Dev) : Action :=
  { loginAction d with com := 6, exec := [{ block := (d.scripts 6).getD [], pos := 0, plugs := none, plugItr := none, plugCopy := none, processing := false }] }

def ppPing (c : CS) (now : Time) (tmo : Option Time) : CS × Option Time :=
  if c.dev.conn == 2 && (c.dev.scripts 6).isSome && c.dev.pingPeriod > 0 then
    match c.dev.lastPing with
    | some t =>
      if now ≥ t + c.dev.pingPeriod then
        ({ c with dev := { c.dev with acts := c.dev.acts ++ [pingAction c.dev], lastPing := some now } }, tmo)
      else (c, upd tmo (t + c.dev.pingPeriod - now))
    | none =>
      ({ c with dev := { c.dev with acts := c.dev.acts ++ [pingAction c.dev], lastPing := some now } }, tmo)
  else (c, tmo)

def postPoll' (d : Dev) (env : Env) (o : Oracle) : CS × Oracle × List Out × Option Time :=
  let r := ppReady d env
  if r.1.aborted then (r.1, o, [], none) else
  let r2 := ppReconnect r.1 r.2
  let r3 := ppPing r2.1 env.now r2.2
  processAction r3.1 o [] r3.2

theorem postPoll_eq (d : Dev) (env : Env) (o : Oracle) : postPoll d env o = postPoll' d env o := by
  unfold postPoll postPoll' ppReady ppReconnect ppPing pingAction
  rfl

theorem rewind_clientId (a : Action) : (rewind a).clientId = a.clientId := by
  unfold rewind; split <;> rfl
theorem rewind_arglist (a : Action) : (rewind a).arglist = a.arglist := by
  unfold rewind; split <;> rfl

theorem DevFrame.keyed {C L : Nat → Prop} {d d' : Dev} (h : DevFrame d d') (h0 : C 0 ∧ L 0) (hk : Keyed C L d.acts) :
    Keyed C L d'.acts :=
  h.acts (fun a => C a.clientId ∧ L a.arglist) h0 (fun a ha => by rw [rewind_clientId, rewind_arglist]; exact ha) hk

theorem ppReady_devFrame (d : Dev) (env : Env) : DevFrame d (ppReady d env).1.dev := by
  unfold ppReady
  dsimp only
  generalize (if d.fd.isSome = true then env.revents else 0) = flags
  split
  · exact handleReady_devFrame { dev := d, env := { env with revents := flags }, sys := [] }
  · exact DevFrame.rfl' _

theorem ppReconnect_devFrame (c : CS) (ioerr : Bool) : DevFrame c.dev (ppReconnect c ioerr).1.dev := by
  unfold ppReconnect
  split
  · exact reconnectDev_devFrame _ _
  · exact DevFrame.rfl' _

/-- `_enqueue_ping` keeps plugs, scripts and store; the queue may gain the ping action -/
theorem ppPing_frame (c : CS) (now : Time) (tmo : Option Time) :
    (ppPing c now tmo).1.dev.plugs = c.dev.plugs ∧ (ppPing c now tmo).1.dev.scripts = c.dev.scripts ∧
    (ppPing c now tmo).1.dev.args = c.dev.args ∧
    ((ppPing c now tmo).1.dev.acts = c.dev.acts ∨ (ppPing c now tmo).1.dev.acts = c.dev.acts ++ [pingAction c.dev]) := by
  unfold ppPing; grind

theorem ppPing_keyed {C L : Nat → Prop} (c : CS) (now : Time) (tmo : Option Time) (h0 : C 0 ∧ L 0) (hk : Keyed C L c.dev.acts) :
    Keyed C L (ppPing c now tmo).1.dev.acts := by
  rcases (ppPing_frame c now tmo).2.2.2 with h | h
  · rw [h]; exact hk
  · rw [h]; intro a ha; simp at ha; rcases ha with ha | ha
    · exact hk a ha
    · subst ha; exact h0

/-- **single-run frame of one device's share of `dev_post_poll`**: with `C` a set of client ids containing `0` and the
    ids of the queued actions, `L` a set of arglist ids containing `0` and those of the queued actions, and `Q` a set of
    nodes none of which is wired to this device: callbacks go to `C` only, arglists outside `L` are untouched, entries of
    `Q`-nodes are untouched everywhere, plugs and scripts are kept. -/
theorem postPoll_frame (Q : Bytes → Bool) (C L : Nat → Prop) (d : Dev) (env : Env) (o : Oracle)
    (hQ : QOff Q d) (h0 : C 0 ∧ L 0) (hacts : Keyed C L d.acts) : PAFrame Q C L d (postPoll d env o) := by
  rw [postPoll_eq]
  unfold postPoll'
  have h1 := ppReady_devFrame d env
  generalize ppReady d env = r at *
  dsimp only
  split
  · exact ⟨h1.plugs, h1.scripts, Addr.nil, StoreFrame.of_eq h1.args⟩
  · have h2 := ppReconnect_devFrame r.1 r.2
    generalize ppReconnect r.1 r.2 = r2 at *
    have h3 := ppPing_frame r2.1 env.now r2.2
    have h3k := ppPing_keyed (C := C) (L := L) r2.1 env.now r2.2 h0 ((h1.trans h2).keyed h0 hacts)
    generalize ppPing r2.1 env.now r2.2 = r3 at *
    have h12 := h1.trans h2
    have hp : r3.1.dev.plugs = d.plugs := h3.1.trans h12.plugs
    have := processActionF_frame Q C L (passFuel r3.1.dev) r3.1 o [] r3.2 (QOff_congr hp hQ) h3k Addr.nil
    unfold processAction
    exact ⟨this.plugs.trans hp, this.scripts.trans (h3.2.1.trans h12.scripts), this.addr,
      (StoreFrame.of_eq (h3.2.2.1.trans h12.args)).trans this.store⟩


/-! ### `_process_setplugstate` / `_process_setresult` restated: first decide *whether and where* to write (this does not
    look at the store or the oracle), then ask the oracle and write -/

def spsTarget (d : Dev) (e : ExecCtx) (lit : Option Bytes) (plugMp statMp : Int) : Option (Bytes × Plug) :=
  let plugName : Option Bytes := match lit with
    | some n => some n
    | none => match subOf d plugMp with
      | some n => some n
      | none => match e.plugs with
        | some (p :: _) => some p.name
        | _ => none
  match plugName with
  | none => none
  | some pn =>
    match subOf d statMp, findPlug d pn with
    | some s, some plug => some (s, plug)
    | _, _ => none

def stmtSetplugstate' (d : Dev) (a : Action) (o : Oracle) (e : ExecCtx) (lit : Option Bytes) (plugMp statMp : Int) (interps : List (PState × Nat)) : StepR :=
  match spsTarget d e lit plugMp statMp with
  | none => ⟨d, a, o, [], true⟩
  | some (s, plug) =>
    let q := pickState askRx s interps o []
    ⟨setArgs d a.arglist ((getArgs d a.arglist).map fun g => if g.node == plug.node.getD [] then { g with state := q.2.1, val := some s } else g),
     a, q.1, q.2.2, true⟩

theorem stmtSetplugstate_eq (d a o e lit plugMp statMp interps) :
    stmtSetplugstate d a o e lit plugMp statMp interps = stmtSetplugstate' d a o e lit plugMp statMp interps := by
  unfold stmtSetplugstate stmtSetplugstate' spsTarget
  rcases lit with _ | n
  · rcases hsub : subOf d plugMp with _ | n
    · rcases hp : e.plugs with _ | (_ | ⟨p, t⟩)
      · rfl
      · rfl
      · dsimp only; cases subOf d statMp <;> cases findPlug d p.name <;> rfl
    · dsimp only; cases subOf d statMp <;> cases findPlug d n <;> rfl
  · dsimp only; cases subOf d statMp <;> cases findPlug d n <;> rfl

def srTarget (d : Dev) (plugMp statMp : Int) : Option (Bytes × Plug) :=
  match subOf d plugMp with
  | none => none
  | some pn =>
    match subOf d statMp, findPlug d pn with
    | some s, some plug => some (s, plug)
    | _, _ => none

def stmtSetresult' (d : Dev) (a : Action) (o : Oracle) (plugMp statMp : Int) (interps : List (PResult × Nat)) : StepR :=
  match srTarget d plugMp statMp with
  | none => ⟨d, a, o, [], true⟩
  | some (s, plug) =>
    let q := pickResult askRx s interps o []
    let node := plug.node.getD []
    let found := (getArgs d a.arglist).any (·.node == node)
    let dg := if found && q.2.1 != .success then
        [Out.diag a.clientId (node ++ str ": " ++ (s.takeWhile fun b => b != 13 && b != 10).take 1023)] else []
    ⟨setArgs d a.arglist ((getArgs d a.arglist).map fun g => if g.node == node then { g with result := q.2.1, val := some s } else g),
     a, q.1, q.2.2 ++ dg, true⟩

theorem stmtSetresult_eq (d a o plugMp statMp interps) :
    stmtSetresult d a o plugMp statMp interps = stmtSetresult' d a o plugMp statMp interps := by
  unfold stmtSetresult stmtSetresult' srTarget
  cases subOf d plugMp with
  | none => rfl
  | some pn =>
    dsimp only
    cases subOf d statMp <;> cases findPlug d pn <;> rfl

/-! ### `onRun` cut after the statement loop -/

/-- the head action ran to the end of a statement without error: advance, and complete it if its script is over -/
def onRunOk (k : CS → Oracle → List Out → Option Time → PA) (rest : List Action) (c : CS) (r : StepR) (out : List Out) (tmo : Option Time) : PA :=
  let a' := advance r.act
  if a'.exec.isEmpty then
    let fin := if a'.clientId != 0 then [Out.finish a'.clientId .success] else []
    let dev := { r.dev with acts := rest, loggedIn := r.dev.loggedIn || a'.com == 0, statActions := r.dev.statActions + 1, xmStr := none, xmResult := false, xmUsed := false }
    k { c with dev := dev } r.oracle (out ++ fin) tmo
  else k { c with dev := { r.dev with acts := a' :: rest } } r.oracle out tmo

/-- what `onRun` does with the result `r` of the statement loop -/
def onRunTail (k : CS → Oracle → List Out → Option Time → PA) (rest : List Action) (c : CS) (r : StepR) (out0 : List Out)
    (tmo : Option Time) (left : Time) : PA :=
  let out := out0 ++ r.out
  if hasAbort r.out then
    ({ c with dev := { r.dev with acts := r.act :: rest }, aborted := true }, r.oracle, out, tmo) else
  if !r.finished then ({ c with dev := { r.dev with acts := r.act :: rest } }, r.oracle, out,
    upd (match r.dev.wake with | some w => upd tmo w | none => tmo) left)
  else if r.act.errnum == .success then onRunOk k rest c r out tmo
  else failAll rest { c with dev := r.dev } r.act r.oracle out tmo

theorem onRun_eq (k rest c a o out tmo left) :
    onRun k rest c a o out tmo left = onRunTail k rest c (innerLoop c.env.now (loopBound a) { c.dev with wake := none } a o []) out tmo left := rfl

/-- the tail of one round of the `do … while` loop -/
def innerStep (now : Time) (n : Nat) (a : Action) (acc : List Out) (q : StepR) : StepR :=
  if q.finished && q.act.exec.length > a.exec.length then innerLoop now n q.dev q.act q.oracle (acc ++ q.out)
  else { q with out := acc ++ q.out }

theorem innerLoop_succ (now n d a o acc) : innerLoop now (n + 1) d a o acc = innerStep now n a acc (processStmt d a o now) := rfl

theorem processStmt_plugs (d : Dev) (a : Action) (o : Oracle) (now : Time) : (processStmt d a o now).dev.plugs = d.plugs :=
  (processStmt_frame (fun _ => false) d a o now (fun _ _ _ _ => rfl)).plugs

end Pm.Dev2
