import Pm.HLMore
/-! Helper lemmas for property C14 (items 3–4): `deleteNth` erases exactly one position of the expansion,
    `find` is complete (returns the first occurrence) under the suffix bound, `deleteHost` erases the first occurrence. -/
namespace Pm

/-! ## 4a. `hostlist_delete_nth` erases exactly position `n` of the expansion -/

/-- `len` consecutive numbered names starting at `lo` -/
def numSeg (p : Name) (w lo len : Nat) : List Name := (List.range len).map fun i => p ++ fmtNum w (lo + i)

theorem numExpand_eq_numSeg (p : Name) (w lo hi : Nat) : numExpand p w lo hi = numSeg p w lo (hi + 1 - lo) := rfl

theorem numSeg_length (p : Name) (w lo len : Nat) : (numSeg p w lo len).length = len := by simp [numSeg]

theorem numSeg_add (p : Name) (w lo a b : Nat) :
    numSeg p w lo (a + b) = numSeg p w lo a ++ numSeg p w (lo + a) b := by
  unfold numSeg
  rw [List.range_add, List.map_append, List.map_map]
  congr 1
  apply List.map_congr_left
  intro i _
  simp only [Function.comp, Nat.add_assoc]

theorem numSeg_one (p : Name) (w lo : Nat) : numSeg p w lo 1 = [p ++ fmtNum w lo] := by
  simp [numSeg, List.range_succ]

theorem numSeg_eraseIdx (p : Name) (w lo len n : Nat) (h : n < len) :
    (numSeg p w lo len).eraseIdx n = numSeg p w lo n ++ numSeg p w (lo + n + 1) (len - n - 1) := by
  have e : len = n + (1 + (len - n - 1)) := by omega
  conv => lhs; rw [e, numSeg_add, numSeg_add, numSeg_one]
  rw [List.eraseIdx_append_of_length_le (by rw [numSeg_length]; exact Nat.le_refl _), numSeg_length, Nat.sub_self]
  simp [Nat.add_assoc]

theorem expand_mk_nonsingle (p : Name) (lo hi w : Nat) :
    ({ pfx := p, lo := lo, hi := hi, width := w, single := false } : HostRange).expand = numSeg p w lo (hi + 1 - lo) := by
  simp [HostRange.expand, numSeg]

theorem delHead_expand (r : HostRange) (n : Nat) (hr : r.single = true ∨ r.lo ≤ r.hi) (hn : n < r.cnt) :
    expand (delHead r n) = r.expand.eraseIdx n := by
  unfold delHead
  unfold HostRange.cnt at hn
  by_cases hs0 : r.single = true
  · simp [hs0] at hn ⊢
    subst hn
    simp [HostRange.expand, hs0, expand_nil]
  · have hs : r.single = false := by simpa using hs0
    simp [hs] at hn hr
    simp only [hs, Bool.false_eq_true, if_false]
    rw [HostRange.expand_nonsingle r hs, numExpand_eq_numSeg, numSeg_eraseIdx _ _ _ _ _ hn]
    split
    · rename_i h0
      subst h0
      split
      · have : r.hi + 1 - r.lo - 0 - 1 = 0 := by omega
        rw [this]; simp [numSeg, expand_nil]
      · rw [expand_singleton, expand_mk_nonsingle]
        simp only [numSeg, List.range_zero, List.map_nil, List.nil_append, Nat.add_zero]
        congr 2
    · split
      · rename_i h0 h1
        rw [expand_singleton, expand_mk_nonsingle]
        have : r.hi + 1 - r.lo - n - 1 = 0 := by omega
        rw [this]
        simp only [numSeg, List.range_zero, List.map_nil, List.append_nil]
        congr 2; omega
      · rename_i h0 h1
        have e : ∀ (a b : HostRange), expand [a, b] = a.expand ++ b.expand := by
          intro a b; simp [expand]
        rw [e, expand_mk_nonsingle, expand_mk_nonsingle]
        congr 2 <;> omega

theorem deleteNth_expand : ∀ (hl : Hostlist) (n : Nat), HWF hl →
    expand (deleteNth hl n) = (expand hl).eraseIdx n
  | [], _, _ => by simp [deleteNth, expand_nil]
  | r :: rs, n, h => by
    obtain ⟨hr, hrs⟩ := HWF_cons.mp h
    have hl := HostRange.expand_length r
    rw [deleteNth_cons, expand_cons]
    split
    · rename_i hn
      rw [expand_append, delHead_expand r n hr hn, List.eraseIdx_append_of_lt_length (by omega)]
    · rename_i hn
      rw [expand_cons, deleteNth_expand rs _ hrs, List.eraseIdx_append_of_length_le (by omega), hl]

/-! ## 3. `hostlist_find` is complete under the suffix bound, and returns the first occurrence -/

theorem splitDigits_append_digits (a F : Name) (hF : ∀ c ∈ F, c.isDigit = true) :
    splitDigits (a ++ F) = ((splitDigits a).1, (splitDigits a).2 ++ F) := by
  unfold splitDigits
  have hF' : ∀ c ∈ F.reverse, Char.isDigit c = true := fun c hc => hF c (by simpa using hc)
  simp only [List.reverse_append]
  rw [List.takeWhile_append_of_pos hF', List.dropWhile_append_of_pos hF']
  simp

theorem widthEquiv_fmt (lo w x : Nat) : ∃ p, widthEquiv lo w x (fmtNum w x).length = some p := by
  rw [fmtNum_length]
  have hm : zeroPadded x (max w (ndig x)) = zeroPadded x w := by
    unfold zeroPadded
    split <;> split <;> omega
  cases h : widthEquiv lo w x (max w (ndig x)) with
  | some p => exact ⟨p, rfl⟩
  | none =>
    exfalso
    unfold widthEquiv at h
    simp only [hm] at h
    split at h
    · rename_i h1; exact h1.2 rfl
    · split at h
      · simp at h
      · rename_i h2; simp at h2; simp [h2] at h

/-- the retry loop of `hostrange_hn_within`: with the range prefix cut as `a ++ b` (`b` digits already seen as part of
    the host name's numeric suffix) the search ends at the right offset -/
theorem hnWithin_complete_aux (r : HostRange) (hs : r.single = false) (x : Nat) (hlo : r.lo ≤ x) (hhi : x ≤ r.hi)
    (full : Name) : ∀ (b a : Name), a ++ b = r.pfx → (∀ c ∈ b, c.isDigit = true) →
      parseNat (b ++ fmtNum r.width x) ≤ MAX_HOST_SUFFIX →
      hnWithin r full a (b ++ fmtNum r.width x) = some (x - r.lo) := by
  intro b
  induction b with
  | nil =>
    intro a hab _ hmax
    simp only [List.append_nil, List.nil_append] at hab hmax ⊢
    subst hab
    obtain ⟨p, hp⟩ := widthEquiv_fmt r.lo r.width x
    have hne := fmtNum_ne_nil r.width x
    have hpn := parseNat_fmtNum r.width x
    generalize fmtNum r.width x = F at *
    cases F with
    | nil => exact absurd rfl hne
    | cons d F' =>
      have hx : x ≤ MAX_HOST_SUFFIX := hpn ▸ hmax
      simp only [List.length_cons] at hp
      rw [hnWithin]
      simp [hs, hpn, hlo, hhi, hp, hx]
  | cons d b' ih =>
    intro a hab hdig hmax
    have hne := fmtNum_ne_nil r.width x
    have hrec := ih (a ++ [d]) (by simp [← hab]) (fun c hc => hdig c (by simp [hc]))
      (Nat.le_trans (parseNat_suffix_le [d] _) hmax)
    have hlen : a.length < r.pfx.length := by rw [← hab]; simp
    have htake : List.take a.length r.pfx = a := by rw [← hab]; simp
    have hget : r.pfx[a.length]? = some d := by rw [← hab]; simp
    have hlast : (r.pfx.getLast?.map Char.isDigit).getD false = true := by
      have : r.pfx.getLast? = (d :: b').getLast? := by
        rw [← hab, List.getLast?_append]
        cases hl : (d :: b').getLast? with
        | none => exact absurd (List.getLast?_eq_none_iff.mp hl) (by simp)
        | some c => rfl
      rw [this]
      cases hl : (d :: b').getLast? with
      | none => exact absurd (List.getLast?_eq_none_iff.mp hl) (by simp)
      | some c => simp; exact hdig c (mem_of_getLast? hl)
    have hlen2 : 1 < (d :: (b' ++ fmtNum r.width x)).length := by
      have : 0 < (fmtNum r.width x).length := List.length_pos_iff.mpr hne
      simp; omega
    rw [List.cons_append, hnWithin]
    rw [List.cons_append] at hmax
    simp only [hs, Bool.false_eq_true, if_false]
    rw [if_neg (by simp [hmax])]
    rw [if_neg (by simp [htake]; omega)]
    rw [if_pos (by simp only [Bool.and_eq_true, decide_eq_true_eq, beq_iff_eq]; exact ⟨⟨⟨hlen, hlen2⟩, hlast⟩, hget⟩)]
    exact hrec

/-- completeness of `hostrange_hn_within` on one numeric range: the name `pfx ++ %0*lu(x)` with `lo ≤ x ≤ hi` is
    found at offset `x - lo`, provided the whole trailing digit string of the name (what `hostname_create`
    takes as its numeric suffix) does not exceed `MAX_HOST_SUFFIX` -/
theorem hnWithin_complete (r : HostRange) (hs : r.single = false) (x : Nat) (hlo : r.lo ≤ x) (hhi : x ≤ r.hi)
    (hmax : parseNat (splitDigits (r.pfx ++ fmtNum r.width x)).2 ≤ MAX_HOST_SUFFIX) :
    hnWithin r (r.pfx ++ fmtNum r.width x) (splitDigits (r.pfx ++ fmtNum r.width x)).1
      (splitDigits (r.pfx ++ fmtNum r.width x)).2 = some (x - r.lo) := by
  rw [splitDigits_append_digits _ _ (fmtNum_digits _ _)] at hmax ⊢
  obtain ⟨hcat, hdig⟩ := splitDigits_spec r.pfx
  exact hnWithin_complete_aux r hs x hlo hhi _ _ _ hcat hdig hmax

theorem hnWithin_single (r : HostRange) (hs : r.single = true) (a b : Name) :
    hnWithin r r.pfx a b = some 0 := by
  rw [hnWithin.eq_def]; simp [hs]

theorem numSeg_nodup (p : Name) (w lo len : Nat) : (numSeg p w lo len).Nodup := by
  unfold numSeg List.Nodup
  apply List.Pairwise.map (R := (· < ·)) _ _ List.pairwise_lt_range
  intro a b hab h
  have := fmtNum_inj (List.append_cancel_left h)
  omega

theorem HostRange.expand_nodup (r : HostRange) : r.expand.Nodup := by
  by_cases hs : r.single = true
  · simp [HostRange.expand, hs]
  · have hs' : r.single = false := by simpa using hs
    rw [HostRange.expand_nonsingle r hs', numExpand_eq_numSeg]
    exact numSeg_nodup _ _ _ _

/-- the proviso of `hostlist_find`: the entry is a single name, or the trailing digit string of the name
    (its numeric suffix as `hostname_create` sees it) is at most `MAX_HOST_SUFFIX` -/
def Findable (r : HostRange) (n : Name) : Prop :=
  r.single = true ∨ parseNat (splitDigits n).2 ≤ MAX_HOST_SUFFIX

instance (r : HostRange) (n : Name) : Decidable (Findable r n) := by unfold Findable; exact inferInstance

theorem hnWithin_of_mem (r : HostRange) (n : Name) (hmem : n ∈ r.expand) (hf : Findable r n) :
    hnWithin r n (splitDigits n).1 (splitDigits n).2 = some (r.expand.idxOf n) := by
  by_cases hs : r.single = true
  · simp [HostRange.expand, hs] at hmem
    subst hmem
    rw [hnWithin_single r hs]
    simp [HostRange.expand, hs]
  · have hs' : r.single = false := by simpa using hs
    have hf' : parseNat (splitDigits n).2 ≤ MAX_HOST_SUFFIX := by
      rcases hf with h | h
      · exact absurd h hs
      · exact h
    have hnd := HostRange.expand_nodup r
    rw [HostRange.expand_nonsingle r hs'] at hmem hnd ⊢
    unfold numExpand at hmem
    obtain ⟨i, hi, hni⟩ := List.mem_map.mp hmem
    have hi' : i < r.hi + 1 - r.lo := by simpa using hi
    subst hni
    rw [hnWithin_complete r hs' (r.lo + i) (by omega) (by omega) hf']
    have hlen : i < (numExpand r.pfx r.width r.lo r.hi).length := by simp [numExpand]; omega
    have hget : (numExpand r.pfx r.width r.lo r.hi)[i] = r.pfx ++ fmtNum r.width (r.lo + i) := by
      simp [numExpand]
    rw [← hget, List.Nodup.idxOf_getElem hnd i hlen]
    congr 1; omega

theorem hnWithin_none_of_not_mem (r : HostRange) (n : Name) (h : n ∉ r.expand) :
    hnWithin r n (splitDigits n).1 (splitDigits n).2 = none := by
  obtain ⟨hcat, hdig⟩ := splitDigits_spec n
  cases hw : hnWithin r n (splitDigits n).1 (splitDigits n).2 with
  | none => rfl
  | some k => exact absurd (List.mem_of_getElem? (hnWithin_sound r n _ _ k hcat hdig hw)) h

theorem findGo_complete (n : Name) : ∀ (hl : Hostlist) (acc : Nat), n ∈ expand hl →
    (∀ r ∈ hl, n ∈ r.expand → Findable r n) → findGo n hl acc = some (acc + (expand hl).idxOf n)
  | [], _, hmem, _ => by simp [expand_nil] at hmem
  | r :: rs, acc, hmem, hf => by
    rw [findGo, expand_cons, List.idxOf_append]
    by_cases hr : n ∈ r.expand
    · rw [hnWithin_of_mem r n hr (hf r (by simp) hr)]
      simp [hr]
    · rw [hnWithin_none_of_not_mem r n hr]
      rw [expand_cons] at hmem
      have hmem' : n ∈ expand rs := by
        rcases List.mem_append.mp hmem with h | h
        · exact absurd h hr
        · exact h
      simp only [hr, if_false]
      rw [findGo_complete n rs _ hmem' (fun t ht => hf t (by simp [ht]))]
      congr 1; omega

/-- `hostlist_find` returns the index of the FIRST occurrence of a member name, provided every entry
    holding the name is a single name or the name's numeric suffix is at most `MAX_HOST_SUFFIX` -/
theorem find_complete (hl : Hostlist) (n : Name) (hmem : n ∈ expand hl)
    (hf : ∀ r ∈ hl, n ∈ r.expand → Findable r n) : find hl n = some ((expand hl).idxOf n) := by
  unfold find; rw [findGo_complete n hl 0 hmem hf]; simp

theorem find_none_of_not_mem (hl : Hostlist) (n : Name) (h : n ∉ expand hl) : find hl n = none := by
  cases hf : find hl n with
  | none => rfl
  | some i => exact absurd (find_mem hl n i hf) h

/-! ## 4b. `hostlist_delete_host` removes exactly the first occurrence -/

theorem deleteHost_expand (hl : Hostlist) (n : Name) (hwf : HWF hl)
    (hf : ∀ r ∈ hl, n ∈ r.expand → Findable r n) :
    expand (deleteHost hl n).1 = (expand hl).erase n ∧
      (deleteHost hl n).2 = if n ∈ expand hl then 1 else 0 := by
  unfold deleteHost
  by_cases hmem : n ∈ expand hl
  · rw [find_complete hl n hmem hf]
    simp only [hmem, if_true, and_true]
    rw [deleteNth_expand hl _ hwf, List.erase_eq_eraseIdx_of_idxOf rfl]
  · rw [find_none_of_not_mem hl n hmem]
    simp only [hmem, if_false, and_true]
    rw [List.erase_of_not_mem hmem]

/-- without the proviso: whatever `hostlist_delete_host` removes is one occurrence of that very name -/
theorem deleteHost_expand_weak (hl : Hostlist) (n : Name) (hwf : HWF hl) :
    (∃ i, (expand hl)[i]? = some n ∧ expand (deleteHost hl n).1 = (expand hl).eraseIdx i ∧ (deleteHost hl n).2 = 1)
    ∨ ((deleteHost hl n).1 = hl ∧ (deleteHost hl n).2 = 0) := by
  unfold deleteHost
  cases hf : find hl n with
  | none => right; simp
  | some i => left; exact ⟨i, find_sound hl n i hf, deleteNth_expand hl i hwf, rfl⟩

/-! ### the proviso is exactly what the code needs -/

/-- a numeric range never matches a name whose trailing digit string exceeds `MAX_HOST_SUFFIX` (defect F10) -/
theorem hnWithin_none_of_big (r : HostRange) (hs : r.single = false) (full a ds : Name)
    (hbig : ¬ parseNat ds ≤ MAX_HOST_SUFFIX) : hnWithin r full a ds = none := by
  rw [hnWithin.eq_def]; simp [hs, hbig]

instance instDecEqExceptC14 {ε α : Type} [DecidableEq ε] [DecidableEq α] : DecidableEq (Except ε α) := fun a b =>
  match a, b with
  | .ok x, .ok y => if h : x = y then isTrue (by rw [h]) else isFalse (by intro e; cases e; exact h rfl)
  | .error x, .error y => if h : x = y then isTrue (by rw [h]) else isFalse (by intro e; cases e; exact h rfl)
  | .ok _, .error _ => isFalse (by intro e; cases e)
  | .error _, .ok _ => isFalse (by intro e; cases e)

/-! ### lists built by pushing names: every pushed name is findable, with no proviso -/

/-- what `hostlist_push_host` guarantees of each range: a numeric range has a prefix that does not end in a digit
    and numbers up to `MAX_HOST_SUFFIX` -/
def HostRange.Pushed (r : HostRange) : Prop :=
  r.single = true ∨ ((splitDigits r.pfx).2 = [] ∧ r.hi ≤ MAX_HOST_SUFFIX)

def HPushed (hl : Hostlist) : Prop := ∀ r ∈ hl, r.Pushed

theorem takeWhile_dropWhile_nil {α} (p : α → Bool) : ∀ (l : List α), (l.dropWhile p).takeWhile p = []
  | [] => rfl
  | x :: xs => by
    rw [List.dropWhile_cons]
    split
    · exact takeWhile_dropWhile_nil p xs
    · rename_i h; rw [List.takeWhile_cons]; simp [h]

theorem splitDigits_fst_no_digits (n : Name) : (splitDigits (splitDigits n).1).2 = [] := by
  unfold splitDigits
  simp [takeWhile_dropWhile_nil]

theorem pushRange_HPushed (hl : Hostlist) (r : HostRange) (hr : r.Pushed) (h : HPushed hl) :
    HPushed (pushRange hl r) := by
  unfold pushRange
  cases hlast : hl.getLast? with
  | none => intro t ht; simp at ht; subst ht; exact hr
  | some t =>
    simp only
    have htm := mem_of_getLast? hlast
    split
    · rename_i hc
      obtain ⟨hp, hs, hts, hadj⟩ := hc
      have hts' : t.single = false := by simpa using hts
      have hrs : r.single = false := by rw [← hs]; exact hts'
      cases hwe : widthEquiv t.lo t.width r.lo r.width with
      | none =>
        intro x hx
        rcases List.mem_append.mp hx with hx | hx
        · exact h x hx
        · simp at hx; subst hx; exact hr
      | some p =>
        obtain ⟨wt, wr⟩ := p
        intro x hx
        rcases List.mem_append.mp hx with hx | hx
        · exact h x (mem_dropLast hx)
        · simp at hx; subst hx
          right
          have h1 := h t htm
          unfold HostRange.Pushed at h1 hr
          simp [hts'] at h1
          simp [hrs] at hr
          exact ⟨h1.1, hr.2⟩
    · intro x hx
      rcases List.mem_append.mp hx with hx | hx
      · exact h x hx
      · simp at hx; subst hx; exact hr

theorem pushHost_HPushed (hl : Hostlist) (n : Name) (h : HPushed hl) : HPushed (pushHost hl n) := by
  unfold pushHost HostName.ofName
  generalize hsd : splitDigits n = sd
  obtain ⟨p, ds⟩ := sd
  have hp : (splitDigits p).2 = [] := by
    have := splitDigits_fst_no_digits n
    rw [hsd] at this; exact this
  simp only
  by_cases hemp : ds.isEmpty = true
  · simp only [hemp, if_true]
    exact pushRange_HPushed _ _ (Or.inl rfl) h
  · simp only [hemp]
    by_cases hmax : parseNat ds ≤ MAX_HOST_SUFFIX
    · simp only [hmax, if_true, Bool.false_eq_true, if_false]
      exact pushRange_HPushed _ _ (Or.inr ⟨hp, hmax⟩) h
    · simp only [hmax, Bool.false_eq_true, if_false]
      exact pushRange_HPushed _ _ (Or.inl rfl) h

theorem foldl_pushHost_HPushed (names : List Name) : ∀ (hl : Hostlist), HPushed hl → HPushed (names.foldl pushHost hl) := by
  induction names with
  | nil => intro hl h; exact h
  | cons n ns ih => intro hl h; exact ih _ (pushHost_HPushed hl n h)

theorem Pushed_findable (r : HostRange) (n : Name) (hr : r.Pushed) (hmem : n ∈ r.expand) : Findable r n := by
  rcases hr with hs | ⟨hnd, hhi⟩
  · exact Or.inl hs
  · by_cases hs : r.single = true
    · exact Or.inl hs
    · right
      have hs' : r.single = false := by simpa using hs
      rw [HostRange.expand_nonsingle r hs'] at hmem
      unfold numExpand at hmem
      obtain ⟨i, hi, hni⟩ := List.mem_map.mp hmem
      have hi' : i < r.hi + 1 - r.lo := by simpa using hi
      subst hni
      rw [splitDigits_append_digits _ _ (fmtNum_digits _ _), hnd]
      simp only [List.nil_append]
      rw [parseNat_fmtNum]
      omega

theorem HPushed_findable (hl : Hostlist) (n : Name) (hp : HPushed hl) :
    ∀ r ∈ hl, n ∈ r.expand → Findable r n :=
  fun r hr hmem => Pushed_findable r n (hp r hr) hmem

/-- in a list built by pushing names, every pushed name is found, at the position of its first occurrence -/
theorem find_pushed (names : List Name) (n : Name) (hmem : n ∈ names) :
    find (names.foldl pushHost []) n = some (names.idxOf n) := by
  have hwf := foldl_pushHost_HWF names [] HWF_nil
  have hp := foldl_pushHost_HPushed names [] (fun t ht => by simp at ht)
  have he := expand_foldl_pushHost names [] HWF_nil
  simp only [expand_nil, List.nil_append] at he
  have := find_complete _ n (by rw [he]; exact hmem) (HPushed_findable _ n hp)
  rw [he] at this
  exact this

/-- deleting from a list built by pushing names removes exactly the first occurrence, with no proviso -/
theorem deleteHost_pushed (names : List Name) (n : Name) :
    expand (deleteHost (names.foldl pushHost []) n).1 = names.erase n ∧
      (deleteHost (names.foldl pushHost []) n).2 = if n ∈ names then 1 else 0 := by
  have hwf := foldl_pushHost_HWF names [] HWF_nil
  have hp := foldl_pushHost_HPushed names [] (fun t ht => by simp at ht)
  have he := expand_foldl_pushHost names [] HWF_nil
  simp only [expand_nil, List.nil_append] at he
  have := deleteHost_expand _ n hwf (HPushed_findable _ n hp)
  rw [he] at this
  exact this

/-- `Pushed` survives deletions, so the two facts above hold along any sequence of pushes and deletes -/
theorem deleteNth_HPushed : ∀ (hl : Hostlist) (n : Nat), HPushed hl → HPushed (deleteNth hl n)
  | [], _, h => by simpa [deleteNth] using h
  | r :: rs, n, h => by
    have hr : r.Pushed := h r (by simp)
    have hrs : HPushed rs := fun t ht => h t (by simp [ht])
    have ih := deleteNth_HPushed rs (n - r.cnt) hrs
    rw [deleteNth_cons]
    split
    · rename_i hn
      intro t ht
      rcases List.mem_append.mp ht with ht | ht
      · unfold delHead at ht
        unfold HostRange.Pushed at hr ⊢
        unfold HostRange.cnt at hn
        split at ht
        · simp at ht
        · rename_i hs0
          have hs : r.single = false := by simpa using hs0
          simp [hs] at hr hn
          split at ht
          · split at ht
            · simp at ht
            · simp at ht; subst ht; right; exact hr
          · split at ht
            · simp at ht; subst ht; right; exact ⟨hr.1, by simp; omega⟩
            · simp at ht
              rcases ht with ht | ht <;> subst ht <;> right
              · exact ⟨hr.1, by simp; omega⟩
              · exact hr
      · exact hrs t ht
    · intro t ht
      rcases List.mem_cons.mp ht with rfl | ht
      · exact hr
      · exact ih t ht

theorem deleteHost_HPushed (hl : Hostlist) (n : Name) (h : HPushed hl) : HPushed (deleteHost hl n).1 := by
  unfold deleteHost
  split
  · exact deleteNth_HPushed _ _ h
  · exact h

/-! ### lists reachable by pushes and deletes -/

/-- lists reachable from the empty list by `hostlist_push_host` and `hostlist_delete_host` -/
inductive Built : Hostlist → Prop
  | nil : Built []
  | push (hl : Hostlist) (n : Name) : Built hl → Built (pushHost hl n)
  | delete (hl : Hostlist) (n : Name) : Built hl → Built (deleteHost hl n).1

theorem Built.inv {hl : Hostlist} (h : Built hl) : HWFS hl ∧ HPushed hl := by
  induction h with
  | nil => exact ⟨HWFS_nil, fun t ht => by simp at ht⟩
  | push hl n _ ih => exact ⟨pushHost_HWFS hl n ih.1, pushHost_HPushed hl n ih.2⟩
  | delete hl n _ ih => exact ⟨deleteHost_HWFS hl n ih.1, deleteHost_HPushed hl n ih.2⟩

theorem Built.foldl (names : List Name) : ∀ (hl : Hostlist), Built hl → Built (names.foldl pushHost hl) := by
  induction names with
  | nil => intro hl h; exact h
  | cons n ns ih => intro hl h; exact ih _ (Built.push hl n h)

theorem find_built (hl : Hostlist) (n : Name) (hb : Built hl) (hmem : n ∈ expand hl) :
    find hl n = some ((expand hl).idxOf n) :=
  find_complete hl n hmem (HPushed_findable hl n hb.inv.2)

theorem deleteHost_built (hl : Hostlist) (n : Name) (hb : Built hl) :
    expand (deleteHost hl n).1 = (expand hl).erase n ∧ (deleteHost hl n).2 = if n ∈ expand hl then 1 else 0 :=
  deleteHost_expand hl n hb.inv.1.toHWF (HPushed_findable hl n hb.inv.2)

/-! ### concrete witnesses -/

/-- F10: the list `n[100000000-100000001]` as `hostlist_create` builds it -/
def f10List : Hostlist := [{ pfx := "n".toList, lo := 100000000, hi := 100000001, width := 9, single := false }]

theorem f10_create : create "n[100000000-100000001]".toList = .ok f10List := by decide +kernel
theorem f10_mem : "n100000000".toList ∈ expand f10List := by decide +kernel
theorem f10_find : find f10List "n100000000".toList = none := by decide +kernel
theorem f10_delete : deleteHost f10List "n100000000".toList = (f10List, 0) := by decide +kernel

/-- the bound concerns the whole trailing digit string of the NAME, not the number stored in the range:
    `n1[00000000-00000001]` holds `n100000000` at number 0 and does not find it -/
def f10bList : Hostlist := [{ pfx := "n1".toList, lo := 0, hi := 1, width := 8, single := false }]

theorem f10b_create : create "n1[00000000-00000001]".toList = .ok f10bList := by decide +kernel
theorem f10b_mem : "n100000000".toList ∈ expand f10bList := by decide +kernel
theorem f10b_find : find f10bList "n100000000".toList = none := by decide +kernel

/-- the digit-shifting retry does work below the bound: `n1[0-1]` finds `n10` and `n11` -/
theorem shift_ok : create "n1[0-1]".toList = .ok [{ pfx := "n1".toList, lo := 0, hi := 1, width := 1, single := false }]
    ∧ find [{ pfx := "n1".toList, lo := 0, hi := 1, width := 1, single := false }] "n11".toList = some 1 := by
  decide +kernel

/-- `hostlist_nth` as coded needs well-formed ranges: on `lo > hi` (which no constructor produces) it invents a name -/
theorem nthC_needs_WF : nthC [{ pfx := "n".toList, lo := 5, hi := 3, width := 1, single := false }] 0 = some "n5".toList
    ∧ expand [{ pfx := "n".toList, lo := 5, hi := 3, width := 1, single := false }] = [] := by decide +kernel


end Pm
