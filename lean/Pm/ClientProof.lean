import Pm.Daemon
import Pm.TelnetPass
/-! Helper lemmas for C04 (client half), C06, C15: the shape of everything `client.c` writes to a client.

The structure of the output is made explicit "the other way round": `render : List Item → Bytes` turns a list of
protocol items (a line `NNN text CRLF`, or the prompt) into bytes, and each function that appends to a client's
`toBuf` is shown to append `render items` for an explicit item list of the right shape. -/
namespace Pm.Daemon.ClientPf
open Pm Pm.Client
open Pm.Dev2 (Dev Action Stmt Plug Arg ExecCtx PState PResult ActErr RxCall Oracle Env CS getArgs)

/-! ### items and their rendering -/

/-- what the server sends: a protocol line `NNN␠text\r\n`, or the prompt `powerman> ` -/
inductive Item where
  | line (code : Nat) (text : Bytes)
  | prompt
deriving DecidableEq, Repr

/-- `%3.3d` of a protocol code: exactly three decimal digits -/
def code3 (n : Nat) : Bytes := [(48 + n / 100 % 10).toUInt8, (48 + n / 10 % 10).toUInt8, (48 + n % 10).toUInt8]

def Item.render : Item → Bytes
  | .line c t => code3 c ++ [32] ++ t ++ crlf
  | .prompt => Pm.Daemon.prompt

def render (is : List Item) : Bytes := is.flatMap Item.render

@[simp] theorem render_nil : render [] = [] := rfl
@[simp] theorem render_append (a b : List Item) : render (a ++ b) = render a ++ render b := by
  simp [render, List.flatMap_append]
theorem render_cons (a : Item) (b : List Item) : render (a :: b) = a.render ++ render b := by
  simp [render, List.flatMap_cons]
theorem render_one (a : Item) : render [a] = a.render := by simp [render]

/-- the text of a line is a single protocol line: it contains neither CR nor LF -/
def cleanText (t : Bytes) : Bool := t.all fun b => b != 13 && b != 10
def Item.clean : Item → Bool
  | .line _ t => cleanText t
  | .prompt => true

def Item.code? : Item → Option Nat
  | .line c _ => some c
  | .prompt => none

/-- the item is a line whose code is in `cs` -/
def Item.lineIn (cs : List Nat) : Item → Bool
  | .line c _ => cs.contains c
  | .prompt => false

theorem cleanText_append (a b : Bytes) : cleanText (a ++ b) = (cleanText a && cleanText b) := by
  simp [cleanText, List.all_append]

/-! ### fixed strings -/

theorem bstr_208 : codeLine 208 ++ crlf = render [.line 208 (bstr "Command in progress")] := by decide +kernel
theorem bstr_213 : codeLine 213 ++ crlf = render [.line 213 (bstr "Command cannot be handled by power control device(s)")] := by decide +kernel
theorem bstr_203 : codeLine 203 ++ crlf = render [.line 203 (bstr "Command too long")] := by decide +kernel
theorem bstr_201 : codeLine 201 ++ crlf = render [.line 201 (bstr "Unknown command")] := by decide +kernel
theorem bstr_205 : codeLine 205 ++ crlf = render [.line 205 (bstr "Hostlist error: invalid range")] := by decide +kernel
theorem bstr_101 : codeLine 101 ++ crlf = render [.line 101 (bstr "Goodbye")] := by decide +kernel
theorem bstr_103 : bstr "103 Query complete" ++ crlf = render [.line 103 (bstr "Query complete")] := by decide +kernel


/-! ### `parseLine` cut into one definition per branch of `_parse_input` -/

/-- the common exit of `_parse_input`: the reply, then the prompt unless the client has quit -/
def plFin (w : W) (c : Cli) (b : Bytes) : W × Cli := (w, put c (b ++ (if c.quit then [] else prompt)))

def plNodes (w : W) (c : Cli) : W × Cli :=
  match sortHL w.cfg.nodes with
  | .abort => ({ w with exited := true }, c)
  | .fuel => ({ w with exited := true }, c)
  | .ok hl =>
    let body := if c.exprange then (expand hl).flatMap fun n => bstr "307 " ++ ofChars n ++ crlf
                else bstr "306 " ++ ofChars (rangedString hl) ++ crlf
    ({ w with cfg := { w.cfg with nodes := hl } }, put c (body ++ bstr "103 Query complete" ++ crlf ++ (if c.quit then [] else prompt)))

def plTelemetry (w : W) (c : Cli) : W × Cli :=
  let c := { c with telemetry := !c.telemetry }
  plFin w c (bstr "104 Telemetry " ++ bstr (if c.telemetry then "ON" else "OFF") ++ crlf)

def plExprange (w : W) (c : Cli) : W × Cli :=
  let c := { c with exprange := !c.exprange }
  plFin w c (bstr "105 Hostrange expansion " ++ bstr (if c.exprange then "ON" else "OFF") ++ crlf)

def plQuit (w : W) (c : Cli) : W × Cli :=
  let c := put { c with quit := true } (codeLine 101 ++ crlf)
  handleWrite w c

/-- the `sscanf` cascade `on %s` … `beacon %s` -/
def plMatch (str : Bytes) : Option (Com × Bytes) :=
  let try1 (kw : Bytes) (k : Com) : Option (Com × Bytes) := (scan kw str).map fun a => (k, a)
  (try1 kwOn .on).orElse fun _ => (try1 kwOff .off).orElse fun _ => (try1 kwCycle .cycle).orElse fun _ =>
    (try1 kwReset .reset).orElse fun _ => (try1 kwFlash .flash).orElse fun _ => (try1 kwUnflash .unflash).orElse fun _ =>
    (try1 kwStatus .status).orElse fun _ => (try1 kwTemp .temp).orElse fun _ => (try1 kwBeacon .beacon)

def plDevArg (str : Bytes) : Option (Option Bytes) :=
  match scan kwDevice str with
  | some a => some (some a)
  | none => if casePrefix kwDevice str then some none else none

def plDevice (w : W) (c : Cli) (str : Bytes) : W × Cli :=
  match plDevArg str with
  | none => plFin w c (codeLine 201 ++ crlf)
  | some a => match deviceReply w a with
    | none => ({ w with exited := true }, c)
    | some b => plFin w c (b ++ bstr "103 Query complete" ++ crlf)

def plCmd (w : W) (c : Cli) (com : Com) (arg : Bytes) : W × Cli :=
  match createR (toChars arg) with
  | .fatal => ({ w with exited := true }, c)
  | .err => plFin w c (codeLine 205 ++ crlf)
  | .ok hl =>
    let names := expAliases w.cfg.aliases (expand hl)
    let badNames := names.filter fun n => (find w.cfg.nodes n).isNone
    if !badNames.isEmpty then
      plFin w c (bstr "209 No such nodes: " ++ ofChars (rangedString (badNames.foldl pushHost [])) ++ crlf)
    else install w c com names

def plRest (w : W) (c : Cli) (str : Bytes) : W × Cli :=
  match plMatch str with
  | none =>
    if casePrefix kwStatus str then install w c .status (expand w.cfg.nodes)
    else if casePrefix kwTemp str then install w c .temp (expand w.cfg.nodes)
    else if casePrefix kwBeacon str then install w c .beacon (expand w.cfg.nodes)
    else plDevice w c str
  | some (com, arg) => plCmd w c com arg

/-- the part of `_parse_input` reached when no command is in progress -/
def plIdle (w : W) (c : Cli) (str : Bytes) : W × Cli :=
  if casePrefix kwHelp str then plFin w c (helpText ++ bstr "103 Query complete" ++ crlf)
  else if casePrefix kwNodes str then plNodes w c
  else if casePrefix kwTelemetry str then plTelemetry w c
  else if casePrefix kwExprange str then plExprange w c
  else if casePrefix kwQuit str then plQuit w c
  else plRest w c str

/-- the stripped, NUL-cut request string `_parse_input` looks at -/
def reqStr (line : Bytes) : Bytes := stripWs (line.takeWhile (· != 0))

/-- `strlen(str) >= CP_LINEMAX` -/
def TooLong (line : Bytes) : Prop := (reqStr line).length ≥ lineMax

instance (line : Bytes) : Decidable (TooLong line) := inferInstanceAs (Decidable ((reqStr line).length ≥ lineMax))

def parseLine' (w : W) (c : Cli) (line : Bytes) : W × Cli :=
  if TooLong line then plFin w c (codeLine 203 ++ crlf) else
  if c.cmd.isSome then (w, put c (codeLine 208 ++ crlf)) else plIdle w c (reqStr line)

theorem parseLine_eq (w : W) (c : Cli) (line : Bytes) : parseLine w c line = parseLine' w c line := by
  rfl


/-! ### `createR` (hostlist_create after the F1 repair) has no fatal outcome -/

def _root_.Pm.Daemon.CR.isFatal : CR → Bool | .fatal => true | _ => false

theorem foldl_inv {α β : Type} (P : β → Prop) (f : β → α → β) (hf : ∀ b a, P b → P (f b a)) :
    ∀ (l : List α) (b : β), P b → P (l.foldl f b) := by
  intro l; induction l with
  | nil => intro b h; exact h
  | cons a r ih => intro b h; exact ih _ (hf _ _ h)

theorem createR_ne_fatal (s : List Char) : createR s ≠ .fatal := by
  have h : (createR s).isFatal = false := by
    unfold createR
    apply foldl_inv (fun (acc : CR) => CR.isFatal acc = false)
    · intro acc tok hacc
      cases acc with
      | fatal => simp [CR.isFatal] at hacc
      | err => rfl
      | ok hl =>
        dsimp only
        repeat' split
        all_goals rfl
    · rfl
  intro hf; rw [hf] at h; simp [CR.isFatal] at h


/-! ### `deviceReply`: 304 lines only, and it is lost only through the sort assertion -/

/-- the host list `_make_pluglist_str` sorts for one device -/
def devHosts (d : Dev) : Hostlist := (d.plugs.filterMap fun p => p.node.map toChars).foldl pushHost []

def devText (w : W) (nd : Bytes × Dev) (hl : Hostlist) : Bytes :=
  nd.1 ++ bstr ": state=" ++ bstr (if nd.2.conn == 2 then "connected" else if nd.2.conn == 1 then "connecting" else "disconnected") ++
    bstr " reconnects=" ++ d33 (nd.2.statConnects - 1) ++ bstr " actions=" ++ d33 nd.2.statActions ++ bstr " type=" ++ ((w.specs.lookup nd.1).getD []) ++
    bstr " hosts=" ++ ofChars (rangedString hl)

def devHit (t : Option Hostlist) (d : Dev) : Bool :=
  match t with
  | none => true
  | some hl => d.plugs.any fun p => match p.node with | some n => (find hl (toChars n)).isSome | none => false

def devStep (w : W) (t : Option Hostlist) (acc : Option Bytes) (nd : Bytes × Dev) : Option Bytes :=
      match acc with
      | none => none
      | some bytes =>
        let d := nd.2
        let hit := match t with
          | none => true
          | some hl => d.plugs.any fun p => match p.node with | some n => (find hl (toChars n)).isSome | none => false
        if !hit then some bytes else
        let nodes := d.plugs.filterMap fun p => p.node.map toChars
        match sortHL (nodes.foldl pushHost []) with
        | .abort => none
        | .fuel => none
        | .ok hl =>
          some (bytes ++ bstr "304 " ++ nd.1 ++ bstr ": state=" ++ bstr (if d.conn == 2 then "connected" else if d.conn == 1 then "connecting" else "disconnected") ++
            bstr " reconnects=" ++ d33 (d.statConnects - 1) ++ bstr " actions=" ++ d33 d.statActions ++ bstr " type=" ++ ((w.specs.lookup nd.1).getD []) ++
            bstr " hosts=" ++ ofChars (rangedString hl) ++ crlf)

def devTarg (arg : Option Bytes) : Option Hostlist :=
  match arg with
  | none => none
  | some a => match createR (toChars a) with
    | .ok hl => some hl
    | _ => some []

theorem bstr_304 : bstr "304 " = code3 304 ++ [32] := by decide +kernel

theorem deviceReply_eq (w : W) (arg : Option Bytes) :
    deviceReply w arg = w.devs.foldl (devStep w (devTarg arg)) (some []) := by
  unfold deviceReply
  cases arg with
  | none => rfl
  | some a =>
    simp only [devTarg]
    have := createR_ne_fatal (toChars a)
    cases hc : createR (toChars a) with
    | fatal => exact absurd hc this
    | ok hl => rfl
    | err => rfl

theorem devStep_some (w : W) (t : Option Hostlist) (bytes : Bytes) (nd : Bytes × Dev) :
    devStep w t (some bytes) nd =
      if !devHit t nd.2 then some bytes else
      match sortHL (devHosts nd.2) with
      | .abort => none
      | .fuel => none
      | .ok hl => some (bytes ++ render [.line 304 (devText w nd hl)]) := by
  have key : ∀ hl, bytes ++ bstr "304 " ++ nd.1 ++ bstr ": state=" ++ bstr (if nd.2.conn == 2 then "connected" else if nd.2.conn == 1 then "connecting" else "disconnected") ++
            bstr " reconnects=" ++ d33 (nd.2.statConnects - 1) ++ bstr " actions=" ++ d33 nd.2.statActions ++ bstr " type=" ++ ((w.specs.lookup nd.1).getD []) ++
            bstr " hosts=" ++ ofChars (rangedString hl) ++ crlf = bytes ++ render [.line 304 (devText w nd hl)] := by
    intro hl; simp [render, Item.render, devText, bstr_304, List.append_assoc]
  simp only [devStep, devHit, devHosts, key]
  rfl

/-- what `device` appends is 304 lines only -/
theorem devFold_some (w : W) (t : Option Hostlist) : ∀ (l : List (Bytes × Dev)) (acc b : Bytes),
    l.foldl (devStep w t) (some acc) = some b →
    ∃ items, b = acc ++ render items ∧ ∀ i ∈ items, i.lineIn [304] = true := by
  intro l; induction l with
  | nil => intro acc b h; simp at h; exact ⟨[], by simp [h], by simp⟩
  | cons nd r ih =>
    intro acc b h
    rw [List.foldl_cons, devStep_some] at h
    split at h
    · exact ih _ _ h
    · have hnone : ∀ l : List (Bytes × Dev), l.foldl (devStep w t) none = none := by
        intro l; induction l with
        | nil => rfl
        | cons a r ih => simpa [devStep] using ih
      split at h
      · rw [hnone] at h; simp at h
      · rw [hnone] at h; simp at h
      · rename_i hl _
        obtain ⟨items, hb, hi⟩ := ih _ _ h
        refine ⟨Item.line 304 (devText w nd hl) :: items, ?_, ?_⟩
        · rw [hb, List.append_assoc, ← render_append]; rfl
        · intro i hi'; simp at hi'; rcases hi' with rfl | hi'
          · rfl
          · exact hi i hi'

theorem devFold_none_acc (w : W) (t : Option Hostlist) (l : List (Bytes × Dev)) : l.foldl (devStep w t) none = none := by
  induction l with
  | nil => rfl
  | cons a r ih => simpa [devStep] using ih

/-- the reply is lost (and the daemon with it) only when sorting some device's host list trips the assertion
    (`SortRes.Died`: the assert, or — in the logic only — the iteration bound of the sort mirror) -/
theorem devFold_none (w : W) (t : Option Hostlist) : ∀ (l : List (Bytes × Dev)) (acc : Bytes),
    l.foldl (devStep w t) (some acc) = none → ∃ nd ∈ l, (sortHL (devHosts nd.2)).Died := by
  intro l; induction l with
  | nil => intro acc h; simp at h
  | cons nd r ih =>
    intro acc h
    rw [List.foldl_cons, devStep_some] at h
    split at h
    · obtain ⟨x, hx, hs⟩ := ih _ h; exact ⟨x, by simp [hx], hs⟩
    · split at h
      · rename_i hs; exact ⟨nd, by simp, Or.inl hs⟩
      · rename_i hs; exact ⟨nd, by simp, Or.inr hs⟩
      · obtain ⟨x, hx, hs⟩ := ih _ h; exact ⟨x, by simp [hx], hs⟩

theorem deviceReply_some (w : W) (arg : Option Bytes) (b : Bytes) (h : deviceReply w arg = some b) :
    ∃ items, b = render items ∧ ∀ i ∈ items, i.lineIn [304] = true := by
  rw [deviceReply_eq] at h
  obtain ⟨items, hb, hi⟩ := devFold_some w _ _ _ _ h
  exact ⟨items, by simpa using hb, hi⟩

theorem deviceReply_none (w : W) (arg : Option Bytes) (h : deviceReply w arg = none) :
    ∃ nd ∈ w.devs, (sortHL (devHosts nd.2)).Died := by
  rw [deviceReply_eq] at h
  exact devFold_none w _ _ _ h


/-! ### the outcome of one request line -/

/-- bytes handed to `write(2)` on descriptor `fd` in the system-call log -/
def written (ss : List Sys) (fd : Nat) : Bytes :=
  ss.flatMap fun s => match s with | .write f b _ _ => if f == fd then b else [] | _ => []

/-- everything sent to the client so far in this pass: what already went to the descriptor, then what waits in `to` -/
def outOf (w : W) (c : Cli) : Bytes := written w.sys c.fd ++ c.toBuf

theorem written_append (a b : List Sys) (fd : Nat) : written (a ++ b) fd = written a fd ++ written b fd := by
  simp [written, List.flatMap_append]
theorem written_write (fd : Nat) (b : Bytes) (e bl : Bool) : written [Sys.write fd b e bl] fd = b := by
  simp [written]

def infoCodesP : List Nat := [301, 304, 306, 307]
def termCodesP : List Nat := [101, 103, 104, 105, 201, 203, 205, 208, 209, 213]
/-- lines whose text embeds configuration or request data (names, host ranges); all other lines have fixed text -/
def dataCodesP : List Nat := [304, 306, 307, 209]

/-- every item that does not embed data is a single clean protocol line -/
def FixedClean (dcs : List Nat) (items : List Item) : Prop := ∀ i ∈ items, i.lineIn dcs = false → i.clean = true

theorem FixedClean.append {dcs : List Nat} {a b : List Item} (ha : FixedClean dcs a) (hb : FixedClean dcs b) : FixedClean dcs (a ++ b) := by
  intro i hi; rcases List.mem_append.mp hi with h | h
  · exact ha i h
  · exact hb i h
theorem FixedClean.of_data {dcs : List Nat} {a : List Item} (h : ∀ i ∈ a, i.lineIn dcs = true) : FixedClean dcs a := by
  intro i hi hn; rw [h i hi] at hn; cases hn
theorem FixedClean.of_clean {dcs : List Nat} {a : List Item} (h : ∀ i ∈ a, i.clean = true) : FixedClean dcs a :=
  fun i hi _ => h i hi

/-- `items` is zero or more informational lines with codes in `ics`, then exactly one terminal line with a code in
    `tcs`, then a prompt exactly when `pr code` -/
def Reply (ics tcs : List Nat) (pr : Nat → Bool) (items : List Item) : Prop :=
  ∃ infos code text, items = infos ++ [Item.line code text] ++ (if pr code then [Item.prompt] else []) ∧
    (∀ i ∈ infos, i.lineIn ics = true) ∧ code ∈ tcs

/-- `_parse_input` re-issues the prompt unless the answer was 208 or 101 or the client has quit -/
def promptAfter (quit : Bool) (code : Nat) : Bool := code != 208 && code != 101 && !quit

/-- how the `quit` branch leaves the buffers: `_handle_write` on a blocking descriptor either fails (nothing leaves
    the buffer) or writes the whole buffer, reply included -/
def QuitFlush (w : W) (c : Cli) (r : W × Cli) (items : List Item) : Prop :=
  r.2.quit = true ∧
  ((capOf w c.fd < 0 ∧ r.2.toBuf = c.toBuf ++ render items ∧ r.1.sys = w.sys ++ [Sys.write c.fd [] true false]) ∨
   (¬ capOf w c.fd < 0 ∧ r.2.toBuf = [] ∧
      r.1.sys = w.sys ++ [Sys.write c.fd (c.toBuf ++ render items) false (capOf w c.fd < ((c.toBuf ++ render items).length : Int))]))

inductive LineOutcome (w : W) (c : Cli) (r : W × Cli) : Prop where
  /-- the daemon is gone: only through the sort assertion -/
  | exit (h : r = ({ w with exited := true }, c))
      (cause : (sortHL w.cfg.nodes).Died ∨ ∃ nd ∈ w.devs, (sortHL (devHosts nd.2)).Died)
  /-- answered at once -/
  | reply (items : List Item) (shape : Reply infoCodesP termCodesP (promptAfter r.2.quit) items)
      (out : outOf r.1 r.2 = outOf w c ++ render items)
      (buf : (r.2.toBuf = c.toBuf ++ render items ∧ r.1.sys = w.sys) ∨ QuitFlush w c r items)
      (cmd : r.2.cmd = c.cmd) (ex : r.1.exited = w.exited) (clean : FixedClean dataCodesP items)
      (prompted : c.cmd = none → r.2.quit = false → items.getLast? = some Item.prompt)
  /-- a command was installed: nothing is written yet -/
  | installed (k : CmdC) (idle : c.cmd = none) (cmd : r.2.cmd = some k) (pending : 0 < k.pending)
      (buf : r.2.toBuf = c.toBuf) (sys : r.1.sys = w.sys) (ex : r.1.exited = w.exited)

/-- what `parseLine` never touches on the client and the world -/
structure LineFrame (w : W) (c : Cli) (r : W × Cli) : Prop where
  id : r.2.id = c.id
  fd : r.2.fd = c.fd
  fromBuf : r.2.fromBuf = c.fromBuf
  clients : r.1.clients = w.clients
  fromSize : r.2.fromSize = c.fromSize

/-- generic way to establish the `reply` outcome for the branches that only append to `to` -/
theorem mkReply (w : W) (c0 : Cli) (r : W × Cli) (infos : List Item) (code : Nat) (text : Bytes)
    (hsys : r.1.sys = w.sys) (hex : r.1.exited = w.exited) (hfd : r.2.fd = c0.fd) (hcmd : r.2.cmd = c0.cmd)
    (hbuf : r.2.toBuf = c0.toBuf ++ (render (infos ++ [Item.line code text]) ++ (if r.2.quit then [] else prompt)))
    (hi : ∀ i ∈ infos, i.lineIn infoCodesP = true)
    (hc : code ∈ termCodesP) (h208 : code ≠ 208) (h101 : code ≠ 101)
    (hcl : FixedClean dataCodesP (infos ++ [Item.line code text])) : LineOutcome w c0 r := by
  have hbuf' : r.2.toBuf = c0.toBuf ++ render (infos ++ [Item.line code text] ++ (if promptAfter r.2.quit code then [Item.prompt] else [])) := by
    rw [hbuf]; simp only [promptAfter]
    cases r.2.quit <;> simp [h208, h101, render, Item.render]
  refine .reply _ ⟨infos, code, text, rfl, hi, hc⟩ ?_ (Or.inl ⟨hbuf', hsys⟩) hcmd hex ?_ ?_
  · simp only [outOf, hbuf', hsys, hfd, List.append_assoc]
  · apply hcl.append
    split
    · exact .of_clean (by simp [Item.clean])
    · exact .of_clean (by simp)
  · intro _ hq
    simp [promptAfter, hq, h208, h101]

theorem plFin_outcome (w : W) (c0 c : Cli) (b : Bytes) (infos : List Item) (code : Nat) (text : Bytes)
    (h1 : c.toBuf = c0.toBuf) (h2 : c.cmd = c0.cmd) (h3 : c.fd = c0.fd)
    (hb : b = render (infos ++ [Item.line code text])) (hi : ∀ i ∈ infos, i.lineIn infoCodesP = true)
    (hc : code ∈ termCodesP) (h208 : code ≠ 208) (h101 : code ≠ 101)
    (hcl : FixedClean dataCodesP (infos ++ [Item.line code text])) : LineOutcome w c0 (plFin w c b) :=
  mkReply w c0 _ infos code text rfl rfl h3 h2 (by simp only [plFin, put, h1, hb]) hi hc h208 h101 hcl

theorem plFin_frame (w : W) (c : Cli) (b : Bytes) : LineFrame w c (plFin w c b) := ⟨rfl, rfl, rfl, rfl, rfl⟩


/-! ### the branches -/

def helpItems : List Item :=
  ["nodes              - query node list",
   "device [<nodes>]   - query power control device status",
   "status [<nodes>]   - query power status",
   "on <nodes>         - power on",
   "off <nodes>        - power off",
   "cycle <nodes>      - power cycle",
   "reset <nodes>      - hardware reset (if available)",
   "temp [<nodes>]     - query temperature (if available)",
   "beacon [<nodes>]   - query beacon status (if available)",
   "flash <nodes>      - set beacon to ON (if available)",
   "unflash <nodes>    - set beacon to OFF (if available)",
   "telemetry          - toggle telemetry display",
   "exprange           - toggle host range expansion",
   "help               - display help",
   "quit               - logout"].map fun t => Item.line 301 (bstr t)

theorem toList_loop (bs : ByteArray) : ∀ n i r, bs.size - i = n →
    ByteArray.toList.loop bs i r = r.reverse ++ bs.data.toList.drop i := by
  have hsz : bs.size = bs.data.toList.length := by
    rw [Array.length_toList]; rfl
  intro n; induction n with
  | zero =>
    intro i r h
    rw [ByteArray.toList.loop]
    have : ¬ i < bs.size := by omega
    simp only [this, if_false]
    have : bs.data.toList.length ≤ i := by omega
    simp [List.drop_eq_nil_of_le this]
  | succ n ih =>
    intro i r h
    rw [ByteArray.toList.loop]
    have hi : i < bs.size := by omega
    simp only [hi, if_true]
    rw [ih _ _ (by omega)]
    have hl : i < bs.data.toList.length := by omega
    rw [List.drop_eq_getElem_cons hl]
    simp [ByteArray.get!, getElem!_pos, hi]

theorem byteArray_toList_eq_data (bs : ByteArray) : bs.toList = bs.data.toList := by
  unfold ByteArray.toList; rw [toList_loop bs _ 0 [] rfl]; simp

theorem bstr_append (a b : String) : bstr (a ++ b) = bstr a ++ bstr b := by
  simp [bstr, String.toUTF8, String.toByteArray_append, byteArray_toList_eq_data]

theorem helpText_eq : helpText = render helpItems := by
  have h0 : bstr "301 nodes              - query node list\r\n" = render [Item.line 301 (bstr "nodes              - query node list")] := by decide +kernel
  have h1 : bstr "301 device [<nodes>]   - query power control device status\r\n" = render [Item.line 301 (bstr "device [<nodes>]   - query power control device status")] := by decide +kernel
  have h2 : bstr "301 status [<nodes>]   - query power status\r\n" = render [Item.line 301 (bstr "status [<nodes>]   - query power status")] := by decide +kernel
  have h3 : bstr "301 on <nodes>         - power on\r\n" = render [Item.line 301 (bstr "on <nodes>         - power on")] := by decide +kernel
  have h4 : bstr "301 off <nodes>        - power off\r\n" = render [Item.line 301 (bstr "off <nodes>        - power off")] := by decide +kernel
  have h5 : bstr "301 cycle <nodes>      - power cycle\r\n" = render [Item.line 301 (bstr "cycle <nodes>      - power cycle")] := by decide +kernel
  have h6 : bstr "301 reset <nodes>      - hardware reset (if available)\r\n" = render [Item.line 301 (bstr "reset <nodes>      - hardware reset (if available)")] := by decide +kernel
  have h7 : bstr "301 temp [<nodes>]     - query temperature (if available)\r\n" = render [Item.line 301 (bstr "temp [<nodes>]     - query temperature (if available)")] := by decide +kernel
  have h8 : bstr "301 beacon [<nodes>]   - query beacon status (if available)\r\n" = render [Item.line 301 (bstr "beacon [<nodes>]   - query beacon status (if available)")] := by decide +kernel
  have h9 : bstr "301 flash <nodes>      - set beacon to ON (if available)\r\n" = render [Item.line 301 (bstr "flash <nodes>      - set beacon to ON (if available)")] := by decide +kernel
  have h10 : bstr "301 unflash <nodes>    - set beacon to OFF (if available)\r\n" = render [Item.line 301 (bstr "unflash <nodes>    - set beacon to OFF (if available)")] := by decide +kernel
  have h11 : bstr "301 telemetry          - toggle telemetry display\r\n" = render [Item.line 301 (bstr "telemetry          - toggle telemetry display")] := by decide +kernel
  have h12 : bstr "301 exprange           - toggle host range expansion\r\n" = render [Item.line 301 (bstr "exprange           - toggle host range expansion")] := by decide +kernel
  have h13 : bstr "301 help               - display help\r\n" = render [Item.line 301 (bstr "help               - display help")] := by decide +kernel
  have h14 : bstr "301 quit               - logout\r\n" = render [Item.line 301 (bstr "quit               - logout")] := by decide +kernel
  simp only [helpText, bstr_append, h0, h1, h2, h3, h4, h5, h6, h7, h8, h9, h10, h11, h12, h13, h14]
  simp only [← render_append]
  rfl
theorem helpItems_info : ∀ i ∈ helpItems, i.lineIn infoCodesP = true := by decide +kernel
theorem helpItems_clean : ∀ i ∈ helpItems, i.clean = true := by decide +kernel

def item103 : Item := .line 103 (bstr "Query complete")

theorem help_outcome (w : W) (c : Cli) : LineOutcome w c (plFin w c (helpText ++ bstr "103 Query complete" ++ crlf)) := by
  apply plFin_outcome w c c _ helpItems 103 (bstr "Query complete") rfl rfl rfl
  · rw [List.append_assoc, bstr_103, helpText_eq, render_append]
  · exact helpItems_info
  · decide
  · decide
  · decide
  · exact .append (.of_clean helpItems_clean) (.of_clean (by decide +kernel))

theorem bstr_307 : bstr "307 " = code3 307 ++ [32] := by decide +kernel
theorem bstr_306 : bstr "306 " = code3 306 ++ [32] := by decide +kernel

theorem flatMap_render {α : Type} (l : List α) (code : Nat) (pre : Bytes) (hp : pre = code3 code ++ [32]) (f : α → Bytes) :
    (l.flatMap fun n => pre ++ f n ++ crlf) = render (l.map fun n => Item.line code (f n)) := by
  induction l with
  | nil => rfl
  | cons a r ih => simp only [List.flatMap_cons, List.map_cons, render_cons, Item.render]; rw [← ih, hp]

/-- the items of a `nodes` reply -/
def nodesItems (exprange : Bool) (hl : Hostlist) : List Item :=
  if exprange then (expand hl).map fun n => Item.line 307 (ofChars n) else [Item.line 306 (ofChars (rangedString hl))]

theorem nodesItems_info (e : Bool) (hl : Hostlist) : ∀ i ∈ nodesItems e hl, i.lineIn infoCodesP = true := by
  intro i hi; unfold nodesItems at hi
  split at hi
  · simp at hi; obtain ⟨n, _, rfl⟩ := hi; rfl
  · simp at hi; subst hi; rfl

theorem nodesItems_data (e : Bool) (hl : Hostlist) : ∀ i ∈ nodesItems e hl, i.lineIn dataCodesP = true := by
  intro i hi; unfold nodesItems at hi
  split at hi
  · simp at hi; obtain ⟨n, _, rfl⟩ := hi; rfl
  · simp at hi; subst hi; rfl

theorem nodesBody_eq (e : Bool) (hl : Hostlist) :
    (if e then (expand hl).flatMap fun n => bstr "307 " ++ ofChars n ++ crlf
                else bstr "306 " ++ ofChars (rangedString hl) ++ crlf) = render (nodesItems e hl) := by
  unfold nodesItems
  split
  · exact flatMap_render _ 307 _ bstr_307 _
  · simp [render, Item.render, bstr_306]

theorem plNodes_outcome (w : W) (c : Cli) : LineOutcome w c (plNodes w c) := by
  unfold plNodes
  split
  · rename_i h; exact .exit rfl (Or.inl (Or.inl h))
  · rename_i h; exact .exit rfl (Or.inl (Or.inr h))
  · rename_i hl h
    simp only [nodesBody_eq]
    refine mkReply w c _ (nodesItems c.exprange hl) 103 (bstr "Query complete") rfl rfl rfl rfl ?_ (nodesItems_info _ _) (by decide) (by decide) (by decide) ?_
    · simp only [put, render_append, ← bstr_103, List.append_assoc]
    · exact .append (.of_data (nodesItems_data _ _)) (.of_clean (by decide +kernel))

theorem plNodes_frame (w : W) (c : Cli) : LineFrame w c (plNodes w c) := by
  unfold plNodes; split <;> exact ⟨rfl, rfl, rfl, rfl, rfl⟩


theorem bstr_104 (b : Bool) : bstr "104 Telemetry " ++ bstr (if b then "ON" else "OFF") ++ crlf =
    render [Item.line 104 (bstr "Telemetry " ++ bstr (if b then "ON" else "OFF"))] := by
  cases b <;> decide +kernel
theorem bstr_105 (b : Bool) : bstr "105 Hostrange expansion " ++ bstr (if b then "ON" else "OFF") ++ crlf =
    render [Item.line 105 (bstr "Hostrange expansion " ++ bstr (if b then "ON" else "OFF"))] := by
  cases b <;> decide +kernel

theorem onoff_clean (code : Nat) (pre : String) (hp : cleanText (bstr pre) = true) (b : Bool) :
    ∀ i ∈ [] ++ [Item.line code (bstr pre ++ bstr (if b then "ON" else "OFF"))], i.clean = true := by
  intro i hi; simp at hi; subst hi
  simp only [Item.clean, cleanText_append, hp, Bool.true_and]
  cases b <;> decide +kernel

theorem plTelemetry_outcome (w : W) (c : Cli) : LineOutcome w c (plTelemetry w c) := by
  unfold plTelemetry
  refine plFin_outcome w c _ _ [] 104 _ rfl rfl rfl (by rw [bstr_104]; rfl) (by simp) (by decide) (by decide) (by decide) (.of_clean (onoff_clean _ _ (by decide +kernel) _))

theorem plExprange_outcome (w : W) (c : Cli) : LineOutcome w c (plExprange w c) := by
  unfold plExprange
  refine plFin_outcome w c _ _ [] 105 _ rfl rfl rfl (by rw [bstr_105]; rfl) (by simp) (by decide) (by decide) (by decide) (.of_clean (onoff_clean _ _ (by decide +kernel) _))

theorem plTelemetry_frame (w : W) (c : Cli) : LineFrame w c (plTelemetry w c) := ⟨rfl, rfl, rfl, rfl, rfl⟩
theorem plExprange_frame (w : W) (c : Cli) : LineFrame w c (plExprange w c) := ⟨rfl, rfl, rfl, rfl, rfl⟩

abbrev item101 : Item := .line 101 (bstr "Goodbye")

theorem render_ne_nil (i : Item) (r : List Item) : render (i :: r) ≠ [] := by
  cases i with
  | line c t => simp [render_cons, Item.render, code3]
  | prompt => simp [render_cons, Item.render]; intro h; exact absurd h (by decide +kernel)

/-- the `quit` branch: `101 Goodbye`, no prompt, and `_handle_write` on the now blocking descriptor -/
theorem plQuit_spec (w : W) (c : Cli) : QuitFlush w c (plQuit w c) [item101] ∧ (plQuit w c).2.cmd = c.cmd ∧
    (plQuit w c).1.exited = w.exited ∧ LineFrame w c (plQuit w c) := by
  have hne : (c.toBuf ++ render [item101]).isEmpty = false := by
    have := render_ne_nil item101 []
    cases h : c.toBuf ++ render [item101] with
    | nil => simp at h; exact absurd h.2 this
    | cons a r => rfl
  by_cases hcap : capOf w c.fd < 0
  · have : plQuit w c = ({ w with sys := w.sys ++ [Sys.write c.fd [] true false] },
        { c with quit := true, blocking := true, toBuf := c.toBuf ++ render [item101] }) := by
      unfold plQuit handleWrite
      simp only [put, bstr_101, if_true, hne, Bool.false_eq_true, if_false, hcap]
    rw [this]
    exact ⟨⟨rfl, Or.inl ⟨hcap, rfl, rfl⟩⟩, rfl, rfl, ⟨rfl, rfl, rfl, rfl, rfl⟩⟩
  · have : plQuit w c = (setCap { w with sys := w.sys ++ [Sys.write c.fd (c.toBuf ++ render [item101]) false
          (capOf w c.fd < ((c.toBuf ++ render [item101]).length : Int))] } c.fd
          (if capOf w c.fd < ((c.toBuf ++ render [item101]).length : Int) then 0
           else capOf w c.fd - ((c.toBuf ++ render [item101]).length : Int)),
        { c with quit := true, blocking := true, toBuf := [] }) := by
      unfold plQuit handleWrite
      simp only [put, bstr_101, if_true, hne, Bool.false_eq_true, if_false, hcap]
    rw [this]
    exact ⟨⟨rfl, Or.inr ⟨hcap, rfl, rfl⟩⟩, rfl, rfl, ⟨rfl, rfl, rfl, rfl, rfl⟩⟩

theorem QuitFlush.out {w : W} {c : Cli} {r : W × Cli} {items : List Item} (h : QuitFlush w c r items) (hfd : r.2.fd = c.fd) :
    outOf r.1 r.2 = outOf w c ++ render items := by
  obtain ⟨_, h | h⟩ := h
  · obtain ⟨_, hb, hs⟩ := h
    simp [outOf, hb, hs, hfd, written_append, written_write]
  · obtain ⟨_, hb, hs⟩ := h
    simp [outOf, hb, hs, hfd, written_append, written_write]

theorem plQuit_outcome (w : W) (c : Cli) : LineOutcome w c (plQuit w c) := by
  obtain ⟨hq, hcmd, hex, hfr⟩ := plQuit_spec w c
  refine .reply [item101] ⟨[], 101, bstr "Goodbye", ?_, by simp, by decide⟩ (hq.out hfr.fd) (Or.inr hq) hcmd hex (.of_clean (by decide +kernel)) ?_
  · simp [promptAfter, item101]
  · intro _ h; rw [hq.1] at h; cases h


abbrev item213 : Item := .line 213 (bstr "Command cannot be handled by power control device(s)")

theorem no213_outcome (w : W) (c : Cli) :
    LineOutcome w c (w, put c (codeLine 213 ++ crlf ++ (if c.quit then [] else prompt))) :=
  mkReply w c _ [] 213 (bstr "Command cannot be handled by power control device(s)") rfl rfl rfl rfl (by simp only [put, bstr_213, List.nil_append]) (by simp) (by decide) (by decide) (by decide) (.of_clean (by decide +kernel))

/-- `_create_command` + `dev_enqueue_actions`: 213 and a prompt, or a command with `pending > 0` and nothing written -/
theorem install_outcome (w : W) (c : Cli) (com : Com) (names : List Name) (hidle : c.cmd = none) :
    LineOutcome w c (install w c com names) := by
  unfold install
  dsimp only
  split
  · exact no213_outcome w c
  · generalize List.foldl _ _ w.devs = r
    obtain ⟨devs, total⟩ := r
    dsimp only
    split
    · exact no213_outcome w c
    · rename_i ht
      refine .installed _ hidle rfl ?_ rfl rfl rfl
      simp at ht; dsimp only; omega

theorem install_frame (w : W) (c : Cli) (com : Com) (names : List Name) : LineFrame w c (install w c com names) := by
  unfold install
  dsimp only
  split
  · exact ⟨rfl, rfl, rfl, rfl, rfl⟩
  · generalize List.foldl _ _ w.devs = r
    obtain ⟨devs, total⟩ := r
    dsimp only
    split <;> exact ⟨rfl, rfl, rfl, rfl, rfl⟩


theorem lineIn_mono {a b : List Nat} (h : ∀ x ∈ a, x ∈ b) (i : Item) (hi : i.lineIn a = true) : i.lineIn b = true := by
  cases i with
  | prompt => simp [Item.lineIn] at hi
  | line c t => simp only [Item.lineIn, List.contains_iff_mem] at hi ⊢; exact h c hi

theorem plDevice_outcome (w : W) (c : Cli) (str : Bytes) : LineOutcome w c (plDevice w c str) := by
  unfold plDevice
  split
  · exact plFin_outcome w c c _ [] 201 (bstr "Unknown command") rfl rfl rfl (by rw [bstr_201]; rfl) (by simp) (by decide) (by decide) (by decide) (.of_clean (by decide +kernel))
  · split
    · rename_i h; exact .exit rfl (Or.inr (deviceReply_none w _ h))
    · rename_i b h
      obtain ⟨items, hb, hi⟩ := deviceReply_some w _ b h
      refine plFin_outcome w c c _ items 103 (bstr "Query complete") rfl rfl rfl ?_ ?_ (by decide) (by decide) (by decide) ?_
      · rw [List.append_assoc, bstr_103, hb, render_append]
      · intro i h; exact lineIn_mono (by decide) i (hi i h)
      · exact .append (.of_data fun i h => lineIn_mono (by decide) i (hi i h)) (.of_clean (by decide +kernel))

theorem plDevice_frame (w : W) (c : Cli) (str : Bytes) : LineFrame w c (plDevice w c str) := by
  unfold plDevice
  split
  · exact plFin_frame ..
  · split
    · exact ⟨rfl, rfl, rfl, rfl, rfl⟩
    · exact plFin_frame ..

theorem bstr_209 : bstr "209 No such nodes: " = code3 209 ++ [32] ++ bstr "No such nodes: " := by decide +kernel

theorem plCmd_outcome (w : W) (c : Cli) (com : Com) (arg : Bytes) (hidle : c.cmd = none) : LineOutcome w c (plCmd w c com arg) := by
  unfold plCmd
  split
  · rename_i h; exact absurd h (createR_ne_fatal _)
  · exact plFin_outcome w c c _ [] 205 (bstr "Hostlist error: invalid range") rfl rfl rfl (by rw [bstr_205]; rfl) (by simp) (by decide) (by decide) (by decide) (.of_clean (by decide +kernel))
  · rename_i hl _
    dsimp only
    split
    · refine plFin_outcome w c c _ [] 209 (bstr "No such nodes: " ++ ofChars (rangedString (List.foldl pushHost []
        (List.filter (fun n => (find w.cfg.nodes n).isNone) (expAliases w.cfg.aliases (expand hl)))))) rfl rfl rfl ?_ (by simp) (by decide) (by decide) (by decide) (.of_data (by simp [Item.lineIn, dataCodesP]))
      simp [render, Item.render, bstr_209, List.append_assoc]
    · exact install_outcome w c com _ hidle

theorem plCmd_frame (w : W) (c : Cli) (com : Com) (arg : Bytes) : LineFrame w c (plCmd w c com arg) := by
  unfold plCmd
  split
  · exact ⟨rfl, rfl, rfl, rfl, rfl⟩
  · exact plFin_frame ..
  · dsimp only
    split
    · exact plFin_frame ..
    · exact install_frame ..

theorem plRest_outcome (w : W) (c : Cli) (str : Bytes) (hidle : c.cmd = none) : LineOutcome w c (plRest w c str) := by
  unfold plRest
  split
  · split
    · exact install_outcome w c _ _ hidle
    · split
      · exact install_outcome w c _ _ hidle
      · split
        · exact install_outcome w c _ _ hidle
        · exact plDevice_outcome w c str
  · exact plCmd_outcome w c _ _ hidle

theorem plRest_frame (w : W) (c : Cli) (str : Bytes) : LineFrame w c (plRest w c str) := by
  unfold plRest
  split
  · split
    · exact install_frame ..
    · split
      · exact install_frame ..
      · split
        · exact install_frame ..
        · exact plDevice_frame ..
  · exact plCmd_frame ..

theorem plIdle_outcome (w : W) (c : Cli) (str : Bytes) (hidle : c.cmd = none) : LineOutcome w c (plIdle w c str) := by
  unfold plIdle
  split
  · exact help_outcome w c
  · split
    · exact plNodes_outcome w c
    · split
      · exact plTelemetry_outcome w c
      · split
        · exact plExprange_outcome w c
        · split
          · exact plQuit_outcome w c
          · exact plRest_outcome w c str hidle

theorem plIdle_frame (w : W) (c : Cli) (str : Bytes) : LineFrame w c (plIdle w c str) := by
  unfold plIdle
  split
  · exact plFin_frame ..
  · split
    · exact plNodes_frame ..
    · split
      · exact plTelemetry_frame ..
      · split
        · exact plExprange_frame ..
        · split
          · exact (plQuit_spec w c).2.2.2
          · exact plRest_frame ..

abbrev item208 : Item := .line 208 (bstr "Command in progress")

/-- C11 one-command rule: while a command is in progress a request line is answered `208` and nothing else in the
    world changes -/
theorem parseLine_busy (w : W) (c : Cli) (line : Bytes) (h : c.cmd.isSome = true) (hs : ¬ TooLong line) :
    parseLine w c line = (w, put c (render [item208])) := by
  rw [parseLine_eq]; unfold parseLine'; rw [if_neg hs, if_pos h, bstr_208]

abbrev item203 : Item := .line 203 (bstr "Command too long")

/-- `CP_ERR_TOOLONG`: a line whose stripped text has `CP_LINEMAX` bytes or more is answered `203 Command too long` and —
    the branch falls through to the end of `_parse_input` — the prompt (unless the client has quit), whatever the
    client's state, also with a command in progress; nothing else changes, neither in the client nor in the world -/
theorem parseLine_tooLong (w : W) (c : Cli) (line : Bytes) (h : TooLong line) :
    parseLine w c line = (w, put c (render [item203] ++ (if c.quit then [] else prompt))) := by
  rw [parseLine_eq]; unfold parseLine'; rw [if_pos h, bstr_203]; rfl

/-! a concrete family of lines for the non-vacuity examples: `n` times `x`, then LF -/

theorem takeWhile_xs (n : Nat) :
    (List.replicate n (120 : UInt8) ++ [10]).takeWhile (· != 0) = List.replicate n 120 ++ [10] := by
  induction n with
  | zero => decide
  | succ k ih => rw [List.replicate_succ, List.cons_append, List.takeWhile_cons_of_pos (by decide), ih]

theorem reqStr_xs (n : Nat) : reqStr (List.replicate n 120 ++ [10]) = List.replicate n 120 := by
  unfold reqStr stripWs
  rw [takeWhile_xs]
  cases n with
  | zero => decide
  | succ k =>
    have h1 : (List.replicate (k + 1) (120 : UInt8) ++ [10]).dropWhile isSpace = List.replicate (k + 1) 120 ++ [10] := by
      rw [List.replicate_succ, List.cons_append, List.dropWhile_cons_of_neg (by decide)]
    rw [h1, List.reverse_append, List.reverse_replicate]
    have h2 : ([10] : Bytes).reverse ++ List.replicate (k + 1) 120 = 10 :: 120 :: List.replicate k 120 := by
      rw [List.replicate_succ]; rfl
    rw [h2, List.dropWhile_cons_of_pos (by decide), List.dropWhile_cons_of_neg (by decide), ← List.replicate_succ,
      List.reverse_replicate]

/-- `CP_LINEMAX` times `x` and a line feed is too long, one `x` fewer is not -/
theorem tooLong_xs (n : Nat) : TooLong (List.replicate n 120 ++ [10]) ↔ n ≥ 131072 := by
  unfold TooLong; rw [reqStr_xs, List.length_replicate]; rfl

theorem tooLong_outcome (w : W) (c : Cli) : LineOutcome w c (plFin w c (codeLine 203 ++ crlf)) :=
  plFin_outcome w c c _ [] 203 (bstr "Command too long") rfl rfl rfl (by rw [bstr_203]; rfl) (by simp) (by decide) (by decide) (by decide) (.of_clean (by decide +kernel))

theorem busy_outcome (w : W) (c : Cli) (hb : c.cmd.isSome = true) : LineOutcome w c (w, put c (render [item208])) := by
  refine .reply [item208] ⟨[], 208, bstr "Command in progress", ?_, by simp, by decide⟩ ?_ (Or.inl ⟨rfl, rfl⟩) rfl rfl (.of_clean (by decide +kernel)) ?_
  · simp [promptAfter]
  · simp [outOf, put]
  · intro h; rw [h] at hb; cases hb

/-- C04/C06/C15 core: the three possible outcomes of one request line, for every line, client and world -/
theorem parseLine_shape (w : W) (c : Cli) (line : Bytes) : LineOutcome w c (parseLine w c line) := by
  by_cases hl : TooLong line
  · rw [parseLine_eq]; unfold parseLine'; rw [if_pos hl]; exact tooLong_outcome w c
  cases h : c.cmd.isSome with
  | true => rw [parseLine_busy w c line h hl]; exact busy_outcome w c h
  | false =>
    rw [parseLine_eq]; unfold parseLine'; rw [if_neg hl, if_neg (by simp [h])]
    exact plIdle_outcome w c _ (by simpa using h)

theorem parseLine_frame (w : W) (c : Cli) (line : Bytes) : LineFrame w c (parseLine w c line) := by
  rw [parseLine_eq]; unfold parseLine'
  split
  · exact plFin_frame ..
  · split
    · exact ⟨rfl, rfl, rfl, rfl, rfl⟩
    · exact plIdle_frame ..


/-! ### payloads from the device side: `dbg_memstr` text and the diagnostic of `setresult` -/

/-- one byte as `dbg_memstr` shows it -/
def memCell (b : UInt8) : Bytes :=
  if b == 13 then Pm.Dev2.str "\\r" else if b == 10 then Pm.Dev2.str "\\n" else if b == 9 then Pm.Dev2.str "\\t"
  else if Pm.Dev2.isPrint b then [b]
  else
    let ds := Pm.Dev2.octal b.toNat
    let ds := List.replicate (3 - ds.length) (48 : UInt8) ++ ds
    (92 : UInt8) :: ds

theorem memstr_eq (bs : Bytes) : Pm.Dev2.memstr bs = bs.flatMap memCell := rfl

theorem memCell_print_nat : ∀ n, n < 256 → (memCell n.toUInt8).all Pm.Dev2.isPrint = true := by decide +kernel

theorem memCell_print (b : UInt8) : (memCell b).all Pm.Dev2.isPrint = true := by
  have := memCell_print_nat b.toNat (UInt8.toNat_lt b)
  simpa using this

/-- `dbg_memstr` produces printable ASCII only, whatever the device sent -/
theorem memstr_print (bs : Bytes) : ∀ x ∈ Pm.Dev2.memstr bs, 32 ≤ x.toNat ∧ x.toNat ≤ 126 := by
  intro x hx
  rw [memstr_eq, List.mem_flatMap] at hx
  obtain ⟨b, _, hxb⟩ := hx
  have := List.all_eq_true.mp (memCell_print b) x hxb
  simpa [Pm.Dev2.isPrint] using this

theorem print_clean (t : Bytes) (h : ∀ x ∈ t, 32 ≤ x.toNat ∧ x.toNat ≤ 126) : cleanText t = true := by
  simp only [cleanText, List.all_eq_true, Bool.and_eq_true, bne_iff_ne, ne_eq]
  intro x hx
  have := h x hx
  constructor <;> (intro h; subst h; simp at this)

/-- a telemetry line built by `teleMem` (`send(dev): '…'`, `recv(dev): '…'`) is one clean protocol line provided its
    fixed prefix is -/
theorem teleMem_clean (cid : Nat) (pre : String) (bs : Bytes) (hp : cleanText (Pm.Dev2.str pre) = true) :
    ∀ o ∈ Pm.Dev2.teleMem cid pre bs, ∀ c t, o = Pm.Dev2.Out.telemetry c t → cleanText t = true := by
  intro o ho c t hot
  unfold Pm.Dev2.teleMem at ho
  split at ho
  · simp at ho; subst ho; cases hot
  · simp at ho; subst ho; cases hot
    rw [cleanText_append, cleanText_append, hp, print_clean _ (memstr_print bs)]
    decide +kernel

def isDiag : Pm.Dev2.Out → Bool | .diag _ _ => true | _ => false

theorem askRx_noDiag (o : Oracle) (pat : Nat) (s : Bytes) : ∀ x ∈ (Pm.Dev2.askRx o pat s).2.2, isDiag x = false := by
  unfold Pm.Dev2.askRx; grind [isDiag]

theorem pickResult_noDiag (s : Bytes) (l : List (PResult × Nat)) (o : Oracle) (errs : List Pm.Dev2.Out)
    (h : ∀ x ∈ errs, isDiag x = false) : ∀ x ∈ (Pm.Dev2.pickResult Pm.Dev2.askRx s l o errs).2.2, isDiag x = false := by
  induction l generalizing o errs with
  | nil => simpa [Pm.Dev2.pickResult] using h
  | cons p r ih =>
    obtain ⟨st, pat⟩ := p
    unfold Pm.Dev2.pickResult
    have h2 := askRx_noDiag o pat s
    dsimp only
    split
    · intro x hx; simp at hx; rcases hx with hx | hx
      · exact h x hx
      · exact h2 x hx
    · apply ih; intro x hx; simp at hx; rcases hx with hx | hx
      · exact h x hx
      · exact h2 x hx

theorem takeWhile_clean (s : Bytes) : cleanText (s.takeWhile fun b => b != 13 && b != 10) = true := by
  simp only [cleanText, List.all_eq_true]
  intro x hx
  induction s with
  | nil => simp at hx
  | cons a r ih =>
    rw [List.takeWhile_cons] at hx
    split at hx
    · simp at hx; rcases hx with rfl | hx
      · assumption
      · exact ih hx
    · simp at hx

theorem cleanText_take (t : Bytes) (n : Nat) (h : cleanText t = true) : cleanText (t.take n) = true := by
  simp only [cleanText, List.all_eq_true] at h ⊢
  intro x hx; exact h x (List.mem_of_mem_take hx)

theorem findPlug_mem (d : Dev) (pn : Bytes) (pl : Plug) (h : Pm.Dev2.findPlug d pn = some pl) : pl ∈ d.plugs ∧ pl.node.isSome = true := by
  unfold Pm.Dev2.findPlug at h
  split at h
  · rename_i p hp
    split at h
    · simp at h; subst h; exact ⟨List.mem_of_find?_eq_some hp, by assumption⟩
    · simp at h
  · simp at h

/-- the diagnostic `setresult` reports is `node: text` where `node` is the node of one of the device's plugs and
    `text` is the captured status cut at the first CR or LF (and at 1023 bytes) -/
theorem setresult_diag (d : Dev) (a : Action) (o : Oracle) (p s : Int) (i : List (PResult × Nat)) :
    ∀ x ∈ (Pm.Dev2.stmtSetresult d a o p s i).out, ∀ c t, x = Pm.Dev2.Out.diag c t →
      ∃ node txt, t = node ++ Pm.Dev2.str ": " ++ txt ∧ cleanText txt = true ∧ txt.length ≤ 1023 ∧
        ∃ pl ∈ d.plugs, pl.node = some node := by
  intro x hx c t hxt
  unfold Pm.Dev2.stmtSetresult at hx
  split at hx
  · simp at hx
  · split at hx
    · rename_i sv plug hs hf
      have hnd := pickResult_noDiag sv i o [] (by simp)
      generalize Pm.Dev2.pickResult Pm.Dev2.askRx sv i o [] = pr at hx hnd
      obtain ⟨o', res, errs⟩ := pr
      simp only [List.mem_append] at hx
      rcases hx with hx | hx
      · have := hnd x hx; rw [hxt] at this; simp [isDiag] at this
      · split at hx
        · simp at hx; rw [hxt] at hx; cases hx
          obtain ⟨hm, hn⟩ := findPlug_mem d _ plug hf
          refine ⟨plug.node.getD [], _, (List.append_assoc ..).symm, cleanText_take _ _ (takeWhile_clean sv), (by rw [List.length_take]; exact Nat.min_le_left _ _), plug, hm, ?_⟩
          cases hpn : plug.node with
          | none => rw [hpn] at hn; simp at hn
          | some n => rfl
        · simp at hx
    · simp at hx


/-! ### the banner -/

/-- the client `_create_client_socket` makes -/
def newClient (w : W) : Cli :=
  { id := w.nextId, fd := 1000 + w.nacc, toBuf := bstr "001 " ++ w.cfg.version ++ crlf ++ prompt }

/-- the `accept` part of `cli_post_poll` -/
def cliAccept (w : W) (acc : Nat) : W :=
  if acc == 1 then
    { w with clients := w.clients ++ [newClient w], nextId := w.nextId + 1, nacc := w.nacc + 1, sys := w.sys ++ [Sys.accept (1000 + w.nacc : Nat)] }
  else if acc == 2 then { w with nextId := w.nextId + 1, sys := w.sys ++ [Sys.accept (-1)] }
  else w

/-- the per-client part of `cli_post_poll` -/
def cliStep (envs : List FdEnv) (w : W) (c0 : Cli) : W :=
  if w.exited then w else
  let (w', r) := clientPass w c0 (envs.find? (·.fd == c0.fd))
  match r with
  | some c => { w' with clients := w'.clients.map fun (x : Cli) => if x.id == c.id then c else x }
  | none => { w' with clients := w'.clients.filter fun (x : Cli) => x.id != c0.id }

theorem cliPostPoll_eq (w : W) (acc : Nat) (envs : List FdEnv) :
    cliPostPoll w acc envs =
      (cliAccept { w with sys := [], caps := envs.map fun (e : FdEnv) => (e.fd, e.cap) } acc).clients.foldl (cliStep envs)
        (cliAccept { w with sys := [], caps := envs.map fun (e : FdEnv) => (e.fd, e.cap) } acc) := rfl

theorem bstr_001 : bstr "001 " = code3 1 ++ [32] := by decide +kernel

theorem newClient_banner (w : W) : (newClient w).toBuf = render [Item.line 1 w.cfg.version, Item.prompt] := by
  simp [newClient, render, Item.render, bstr_001]

/-! ### `_handle_input`: exactly the complete lines, in order -/

/-- the complete lines (each with its terminating LF) and the unterminated rest -/
def linesOf : Bytes → List Bytes × Bytes
  | [] => ([], [])
  | b :: r =>
    if b == 10 then ([b] :: (linesOf r).1, (linesOf r).2)
    else match (linesOf r).1 with
      | [] => ([], b :: (linesOf r).2)
      | l :: ls => ((b :: l) :: ls, (linesOf r).2)

theorem linesOf_flatten (b : Bytes) : (linesOf b).1.flatten ++ (linesOf b).2 = b := by
  induction b with
  | nil => rfl
  | cons x r ih =>
    unfold linesOf
    split
    · simpa using ih
    · split
      · rename_i h; rw [h] at ih; simpa using ih
      · rename_i l ls h; rw [h] at ih; simpa using ih

theorem linesOf_tail (b : Bytes) : 10 ∉ (linesOf b).2 := by
  induction b with
  | nil => simp [linesOf]
  | cons x r ih =>
    unfold linesOf
    split
    · exact ih
    · rename_i hx
      split
      · simp only [List.mem_cons, not_or]; exact ⟨fun h => hx (by simp [← h]), ih⟩
      · exact ih

theorem linesOf_line (b : Bytes) : ∀ l ∈ (linesOf b).1, ∃ body, l = body ++ [10] ∧ 10 ∉ body := by
  induction b with
  | nil => simp [linesOf]
  | cons x r ih =>
    unfold linesOf
    split
    · rename_i hx
      intro l hl; simp only [List.mem_cons] at hl
      rcases hl with rfl | hl
      · exact ⟨[], by simp at hx; simp [hx], by simp⟩
      · exact ih l hl
    · rename_i hx
      split
      · simp
      · rename_i l0 ls h; rw [h] at ih
        intro l hl; simp only [List.mem_cons] at hl
        rcases hl with rfl | hl
        · obtain ⟨body, hb, hn⟩ := ih l0 (by simp)
          refine ⟨x :: body, by simp [hb], ?_⟩
          simp only [List.mem_cons, not_or]; exact ⟨fun h => hx (by simp [← h]), hn⟩
        · exact ih l (by simp [hl])

theorem linesOf_idx (b : Bytes) :
    (b.idxOf? 10 = none → linesOf b = ([], b)) ∧
    (∀ i, b.idxOf? 10 = some i → linesOf b = (b.take (i + 1) :: (linesOf (b.drop (i + 1))).1, (linesOf (b.drop (i + 1))).2)) := by
  induction b with
  | nil => simp [linesOf, List.idxOf?]
  | cons x r ih =>
    obtain ⟨ih1, ih2⟩ := ih
    simp only [List.idxOf?, List.findIdx?_cons] at ih1 ih2 ⊢
    by_cases hx : (x == 10) = true
    · simp only [hx, if_true]
      constructor
      · intro h; cases h
      · intro i hi; cases hi; simp [linesOf, hx]
    · simp only [hx]
      constructor
      · intro h
        have : List.findIdx? (fun y => y == 10) r = none := by
          cases hh : List.findIdx? (fun y => y == 10) r with
          | none => rfl
          | some j => rw [hh] at h; simp at h
        rw [linesOf, if_neg hx, ih1 this]
      · intro i hi
        cases hh : List.findIdx? (fun y => y == 10) r with
        | none => rw [hh] at hi; simp at hi
        | some j =>
          rw [hh] at hi; simp at hi; subst hi
          rw [linesOf, if_neg hx, ih2 j hh]
          simp

/-- `_handle_input` as a fold of `_parse_input` over a list of lines; the line is taken out of `from` before it is parsed -/
def runLines : W → Cli → List Bytes → W × Cli
  | w, c, [] => (w, c)
  | w, c, l :: ls =>
    if w.exited then (w, c) else
    runLines (parseLine w { c with fromBuf := c.fromBuf.drop l.length } l).1 (parseLine w { c with fromBuf := c.fromBuf.drop l.length } l).2 ls

theorem runLines_exited (w : W) (c : Cli) (ls : List Bytes) (h : w.exited = true) : runLines w c ls = (w, c) := by
  cases ls <;> simp [runLines, h]

theorem handleInputF_lines : ∀ (fuel : Nat) (w : W) (c : Cli), c.fromBuf.length < fuel →
    handleInputF fuel w c = runLines w c (linesOf c.fromBuf).1 := by
  intro fuel; induction fuel with
  | zero => intro w c h; omega
  | succ fuel ih =>
    intro w c h
    unfold handleInputF
    by_cases hex : w.exited = true
    · rw [if_pos hex, runLines_exited _ _ _ hex]
    · rw [if_neg hex]
      obtain ⟨h1, h2⟩ := linesOf_idx c.fromBuf
      cases hi : c.fromBuf.idxOf? 10 with
      | none => rw [h1 hi]; rfl
      | some i =>
        have hlt : i < c.fromBuf.length := by
          have := List.findIdx?_eq_some_iff_findIdx_eq.mp hi
          exact this.1
        have hlen : (c.fromBuf.take (i + 1)).length = i + 1 := by rw [List.length_take]; omega
        rw [h2 i hi]
        simp only [runLines, if_neg hex, hlen]
        have hfr := (parseLine_frame w { c with fromBuf := c.fromBuf.drop (i + 1) } (c.fromBuf.take (i + 1))).fromBuf
        rw [ih _ _ (by rw [hfr]; simp only [List.length_drop]; omega), hfr]

/-- the fuel of `handleInput` always suffices -/
theorem handleInput_lines (w : W) (c : Cli) : handleInput w c = runLines w c (linesOf c.fromBuf).1 :=
  handleInputF_lines _ w c (Nat.lt_succ_self _)

theorem handleInputF_fuel (fuel : Nat) (w : W) (c : Cli) (h : c.fromBuf.length < fuel) : handleInputF fuel w c = handleInput w c := by
  rw [handleInputF_lines fuel w c h, handleInput_lines]


theorem runLines_consumed : ∀ (ls : List Bytes) (w : W) (c : Cli), (runLines w c ls).1.exited = false →
    (runLines w c ls).2.fromBuf = c.fromBuf.drop ls.flatten.length := by
  intro ls; induction ls with
  | nil => intro w c _; simp [runLines]
  | cons l ls ih =>
    intro w c h
    unfold runLines at h ⊢
    by_cases hex : w.exited = true
    · rw [if_pos hex] at h; simp [hex] at h
    · rw [if_neg hex] at h ⊢
      rw [ih _ _ h, (parseLine_frame ..).fromBuf]
      simp [List.drop_drop]

/-- when the daemon survives, what stays in `from` is exactly the unterminated rest -/
theorem handleInput_tail (w : W) (c : Cli) (h : (handleInput w c).1.exited = false) :
    (handleInput w c).2.fromBuf = (linesOf c.fromBuf).2 := by
  rw [handleInput_lines] at h ⊢
  rw [runLines_consumed _ _ _ h]
  have := linesOf_flatten c.fromBuf
  conv => lhs; arg 2; rw [← this]
  simp

end Pm.Daemon.ClientPf
