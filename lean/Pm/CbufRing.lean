/-! # liblsd's circular buffer (`liblsd/cbuf.c`) at index level

A mirror of the part of `cbuf.c` that `powermand` reaches (`cbuf_create`, `cbuf_opt_set`, `cbuf_flush`, `cbuf_used`,
`cbuf_is_empty`, `cbuf_drop`, `cbuf_peek`, `cbuf_write`, `cbuf_write_from_fd`, `cbuf_read_to_fd`, `cbuf_read_line`, and
below them `cbuf_reader`, `cbuf_writer`, `cbuf_dropper`, `cbuf_grow`, `cbuf_shrink`, `cbuf_find_unread_line`,
`cbuf_get_mem/fd`, `cbuf_put_mem/fd`, `cbuf_is_valid`), one definition per C function, the ring *with its indices*:
`data[0 .. size]` (`size + 1` slots: one sentinel slot so that `i_in == i_out` means empty), `i_in`, `i_out`, `i_rep`,
`got_wrap`, the two-piece copies across the wrap point, the re-layout of a wrapped ring in `cbuf_grow`.

Conventions.
* The daemon is built with assertions (no `NDEBUG`): `alloc = size + 1 + 2 * CBUF_MAGIC_LEN`.  The two magic cookies
  themselves are not stored; `data` holds exactly the `size + 1` ring slots, and `Ring.valid` checks `data.length` and
  `alloc` instead of comparing cookies.
* Every `assert` of the C code is computed: the operations return `ok : Bool`, false when an assertion would fire.
* `malloc`/`realloc` succeed; new bytes are 0 (in C they are indeterminate; nothing observable depends on them).
* C `int`s are unbounded naturals/integers here.
* A descriptor is an input: `Src` (what `read` will answer) and `Dst` (what `write` will accept), consumed call by call.
* Loops run on fuel that is provably never exhausted (`Pm/CbufRingProof.lean`).
* No proofs in this file.  It is compared with the real `cbuf.c` by `harness/u_cbuf.c` / `lib/cbuflayer.py` (driver
  `CbMain.lean`). -/
namespace Pm.CbufRing

/-- `CBUF_CHUNK` -/
def chunk : Nat := 1000
/-- `CBUF_MAGIC_LEN` = `sizeof (unsigned long)` -/
def magicLen : Nat := 8

/-- `cbuf_overwrite_t` (`CBUF_NO_DROP` = 0, `CBUF_WRAP_ONCE` = 1, `CBUF_WRAP_MANY` = 2) -/
inductive Ovw where
  | noDrop | wrapOnce | wrapMany
  deriving DecidableEq, Repr, Inhabited

/-- `struct cbuf` -/
structure Ring where
  /-- the `size + 1` ring slots `cb->data[0 .. size]` -/
  data : List UInt8
  alloc : Nat
  minsize : Nat
  maxsize : Nat
  size : Nat
  used : Nat
  overwrite : Ovw
  got_wrap : Bool
  i_in : Nat
  i_out : Nat
  i_rep : Nat
  deriving Repr, Inhabited

/-- `memcpy (&data[i], bs, |bs|)` (the callers keep `i + |bs| ≤ |data|`) -/
def blit (data : List UInt8) (i : Nat) (bs : List UInt8) : List UInt8 :=
  data.take i ++ bs ++ data.drop (i + bs.length)

/-- `cbuf_is_valid`: every assertion, in order.  The first two conjuncts stand for the cookie comparisons (the
    allocation really extends over `size + 1` slots and both cookies). -/
def Ring.valid (r : Ring) : Bool :=
  r.data.length == r.size + 1 && r.alloc == r.size + 1 + 2 * magicLen
  && decide (r.alloc > 0)
  && decide (r.alloc > r.size)
  && decide (r.size > 0)
  && decide (r.size ≥ r.minsize)
  && decide (r.size ≤ r.maxsize)
  && decide (r.minsize > 0)
  && decide (r.maxsize > 0)
  && decide (r.used ≤ r.size)
  && (r.got_wrap || r.i_rep == 0)
  && decide (r.i_in ≤ r.size)
  && decide (r.i_out ≤ r.size)
  && decide (r.i_rep ≤ r.size)
  && (if r.i_in ≥ r.i_out then decide (r.i_rep > r.i_in ∨ r.i_rep ≤ r.i_out)
      else decide (r.i_rep > r.i_in ∧ r.i_rep ≤ r.i_out))
  && r.size - r.used == (r.i_out + (r.size + 1) - r.i_in - 1) % (r.size + 1)

/-- the unread bytes in order: `data` read from `i_out` up to `i_in`, modulo `size + 1` -/
def Ring.contents (r : Ring) : List UInt8 :=
  (r.data.drop r.i_out ++ r.data.take r.i_out).take ((r.i_in + (r.size + 1) - r.i_out) % (r.size + 1))

/-! ## descriptors and memory as sources and sinks -/

/-- what `read` on a descriptor will answer: `avail` bytes are there; the k-th call hands out at most `caps[k]` of them
    (a short read; no entry left = no limit); with nothing to hand out the answer is 0 (`eof`: end of file) or -1 (`EAGAIN`
    or an error).  (`cbuf_get_fd` retries on `EINTR`: an answer here is the answer after that loop.) -/
structure Src where
  avail : List UInt8
  caps : List Nat
  eof : Bool
  deriving Repr, Inhabited

/-- the `getf` argument of `cbuf_writer` with its `src` object -/
inductive Getter where
  | mem (src : List UInt8)
  | fd (s : Src)
  deriving Repr, Inhabited

/-- what is still to come from the source -/
def Getter.pending : Getter → List UInt8
  | .mem src => src
  | .fd s => s.avail

/-- `cbuf_get_mem` / `cbuf_get_fd` asked for `n > 0` bytes: the return value, the bytes stored, the source afterwards.
    (`cbuf_get_mem` returns `len`; the callers never ask it for more than the source holds.) -/
def Getter.get (g : Getter) (n : Nat) : Int × List UInt8 × Getter :=
  match g with
  | .mem src => let bs := src.take n; ((bs.length : Nat), bs, .mem (src.drop n))
  | .fd s =>
    let k := min n (match s.caps with | [] => s.avail.length | c :: _ => min c s.avail.length)
    if k = 0 then (if s.eof then 0 else -1, [], .fd { s with caps := s.caps.tail })
    else ((k : Nat), s.avail.take k, .fd { s with avail := s.avail.drop k, caps := s.caps.tail })

/-- what `write` on a descriptor will accept: the k-th call takes `caps[k]` bytes when that is positive, and answers
    `caps[k]` itself otherwise (0, or -1 for `EAGAIN` / an error); no entry left = takes everything.  `out` = written so far. -/
structure Dst where
  out : List UInt8
  caps : List Int
  deriving Repr, Inhabited

/-- the `putf` argument of `cbuf_reader` with its `dst` object -/
inductive Putter where
  | mem (dst : List UInt8)
  | fd (d : Dst)
  deriving Repr, Inhabited

/-- everything delivered so far -/
def Putter.out : Putter → List UInt8
  | .mem dst => dst
  | .fd d => d.out

/-- `cbuf_put_mem` / `cbuf_put_fd` handed the bytes `bs` (`|bs| > 0`): the return value and the sink afterwards -/
def Putter.put (p : Putter) (bs : List UInt8) : Int × Putter :=
  match p with
  | .mem dst => ((bs.length : Nat), .mem (dst ++ bs))
  | .fd d =>
    match d.caps with
    | [] => ((bs.length : Nat), .fd { d with out := d.out ++ bs })
    | c :: cs =>
      if c ≤ 0 then (c, .fd { d with caps := cs })
      else let k := min bs.length c.toNat; ((k : Nat), .fd { out := d.out ++ bs.take k, caps := cs })

/-! ## create, flush, options, queries -/

/-- `cbuf_create (minsize, maxsize)`; `none` = `NULL` (`EINVAL`) -/
def create (minsize maxsize : Int) : Option Ring :=
  if minsize ≤ 0 then none else
  let mn := minsize.toNat
  some { data := List.replicate (mn + 1) 0, alloc := mn + 1 + 2 * magicLen, minsize := mn,
         maxsize := if maxsize > minsize then maxsize.toNat else mn, size := mn, used := 0, overwrite := .wrapMany,
         got_wrap := false, i_in := 0, i_out := 0, i_rep := 0 }

/-- `cbuf_flush` -/
def flush (r : Ring) : Ring :=
  { r with used := 0, got_wrap := false, i_in := 0, i_out := 0, i_rep := 0 }

/-- `cbuf_opt_set (cb, CBUF_OPT_OVERWRITE, value)`: return value (-1: `EINVAL`) and ring -/
def optSet (r : Ring) (value : Int) : Int × Ring :=
  if value = 0 then (0, { r with overwrite := .noDrop })
  else if value = 1 then (0, { r with overwrite := .wrapOnce })
  else if value = 2 then (0, { r with overwrite := .wrapMany })
  else (-1, r)

/-- `cbuf_used` -/
def usedOf (r : Ring) : Nat := r.used
/-- `cbuf_is_empty` -/
def isEmpty (r : Ring) : Bool := r.used == 0

/-! ## `cbuf_shrink`, `cbuf_dropper`, `cbuf_drop` -/

/-- `cbuf_shrink`: not implemented in C — every path returns 0; what remains is its entry assertion -/
def shrink (r : Ring) : Bool := r.valid

/-- `cbuf_dropper (cb, len)`: the ring afterwards and whether all assertions held -/
def dropper (r : Ring) (len : Nat) : Ring × Bool :=
  let ok1 := decide (len > 0) && decide (len ≤ r.used)
  let r' := { r with used := r.used - len, i_out := (r.i_out + len) % (r.size + 1) }
  let ok2 := if r'.size - r'.used > chunk ∧ r'.size > r'.minsize then shrink r' else true
  (r', ok1 && ok2)

/-- `cbuf_drop (src, len)`: return value, ring, assertions -/
def drop (r : Ring) (len : Int) : Int × Ring × Bool :=
  if len < -1 then (-1, r, true)
  else if len = 0 then (0, r, true)
  else
    let len : Nat := if len = -1 then r.used else min len.toNat r.used
    if len > 0 then
      let d := dropper r len
      ((len : Nat), d.1, r.valid && d.2 && d.1.valid)
    else ((len : Nat), r, r.valid)

/-! ## `cbuf_reader`, `cbuf_peek`, `cbuf_read_to_fd` -/

/-- state of the copy loop of `cbuf_reader` -/
structure RLoop where
  i_src : Nat
  nleft : Nat
  m : Int
  p : Putter
  deriving Repr

/-- the `while (nleft > 0)` loop of `cbuf_reader` -/
def readerLoop : Nat → List UInt8 → Nat → RLoop → RLoop
  | 0, _, _, s => s
  | fuel + 1, data, size, s =>
    if s.nleft > 0 then
      let n := min s.nleft (size + 1 - s.i_src)
      let pr := s.p.put ((data.drop s.i_src).take n)
      let m := pr.1
      let s' : RLoop :=
        if m > 0 then { i_src := (s.i_src + m.toNat) % (size + 1), nleft := s.nleft - m.toNat, m := m, p := pr.2 }
        else { s with m := m, p := pr.2 }
      if (n : Int) ≠ m then s' else readerLoop fuel data size s'
    else s

/-- `cbuf_reader (src, len, putf, dst)` with `len > 0`: return value, sink afterwards, assertions.  The ring is not
    written to. -/
def reader (r : Ring) (len : Nat) (p : Putter) : Int × Putter × Bool :=
  let ok0 := decide (len > 0)
  let len := min len r.used
  if len = 0 then (0, p, ok0) else
  let s := readerLoop len r.data r.size { i_src := r.i_out, nleft := len, m := 0, p := p }
  let n := len - s.nleft
  let ok1 := decide (s.nleft ≤ len)
  if n = 0 then (s.m, s.p, ok0 && ok1) else ((n : Nat), s.p, ok0 && ok1)

/-- `cbuf_peek (src, dstbuf, len)`: return value, the bytes stored into `dstbuf`, assertions.  The ring is not changed
    (`cbuf_reader` only reads it). -/
def peek (r : Ring) (len : Int) : Int × List UInt8 × Bool :=
  if len < 0 then (-1, [], true)
  else if len = 0 then (0, [], true)
  else
    let x := reader r len.toNat (.mem [])
    (x.1, x.2.1.out, r.valid && x.2.2)

/-- `cbuf_read_to_fd (src, dstfd, len)`: return value, ring, descriptor afterwards, assertions -/
def readToFd (r : Ring) (len : Int) (d : Dst) : Int × Ring × Dst × Bool :=
  if len < -1 then (-1, r, d, true) else
  let len : Nat := if len = -1 then r.used else len.toNat
  if len > 0 then
    let x := reader r len (.fd d)
    let d' := match x.2.1 with | .fd d' => d' | .mem _ => d
    if x.1 > 0 then
      let y := dropper r x.1.toNat
      (x.1, y.1, d', r.valid && x.2.2 && y.2 && y.1.valid)
    else (x.1, r, d', r.valid && x.2.2)
  else (0, r, d, r.valid)

/-! ## `cbuf_grow`, `cbuf_writer`, `cbuf_write`, `cbuf_write_from_fd` -/

/-- `cbuf_grow (cb, n)`: the ring afterwards, the number of bytes it grew by, assertions (`n > 0`, `size_meta > 0`,
    `m > cb->alloc`, `cbuf_is_valid` at the end) -/
def grow (r : Ring) (n : Nat) : Ring × Nat × Bool :=
  if r.size = r.maxsize then (r, 0, decide (n > 0)) else
  let size_old := r.size
  let size_meta := r.alloc - r.size
  let m := r.alloc + n
  let m := m + (chunk - m % chunk)
  let m := min m (r.maxsize + size_meta)
  let ok := decide (n > 0) && decide (size_meta > 0) && decide (m > r.alloc)
  let size' := m - size_meta
  -- realloc: the old bytes stay where they are, the ring gets `size' + 1` slots
  let r1 : Ring := { r with data := r.data ++ List.replicate (size' + 1 - r.data.length) 0, alloc := m, size := size' }
  let r2 : Ring :=
    if r1.i_rep > r1.i_in then
      let n := (size_old + 1) - r1.i_rep
      let m := (r1.size + 1) - n
      -- memmove (cb->data + m, cb->data + cb->i_rep, n)
      { r1 with data := blit r1.data m ((r1.data.drop r1.i_rep).take n),
                i_out := if r1.i_out ≥ r1.i_rep then r1.i_out + (m - r1.i_rep) else r1.i_out,
                i_rep := m }
    else r1
  (r2, r2.size - size_old, ok && r2.valid)

/-- state of the copy loop of `cbuf_writer` -/
structure WLoop where
  data : List UInt8
  i_dst : Nat
  nleft : Nat
  m : Int
  g : Getter
  deriving Repr

/-- the `while (nleft > 0)` loop of `cbuf_writer` -/
def writerLoop : Nat → Nat → WLoop → WLoop
  | 0, _, s => s
  | fuel + 1, size, s =>
    if s.nleft > 0 then
      let n := min s.nleft (size + 1 - s.i_dst)
      let gr := s.g.get n
      let m := gr.1
      let data := blit s.data s.i_dst gr.2.1
      let s' : WLoop :=
        if m > 0 then { data := data, i_dst := (s.i_dst + m.toNat) % (size + 1), nleft := s.nleft - m.toNat, m := m, g := gr.2.2 }
        else { s with data := data, m := m, g := gr.2.2 }
      if (n : Int) ≠ m then s' else writerLoop fuel size s'
    else s

/-- result of `cbuf_writer` and of the calls built on it -/
structure WOut where
  rc : Int
  ndropped : Nat
  ring : Ring
  g : Getter
  ok : Bool
  deriving Repr

/-- the "update dst cbuf metadata" block of `cbuf_writer` (`n > 0` bytes were stored, the copy loop ended at `i_dst`) -/
def writerUpdate (r : Ring) (i_dst n nfree : Nat) : Ring × Bool :=
  let nrepl := (r.i_out + (r.size + 1) - r.i_rep) % (r.size + 1)
  let ok := i_dst == (r.i_in + n) % (r.size + 1)
  let r1 : Ring := { r with used := min (r.used + n) r.size, i_in := i_dst }
  -- `n > nfree - nrepl` in C integers
  let r2 : Ring := if n + nrepl > nfree then { r1 with got_wrap := true, i_rep := (r1.i_in + 1) % (r1.size + 1) } else r1
  let r3 : Ring := if n > nfree then { r2 with i_out := r2.i_rep } else r2
  (r3, ok)

/-- "compute number of bytes to write": `none` = `ENOSPC` -/
def clipLen (r : Ring) (len : Nat) : Option Nat :=
  match r.overwrite with
  | .noDrop => let l := min len (r.size - r.used); if l = 0 then none else some l
  | .wrapOnce => some (min len r.size)
  | .wrapMany => some len

/-- `cbuf_writer (dst, len, getf, src, &ndropped)` with `len > 0` -/
def writer (r : Ring) (len : Nat) (g : Getter) : WOut :=
  let ok0 := decide (len > 0)
  let nfree0 := r.size - r.used
  let gr : Ring × Nat × Bool := if len > nfree0 ∧ r.size < r.maxsize then grow r (len - nfree0) else (r, 0, true)
  let r1 := gr.1
  let nfree := nfree0 + gr.2.1
  match clipLen r1 len with
  | none => { rc := -1, ndropped := 0, ring := r1, g := g, ok := ok0 && gr.2.2 }
  | some len =>
    let s := writerLoop len r1.size { data := r1.data, i_dst := r1.i_in, nleft := len, m := 0, g := g }
    let n := len - s.nleft
    let ok1 := decide (s.nleft ≤ len)
    if n = 0 then { rc := s.m, ndropped := 0, ring := { r1 with data := s.data }, g := s.g, ok := ok0 && gr.2.2 && ok1 }
    else
      let u := writerUpdate { r1 with data := s.data } s.i_dst n nfree
      { rc := (n : Nat), ndropped := n - nfree, ring := u.1, g := s.g, ok := ok0 && gr.2.2 && ok1 && u.2 }

/-- `cbuf_write (dst, srcbuf, len, &ndropped)` with `len = |src|` -/
def write (r : Ring) (src : List UInt8) : WOut :=
  if src.length = 0 then { rc := 0, ndropped := 0, ring := r, g := .mem src, ok := true } else
  let w := writer r src.length (.mem src)
  { w with ok := r.valid && w.ok && w.ring.valid }

/-- `cbuf_write_from_fd (dst, srcfd, len, &ndropped)` -/
def writeFromFd (r : Ring) (len : Int) (s : Src) : WOut :=
  if len < -1 then { rc := -1, ndropped := 0, ring := r, g := .fd s, ok := true } else
  let len : Nat :=
    if len = -1 then (if r.size - r.used = 0 then chunk else r.size - r.used) else len.toNat
  if len > 0 then
    let w := writer r len (.fd s)
    { w with ok := r.valid && w.ok && w.ring.valid }
  else { rc := 0, ndropped := 0, ring := r, g := .fd s, ok := r.valid }

/-! ## `cbuf_find_unread_line`, `cbuf_read_line` -/

/-- state of the scan loop of `cbuf_find_unread_line`; `cur` is `&data[i]` seen as the rest of the array -/
structure FLoop where
  i : Nat
  cur : List UInt8
  n : Nat
  m : Nat
  l : Nat
  chars : Int
  lines : Int
  deriving Repr

/-- the `while (i != cb->i_in)` loop of `cbuf_find_unread_line` -/
def findLoop : Nat → List UInt8 → Nat → Nat → FLoop → FLoop
  | 0, _, _, _, s => s
  | fuel + 1, data, size, i_in, s =>
    if s.i ≠ i_in then
      let n := s.n + 1
      let chars := if s.chars > 0 then s.chars - 1 else s.chars
      let nl := s.cur.headD 0 == 10
      let lines := if nl ∧ s.lines > 0 then s.lines - 1 else s.lines
      let m := if nl then n else s.m
      let l := if nl then s.l + 1 else s.l
      if chars = 0 ∨ lines = 0 then { s with n := n, m := m, l := l, chars := chars, lines := lines }
      else
        let i' := (s.i + 1) % (size + 1)
        findLoop fuel data size i_in
          { i := i', cur := if i' = 0 then data else s.cur.tail, n := n, m := m, l := l, chars := chars, lines := lines }
    else s

/-- `cbuf_find_unread_line (cb, chars, &nlines)`: the return value and `*nlines` afterwards -/
def findUnreadLine (r : Ring) (chars lines : Int) : Nat × Nat :=
  if lines = 0 ∨ (lines ≤ -1 ∧ chars ≤ 0) then (0, 0)
  else if r.used = 0 then (0, 0)
  else
    let chars := if lines > 0 then -1 else chars
    let s := findLoop (r.size + 1) r.data r.size r.i_in
      { i := r.i_out, cur := r.data.drop r.i_out, n := 0, m := 0, l := 0, chars := chars, lines := lines }
    if s.lines > 0 then (0, 0) else (s.m, s.l)

/-- `cbuf_read_line (src, dstbuf, len, lines)`: return value, what was stored into `dstbuf` before the terminating NUL
    (`none`: `dstbuf` not touched), ring, assertions -/
def readLine (r : Ring) (len lines : Int) : Int × Option (List UInt8) × Ring × Bool :=
  if len < 0 ∨ lines < -1 then (-1, none, r, true)
  else if lines = 0 then (0, none, r, true)
  else
    let n := (findUnreadLine r (len - 1) lines).1
    if n > 0 then
      let m := min n (len - 1).toNat
      let x : Int × Putter × Bool := if len > 0 ∧ m > 0 then reader r m (.mem []) else (0, .mem [], true)
      let okl := if len > 0 ∧ m > 0 then decide (x.1 = (m : Nat)) else true
      let d := dropper r n
      ((n : Nat), if len > 0 then some x.2.1.out else none, d.1, r.valid && x.2.2 && okl && d.2 && d.1.valid)
    else (0, none, r, r.valid)

end Pm.CbufRing
