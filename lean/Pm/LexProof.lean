import Pm.LexModel
/-! # Lemmas about `Pm/LexModel.lean` (C18)

Helper module of `Pm/Props/C18.lean`.  Everything here is about the model of the hand-written logic of the configuration
reader (string-literal rules and `_string_buf_add`, include stack, `_strtolong`/`_strtodouble`/`_doubletotv`, acceptance
conditions on mandatory elements).  Nothing here is about the flex or bison automata, `malloc`, or `regcomp`: those are not
modelled; the layer `lib/lexlayer.py` observes them under ASan/UBSan. -/
namespace Pm.LexModel.Proof
open Pm.LexModel

/-! ### string literals: the buffer invariant -/

theorem stringBufAdd_cont {buf b : Array UInt8} {c : UInt8} (h : stringBufAdd buf c = .cont b) :
    b = buf.push c ∧ buf.size < STRING_BUF - 1 := by
  unfold stringBufAdd at h
  split at h
  · cases h
  · split at h
    · cases h; exact ⟨rfl, by omega⟩
    · cases h

theorem stringBufAdd_ne_overrun (buf : Array UInt8) (c : UInt8) : stringBufAdd buf c ≠ .overrun := by
  unfold stringBufAdd STRING_BUF
  split
  · intro h; cases h
  · split
    · intro h; cases h
    · omega

/-- the invariant of the scanner: the buffer never holds more than `STRING_BUF - 1` bytes, so that neither an append nor the
    closing NUL is stored outside `string_buf` -/
theorem go_inv : ∀ (s : List UInt8) (pend : Nat) (skip : Bool) (buf : Array UInt8), buf.size ≤ STRING_BUF - 1 →
    go s pend skip buf ≠ .overrun ∧ ∀ b rest, go s pend skip buf = .tok b rest → b.size ≤ STRING_BUF - 1 := by
  intro s
  induction s with
  | nil => intro pend skip buf _; simp [go]
  | cons c rest ih =>
    intro pend skip buf hb
    cases pend with
    | succ p => simp only [go]; exact ih p skip buf hb
    | zero =>
      simp only [go]
      split
      · -- closing quote
        unfold closeQuote
        have : buf.size < STRING_BUF := by unfold STRING_BUF at *; omega
        simp only [this, if_true]
        refine ⟨nofun, ?_⟩
        intro b r h; cases h; exact hb
      · split
        · exact ⟨nofun, nofun⟩
        · split
          · -- backslash
            split
            · exact ⟨nofun, nofun⟩
            · rename_i v n _
              split
              · rename_i b hadd
                have := stringBufAdd_cont hadd
                apply ih
                rw [this.1, Array.size_push]; omega
              · exact ⟨nofun, nofun⟩
              · rename_i hadd; exact absurd hadd (stringBufAdd_ne_overrun _ _)
          · split
            · exact ih 0 true buf hb
            · split
              · exact ih 0 true buf hb
              · split
                · rename_i b hadd
                  have := stringBufAdd_cont hadd
                  apply ih
                  rw [this.1, Array.size_push]; omega
                · exact ⟨nofun, nofun⟩
                · rename_i hadd; exact absurd hadd (stringBufAdd_ne_overrun _ _)

theorem lexRaw_ne_overrun (s : List UInt8) : lexRaw s ≠ .overrun :=
  (go_inv s 0 false #[] (by simp)).1

theorem lexRaw_fill {s : List UInt8} {buf : Array UInt8} {rest : List UInt8} (h : lexRaw s = .tok buf rest) : buf.size ≤ 8191 :=
  (go_inv s 0 false #[] (by simp)).2 buf rest h

theorem cstr_length_le (buf : Array UInt8) : (cstr buf).length ≤ buf.size := by
  unfold cstr
  have := List.takeWhile_sublist (p := fun x : UInt8 => x != 0) (l := buf.toList)
  simpa using this.length_le

theorem lexString_fill {s stored : List UInt8} (h : lexString s = .ok stored) : stored.length ≤ 8191 := by
  unfold lexString at h
  generalize hr : lexRaw s = r at h
  cases r with
  | tok buf rest =>
    simp only [Res.ofRaw] at h
    cases h
    exact Nat.le_trans (cstr_length_le buf) (lexRaw_fill hr)
  | _ => simp [Res.ofRaw] at h

theorem lexString_ne_overrun (s : List UInt8) : lexString s ≠ .overrun := by
  unfold lexString
  generalize hr : lexRaw s = r
  cases r with
  | overrun => exact absurd hr (lexRaw_ne_overrun s)
  | _ => simp [Res.ofRaw]

theorem lexString_total (s : List UInt8) :
    (∃ stored, lexString s = .ok stored) ∨ lexString s = .errNewline ∨ lexString s = .tooLong ∨ lexString s = .unterminated := by
  have := lexString_ne_overrun s
  cases h : lexString s with
  | ok st => exact .inl ⟨st, rfl⟩
  | errNewline => simp
  | tooLong => simp
  | unterminated => simp
  | overrun => exact absurd h this

theorem outcome_defined (s : List UInt8) :
    (lexString s).outcome = .token ∨ (lexString s).outcome = .exitDiag "parse error" ∨ (lexString s).outcome = .exitDiag "string too long" := by
  rcases lexString_total s with ⟨st, h⟩ | h | h | h <;> simp [h, Res.outcome]

/-! ### escapes -/

/-- one step of the scanner at a backslash -/
theorem go_backslash (rest : List UInt8) (skip : Bool) (buf : Array UInt8) :
    go (0x5c :: rest) 0 skip buf =
      match escTok rest with
      | none => .eof
      | some (v, n) =>
        match stringBufAdd buf v with
        | .cont b => go rest n false b
        | .exitTooLong => .tooLong
        | .overrun => .overrun := by
  simp only [go]
  cases escTok rest with
  | none => simp
  | some p =>
    obtain ⟨v, n⟩ := p
    simp only []
    generalize stringBufAdd buf v = r
    cases r <;> rfl

theorem add_empty (c : UInt8) : stringBufAdd #[] c = .cont #[c] := by
  simp [stringBufAdd, STRING_BUF]

theorem escTok_nondigit (c : UInt8) (rest : List UInt8) (h : isDigit c = false) : escTok (c :: rest) = some (escValue c, 1) := by
  match rest with
  | [] => simp [escTok]
  | [_] => simp [escTok]
  | _ :: _ :: _ => simp [escTok, h]

theorem escTok_quote2 (c : UInt8) (rest : List UInt8) : escTok (c :: 0x22 :: rest) = some (escValue c, 1) := by
  match rest with
  | [] => simp [escTok]
  | _ :: _ => simp [escTok, isDigit]

/-- `\c"` for any byte `c`: one byte is stored, the escape value of `c` -/
theorem lex_escape1 (c : UInt8) (rest : List UInt8) : lexString (0x5c :: c :: 0x22 :: rest) = .ok (cstr #[escValue c]) := by
  simp [lexString, lexRaw, escTok_quote2, add_empty, go, closeQuote, STRING_BUF, Res.ofRaw]

theorem escTok_octal (d1 d2 d3 : UInt8) (rest : List UInt8) (h1 : isDigit d1 = true) (h2 : isDigit d2 = true) (h3 : isDigit d3 = true) :
    escTok (d1 :: d2 :: d3 :: rest) = some (octByte d1 d2 d3, 3) := by
  simp [escTok, h1, h2, h3]

/-- `\ddd"` for three decimal digits: one byte, `strtol(ddd, 8)` truncated to 8 bits -/
theorem lex_octal (d1 d2 d3 : UInt8) (rest : List UInt8) (h1 : isDigit d1 = true) (h2 : isDigit d2 = true) (h3 : isDigit d3 = true) :
    lexString (0x5c :: d1 :: d2 :: d3 :: 0x22 :: rest) = .ok (cstr #[octByte d1 d2 d3]) := by
  simp [lexString, lexRaw, escTok_octal, h1, h2, h3, add_empty, go, closeQuote, STRING_BUF, Res.ofRaw]

/-- a byte matched by the run rule `[^\\\n\"]+` and copied by its action -/
def Plain (c : UInt8) : Prop := c ≠ 0x5c ∧ c ≠ 0x22 ∧ c ≠ 0x0a ∧ c ≠ 0

theorem go_plain_step {c : UInt8} (hc : Plain c) (rest : List UInt8) (buf : Array UInt8) :
    go (c :: rest) 0 false buf =
      if buf.size ≥ STRING_BUF - 1 then .tooLong else go rest 0 false (buf.push c) := by
  obtain ⟨h1, h2, h3, h4⟩ := hc
  simp only [go, h1, h2, h3, h4, if_false, Bool.false_eq_true]
  unfold stringBufAdd
  by_cases h : buf.size ≥ STRING_BUF - 1
  · simp [h]
  · have : buf.size < STRING_BUF := by unfold STRING_BUF at *; omega
    simp [h, this]

theorem go_plain : ∀ (s : List UInt8) (buf : Array UInt8) (rest : List UInt8), (∀ c ∈ s, Plain c) → buf.size + s.length ≤ STRING_BUF - 1 →
    ∃ b, go (s ++ 0x22 :: rest) 0 false buf = .tok b rest ∧ b.toList = buf.toList ++ s := by
  intro s
  induction s with
  | nil =>
    intro buf rest _ hb
    refine ⟨buf, ?_, by simp⟩
    have : buf.size < STRING_BUF := by unfold STRING_BUF at *; simp at hb; omega
    simp [go, closeQuote, this]
  | cons c s ih =>
    intro buf rest hp hb
    have hc : Plain c := hp c (by simp)
    simp only [List.length_cons] at hb
    have hlt : ¬ buf.size ≥ STRING_BUF - 1 := by omega
    rw [List.cons_append, go_plain_step hc, if_neg hlt]
    obtain ⟨b, h1, h2⟩ := ih (buf.push c) rest (fun x hx => hp x (by simp [hx])) (by rw [Array.size_push]; omega)
    exact ⟨b, h1, by simp [h2]⟩

theorem takeWhile_nonzero (s : List UInt8) (h : ∀ c ∈ s, c ≠ 0) : s.takeWhile (· != 0) = s := by
  induction s with
  | nil => rfl
  | cons c s ih =>
    have : (c != 0) = true := by simp [h c (by simp)]
    rw [List.takeWhile_cons, this]
    simp only [if_true]
    rw [ih (fun x hx => h x (by simp [hx]))]

theorem lexString_plain (s rest : List UInt8) (hp : ∀ c ∈ s, Plain c) (hl : s.length < 8192) :
    lexString (s ++ 0x22 :: rest) = .ok s := by
  obtain ⟨b, h1, h2⟩ := go_plain s #[] rest hp (by simp [STRING_BUF]; omega)
  unfold lexString lexRaw
  rw [h1]
  simp only [Res.ofRaw, cstr, h2]
  simp only [List.nil_append]
  rw [takeWhile_nonzero s (fun c hc => (hp c hc).2.2.2)]

theorem go_plain_long : ∀ (s : List UInt8) (buf : Array UInt8) (tail : List UInt8), (∀ c ∈ s, Plain c) → buf.size ≤ STRING_BUF - 1 →
    buf.size + s.length ≥ STRING_BUF → go (s ++ tail) 0 false buf = .tooLong := by
  intro s
  induction s with
  | nil => intro buf tail _ hb hl; simp at hl; unfold STRING_BUF at *; omega
  | cons c s ih =>
    intro buf tail hp hb hl
    have hc : Plain c := hp c (by simp)
    rw [List.cons_append, go_plain_step hc]
    by_cases h : buf.size ≥ STRING_BUF - 1
    · simp [h]
    · rw [if_neg h]
      apply ih (buf.push c) tail (fun x hx => hp x (by simp [hx]))
      · rw [Array.size_push]; omega
      · rw [Array.size_push]; simp only [List.length_cons] at hl; omega

/-- a run of 8192 or more plain bytes is refused whatever follows it -/
theorem lexString_plain_long (s tail : List UInt8) (hp : ∀ c ∈ s, Plain c) (hl : s.length ≥ 8192) :
    lexString (s ++ tail) = .tooLong := by
  unfold lexString lexRaw
  rw [go_plain_long s #[] tail hp (by simp) (by simp [STRING_BUF]; omega)]
  rfl

/-! ### include stack -/

theorem includeStep_incl (ptr : Nat) : includeStep ptr .incl = if ptr ≥ 9 then .tooDeep else if ptr < 10 ∧ ptr + 1 < 10 then .cont (ptr + 1) else .oob := by
  rfl

theorem includeStep_eof (ptr : Nat) : includeStep ptr .eof = if ptr = 0 then .done else if ptr - 1 < 10 then .cont (ptr - 1) else .oob := by
  rfl

theorem includeStep_inv {ptr : Nat} (h : ptr < MAX_INCLUDE_DEPTH) (e : IncEv) :
    includeStep ptr e ≠ .oob ∧ ∀ p, includeStep ptr e = .cont p → p < MAX_INCLUDE_DEPTH := by
  unfold MAX_INCLUDE_DEPTH at *
  cases e with
  | incl =>
    rw [includeStep_incl]
    split
    · exact ⟨nofun, nofun⟩
    · split
      · refine ⟨nofun, ?_⟩
        intro p hp; cases hp; omega
      · omega
  | eof =>
    rw [includeStep_eof]
    split
    · exact ⟨nofun, nofun⟩
    · split
      · refine ⟨nofun, ?_⟩
        intro p hp; cases hp; omega
      · omega

/-- for every sequence of includes and ends of file, the stack pointer stays inside the three arrays -/
theorem runInc_inv : ∀ (es : List IncEv) (ptr : Nat), ptr < MAX_INCLUDE_DEPTH →
    runInc ptr es ≠ .oob ∧ ∀ p, runInc ptr es = .cont p → p < MAX_INCLUDE_DEPTH := by
  intro es
  induction es with
  | nil => intro ptr h; simp only [runInc]; refine ⟨nofun, ?_⟩; intro p hp; cases hp; exact h
  | cons e es ih =>
    intro ptr h
    have hs := includeStep_inv h e
    simp only [runInc]
    generalize includeStep ptr e = r at hs
    cases r with
    | cont p => exact ih p (hs.2 p rfl)
    | tooDeep => exact ⟨nofun, nofun⟩
    | done => exact ⟨nofun, nofun⟩
    | oob => exact absurd rfl hs.1

/-- `n` nested includes: as long as `ptr + n ≤ 9` they are all pushed -/
theorem runInc_pushes : ∀ (n ptr : Nat), ptr + n ≤ 9 →
    runInc ptr (List.replicate n .incl) = .cont (ptr + n) := by
  intro n
  induction n with
  | zero => intro ptr _; simp [runInc]
  | succ n ih =>
    intro ptr h
    have h1 : ¬ ptr ≥ 9 := by omega
    have h2 : ptr < 10 ∧ ptr + 1 < 10 := by omega
    simp only [List.replicate_succ, runInc, includeStep_incl, h1, h2, if_false, and_self, if_true]
    rw [ih (ptr + 1) (by omega)]
    congr 1; omega

theorem runInc_append : ∀ (a b : List IncEv) (ptr p : Nat), runInc ptr a = .cont p → runInc ptr (a ++ b) = runInc p b := by
  intro a
  induction a with
  | nil => intro b ptr p h; simp only [runInc] at h; cases h; rfl
  | cons e a ih =>
    intro b ptr p h
    simp only [runInc, List.cons_append] at h ⊢
    generalize includeStep ptr e = r at h ⊢
    cases r with
    | cont q => exact ih b q p h
    | _ => simp at h

/-- ten or more nested includes from the outermost file: refused at the tenth, whatever follows -/
theorem runInc_too_deep (n : Nat) (es : List IncEv) (h : n ≥ MAX_INCLUDE_DEPTH) :
    runInc 0 (List.replicate n .incl ++ es) = .tooDeep := by
  unfold MAX_INCLUDE_DEPTH at h
  obtain ⟨m, rfl⟩ : ∃ m, n = 9 + (m + 1) := ⟨n - 10, by omega⟩
  have e : List.replicate (9 + (m + 1)) IncEv.incl ++ es = List.replicate 9 IncEv.incl ++ (IncEv.incl :: (List.replicate m IncEv.incl ++ es)) := by
    rw [← List.replicate_append_replicate]; simp [List.replicate_succ]
  rw [e, runInc_append _ _ 0 9 (by simpa using runInc_pushes 9 0 (by decide))]
  simp [runInc, includeStep_incl]

/-- the budget of `scanAt` is the distance of `include_stack_ptr` from the refusal threshold -/
theorem budget_agrees (ptr : Nat) (h : ptr ≤ MAX_INCLUDE_DEPTH - 1) :
    (includeStep ptr .incl = .tooDeep ↔ MAX_INCLUDE_DEPTH - 1 - ptr = 0) ∧
    (∀ p, includeStep ptr .incl = .cont p → MAX_INCLUDE_DEPTH - 1 - ptr = (MAX_INCLUDE_DEPTH - 1 - p) + 1) := by
  unfold MAX_INCLUDE_DEPTH at *
  rw [includeStep_incl]
  constructor
  · constructor
    · intro h1; split at h1
      · omega
      · split at h1 <;> cases h1
    · intro h1
      have : ptr ≥ 9 := by omega
      simp [this]
  · intro p hp
    split at hp
    · cases hp
    · split at hp
      · cases hp; omega
      · cases hp

/-! ### cycles -/

def noIncl : List Item → Prop
  | [] => True
  | .tok _ :: r => noIncl r
  | .incl _ :: _ => False

def toksOf : List Item → List Nat
  | [] => []
  | .tok t :: r => t :: toksOf r
  | .incl _ :: r => toksOf r

theorem scanItems_prefix (sub : Nat → List Nat → ScanRes) : ∀ (pre : List Item) (r : List Item) (acc : List Nat), noIncl pre →
    scanItems sub (pre ++ r) acc = scanItems sub r (acc ++ toksOf pre) := by
  intro pre
  induction pre with
  | nil => intro r acc _; simp [toksOf]
  | cons i pre ih =>
    intro r acc h
    cases i with
    | tok t => simp only [List.cons_append, scanItems, toksOf]; rw [ih r _ h]; simp
    | incl f => exact absurd h (by simp [noIncl])

/-- file `f` is regular and its first include directive names a file of `S` -/
def CycleFile (fs : Nat → File) (S : Nat → Prop) (f : Nat) : Prop :=
  ∃ pre g post, fs f = .reg (pre ++ .incl g :: post) ∧ noIncl pre ∧ S g

/-- scanning a file of a set that is closed under "first include" never returns to the caller: whatever the remaining
    budget, the scan ends in the "nested too deeply" refusal -/
theorem scanAt_cycle (fs : Nat → File) (S : Nat → Prop) (hS : ∀ f, S f → CycleFile fs S f) :
    ∀ (k : Nat) (f : Nat) (items : List Item) (acc : List Nat), S f → fs f = .reg items → ∃ toks, scanAt fs k items acc = .tooDeep toks := by
  intro k
  induction k with
  | zero =>
    intro f items acc hf hitems
    obtain ⟨pre, g, post, h1, h2, h3⟩ := hS f hf
    rw [hitems] at h1; cases h1
    simp only [scanAt]
    rw [scanItems_prefix _ pre _ acc h2]
    exact ⟨acc ++ toksOf pre, by simp [scanItems]⟩
  | succ k ih =>
    intro f items acc hf hitems
    obtain ⟨pre, g, post, h1, h2, h3⟩ := hS f hf
    rw [hitems] at h1; cases h1
    obtain ⟨pre', g', post', h1', _, _⟩ := hS g h3
    obtain ⟨toks, ht⟩ := ih g _ (acc ++ toksOf pre) h3 h1'
    refine ⟨toks, ?_⟩
    simp only [scanAt]
    rw [scanItems_prefix _ pre _ acc h2]
    simp only [scanItems, h1']
    rw [ht]

/-! ### numeric conversions -/

/-- a byte of a numeric token -/
def NumChar (c : UInt8) : Prop := isDigit c = true ∨ c = 0x2e

theorem digitsRun_nul (base : Nat) : ∀ (ds junk : List UInt8) (acc n : Nat),
    digitsRun base (ds ++ 0 :: junk) acc n = digitsRun base (ds ++ [0]) acc n := by
  intro ds
  induction ds with
  | nil => intro junk acc n; simp [digitsRun, digitVal]
  | cons d ds ih =>
    intro junk acc n
    simp only [List.cons_append, digitsRun]
    split
    · split
      · exact ih junk _ _
      · rfl
    · rfl

theorem digitsRun_count (base : Nat) : ∀ (ds junk : List UInt8) (acc n : Nat),
    (digitsRun base (ds ++ 0 :: junk) acc n).2 ≤ n + ds.length := by
  intro ds
  induction ds with
  | nil => intro junk acc n; simp [digitsRun, digitVal]
  | cons d ds ih =>
    intro junk acc n
    simp only [List.cons_append, digitsRun, List.length_cons]
    split
    · split
      · rename_i dv _ _; have := ih junk (acc * base + dv) (n + 1); omega
      · simp
    · simp

/-- `strtol0` where there is no white space, sign or hexadecimal prefix to skip -/
def strtolPlain (mem : List UInt8) : Strtol :=
  let r := if mem.head? = some 0x30 then digitsRun 8 mem 0 0 else digitsRun 10 mem 0 0
  if r.2 = 0 then { value := 0, consumed := 0 } else { value := r.1, consumed := r.2 }

theorem strtol0_plain (c : UInt8) (rest : List UInt8) (h1 : isSpace c = false) (h2 : c ≠ 0x2d) (h3 : c ≠ 0x2b)
    (h4 : isHexPrefix (c :: rest) = false) : strtol0 (c :: rest) = strtolPlain (c :: rest) := by
  unfold strtol0 strtolPlain
  simp only [List.takeWhile_cons, h1, List.length_nil, List.drop_zero, List.head?_cons, Option.some.injEq, h2, h3,
    Bool.false_eq_true, if_false, decide_false, Bool.or_self, h4]
  by_cases h : c = 0x30
  · simp [h]
  · simp [h]



theorem numchar_nat {c : UInt8} (h : NumChar c ∨ c = 0) : (48 ≤ c.toNat ∧ c.toNat ≤ 57) ∨ c.toNat = 46 ∨ c.toNat = 0 := by
  rcases h with (h | h) | h
  · left; simpa [isDigit, UInt8.le_iff_toNat_le] using h
  · right; left; rw [h]; rfl
  · right; right; rw [h]; rfl

theorem numchar_facts {c : UInt8} (h : NumChar c ∨ c = 0) :
    isSpace c = false ∧ c ≠ 0x2d ∧ c ≠ 0x2b ∧ c ≠ 0x78 ∧ c ≠ 0x58 := by
  have hn := numchar_nat h
  refine ⟨?_, ?_, ?_, ?_, ?_⟩
  · simp only [isSpace, Bool.or_eq_false_iff, decide_eq_false_iff_not, Bool.and_eq_false_iff, UInt8.le_iff_toNat_le, ← UInt8.toNat_inj]
    constructor
    · show ¬ c.toNat = 32; omega
    · show ¬ (9 ≤ c.toNat) ∨ ¬ (c.toNat ≤ 13); omega
  all_goals (intro hc; rw [hc] at hn; revert hn; decide)

theorem isHexPrefix_false (c : UInt8) (rest : List UInt8) (h : ∀ x r, rest = x :: r → x ≠ 0x78 ∧ x ≠ 0x58) :
    isHexPrefix (c :: rest) = false := by
  match rest, h with
  | [], _ => simp [isHexPrefix]
  | [_], _ => simp [isHexPrefix]
  | x :: y :: r, h =>
    obtain ⟨h1, h2⟩ := h x (y :: r) rfl
    unfold isHexPrefix
    split
    · rename_i heq; simp at heq; obtain ⟨_, rfl, _⟩ := heq; simp [h1, h2]
    · rfl

/-- memory holding a numeric token, its terminating NUL, then anything: the first byte and the absence of a prefix -/
theorem token_mem_shape (tok junk : List UInt8) (h : ∀ c ∈ tok, NumChar c) :
    ∃ c rest, tok ++ 0 :: junk = c :: rest ∧ isSpace c = false ∧ c ≠ 0x2d ∧ c ≠ 0x2b ∧ isHexPrefix (c :: rest) = false := by
  cases tok with
  | nil =>
    refine ⟨0, junk, rfl, by decide, by decide, by decide, ?_⟩
    unfold isHexPrefix; split
    · rename_i heq; simp at heq
    · rfl
  | cons c t =>
    have hc := numchar_facts (Or.inl (h c (by simp)))
    refine ⟨c, t ++ 0 :: junk, rfl, hc.1, hc.2.1, hc.2.2.1, ?_⟩
    apply isHexPrefix_false
    intro x r hx
    cases t with
    | nil => simp at hx; have := numchar_facts (c := x) (Or.inr hx.1.symm); exact ⟨this.2.2.2.1, this.2.2.2.2⟩
    | cons y t' => simp at hx; have := numchar_facts (c := x) (Or.inl (hx.1 ▸ h y (by simp))); exact ⟨this.2.2.2.1, this.2.2.2.2⟩

/-- `strtol(…, 0)` on a numeric token never depends on, nor moves `endptr` into, what lies behind the token's terminating NUL -/
theorem strtol0_token (tok junk : List UInt8) (h : ∀ c ∈ tok, NumChar c) :
    strtol0 (tok ++ 0 :: junk) = strtol0 (tok ++ [0]) ∧ (strtol0 (tok ++ 0 :: junk)).consumed ≤ tok.length := by
  obtain ⟨c, rest, e, s1, s2, s3, s4⟩ := token_mem_shape tok junk h
  obtain ⟨c', rest', e', s1', s2', s3', s4'⟩ := token_mem_shape tok [] h
  have hh : (tok ++ 0 :: junk).head? = (tok ++ [0]).head? := by cases tok <;> simp
  have p1 : strtol0 (tok ++ 0 :: junk) = strtolPlain (tok ++ 0 :: junk) := by rw [e]; exact strtol0_plain c rest s1 s2 s3 s4
  have p2 : strtol0 (tok ++ [0]) = strtolPlain (tok ++ [0]) := by rw [e']; exact strtol0_plain c' rest' s1' s2' s3' s4'
  have q : strtolPlain (tok ++ 0 :: junk) = strtolPlain (tok ++ [0]) := by
    unfold strtolPlain; rw [hh, digitsRun_nul 8, digitsRun_nul 10]
  refine ⟨by rw [p1, p2, q], ?_⟩
  rw [p1]
  unfold strtolPlain
  have c8 := digitsRun_count 8 tok junk 0 0
  have c10 := digitsRun_count 10 tok junk 0 0
  simp only []
  split <;> split <;> simp_all

theorem strtolong_range {mem : List UInt8} {v : Int} (h : strtolong mem = .val v) : LONG_MIN ≤ v ∧ v ≤ LONG_MAX := by
  unfold strtolong at h
  simp only [] at h
  split at h
  · cases h
  · split at h
    · cases h
    · rename_i hr
      cases h
      simp only [Bool.or_eq_true, decide_eq_true_eq, not_or] at hr
      omega

theorem strtolong_parse {mem : List UInt8} : strtolong mem = .errParse ↔ (strtol0 mem).consumed = 0 := by
  unfold strtolong
  simp only []
  constructor
  · intro h; split at h
    · assumption
    · split at h <;> cases h
  · intro h; simp [h]

/-- every time value `_doubletotv` converts fits a `time_t` -/
theorem strtodouble_defined {t : List UInt8} {b : Bool} (h : strtodouble t = .val b) : b = true := by
  unfold strtodouble at h
  split at h
  · cases h
  · simp only [] at h
    split at h
    · cases h
    · split at h
      · cases h
      · rename_i h2
        cases h
        have hp : 0 < 10 ^ (decOfTok t).scale := Nat.pow_pos (by decide)
        generalize 10 ^ (decOfTok t).scale = P at *
        generalize (decOfTok t).num = N at *
        simp only [decide_eq_true_eq]
        simp only [Nat.reducePow, Nat.reduceMul, Nat.reduceAdd, Nat.reduceSub] at h2 ⊢
        omega

/-! ### mandatory elements -/

def CfgInv (c : Cfg) : Prop :=
  (∀ s ∈ c.specs, PM_LOG_IN ∈ s.2) ∧ (∀ d ∈ c.devs, PM_LOG_IN ∈ d.2) ∧ (c.nodes ≠ [] → c.devs ≠ [])

theorem cfgStep_inv {c c' : Cfg} {i : CfgItem} (hc : CfgInv c) (h : cfgStep c i = .ok c') : CfgInv c' := by
  obtain ⟨h1, h2, h3⟩ := hc
  cases i with
  | spec name scripts =>
    simp only [cfgStep] at h
    split at h
    · cases h
    · split at h
      · cases h
      · split at h
        · cases h
        · rename_i hl
          cases h
          refine ⟨?_, h2, h3⟩
          intro s hs
          simp only [List.mem_append, List.mem_singleton] at hs
          rcases hs with hs | hs
          · exact h1 s hs
          · subst hs; simpa using hl
  | device name spec =>
    simp only [cfgStep] at h
    split at h
    · cases h
    · rename_i s hs
      cases h
      refine ⟨h1, ?_, by simp⟩
      intro d hd
      simp only [List.mem_append, List.mem_singleton] at hd
      rcases hd with hd | hd
      · exact h2 d hd
      · subst hd; exact h1 s (List.mem_of_find?_eq_some hs)
  | node name dev =>
    simp only [cfgStep] at h
    split at h
    · cases h
    · rename_i d hd
      split at h
      · cases h
      · cases h
        refine ⟨h1, h2, ?_⟩
        intro _ he
        have := List.mem_of_find?_eq_some hd
        simp only [] at he
        rw [he] at this; cases this

theorem cfgRun_inv : ∀ (items : List CfgItem) (c c' : Cfg), CfgInv c → cfgRun c items = .ok c' → CfgInv c' := by
  intro items
  induction items with
  | nil => intro c c' hc h; simp only [cfgRun] at h; cases h; exact hc
  | cons i is ih =>
    intro c c' hc h
    simp only [cfgRun] at h
    split at h
    · rename_i c1 h1; exact ih c1 c' (cfgStep_inv hc h1) h
    · cases h

/-- an accepted configuration has a node, hence a device, and every device was instantiated from a specification with a
    login script: `dev->scripts[PM_LOG_IN]` is not NULL when `_enqueue_login` builds its ExecCtx -/
theorem cfgAccept_mandatory {items : List CfgItem} {c : Cfg} (h : cfgAccept items = .ok c) :
    c.nodes ≠ [] ∧ c.devs ≠ [] ∧ ∀ d ∈ c.devs, PM_LOG_IN ∈ d.2 := by
  unfold cfgAccept at h
  split at h
  · rename_i c1 hr
    split at h
    · cases h
    · rename_i hn
      cases h
      have inv := cfgRun_inv items {} c (by simp [CfgInv]) hr
      have hn' : c.nodes ≠ [] := by simpa using hn
      exact ⟨hn', inv.2.2 hn', inv.2.1⟩
  · cases h

end Pm.LexModel.Proof

section Audit
open Pm.LexModel.Proof
end Audit
