import Pm.TwoRunC11
import Pm.TwoRunC05
import Pm.TwoRunGone
/-! Example runs for the non-vacuity examples of `Props/C11` (two-run back-pressure).

    World `Two.w3x` of `Pm/IsolationProof.lean`: device `A` (node `a1`), clients 1 (descriptor 1000) and 2 (descriptor 1001), both
    with `status a1` in flight and the banner still in their output buffers.  Client 2 is the one that stops reading. -/
namespace Pm.Daemon.TwoRun.Ex
open Pm Pm.Client Pm.Daemon Pm.Daemon.Isolation Pm.Daemon.TwoRun

/-- pass A: the device answers client 1's action; both client descriptors are reported writable -/
def pA : PassIn := { now := 4000, acc := 0, con := [0], soe := [0], envs :=
  [{ fd := 2000, rev := 1, rk := 0, data := bstr "1 on\n", cap := 100 }, { fd := 1001, rev := 2, rk := 0, data := [], cap := 100 },
   { fd := 1000, rev := 2, rk := 0, data := [], cap := 100 }] }
/-- pass B: a third client connects, client 1 asks `status a1` again, client 2 sends `help` (answered 208: its command is still in
    progress), the device takes the bytes of client 2's action -/
def pB : PassIn := { now := 5000, acc := 1, con := [0], soe := [0], envs :=
  [{ fd := 2000, rev := 2, rk := 0, data := [], cap := 100 }, { fd := 1001, rev := 3, rk := 0, data := bstr "help\n", cap := 100 },
   { fd := 1000, rev := 3, rk := 0, data := bstr "status a1\n", cap := 100 }] }
def ps : List PassIn := [pA, pB]

theorem iso3x : Iso Two.w3x :=
  ⟨Two.iso3.1.congr rfl rfl rfl, Two.iso3.2.congr rfl rfl rfl⟩

theorem onlyS : ∀ c ∈ Two.w3x.clients, c.fd = 1001 → c.id = 2 := by
  have h : (Two.w3x.clients.all fun c => c.fd != 1001 || c.id == 2) = true := by decide +kernel
  intro c hc hfd
  have := List.all_eq_true.mp h c hc
  simpa [hfd] using this

theorem fresh : 1001 < 1000 + Two.w3x.nacc := by decide +kernel

theorem devfdA : ∀ nd ∈ Two.w3x.devs, nd.2.fd ≠ some 1001 := by
  have h : (Two.w3x.devs.all fun nd => nd.2.fd != some 1001) = true := by decide +kernel
  intro nd hnd
  simpa using List.all_eq_true.mp h nd hnd

theorem devfdB : ∀ nd ∈ (daemonPass Two.w3x pA).1.devs, nd.2.fd ≠ some 1001 := by
  have h : ((daemonPass Two.w3x pA).1.devs.all fun nd => nd.2.fd != some 1001) = true := by decide +kernel
  intro nd hnd
  simpa using List.all_eq_true.mp h nd hnd

theorem readerA : ReaderOK 1001 pA := by
  intro e he
  have : pA.envs.find? (·.fd == 1001) = some { fd := 1001, rev := 2, rk := 0, data := [], cap := 100 } := rfl
  rw [this] at he
  cases he
  decide

theorem readerB : ReaderOK 1001 pB := by
  intro e he
  have : pB.envs.find? (·.fd == 1001) = some { fd := 1001, rev := 3, rk := 0, data := bstr "help\n", cap := 100 } := rfl
  rw [this] at he
  cases he
  decide

theorem readerRun : ReaderRun 1001 Two.w3x ps := ⟨⟨readerA, devfdA⟩, ⟨readerB, devfdB⟩, trivial⟩

/-- the second run: descriptor 1001 is never reported writable -/
def ps' : List PassIn := ps.map (stuckIn 1001)

theorem takeAll (l : List PassIn) (n : Nat) (h : l.length ≤ n) : l.take n = l := List.take_of_length_le h

theorem faithful : Faithful 2 1001 Two.w3x ps' := by
  constructor
  · intro n
    have h : ∀ k, k ≤ 2 → ((runPasses Two.w3x (ps'.take k)).sys.all fun x => !blocksOn 1001 x) = true := by
      intro k hk
      have : k = 0 ∨ k = 1 ∨ k = 2 := by omega
      rcases this with rfl | rfl | rfl <;> decide +kernel
    intro x hx
    by_cases hn : n ≤ 2
    · simpa using List.all_eq_true.mp (h n hn) x hx
    · rw [takeAll ps' n (by simp [ps', ps]; omega)] at hx
      have := h 2 (Nat.le_refl _)
      rw [takeAll ps' 2 (by simp [ps', ps])] at this
      simpa using List.all_eq_true.mp this x hx
  · intro n c hc
    have h : ∀ k, k ≤ 2 → (match cliRec (runPasses Two.w3x (ps'.take k)) 2 with | some c => decide (c.toBuf.length ≤ cliBufMax) | none => true) = true := by
      intro k hk
      have : k = 0 ∨ k = 1 ∨ k = 2 := by omega
      rcases this with rfl | rfl | rfl <;> decide +kernel
    by_cases hn : n ≤ 2
    · have := h n hn
      rw [hc] at this
      simpa using this
    · rw [takeAll ps' n (by simp [ps', ps]; omega)] at hc
      have := h 2 (Nat.le_refl _)
      rw [takeAll ps' 2 (by simp [ps', ps]), hc] at this
      simpa using this

/-! ## C05 with a general client phase: Boolean checkers for the hypotheses, and an example

Worlds `wa`, `wb`: `Ex.w1`, `Ex.w2` of `Pm/FrameEx.lean` (devices `A`, `B`/`B'`, `C`; client 1 on descriptor 1000 has an `on a1`
queued on `A`; client 2 on descriptor 1001 has an `on b1` queued on `B`) with the three nodes configured.  Client 1 is tracked;
client 2 (it observes `B`) is not: `F = isFd 1001`. -/

open Pm.Dev2 (Plug RxCall) in
/-- `NotObs`, decided -/
def notObsB (PB : List Plug) (als : List (Name × List Name)) (line : Bytes) : Bool :=
  decide (ClientPf.TooLong line) || casePrefix kwHelp (ClientPf.reqStr line) || casePrefix kwNodes (ClientPf.reqStr line) ||
  casePrefix kwTelemetry (ClientPf.reqStr line) || casePrefix kwExprange (ClientPf.reqStr line) || casePrefix kwQuit (ClientPf.reqStr line) ||
  (match ClientPf.plMatch (ClientPf.reqStr line) with
   | none =>
     if casePrefix kwStatus (ClientPf.reqStr line) || casePrefix kwTemp (ClientPf.reqStr line) || casePrefix kwBeacon (ClientPf.reqStr line) then false
     else match ClientPf.plDevArg (ClientPf.reqStr line) with
       | some a => !Hit PB (ClientPf.devTarg a)
       | none => true
   | some (_, arg) => match createR (toChars arg) with
     | .ok hl => !Touch PB ((expAliases als (expand hl)).map ofChars)
     | _ => true)

open Pm.Dev2 (Plug) in
theorem notObsB_sound (PB : List Plug) (als : List (Name × List Name)) (line : Bytes) (h : notObsB PB als line = true) :
    NotObs PB als line := by
  intro hl a1 a2 a3 a4 a5
  unfold notObsB at h
  simp only [hl, decide_false, a1, a2, a3, a4, a5, Bool.or_false, Bool.false_or] at h
  unfold RestP
  split
  · rename_i hm
    rw [hm] at h
    dsimp only at h
    split
    · rename_i hb; rw [if_pos hb] at h; cases h
    · rename_i hb
      rw [if_neg hb] at h
      intro a ha
      rw [ha] at h
      simpa using h
  · rename_i com arg hm
    rw [hm] at h
    dsimp only at h
    intro hl2 hc
    rw [hc] at h
    simpa using h

def inertB (envs : List FdEnv) (c : Cli) : Bool :=
  (ClientPf.cpRev c (envs.find? (·.fd == c.fd)) &&& 1 == 0) && (ClientPf.cpRev c (envs.find? (·.fd == c.fd)) &&& 4 == 0) &&
  (c.fromBuf.idxOf? 10).isNone

theorem inertB_sound (envs : List FdEnv) (c : Cli) (h : inertB envs c = true) : Inert envs c := by
  simp only [inertB, Bool.and_eq_true, beq_iff_eq, Option.isNone_iff_eq_none] at h
  exact ⟨h.1.1, h.1.2, h.2⟩

def idsFreshB (w : W) : Bool :=
  decide ((ids w).Nodup) && (ids w).all (fun i => decide (0 < i) && decide (i < w.nextId)) &&
  w.devs.all (fun nd => nd.2.acts.all fun a => decide (a.clientId < w.nextId)) && decide (0 < w.nextId)

theorem idsFreshB_sound (w : W) (h : idsFreshB w = true) : IdsFresh w := by
  simp only [idsFreshB, Bool.and_eq_true, decide_eq_true_eq, List.all_eq_true] at h
  obtain ⟨⟨⟨h1, h2⟩, h3⟩, h4⟩ := h
  exact ⟨h1, fun i hi => (h2 i hi).1, fun i hi => (h2 i hi).2, fun nd hnd a ha => h3 nd hnd a ha, h4⟩

open Pm.Dev2 (Plug) in
/-- `CliHyps` from facts that evaluation can check (the same pass input in both runs) -/
theorem mkCliHyps (F : Nat → Bool) (PB : List Plug) (w w' : W) (p : PassIn)
    (h1 : F (1000 + w.nacc) = false)
    (h2 : ((servedIn w p).all fun c => F c.fd || (turnLines c (p.envs.find? (·.fd == c.fd))).all (notObsB PB w.cfg.aliases)) = true)
    (h3 : (w.clients.all fun c => !F c.fd || inertB p.envs c) = true)
    (h4 : (w'.clients.all fun c => !F c.fd || inertB p.envs c) = true)
    (h5 : idsFreshB w = true) (h6 : idsFreshB w' = true) : CliHyps F PB w w' p p where
  acc := rfl
  evs := fun _ _ => rfl
  newfd := h1
  lines := by
    intro c hc hF l hl
    have := List.all_eq_true.mp h2 c hc
    rw [hF] at this
    simp only [Bool.false_or, List.all_eq_true] at this
    exact notObsB_sound PB _ l (this l hl)
  inert := by
    intro c hc hF
    have := List.all_eq_true.mp h3 c hc
    rw [hF] at this
    exact inertB_sound _ _ (by simpa using this)
  inert' := by
    intro c hc hF
    have := List.all_eq_true.mp h4 c hc
    rw [hF] at this
    exact inertB_sound _ _ (by simpa using this)
  ids := idsFreshB_sound w h5
  ids' := idsFreshB_sound w' h6

/-- `DevHyps` from facts that evaluation can check (the same pass input in both runs) -/
theorem mkDevHyps (Q : Bytes → Bool) (F : Nat → Bool) (j : Nat) (w0 w0' : W) (p : PassIn) (xp xB xB' xq : List Pm.Dev2.RxCall)
    (h1 : j < w0.devs.length) (hex : w0.exited = false)
    (hx : w0.pendingX = xp ++ (xB ++ xq)) (hx' : w0'.pendingX = xp ++ (xB' ++ xq))
    (ho : Pm.Daemon.Ex.othersB Q j w0.devs = true)
    (hBok : (match w0.devs[j]? with
      | some B => Pm.Daemon.Ex.plugsOut Q B.2.plugs &&
          Pm.Daemon.Ex.exactB p ((w0.devs.take j).foldl (devPass p) (acc0 w0)) [B] xB
      | none => false) = true)
    (hBok' : (match w0'.devs[j]? with
      | some B' => Pm.Daemon.Ex.plugsOut Q B'.2.plugs &&
          Pm.Daemon.Ex.exactB p ((w0'.devs.take j).foldl (devPass p) (acc0 w0')) [B'] xB'
      | none => false) = true)
    (alive : (w0.devs.foldl (devPass p) (acc0 w0)).dead = false)
    (alive' : (w0'.devs.foldl (devPass p) (acc0 w0')).dead = false)
    (E1 : Pm.Daemon.Ex.exactB p (acc0 w0) (w0.devs.take j) xp = true)
    (E1' : Pm.Daemon.Ex.exactB p (acc0 w0') (w0'.devs.take j) xp = true)
    (c1 : (accAt p (acc0 w0) w0.devs (j + 1)).w.nsock = (accAt p (acc0 w0') w0'.devs (j + 1)).w.nsock)
    (c2 : (accAt p (acc0 w0) w0.devs (j + 1)).w.npair = (accAt p (acc0 w0') w0'.devs (j + 1)).w.npair)
    (c3 : (accAt p (acc0 w0) w0.devs (j + 1)).w.nfork = (accAt p (acc0 w0') w0'.devs (j + 1)).w.nfork) :
    DevHyps Q F j w0 w0' p p xp xB xB' xq where
  j_lt := h1
  ex := hex
  clock := ⟨rfl, rfl, rfl⟩
  hx := hx
  hx' := hx'
  others := Pm.Daemon.Ex.othersB_sound Q j p w0.devs ho
  hB := by
    intro B0 hB0
    rw [hB0] at hBok
    simp only [Bool.and_eq_true] at hBok
    exact ⟨Pm.Daemon.Ex.qOffB Q _ hBok.1, Pm.Daemon.Ex.exactB_sound _ _ _ _ hBok.2⟩
  hB' := by
    intro B0 hB0
    rw [hB0] at hBok'
    simp only [Bool.and_eq_true] at hBok'
    exact ⟨Pm.Daemon.Ex.qOffB Q _ hBok'.1, Pm.Daemon.Ex.exactB_sound _ _ _ _ hBok'.2⟩
  alive := alive
  alive' := alive'
  E1 := Pm.Daemon.Ex.exactB_sound _ _ _ _ E1
  E1' := Pm.Daemon.Ex.exactB_sound _ _ _ _ E1'
  c1 := c1
  c2 := c2
  c3 := c3

/-- "no tracked client has an action on the device at position `j`", decided -/
def nobB (F : Nat → Bool) (j : Nat) (w : W) : Bool :=
  match w.devs[j]? with
  | some B => B.2.acts.all fun x => w.clients.all fun c => F c.fd || x.clientId != c.id
  | none => true

theorem nobB_sound (F : Nat → Bool) (j : Nat) (w : W) (h : nobB F j w = true) :
    ∀ B, w.devs[j]? = some B → ∀ x ∈ B.2.acts, ∀ c ∈ w.clients, F c.fd = false → x.clientId ≠ c.id := by
  intro B hB x hx c hc hF
  unfold nobB at h
  rw [hB] at h
  have := List.all_eq_true.mp (List.all_eq_true.mp h x hx) c hc
  rw [hF] at this
  simpa using this

/-- the three nodes configured -/
def cfgN : Cfg := { plugs := [], has := [], nodes := pushHost (pushHost (pushHost [] ['a', '1']) ['b', '1']) ['c', '1'], version := [] }
/-- `B` healthy -/
def wa : W := { Pm.Daemon.Ex.w1 with cfg := cfgN }
/-- `B` emitting garbage -/
def wb : W := { Pm.Daemon.Ex.w2 with cfg := cfgN }
/-- pass 1: client 1 sends `help` while its command is in progress (answered 208); `A` completes the command -/
def q1 : PassIn := { now := 2000, acc := 0, con := [0], soe := [0], envs := [{ fd := 1000, rev := 1, rk := 0, data := bstr "help\n", cap := 0 }] }
/-- pass 2: a third client connects; client 1 is written to and sends `on a1` (installed on `A`) and `device a1` (answered 208) -/
def q2 : PassIn := { now := 3000, acc := 1, con := [0], soe := [0], envs := [{ fd := 1000, rev := 3, rk := 0, data := bstr "on a1\ndevice a1\n", cap := 100 }] }

def FB : Nat → Bool := isFd 1001
def PBx : List Pm.Dev2.Plug := [Pm.Daemon.Ex.plugB]

theorem hQB : ∀ nb, Pm.Daemon.Ex.Q nb = false → ∃ pl ∈ PBx, pl.node = some nb := by
  intro nb h
  have : nb = Pm.Daemon.Ex.nodeB := by simpa [Pm.Daemon.Ex.Q] using h
  exact ⟨Pm.Daemon.Ex.plugB, by simp [PBx], by rw [this]; rfl⟩

theorem rel0 : MRel Pm.Daemon.Ex.Q FB 1 PBx wa wb where
  cfg := rfl
  specs := rfl
  alNext := rfl
  nextId := rfl
  nacc := rfl
  nsock := rfl
  npair := rfl
  nfork := rfl
  ex := rfl
  ex' := rfl
  store := fun _ => rfl
  devs := ⟨Pm.Daemon.Ex.rel0.devs, by
    intro B B' hB hB'
    have e1 : wa.devs[1]? = some Pm.Daemon.Ex.B := rfl
    have e2 : wb.devs[1]? = some Pm.Daemon.Ex.B' := rfl
    rw [e1] at hB; rw [e2] at hB'
    cases hB; cases hB'
    exact ⟨rfl, rfl, rfl⟩⟩
  tab := rfl
  gok := by
    intro c hc hF k hk
    have hc : c ∈ [Pm.Daemon.Ex.cli1, Pm.Daemon.Ex.cli2] := hc
    simp only [List.mem_cons, List.not_mem_nil, or_false] at hc
    rcases hc with rfl | rfl
    · cases hk; exact Pm.Daemon.Ex.namesQ
    · simp [FB, isFd, Pm.Daemon.Ex.cli2] at hF
  sys := rfl
  nob := nobB_sound FB 1 wa (by decide +kernel)
  nob' := nobB_sound FB 1 wb (by decide +kernel)

/-- the worlds after the first pass -/
def va : W := (daemonPass (withX wa Pm.Daemon.Ex.xA) q1).1
def vb : W := (daemonPass (withX wb (Pm.Daemon.Ex.xA ++ Pm.Daemon.Ex.xB')) q1).1

theorem cli1h : CliHyps FB PBx (withX wa Pm.Daemon.Ex.xA) (withX wb (Pm.Daemon.Ex.xA ++ Pm.Daemon.Ex.xB')) q1 q1 :=
  mkCliHyps FB PBx _ _ q1 (by decide) (by decide +kernel) (by decide +kernel) (by decide +kernel) (by decide +kernel) (by decide +kernel)

theorem dev1h : DevHyps Pm.Daemon.Ex.Q FB 1 (cliPostPoll (withX wa Pm.Daemon.Ex.xA) q1.acc q1.envs)
    (cliPostPoll (withX wb (Pm.Daemon.Ex.xA ++ Pm.Daemon.Ex.xB')) q1.acc q1.envs) q1 q1 Pm.Daemon.Ex.xA [] Pm.Daemon.Ex.xB' [] :=
  mkDevHyps Pm.Daemon.Ex.Q FB 1 _ _ q1 Pm.Daemon.Ex.xA [] Pm.Daemon.Ex.xB' [] (by decide +kernel) (by decide +kernel)
    ((cliPostPoll_counters _ _ _).2.2.2.1.trans rfl) ((cliPostPoll_counters _ _ _).2.2.2.1.trans rfl)
    (by decide +kernel) (by decide +kernel) (by decide +kernel) (by decide +kernel) (by decide +kernel) (by decide +kernel) (by decide +kernel)
    (by decide +kernel) (by decide +kernel) (by decide +kernel)

theorem cli2h : CliHyps FB PBx (withX va []) (withX vb Pm.Daemon.Ex.xB') q2 q2 :=
  mkCliHyps FB PBx _ _ q2 (by decide +kernel) (by decide +kernel) (by decide +kernel) (by decide +kernel) (by decide +kernel) (by decide +kernel)

theorem dev2h : DevHyps Pm.Daemon.Ex.Q FB 1 (cliPostPoll (withX va []) q2.acc q2.envs)
    (cliPostPoll (withX vb Pm.Daemon.Ex.xB') q2.acc q2.envs) q2 q2 [] [] Pm.Daemon.Ex.xB' [] :=
  mkDevHyps Pm.Daemon.Ex.Q FB 1 _ _ q2 [] [] Pm.Daemon.Ex.xB' [] (by decide +kernel) (by decide +kernel)
    ((cliPostPoll_counters _ _ _).2.2.2.1.trans rfl) ((cliPostPoll_counters _ _ _).2.2.2.1.trans rfl)
    (by decide +kernel) (by decide +kernel) (by decide +kernel) (by decide +kernel) (by decide +kernel) (by decide +kernel) (by decide +kernel)
    (by decide +kernel) (by decide +kernel) (by decide +kernel)

/-- the two runs: pass inputs and recorded regex answers, pass by pass -/
def runsG : List ((PassIn × List Pm.Dev2.RxCall) × (PassIn × List Pm.Dev2.RxCall)) :=
  [((q1, Pm.Daemon.Ex.xA), (q1, Pm.Daemon.Ex.xA ++ Pm.Daemon.Ex.xB')), ((q2, []), (q2, Pm.Daemon.Ex.xB'))]

theorem goodG : GenRun Pm.Daemon.Ex.Q FB 1 PBx wa wb runsG :=
  .cons _ _ _ _ _ _ _ _ _ _ _ cli1h dev1h (.cons _ _ _ _ _ _ _ _ _ _ _ cli2h dev2h (.nil _ _))

theorem twoPassesG : MRel Pm.Daemon.Ex.Q FB 1 PBx (passes wa (runsG.map (·.1))) (passes wb (runsG.map (·.2))) :=
  passes_gen Pm.Daemon.Ex.Q FB 1 PBx hQB wa wb runsG rel0 goodG

/-! ### why the untracked clients have to be inert: an observer of `B` that goes on typing

`wh`: as `wa`, but the healthy `B` has its answer `OK` in the buffer, so client 2's `on b1` completes in pass 1; in `wb` (sick `B'`) it
never does.  In pass 2 client 2 sends `on a1` — a line that does not observe `B`: executed in the healthy run, answered `208` in the
sick one.  `A` runs and completes it (pass 3, healthy run only).  In pass 4 client 1 — which never observed `B` — asks `device a1`
and is told `actions=002` in one run and `actions=001` in the other. -/

def devBok : Pm.Dev2.Dev := { Pm.Daemon.Ex.devB with fromBuf := [79, 75, 10] }
def wh : W := { wa with devs := [([65], Pm.Daemon.Ex.devA), ([66], devBok), ([67], Pm.Daemon.Ex.devC)] }
def xOK : List Pm.Dev2.RxCall := [{ pat := 1, subject := [79, 75, 10], answer := some [(0, 3)] }]
def r1 : PassIn := { now := 2000, acc := 0, con := [0], soe := [0], envs := [] }
def r2 : PassIn := { now := 3000, acc := 0, con := [0], soe := [0], envs := [{ fd := 1001, rev := 3, rk := 0, data := bstr "on a1\n", cap := 100 }, { fd := 2000, rev := 2, rk := 0, data := [], cap := 100 }] }
def r3 : PassIn := { now := 4000, acc := 0, con := [0], soe := [0], envs := [{ fd := 2000, rev := 3, rk := 0, data := [79, 75, 10], cap := 100 }] }
def r4 : PassIn := { now := 5000, acc := 0, con := [0], soe := [0], envs := [{ fd := 1000, rev := 3, rk := 0, data := bstr "device a1\n", cap := 100 }] }
def runH : List (PassIn × List Pm.Dev2.RxCall) := [(r1, xOK ++ xOK), (r2, []), (r3, xOK), (r4, [])]
def runS : List (PassIn × List Pm.Dev2.RxCall) :=
  [(r1, xOK ++ Pm.Daemon.Ex.xB'), (r2, Pm.Daemon.Ex.xB'), (r3, Pm.Daemon.Ex.xB'), (r4, Pm.Daemon.Ex.xB')]

theorem relH : MRel Pm.Daemon.Ex.Q FB 1 PBx wh wb where
  cfg := rfl
  specs := rfl
  alNext := rfl
  nextId := rfl
  nacc := rfl
  nsock := rfl
  npair := rfl
  nfork := rfl
  ex := rfl
  ex' := rfl
  store := fun _ => rfl
  devs := ⟨⟨rfl, fun i hi => by
    match i with
    | 0 => rfl
    | 1 => exact absurd rfl hi
    | 2 => rfl
    | _ + 3 => rfl⟩, by
    intro B B' hB hB'
    have e1 : wh.devs[1]? = some ([66], devBok) := rfl
    have e2 : wb.devs[1]? = some Pm.Daemon.Ex.B' := rfl
    rw [e1] at hB; rw [e2] at hB'
    cases hB; cases hB'
    exact ⟨rfl, rfl, rfl⟩⟩
  tab := rfl
  gok := by
    intro c hc hF k hk
    have hc : c ∈ [Pm.Daemon.Ex.cli1, Pm.Daemon.Ex.cli2] := hc
    simp only [List.mem_cons, List.not_mem_nil, or_false] at hc
    rcases hc with rfl | rfl
    · cases hk; exact Pm.Daemon.Ex.namesQ
    · simp [FB, isFd, Pm.Daemon.Ex.cli2] at hF
  sys := rfl
  nob := nobB_sound FB 1 wh (by decide +kernel)
  nob' := nobB_sound FB 1 wb (by decide +kernel)

/-! ## the client that vanishes -/

/-- `GonePass` from facts that evaluation can check -/
theorem mkGonePass (fs : Nat) (w w' : W) (p p' : PassIn) (h1 : p'.now = p.now) (h2 : p'.acc = p.acc) (h3 : p'.con = p.con) (h4 : p'.soe = p.soe)
    (h5 : p'.envs.filter (fun e => e.fd != fs) = p.envs.filter (fun e => e.fd != fs))
    (h6 : (w.devs.all fun nd => nd.2.fd != some fs) = true)
    (h7 : (w.clients.all fun c => c.fd != fs || inertB p.envs c) = true)
    (h8 : (w'.clients.all fun c => c.fd != fs || inertB p'.envs c) = true)
    (h9 : idsFreshB w = true) (h10 : idsFreshB w' = true)
    (h11 : ((cliPostPoll w p.acc p.envs).devs.foldl (devPass p) (acc0 (cliPostPoll w p.acc p.envs))).dead = false)
    (h12 : ((cliPostPoll w' p'.acc p'.envs).devs.foldl (devPass p') (acc0 (cliPostPoll w' p'.acc p'.envs))).dead = false) :
    GonePass fs w w' p p' where
  now := h1
  acc := h2
  con := h3
  soe := h4
  others := others_of_filter p.envs p'.envs fs h5
  devfd := by
    intro nd hnd
    simpa using List.all_eq_true.mp h6 nd hnd
  inert := by
    intro c hc hfd
    have := List.all_eq_true.mp h7 c hc
    exact inertB_sound _ _ (by simpa [hfd] using this)
  inert' := by
    intro c hc hfd
    have := List.all_eq_true.mp h8 c hc
    exact inertB_sound _ _ (by simpa [hfd] using this)
  ids := idsFreshB_sound w h9
  ids' := idsFreshB_sound w' h10
  alive := h11
  alive' := h12

/-- pass V, first run: the device answers client 1's action; nothing is reported for client 2's descriptor 1001 -/
def pV : PassIn := { now := 4000, acc := 0, con := [0], soe := [0], envs :=
  [{ fd := 2000, rev := 1, rk := 0, data := bstr "1 on\n", cap := 100 }, { fd := 1000, rev := 2, rk := 0, data := [], cap := 100 }] }
/-- pass V, second run: descriptor 1001 reports `POLLERR` — client 2 is destroyed -/
def pV' : PassIn := { now := 4000, acc := 0, con := [0], soe := [0], envs :=
  [{ fd := 2000, rev := 1, rk := 0, data := bstr "1 on\n", cap := 100 }, { fd := 1000, rev := 2, rk := 0, data := [], cap := 100 },
   { fd := 1001, rev := 8, rk := 0, data := [], cap := 0 }] }
/-- pass W (both runs): the device takes the bytes of client 2's action, which is still queued -/
def pW : PassIn := { now := 5000, acc := 0, con := [0], soe := [0], envs := [{ fd := 2000, rev := 2, rk := 0, data := [], cap := 100 }] }
def ppV : List (PassIn × PassIn) := [(pV, pV'), (pW, pW)]

theorem brel0 : BRel 1001 Two.w3x Two.w3x := (ARel.init 2 1001 Two.w3x onlyS fresh).toB

theorem goneRun : GoneRun 1001 Two.w3x Two.w3x ppV :=
  ⟨mkGonePass 1001 _ _ pV pV' rfl rfl rfl rfl rfl (by decide +kernel) (by decide +kernel) (by decide +kernel) (by decide +kernel) (by decide +kernel)
      (by decide +kernel) (by decide +kernel),
   mkGonePass 1001 _ _ pW pW rfl rfl rfl rfl rfl (by decide +kernel) (by decide +kernel) (by decide +kernel) (by decide +kernel) (by decide +kernel)
      (by decide +kernel) (by decide +kernel),
   trivial⟩

/-- after the two stuck passes `ps`/`ps'`: a pass in which descriptor 1001 reports `POLLERR` in the second run only -/
def pZ : PassIn := { now := 6000, acc := 0, con := [0], soe := [0], envs := [] }
def pZ' : PassIn := { now := 6000, acc := 0, con := [0], soe := [0], envs := [{ fd := 1001, rev := 8, rk := 0, data := [], cap := 0 }] }
def pp1 : List (PassIn × PassIn) := ps.map fun p => (p, stuckIn 1001 p)

theorem goneAfterStuck : GoneRun 1001 (runPasses Two.w3x (pp1.map (·.1))) (runPasses Two.w3x (pp1.map (·.2))) [(pZ, pZ')] :=
  ⟨mkGonePass 1001 _ _ pZ pZ' rfl rfl rfl rfl rfl (by decide +kernel) (by decide +kernel) (by decide +kernel) (by decide +kernel) (by decide +kernel)
      (by decide +kernel) (by decide +kernel), trivial⟩

end Pm.Daemon.TwoRun.Ex

/-! axiom audit of the two-run modules -/
section AxiomChecks
open Pm.Daemon.TwoRun
#print axioms clientPass_rel
#print axioms foldl_merge
#print axioms cliPostPoll_merge
#print axioms backpressure
#print axioms vanish
#print axioms stuck_then_gone
#print axioms pass_gen
#print axioms passes_gen
#print axioms Ex.goodG
#print axioms Ex.goneRun
#print axioms Ex.readerRun
#print axioms Ex.faithful
end AxiomChecks
