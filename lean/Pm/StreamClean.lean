import Pm.ClientStream
import Pm.SortFProof
import Pm.HLMore
import Pm.HLFind
import Pm.AliasProof
import Pm.RoundTrip
import Pm.ReplyProof
/-! Helper lemmas for C15 over whole runs, part 1: **the alphabet of the hostlist mirror**.

    A name is *clean* when none of its characters becomes the byte CR or LF on the wire (`ofChars` reduces the code point
    modulo 256, so this is a condition on `c.toNat.toUInt8`, not on the character).  Every operation of the hostlist mirror
    that the daemon uses on the way to a client (`pushHost`, `createR`, `expand`, `sortHL`, `rangedString`, `expAliases`)
    produces clean names / strings from clean names: the characters they add are digits and `[ ] , -`. -/
namespace Pm.Daemon.StreamPf
open Pm Pm.Client Pm.Daemon Pm.Daemon.ClientPf

/-- the character does not become CR or LF when `ofChars` puts it on the wire -/
def okChar (c : Char) : Bool := c.toNat.toUInt8 != 13 && c.toNat.toUInt8 != 10

/-- no character of the name becomes CR or LF -/
def cleanName (n : Name) : Bool := n.all okChar

theorem cleanText_ofChars (n : Name) : cleanText (ofChars n) = cleanName n := by
  simp only [cleanText, ofChars, cleanName, List.all_map]
  congr 1

theorem cleanName_append (a b : Name) : cleanName (a ++ b) = (cleanName a && cleanName b) := by
  simp [cleanName, List.all_append]

theorem cleanName_cons (c : Char) (a : Name) : cleanName (c :: a) = (okChar c && cleanName a) := by
  simp [cleanName]

theorem cleanName_nil : cleanName [] = true := rfl

theorem cleanName_of_mem {n : Name} (h : ∀ c ∈ n, okChar c = true) : cleanName n = true := by
  simpa [cleanName, List.all_eq_true] using h

theorem cleanName_mem {n : Name} (h : cleanName n = true) : ∀ c ∈ n, okChar c = true := by
  simpa [cleanName, List.all_eq_true] using h

theorem cleanName_sublist {a b : Name} (hs : a.Sublist b) (h : cleanName b = true) : cleanName a = true :=
  cleanName_of_mem fun c hc => cleanName_mem h c (hs.subset hc)

theorem cleanName_take (n : Name) (k : Nat) (h : cleanName n = true) : cleanName (n.take k) = true :=
  cleanName_sublist (List.take_sublist k n) h
theorem cleanName_drop (n : Name) (k : Nat) (h : cleanName n = true) : cleanName (n.drop k) = true :=
  cleanName_sublist (List.drop_sublist k n) h
theorem cleanName_takeWhile (n : Name) (p : Char → Bool) (h : cleanName n = true) : cleanName (n.takeWhile p) = true :=
  cleanName_sublist (List.takeWhile_sublist p) h
theorem cleanName_dropWhile (n : Name) (p : Char → Bool) (h : cleanName n = true) : cleanName (n.dropWhile p) = true :=
  cleanName_sublist (List.dropWhile_sublist p) h
theorem cleanName_reverse (n : Name) : cleanName n.reverse = cleanName n := by
  simp [cleanName, List.all_reverse]

/-- a decimal digit is clean -/
theorem okChar_digit (c : Char) (h : c.isDigit = true) : okChar c = true := by
  obtain ⟨h1, h2⟩ := digit_bounds c h
  have : ∀ n, 48 ≤ n → n ≤ 57 → (n.toUInt8 != 13 && n.toUInt8 != 10) = true := by
    intro n a b
    have : n = 48 ∨ n = 49 ∨ n = 50 ∨ n = 51 ∨ n = 52 ∨ n = 53 ∨ n = 54 ∨ n = 55 ∨ n = 56 ∨ n = 57 := by omega
    rcases this with h | h | h | h | h | h | h | h | h | h <;> subst h <;> decide
  exact this _ h1 h2

theorem fmtNum_clean (w n : Nat) : cleanName (fmtNum w n) = true := by
  apply cleanName_of_mem
  intro c hc
  unfold fmtNum at hc
  rcases List.mem_append.mp hc with h | h
  · rw [(List.mem_replicate.mp h).2]; decide
  · exact okChar_digit c (Nat.isDigit_of_mem_toDigits (by decide) (by decide) h)

/-! ### ranges and lists of ranges -/

/-- every prefix stored in the list is clean -/
def HLClean (hl : Hostlist) : Prop := ∀ r ∈ hl, cleanName r.pfx = true

theorem HLClean_nil : HLClean [] := by intro r hr; cases hr

theorem HLClean_append {a b : Hostlist} (ha : HLClean a) (hb : HLClean b) : HLClean (a ++ b) := by
  intro r hr; rcases List.mem_append.mp hr with h | h
  · exact ha r h
  · exact hb r h

theorem range_expand_clean (r : HostRange) (h : cleanName r.pfx = true) : ∀ n ∈ r.expand, cleanName n = true := by
  intro n hn
  unfold HostRange.expand at hn
  split at hn
  · simp at hn; subst hn; exact h
  · simp only [List.mem_map, List.mem_range] at hn
    obtain ⟨i, _, rfl⟩ := hn
    rw [cleanName_append, h, fmtNum_clean]; rfl

/-- the names a clean list stands for are clean -/
theorem expand_clean (hl : Hostlist) (h : HLClean hl) : ∀ n ∈ expand hl, cleanName n = true := by
  intro n hn
  unfold expand at hn
  rw [List.mem_flatMap] at hn
  obtain ⟨r, hr, hn⟩ := hn
  exact range_expand_clean r (h r hr) n hn

/-- a range with `lo ≤ hi` (or a single name) stands for at least one name, which begins with its prefix -/
theorem range_expand_head (r : HostRange) (hwf : r.single = true ∨ r.lo ≤ r.hi) : ∃ n ∈ r.expand, ∃ t, n = r.pfx ++ t := by
  unfold HostRange.expand
  split
  · exact ⟨r.pfx, by simp, [], by simp⟩
  · rename_i hs
    have hle : r.lo ≤ r.hi := by rcases hwf with h | h; exact absurd h hs; exact h
    refine ⟨r.pfx ++ fmtNum r.width (r.lo + 0), ?_, _, rfl⟩
    simp only [List.mem_map, List.mem_range]
    exact ⟨0, by omega, rfl⟩

/-- conversely, a well-formed list all of whose names are clean stores clean prefixes only -/
theorem HLClean_of_expand (hl : Hostlist) (hwf : HWF hl) (h : ∀ n ∈ expand hl, cleanName n = true) : HLClean hl := by
  intro r hr
  obtain ⟨n, hn, t, rfl⟩ := range_expand_head r (hwf r hr)
  have := h _ (by unfold expand; rw [List.mem_flatMap]; exact ⟨r, hr, hn⟩)
  rw [cleanName_append] at this
  simp only [Bool.and_eq_true] at this
  exact this.1

/-! ### `hostlist_ranged_string` -/

theorem mem_intercalate' {α} (sep : List α) (c : α) : ∀ (l : List (List α)), c ∈ List.intercalate sep l →
    c ∈ sep ∨ ∃ x ∈ l, c ∈ x
  | [], h => by simp at h
  | [x], h => by rw [List.intercalate_singleton] at h; exact Or.inr ⟨x, by simp, h⟩
  | x :: y :: l, h => by
    rw [List.intercalate_cons_cons] at h
    rcases List.mem_append.mp h with h | h
    · rcases List.mem_append.mp h with h | h
      · exact Or.inr ⟨x, by simp, h⟩
      · exact Or.inl h
    · rcases mem_intercalate' sep c (y :: l) h with h | ⟨z, hz, hc⟩
      · exact Or.inl h
      · exact Or.inr ⟨z, by simp [hz], hc⟩

theorem intercalate_clean (l : List Name) (h : ∀ x ∈ l, cleanName x = true) : cleanName (List.intercalate [','] l) = true := by
  apply cleanName_of_mem
  intro c hc
  rcases mem_intercalate' _ c l hc with h1 | ⟨x, hx, hcx⟩
  · simp at h1; subst h1; decide
  · exact cleanName_mem (h x hx) c hcx

theorem numstr_clean (r : HostRange) : cleanName (numstr r) = true := by
  unfold numstr
  split
  · rfl
  · rw [cleanName_append, fmtNum_clean]
    split
    · rw [cleanName_cons, fmtNum_clean]; rfl
    · rfl

theorem groupTok_clean (r : HostRange) (grp : Hostlist) (h : cleanName r.pfx = true) : cleanName (groupTok r grp) = true := by
  unfold groupTok
  rw [cleanName_append, h]
  split
  · rw [cleanName_cons, cleanName_append, intercalate_clean _ (by
      intro x hx; simp only [List.mem_map] at hx; obtain ⟨y, _, rfl⟩ := hx; exact numstr_clean y)]
    rfl
  · simp [numstr_clean]

theorem rangedGroups_clean : ∀ (n : Nat) (hl : Hostlist), hl.length ≤ n → HLClean hl → ∀ t ∈ rangedGroups hl, cleanName t = true := by
  intro n
  induction n with
  | zero =>
    intro hl hlen _ t ht
    have : hl = [] := List.length_eq_zero_iff.mp (by omega)
    subst this; rw [rangedGroups_nil] at ht; cases ht
  | succ n ih =>
    intro hl hlen hc t ht
    cases hl with
    | nil => rw [rangedGroups_nil] at ht; cases ht
    | cons r rest =>
      rw [rangedGroups_cons] at ht
      rcases List.mem_cons.mp ht with rfl | ht
      · exact groupTok_clean r _ (hc r (by simp))
      · refine ih _ ?_ ?_ t ht
        · simp only [List.length_drop, List.length_cons] at hlen ⊢; omega
        · intro x hx; exact hc x (List.mem_cons_of_mem _ (List.mem_of_mem_drop hx))

/-- **the ranged string of a clean list is clean**: besides the prefixes it consists of digits and `[ ] , -` -/
theorem rangedString_clean (hl : Hostlist) (h : HLClean hl) : cleanName (rangedString hl) = true := by
  unfold rangedString
  exact intercalate_clean _ (rangedGroups_clean hl.length hl (Nat.le_refl _) h)

/-! ### pushing -/

theorem pushRange_clean (hl : Hostlist) (r : HostRange) (hr : cleanName r.pfx = true) (h : HLClean hl) : HLClean (pushRange hl r) := by
  unfold pushRange
  cases hlast : hl.getLast? with
  | none => intro x hx; simp at hx; subst hx; exact hr
  | some t =>
    simp only
    have htm := mem_of_getLast? hlast
    split
    · split
      · intro x hx
        rcases List.mem_append.mp hx with hx | hx
        · exact h x (mem_dropLast hx)
        · simp at hx; subst hx; exact h t htm
      · intro x hx
        rcases List.mem_append.mp hx with hx | hx
        · exact h x hx
        · simp at hx; subst hx; exact hr
    · intro x hx
      rcases List.mem_append.mp hx with hx | hx
      · exact h x hx
      · simp at hx; subst hx; exact hr

theorem splitDigits_clean (n : Name) (h : cleanName n = true) : cleanName (splitDigits n).1 = true := by
  unfold splitDigits
  dsimp only
  rw [cleanName_reverse]
  exact cleanName_dropWhile _ _ (by rw [cleanName_reverse]; exact h)

theorem ofName_pfx_clean (n : Name) (h : cleanName n = true) : cleanName (HostName.ofName n).pfx = true := by
  unfold HostName.ofName
  have := splitDigits_clean n h
  generalize splitDigits n = sd at this ⊢
  obtain ⟨p, ds⟩ := sd
  dsimp only
  split
  · exact h
  · split
    · exact this
    · exact h

theorem pushHost_clean (hl : Hostlist) (n : Name) (hn : cleanName n = true) (h : HLClean hl) : HLClean (pushHost hl n) := by
  unfold pushHost
  dsimp only
  split
  · exact pushRange_clean _ _ (ofName_pfx_clean n hn) h
  · exact pushRange_clean _ _ hn h

theorem foldl_pushHost_clean (names : List Name) (hn : ∀ n ∈ names, cleanName n = true) (hl : Hostlist) (h : HLClean hl) :
    HLClean (names.foldl pushHost hl) := by
  induction names generalizing hl with
  | nil => exact h
  | cons a r ih =>
    rw [List.foldl_cons]
    exact ih (fun n hn' => hn n (by simp [hn'])) _ (pushHost_clean hl a (hn a (by simp)) h)

theorem foldl_pushHost_HWFS (names : List Name) (hl : Hostlist) (h : HWFS hl) : HWFS (names.foldl pushHost hl) := by
  induction names generalizing hl with
  | nil => exact h
  | cons a r ih => rw [List.foldl_cons]; exact ih _ (pushHost_HWFS hl a h)

theorem HWFS_nil : HWFS [] := by intro t ht; cases ht

/-! ### `hostlist_sort` -/

/-- sorting keeps a (strongly well-formed) clean list clean: the result stands for the same names -/
theorem sortHL_clean (hl hl' : Hostlist) (hwf : HWFS hl) (hc : HLClean hl) (h : sortHL hl = .ok hl') : HLClean hl' := by
  apply HLClean_of_expand hl' (sortHL_wfs hl hl' hwf h).toHWF
  intro n hn
  exact expand_clean hl hc n ((sortHL_perm hl hl' hwf h).subset hn)

/-- `sortedRanged` (the `302`/`303` host ranges of a reply) of clean names is clean -/
theorem sortedRanged_clean (names : List Name) (hn : ∀ n ∈ names, cleanName n = true) (r : Bytes)
    (h : sortedRanged names = some r) : cleanText r = true := by
  unfold sortedRanged at h
  split at h
  · rename_i hl hs
    cases h
    rw [cleanText_ofChars]
    exact rangedString_clean hl (sortHL_clean _ hl (foldl_pushHost_HWFS names [] HWFS_nil)
      (foldl_pushHost_clean names hn [] HLClean_nil) hs)
  · cases h
  · cases h

/-! ### bytes to characters and back -/

theorem toChars_clean (b : Bytes) : cleanName (toChars b) = cleanText b := by
  unfold toChars cleanName cleanText
  rw [List.all_map]
  congr 1
  funext x
  have hx : x.toNat < 256 := UInt8.toNat_lt x
  have h1 : (Char.ofNat x.toNat).toNat = x.toNat := Pm.Daemon.Reply.toNat_ofNat_small _ hx
  simp only [Function.comp, okChar, h1]
  have : x.toNat.toUInt8 = x := by simp
  rw [this]


/-! ### `hostlist_create` on a request argument -/

theorem tokens_go_clean : ∀ (rest cur : List Char) (level : Int) (acc : List (List Char)),
    cleanName rest = true → cleanName cur = true → (∀ t ∈ acc, cleanName t = true) →
    ∀ t ∈ tokens.go rest cur level acc, cleanName t = true := by
  intro rest
  induction rest with
  | nil =>
    intro cur level acc _ hcur hacc t ht
    unfold tokens.go at ht
    split at ht
    · exact hacc t (by simpa using ht)
    · simp only [List.reverse_cons, List.mem_append, List.mem_reverse, List.mem_cons, List.not_mem_nil, or_false] at ht
      rcases ht with ht | ht
      · exact hacc t ht
      · subst ht; rw [cleanName_reverse]; exact hcur
  | cons c r ih =>
    intro cur level acc hrest hcur hacc t ht
    rw [cleanName_cons] at hrest
    simp only [Bool.and_eq_true] at hrest
    unfold tokens.go at ht
    split at ht
    · split at ht
      · exact ih [] 0 acc hrest.2 rfl hacc t ht
      · refine ih [] 0 _ hrest.2 rfl ?_ t ht
        intro x hx
        rcases List.mem_cons.mp hx with rfl | hx
        · rw [cleanName_reverse]; exact hcur
        · exact hacc x hx
    · exact ih (c :: cur) _ acc hrest.2 (by rw [cleanName_cons, hrest.1, hcur]; rfl) hacc t ht

theorem tokens_clean (s : List Char) (h : cleanName s = true) : ∀ t ∈ tokens s, cleanName t = true :=
  tokens_go_clean s [] 0 [] h rfl (by intro t ht; cases ht)

theorem splitOnFirst_clean (c : Char) (s : List Char) (h : cleanName s = true) :
    cleanName (splitOnFirst c s).1 = true ∧ ∀ r, (splitOnFirst c s).2 = some r → cleanName r = true := by
  unfold splitOnFirst
  dsimp only
  split
  · exact ⟨cleanName_takeWhile _ _ h, fun r hr => by cases hr; exact cleanName_drop _ _ h⟩
  · exact ⟨cleanName_takeWhile _ _ h, fun r hr => by cases hr⟩

theorem pushSpec_clean (hl : Hostlist) (pfx : Name) (r : RangeSpec) (hp : cleanName pfx = true) (h : HLClean hl) :
    HLClean (pushSpec hl pfx r) := pushRange_clean _ _ hp h

theorem pushSpecSuffix_clean (hl : Hostlist) (pfx sfx : Name) (r : RangeSpec) (hp : cleanName pfx = true)
    (hs : cleanName sfx = true) (h : HLClean hl) : HLClean (pushSpecSuffix hl pfx sfx r) := by
  unfold pushSpecSuffix
  apply foldl_inv (fun (hl : Hostlist) => HLClean hl)
  · intro b a hb
    exact pushRange_clean _ _ (by simp only [cleanName_append, hp, hs, fmtNum_clean, Bool.and_self]) hb
  · exact h

theorem foldl_inv_mem {α β : Type} (P : β → Prop) (f : β → α → β) (l : List α) (hf : ∀ b a, a ∈ l → P b → P (f b a)) :
    ∀ (b : β), P b → P (l.foldl f b) := by
  induction l with
  | nil => intro b h; exact h
  | cons a r ih =>
    intro b h
    exact ih (fun b' a' ha' => hf b' a' (List.mem_cons_of_mem _ ha')) _ (hf b a (by simp) h)

def CRClean : CR → Prop
  | .ok hl => HLClean hl
  | _ => True

/-- `hostlist_create` of a clean argument stores clean prefixes only -/
theorem createR_clean (s : List Char) (hs : cleanName s = true) (hl : Hostlist) (h : createR s = .ok hl) : HLClean hl := by
  have key : CRClean (createR s) := by
    unfold createR
    apply foldl_inv_mem CRClean _ (tokens s)
    · intro acc tok htok hacc
      have htc := tokens_clean s hs tok htok
      cases acc with
      | err => trivial
      | fatal => trivial
      | ok hl0 =>
        have hacc : HLClean hl0 := hacc
        dsimp only
        have h1 := splitOnFirst_clean '[' tok htc
        generalize splitOnFirst '[' tok = sp1 at h1 ⊢
        obtain ⟨pfx, rest⟩ := sp1
        cases rest with
        | none =>
          dsimp only
          split
          · trivial
          · exact pushHost_clean hl0 tok htc hacc
        | some rest =>
          dsimp only
          have h2 := splitOnFirst_clean ']' rest (h1.2 rest rfl)
          generalize splitOnFirst ']' rest = sp2 at h2 ⊢
          obtain ⟨body, sfx⟩ := sp2
          cases sfx with
          | none => trivial
          | some sfx =>
            dsimp only
            cases parseRangeList body with
            | error e => trivial
            | ok rs =>
              dsimp only
              split
              · exact foldl_inv (fun (h : Hostlist) => HLClean h) _ (fun b a hb => pushSpec_clean b pfx a h1.1 hb) rs hl0 hacc
              · exact foldl_inv (fun (h : Hostlist) => HLClean h) _
                  (fun b a hb => pushSpecSuffix_clean b pfx sfx a h1.1 (h2.2 sfx rfl) hb) rs hl0 hacc
    · exact HLClean_nil
  rw [h] at key
  exact key

/-! ### the `sscanf("%s")` scanner: the argument of a request contains no white space -/

theorem scan_noSpace (kw s a : Bytes) (h : scan kw s = some a) : ∀ b ∈ a, isSpace b = false := by
  unfold scan at h
  split at h
  · dsimp only at h
    split at h
    · cases h
    · cases h
      intro b hb
      have := mem_takeWhile_holds _ _ b hb
      simpa using this
  · cases h

theorem noSpace_clean (a : Bytes) (h : ∀ b ∈ a, isSpace b = false) : cleanText a = true := by
  simp only [cleanText, List.all_eq_true, Bool.and_eq_true, bne_iff_ne, ne_eq]
  intro x hx
  have := h x hx
  constructor <;> (intro e; subst e; revert this; decide)

/-- the argument `sscanf` hands to `hostlist_create` contains neither CR nor LF (nor any other white space) -/
theorem scan_clean (kw s a : Bytes) (h : scan kw s = some a) : cleanText a = true :=
  noSpace_clean a (scan_noSpace kw s a h)

/-- the names a request argument stands for are clean -/
theorem createR_scan_clean (kw s a : Bytes) (hl : Hostlist) (h : scan kw s = some a) (hc : createR (toChars a) = .ok hl) :
    HLClean hl :=
  createR_clean _ (by rw [toChars_clean]; exact scan_clean kw s a h) hl hc


/-! ### decimal numbers printed through `String` -/

theorem bstr_ofList (cs : List Char) : bstr (String.ofList cs) = cs.flatMap String.utf8EncodeChar := by
  simp [bstr, String.toUTF8, String.toByteArray_ofList, List.utf8Encode, byteArray_toList_eq_data]

theorem utf8_digit (c : Char) (h : c.isDigit = true) : String.utf8EncodeChar c = [c.toNat.toUInt8] := by
  obtain ⟨h1, h2⟩ := digit_bounds c h
  unfold String.utf8EncodeChar
  have : c.val.toNat = c.toNat := rfl
  simp only [this]
  rw [if_pos (by omega)]

theorem bstr_digits_clean (cs : List Char) (h : ∀ c ∈ cs, c.isDigit = true) : cleanText (bstr (String.ofList cs)) = true := by
  rw [bstr_ofList]
  simp only [cleanText, List.all_eq_true, List.mem_flatMap]
  rintro b ⟨c, hc, hb⟩
  rw [utf8_digit c (h c hc)] at hb
  simp at hb; subst hb
  exact okChar_digit c (h c hc)

theorem toString_nat_clean (n : Nat) : cleanText (bstr (toString n)) = true := by
  show cleanText (bstr (Nat.repr n)) = true
  unfold Nat.repr
  exact bstr_digits_clean _ (fun c hc => Nat.isDigit_of_mem_toDigits (by decide) (by decide) hc)

theorem zeros_clean (k : Nat) : cleanText (bstr (String.ofList (List.replicate k '0'))) = true :=
  bstr_digits_clean _ (by intro c hc; rw [(List.mem_replicate.mp hc).2]; rfl)

/-- `%-3.3d` -/
theorem d33_clean (n : Nat) : cleanText (d33 n) = true := by
  unfold d33
  dsimp only
  rw [bstr_append, cleanText_append, toString_nat_clean, zeros_clean]
  rfl

end Pm.Daemon.StreamPf

/-! axiom audit (expected: at most `propext`, `Classical.choice`, `Quot.sound`) -/
#print axioms Pm.Daemon.StreamPf.rangedString_clean
#print axioms Pm.Daemon.StreamPf.sortHL_clean
#print axioms Pm.Daemon.StreamPf.createR_clean
#print axioms Pm.Daemon.StreamPf.d33_clean
