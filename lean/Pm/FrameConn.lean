import Pm.FrameRel
/-! Helper lemmas for C05, two runs: the connection layer of `device.c` does not look at the arglist store. -/
namespace Pm.Dev2

/-! ### the connection layer does not look at the store

The lemmas are stated on fully explicit constructor terms (every field a variable) so that they rewrite the unfolded
bodies of their callers syntactically; `[]` is the canonical store both runs are compared with. -/

theorem finishConnectOne_wx {f_plugs f_scripts f_timeout f_acts f_toBuf f_fromBuf f_xmStr f_xmOffs f_xmResult f_xmUsed f_nextUid f_shortCircuitDelay f_wake f_connected f_retryCount f_lastRetry f_conn f_loggedIn f_fd f_naddr f_cur f_tstate f_tcmd f_statConnects f_statActions f_isPipe f_cpid f_pingPeriod f_lastPing f_fromSize} {env sys ab} (s : Store) :
    finishConnectOne (⟨⟨f_plugs, f_scripts, f_timeout, f_acts, f_toBuf, f_fromBuf, f_xmStr, f_xmOffs, f_xmResult, f_xmUsed, s, f_nextUid, f_shortCircuitDelay, f_wake, f_connected, f_retryCount, f_lastRetry, f_conn, f_loggedIn, f_fd, f_naddr, f_cur, f_tstate, f_tcmd, f_statConnects, f_statActions, f_isPipe, f_cpid, f_pingPeriod, f_lastPing, f_fromSize⟩, env, sys, ab⟩ : CS) = ((finishConnectOne (⟨⟨f_plugs, f_scripts, f_timeout, f_acts, f_toBuf, f_fromBuf, f_xmStr, f_xmOffs, f_xmResult, f_xmUsed, [], f_nextUid, f_shortCircuitDelay, f_wake, f_connected, f_retryCount, f_lastRetry, f_conn, f_loggedIn, f_fd, f_naddr, f_cur, f_tstate, f_tcmd, f_statConnects, f_statActions, f_isPipe, f_cpid, f_pingPeriod, f_lastPing, f_fromSize⟩, env, sys, ab⟩ : CS)).1.withArgs s, (finishConnectOne (⟨⟨f_plugs, f_scripts, f_timeout, f_acts, f_toBuf, f_fromBuf, f_xmStr, f_xmOffs, f_xmResult, f_xmUsed, [], f_nextUid, f_shortCircuitDelay, f_wake, f_connected, f_retryCount, f_lastRetry, f_conn, f_loggedIn, f_fd, f_naddr, f_cur, f_tstate, f_tcmd, f_statConnects, f_statActions, f_isPipe, f_cpid, f_pingPeriod, f_lastPing, f_fromSize⟩, env, sys, ab⟩ : CS)).2) := by
  unfold finishConnectOne CS.withArgs withArgs
  dsimp only
  repeat' split
  all_goals first | rfl | simp_all

theorem connectOne_wx {f_plugs f_scripts f_timeout f_acts f_toBuf f_fromBuf f_xmStr f_xmOffs f_xmResult f_xmUsed f_nextUid f_shortCircuitDelay f_wake f_connected f_retryCount f_lastRetry f_conn f_loggedIn f_fd f_naddr f_cur f_tstate f_tcmd f_statConnects f_statActions f_isPipe f_cpid f_pingPeriod f_lastPing f_fromSize} {env sys ab} (s : Store) :
    connectOne (⟨⟨f_plugs, f_scripts, f_timeout, f_acts, f_toBuf, f_fromBuf, f_xmStr, f_xmOffs, f_xmResult, f_xmUsed, s, f_nextUid, f_shortCircuitDelay, f_wake, f_connected, f_retryCount, f_lastRetry, f_conn, f_loggedIn, f_fd, f_naddr, f_cur, f_tstate, f_tcmd, f_statConnects, f_statActions, f_isPipe, f_cpid, f_pingPeriod, f_lastPing, f_fromSize⟩, env, sys, ab⟩ : CS) = ((connectOne (⟨⟨f_plugs, f_scripts, f_timeout, f_acts, f_toBuf, f_fromBuf, f_xmStr, f_xmOffs, f_xmResult, f_xmUsed, [], f_nextUid, f_shortCircuitDelay, f_wake, f_connected, f_retryCount, f_lastRetry, f_conn, f_loggedIn, f_fd, f_naddr, f_cur, f_tstate, f_tcmd, f_statConnects, f_statActions, f_isPipe, f_cpid, f_pingPeriod, f_lastPing, f_fromSize⟩, env, sys, ab⟩ : CS)).1.withArgs s, (connectOne (⟨⟨f_plugs, f_scripts, f_timeout, f_acts, f_toBuf, f_fromBuf, f_xmStr, f_xmOffs, f_xmResult, f_xmUsed, [], f_nextUid, f_shortCircuitDelay, f_wake, f_connected, f_retryCount, f_lastRetry, f_conn, f_loggedIn, f_fd, f_naddr, f_cur, f_tstate, f_tcmd, f_statConnects, f_statActions, f_isPipe, f_cpid, f_pingPeriod, f_lastPing, f_fromSize⟩, env, sys, ab⟩ : CS)).2) := by
  unfold connectOne CS.withArgs withArgs
  dsimp only
  split
  · rw [finishConnectOne_wx]
    generalize finishConnectOne _ = r
    simp only [CS.withArgs, withArgs]
    repeat' split
    all_goals first | rfl | simp_all
  · rfl

theorem connectOne_wa (c : CS) (s : Store) :
    connectOne (c.withArgs s) = ((connectOne c).1.withArgs s, (connectOne c).2) := by
  obtain ⟨⟨f_plugs, f_scripts, f_timeout, f_acts, f_toBuf, f_fromBuf, f_xmStr, f_xmOffs, f_xmResult, f_xmUsed, f_args, f_nextUid, f_shortCircuitDelay, f_wake, f_connected, f_retryCount, f_lastRetry, f_conn, f_loggedIn, f_fd, f_naddr, f_cur, f_tstate, f_tcmd, f_statConnects, f_statActions, f_isPipe, f_cpid, f_pingPeriod, f_lastPing, f_fromSize⟩, env, sys, ab⟩ := c
  show connectOne (⟨(⟨f_plugs, f_scripts, f_timeout, f_acts, f_toBuf, f_fromBuf, f_xmStr, f_xmOffs, f_xmResult, f_xmUsed, s, f_nextUid, f_shortCircuitDelay, f_wake, f_connected, f_retryCount, f_lastRetry, f_conn, f_loggedIn, f_fd, f_naddr, f_cur, f_tstate, f_tcmd, f_statConnects, f_statActions, f_isPipe, f_cpid, f_pingPeriod, f_lastPing, f_fromSize⟩ : Dev), env, sys, ab⟩ : CS) = _
  rw [connectOne_wx s, connectOne_wx f_args]
  rfl

/-- the address walk does not look at the store -/
theorem connectWalk_wa (n : Nat) (c : CS) (s : Store) : connectWalk n (c.withArgs s) = (connectWalk n c).withArgs s := by
  induction n generalizing c with
  | zero => rfl
  | succ n ih =>
    unfold connectWalk
    have h1 : (c.withArgs s).dev.cur = c.dev.cur := rfl
    have h2 : (c.withArgs s).dev.naddr = c.dev.naddr := rfl
    rw [h1, h2]
    split
    · rfl
    · rename_i i _
      rw [connectOne_wa]
      dsimp only
      split
      · rfl
      · exact ih { (connectOne c).1 with dev := { (connectOne c).1.dev with cur := aiNext c.dev.naddr i } }

/-- `tcp_connect` after its two asserts -/
def tcpBody (c : CS) : CS × Bool :=
  let c := connectWalk c.dev.naddr c
  let c := if c.dev.cur.isNone then { c with dev := { c.dev with conn := 0 } } else c
  (c, c.dev.conn == 2)
theorem tcpConnect_eq (c : CS) : tcpConnect c =
    if c.dev.conn != 0 then ({ c with sys := c.sys ++ [.abort "assert connect_state == NOT_CONNECTED"], aborted := true }, false) else
    if c.dev.fd.isSome then ({ c with sys := c.sys ++ [.abort "assert fd == NO_FD"], aborted := true }, false) else
    tcpBody { c with dev := { c.dev with conn := 1, cur := some 0 } } := rfl

theorem tcpBody_wa (c : CS) (s : Store) : tcpBody (c.withArgs s) = ((tcpBody c).1.withArgs s, (tcpBody c).2) := by
  unfold tcpBody
  have h : (c.withArgs s).dev.naddr = c.dev.naddr := rfl
  rw [h, connectWalk_wa]
  generalize connectWalk c.dev.naddr c = r
  dsimp only
  have h2 : (r.withArgs s).dev.cur = r.dev.cur := rfl
  rw [h2]
  split <;> rfl

theorem tcpConnect_wa (c : CS) (s : Store) :
    tcpConnect (c.withArgs s) = ((tcpConnect c).1.withArgs s, (tcpConnect c).2) := by
  rw [tcpConnect_eq, tcpConnect_eq]
  have h1 : (c.withArgs s).dev.conn = c.dev.conn := rfl
  have h2 : (c.withArgs s).dev.fd = c.dev.fd := rfl
  rw [h1, h2]
  split
  · rfl
  · split
    · rfl
    · exact tcpBody_wa { c with dev := { c.dev with conn := 1, cur := some 0 } } s

theorem tcpConnect_wx {f_plugs f_scripts f_timeout f_acts f_toBuf f_fromBuf f_xmStr f_xmOffs f_xmResult f_xmUsed f_nextUid f_shortCircuitDelay f_wake f_connected f_retryCount f_lastRetry f_conn f_loggedIn f_fd f_naddr f_cur f_tstate f_tcmd f_statConnects f_statActions f_isPipe f_cpid f_pingPeriod f_lastPing f_fromSize} {env sys ab} (s : Store) :
    tcpConnect (⟨(⟨f_plugs, f_scripts, f_timeout, f_acts, f_toBuf, f_fromBuf, f_xmStr, f_xmOffs, f_xmResult, f_xmUsed, s, f_nextUid, f_shortCircuitDelay, f_wake, f_connected, f_retryCount, f_lastRetry, f_conn, f_loggedIn, f_fd, f_naddr, f_cur, f_tstate, f_tcmd, f_statConnects, f_statActions, f_isPipe, f_cpid, f_pingPeriod, f_lastPing, f_fromSize⟩ : Dev), env, sys, ab⟩ : CS) = ((tcpConnect (⟨(⟨f_plugs, f_scripts, f_timeout, f_acts, f_toBuf, f_fromBuf, f_xmStr, f_xmOffs, f_xmResult, f_xmUsed, [], f_nextUid, f_shortCircuitDelay, f_wake, f_connected, f_retryCount, f_lastRetry, f_conn, f_loggedIn, f_fd, f_naddr, f_cur, f_tstate, f_tcmd, f_statConnects, f_statActions, f_isPipe, f_cpid, f_pingPeriod, f_lastPing, f_fromSize⟩ : Dev), env, sys, ab⟩ : CS)).1.withArgs s, (tcpConnect (⟨(⟨f_plugs, f_scripts, f_timeout, f_acts, f_toBuf, f_fromBuf, f_xmStr, f_xmOffs, f_xmResult, f_xmUsed, [], f_nextUid, f_shortCircuitDelay, f_wake, f_connected, f_retryCount, f_lastRetry, f_conn, f_loggedIn, f_fd, f_naddr, f_cur, f_tstate, f_tcmd, f_statConnects, f_statActions, f_isPipe, f_cpid, f_pingPeriod, f_lastPing, f_fromSize⟩ : Dev), env, sys, ab⟩ : CS)).2) := by
  exact tcpConnect_wa (⟨(⟨f_plugs, f_scripts, f_timeout, f_acts, f_toBuf, f_fromBuf, f_xmStr, f_xmOffs, f_xmResult, f_xmUsed, [], f_nextUid, f_shortCircuitDelay, f_wake, f_connected, f_retryCount, f_lastRetry, f_conn, f_loggedIn, f_fd, f_naddr, f_cur, f_tstate, f_tcmd, f_statConnects, f_statActions, f_isPipe, f_cpid, f_pingPeriod, f_lastPing, f_fromSize⟩ : Dev), env, sys, ab⟩ : CS) s

theorem pipeConnect_wx {f_plugs f_scripts f_timeout f_acts f_toBuf f_fromBuf f_xmStr f_xmOffs f_xmResult f_xmUsed f_nextUid f_shortCircuitDelay f_wake f_connected f_retryCount f_lastRetry f_conn f_loggedIn f_fd f_naddr f_cur f_tstate f_tcmd f_statConnects f_statActions f_isPipe f_cpid f_pingPeriod f_lastPing f_fromSize} {env sys ab} (s : Store) :
    pipeConnect (⟨(⟨f_plugs, f_scripts, f_timeout, f_acts, f_toBuf, f_fromBuf, f_xmStr, f_xmOffs, f_xmResult, f_xmUsed, s, f_nextUid, f_shortCircuitDelay, f_wake, f_connected, f_retryCount, f_lastRetry, f_conn, f_loggedIn, f_fd, f_naddr, f_cur, f_tstate, f_tcmd, f_statConnects, f_statActions, f_isPipe, f_cpid, f_pingPeriod, f_lastPing, f_fromSize⟩ : Dev), env, sys, ab⟩ : CS) = ((pipeConnect (⟨(⟨f_plugs, f_scripts, f_timeout, f_acts, f_toBuf, f_fromBuf, f_xmStr, f_xmOffs, f_xmResult, f_xmUsed, [], f_nextUid, f_shortCircuitDelay, f_wake, f_connected, f_retryCount, f_lastRetry, f_conn, f_loggedIn, f_fd, f_naddr, f_cur, f_tstate, f_tcmd, f_statConnects, f_statActions, f_isPipe, f_cpid, f_pingPeriod, f_lastPing, f_fromSize⟩ : Dev), env, sys, ab⟩ : CS)).1.withArgs s, (pipeConnect (⟨(⟨f_plugs, f_scripts, f_timeout, f_acts, f_toBuf, f_fromBuf, f_xmStr, f_xmOffs, f_xmResult, f_xmUsed, [], f_nextUid, f_shortCircuitDelay, f_wake, f_connected, f_retryCount, f_lastRetry, f_conn, f_loggedIn, f_fd, f_naddr, f_cur, f_tstate, f_tcmd, f_statConnects, f_statActions, f_isPipe, f_cpid, f_pingPeriod, f_lastPing, f_fromSize⟩ : Dev), env, sys, ab⟩ : CS)).2) := by
  unfold pipeConnect CS.withArgs withArgs
  dsimp only
  repeat' split
  all_goals first | rfl | simp_all

theorem enqueueLogin_wx {f_plugs f_scripts f_timeout f_acts f_toBuf f_fromBuf f_xmStr f_xmOffs f_xmResult f_xmUsed f_nextUid f_shortCircuitDelay f_wake f_connected f_retryCount f_lastRetry f_conn f_loggedIn f_fd f_naddr f_cur f_tstate f_tcmd f_statConnects f_statActions f_isPipe f_cpid f_pingPeriod f_lastPing f_fromSize} (s : Store) :
    enqueueLogin (⟨f_plugs, f_scripts, f_timeout, f_acts, f_toBuf, f_fromBuf, f_xmStr, f_xmOffs, f_xmResult, f_xmUsed, s, f_nextUid, f_shortCircuitDelay, f_wake, f_connected, f_retryCount, f_lastRetry, f_conn, f_loggedIn, f_fd, f_naddr, f_cur, f_tstate, f_tcmd, f_statConnects, f_statActions, f_isPipe, f_cpid, f_pingPeriod, f_lastPing, f_fromSize⟩ : Dev) = withArgs (enqueueLogin (⟨f_plugs, f_scripts, f_timeout, f_acts, f_toBuf, f_fromBuf, f_xmStr, f_xmOffs, f_xmResult, f_xmUsed, [], f_nextUid, f_shortCircuitDelay, f_wake, f_connected, f_retryCount, f_lastRetry, f_conn, f_loggedIn, f_fd, f_naddr, f_cur, f_tstate, f_tcmd, f_statConnects, f_statActions, f_isPipe, f_cpid, f_pingPeriod, f_lastPing, f_fromSize⟩ : Dev)) s := by
  unfold enqueueLogin withArgs loginAction
  dsimp only

theorem enqueueLogin_wa (d : Dev) (s : Store) : enqueueLogin (withArgs d s) = withArgs (enqueueLogin d) s := by
  unfold enqueueLogin withArgs loginAction
  rfl

theorem connectDev_wx {f_plugs f_scripts f_timeout f_acts f_toBuf f_fromBuf f_xmStr f_xmOffs f_xmResult f_xmUsed f_nextUid f_shortCircuitDelay f_wake f_connected f_retryCount f_lastRetry f_conn f_loggedIn f_fd f_naddr f_cur f_tstate f_tcmd f_statConnects f_statActions f_isPipe f_cpid f_pingPeriod f_lastPing f_fromSize} {env sys ab} (s : Store) :
    connectDev (⟨(⟨f_plugs, f_scripts, f_timeout, f_acts, f_toBuf, f_fromBuf, f_xmStr, f_xmOffs, f_xmResult, f_xmUsed, s, f_nextUid, f_shortCircuitDelay, f_wake, f_connected, f_retryCount, f_lastRetry, f_conn, f_loggedIn, f_fd, f_naddr, f_cur, f_tstate, f_tcmd, f_statConnects, f_statActions, f_isPipe, f_cpid, f_pingPeriod, f_lastPing, f_fromSize⟩ : Dev), env, sys, ab⟩ : CS) = (connectDev (⟨(⟨f_plugs, f_scripts, f_timeout, f_acts, f_toBuf, f_fromBuf, f_xmStr, f_xmOffs, f_xmResult, f_xmUsed, [], f_nextUid, f_shortCircuitDelay, f_wake, f_connected, f_retryCount, f_lastRetry, f_conn, f_loggedIn, f_fd, f_naddr, f_cur, f_tstate, f_tcmd, f_statConnects, f_statActions, f_isPipe, f_cpid, f_pingPeriod, f_lastPing, f_fromSize⟩ : Dev), env, sys, ab⟩ : CS)).withArgs s := by
  unfold connectDev
  dsimp only
  split
  · rw [pipeConnect_wx]
    generalize pipeConnect _ = r
    simp only [CS.withArgs]
    by_cases hc : (r.2 && !r.1.aborted) = true
    · simp only [hc, ↓reduceIte, enqueueLogin_wa]
    · simp only [hc, Bool.false_eq_true, ↓reduceIte]
  · rw [tcpConnect_wx]
    generalize tcpConnect _ = r
    simp only [CS.withArgs]
    by_cases hc : (r.2 && !r.1.aborted) = true
    · simp only [hc, ↓reduceIte, enqueueLogin_wa]
    · simp only [hc, Bool.false_eq_true, ↓reduceIte]

theorem connectDev_wa (c : CS) (s : Store) : connectDev (c.withArgs s) = (connectDev c).withArgs s := by
  obtain ⟨⟨f_plugs, f_scripts, f_timeout, f_acts, f_toBuf, f_fromBuf, f_xmStr, f_xmOffs, f_xmResult, f_xmUsed, f_args, f_nextUid, f_shortCircuitDelay, f_wake, f_connected, f_retryCount, f_lastRetry, f_conn, f_loggedIn, f_fd, f_naddr, f_cur, f_tstate, f_tcmd, f_statConnects, f_statActions, f_isPipe, f_cpid, f_pingPeriod, f_lastPing, f_fromSize⟩, env, sys, ab⟩ := c
  show connectDev (⟨(⟨f_plugs, f_scripts, f_timeout, f_acts, f_toBuf, f_fromBuf, f_xmStr, f_xmOffs, f_xmResult, f_xmUsed, s, f_nextUid, f_shortCircuitDelay, f_wake, f_connected, f_retryCount, f_lastRetry, f_conn, f_loggedIn, f_fd, f_naddr, f_cur, f_tstate, f_tcmd, f_statConnects, f_statActions, f_isPipe, f_cpid, f_pingPeriod, f_lastPing, f_fromSize⟩ : Dev), env, sys, ab⟩ : CS) = (connectDev (⟨(⟨f_plugs, f_scripts, f_timeout, f_acts, f_toBuf, f_fromBuf, f_xmStr, f_xmOffs, f_xmResult, f_xmUsed, f_args, f_nextUid, f_shortCircuitDelay, f_wake, f_connected, f_retryCount, f_lastRetry, f_conn, f_loggedIn, f_fd, f_naddr, f_cur, f_tstate, f_tcmd, f_statConnects, f_statActions, f_isPipe, f_cpid, f_pingPeriod, f_lastPing, f_fromSize⟩ : Dev), env, sys, ab⟩ : CS)).withArgs s
  rw [connectDev_wx s, connectDev_wx f_args]
  rfl

theorem disconnectDev_wa (c : CS) (s : Store) : disconnectDev (c.withArgs s) = (disconnectDev c).withArgs s := by
  unfold disconnectDev CS.withArgs withArgs
  dsimp only
  repeat' split
  all_goals first | rfl | simp_all

/-- `_reconnect` after the optional `_disconnect` -/
def rcTail (c : CS) (tmo : Option Time) : CS × Option Time :=
  match timeToReconnect c.dev c.env.now with
  | (true, _) => (connectDev c, tmo)
  | (false, some left) => (c, upd tmo left)
  | (false, none) => (c, tmo)

theorem reconnectDev_eq (c : CS) (tmo : Option Time) :
    reconnectDev c tmo = rcTail (if c.dev.conn != 0 then disconnectDev c else c) tmo := rfl

theorem rcTail_wa (c : CS) (tmo : Option Time) (s : Store) :
    rcTail (c.withArgs s) tmo = ((rcTail c tmo).1.withArgs s, (rcTail c tmo).2) := by
  unfold rcTail
  have h2 : timeToReconnect (c.withArgs s).dev (c.withArgs s).env.now = timeToReconnect c.dev c.env.now := rfl
  rw [h2]
  split
  · dsimp only; rw [connectDev_wa]
  · rfl
  · rfl

theorem reconnectDev_wa (c : CS) (tmo : Option Time) (s : Store) :
    reconnectDev (c.withArgs s) tmo = ((reconnectDev c tmo).1.withArgs s, (reconnectDev c tmo).2) := by
  rw [reconnectDev_eq, reconnectDev_eq]
  have h1 : (c.withArgs s).dev.conn = c.dev.conn := rfl
  rw [h1]
  split
  · rw [disconnectDev_wa, rcTail_wa]
  · rw [rcTail_wa]

theorem finishConnectOne_wa (c : CS) (s : Store) :
    finishConnectOne (c.withArgs s) = ((finishConnectOne c).1.withArgs s, (finishConnectOne c).2) := by
  obtain ⟨⟨f_plugs, f_scripts, f_timeout, f_acts, f_toBuf, f_fromBuf, f_xmStr, f_xmOffs, f_xmResult, f_xmUsed, f_args, f_nextUid, f_shortCircuitDelay, f_wake, f_connected, f_retryCount, f_lastRetry, f_conn, f_loggedIn, f_fd, f_naddr, f_cur, f_tstate, f_tcmd, f_statConnects, f_statActions, f_isPipe, f_cpid, f_pingPeriod, f_lastPing, f_fromSize⟩, env, sys, ab⟩ := c
  show finishConnectOne (⟨(⟨f_plugs, f_scripts, f_timeout, f_acts, f_toBuf, f_fromBuf, f_xmStr, f_xmOffs, f_xmResult, f_xmUsed, s, f_nextUid, f_shortCircuitDelay, f_wake, f_connected, f_retryCount, f_lastRetry, f_conn, f_loggedIn, f_fd, f_naddr, f_cur, f_tstate, f_tcmd, f_statConnects, f_statActions, f_isPipe, f_cpid, f_pingPeriod, f_lastPing, f_fromSize⟩ : Dev), env, sys, ab⟩ : CS) = ((finishConnectOne (⟨(⟨f_plugs, f_scripts, f_timeout, f_acts, f_toBuf, f_fromBuf, f_xmStr, f_xmOffs, f_xmResult, f_xmUsed, f_args, f_nextUid, f_shortCircuitDelay, f_wake, f_connected, f_retryCount, f_lastRetry, f_conn, f_loggedIn, f_fd, f_naddr, f_cur, f_tstate, f_tcmd, f_statConnects, f_statActions, f_isPipe, f_cpid, f_pingPeriod, f_lastPing, f_fromSize⟩ : Dev), env, sys, ab⟩ : CS)).1.withArgs s, (finishConnectOne (⟨(⟨f_plugs, f_scripts, f_timeout, f_acts, f_toBuf, f_fromBuf, f_xmStr, f_xmOffs, f_xmResult, f_xmUsed, f_args, f_nextUid, f_shortCircuitDelay, f_wake, f_connected, f_retryCount, f_lastRetry, f_conn, f_loggedIn, f_fd, f_naddr, f_cur, f_tstate, f_tcmd, f_statConnects, f_statActions, f_isPipe, f_cpid, f_pingPeriod, f_lastPing, f_fromSize⟩ : Dev), env, sys, ab⟩ : CS)).2)
  rw [finishConnectOne_wx s, finishConnectOne_wx f_args]
  rfl

theorem telnetFilter_wa (d : Dev) (bs : Bytes) (s : Store) : telnetFilter (withArgs d s) bs = withArgs (telnetFilter d bs) s := by
  unfold telnetFilter withArgs
  rfl

theorem closeFd_wa (c : CS) (s : Store) : closeFd (c.withArgs s) = (closeFd c).withArgs s := by
  unfold closeFd
  have h : (c.withArgs s).dev.fd = c.dev.fd := rfl
  rw [h]
  split <;> rfl

theorem hrClose_wa (c : CS) (s : Store) : hrClose (c.withArgs s) = (hrClose c).withArgs s := by
  unfold hrClose finishConnectFail
  rw [closeFd_wa]
  generalize closeFd c = c1
  have h1 : (c1.withArgs s).dev.cur = c1.dev.cur := rfl
  have h2 : (c1.withArgs s).dev.naddr = c1.dev.naddr := rfl
  rw [h1, h2]
  split
  · rfl
  · rename_i i _
    dsimp only
    have hw := connectWalk_wa c1.dev.naddr { c1 with dev := { c1.dev with cur := aiNext c1.dev.naddr i } } s
    have e : ({ c1.withArgs s with dev := { (c1.withArgs s).dev with cur := aiNext c1.dev.naddr i } } : CS) =
        ({ c1 with dev := { c1.dev with cur := aiNext c1.dev.naddr i } } : CS).withArgs s := rfl
    rw [e, hw]
    generalize connectWalk c1.dev.naddr _ = r
    have h3 : (r.withArgs s).dev.cur = r.dev.cur := rfl
    rw [h3]
    split <;> rfl

theorem hrRead_wa (c : CS) (s : Store) : hrRead (c.withArgs s) = ((hrRead c).1.withArgs s, (hrRead c).2) := by
  unfold hrRead
  have h1 : (c.withArgs s).env = c.env := rfl
  rw [h1]
  split
  · split
    · rfl
    · have h2 : (c.withArgs s).dev.isPipe = c.dev.isPipe := rfl
      rw [h2]
      split
      · rfl
      · simp only [CS.withArgs, telnetFilter_wa]
  · rfl
  · rfl

theorem clipRead_wa (c : CS) (s : Store) : clipRead (c.withArgs s) = (clipRead c).withArgs s := by
  unfold clipRead
  have h1 : (c.withArgs s).env = c.env := rfl
  rw [h1]
  split <;> rfl

theorem hrWrite_wa (c : CS) (s : Store) : hrWrite (c.withArgs s) = ((hrWrite c).1.withArgs s, (hrWrite c).2) := by
  unfold hrWrite
  have h1 : (c.withArgs s).dev.conn = c.dev.conn := rfl
  rw [h1]
  split
  · have hp : (c.withArgs s).dev.isPipe = c.dev.isPipe := rfl
    rw [hp]
    split
    · rfl
    dsimp only
    rw [finishConnectOne_wa]
    generalize finishConnectOne c = r
    by_cases hr : r.2 = true
    · simp only [hr, ↓reduceIte]
      have h2 : (r.1.withArgs s).dev.conn = r.1.dev.conn := rfl
      rw [h2]
      split
      · rfl
      · split
        · simp only [CS.withArgs, enqueueLogin_wa]
        · rfl
    · simp only [hr, Bool.false_eq_true, ↓reduceIte]
      rw [hrClose_wa]
      have h2 : ((hrClose r.1).withArgs s).dev.conn = (hrClose r.1).dev.conn := rfl
      rw [h2]
      split
      · rfl
      · split
        · simp only [CS.withArgs, enqueueLogin_wa]
        · rfl
  · have h2 : (c.withArgs s).dev.toBuf = c.dev.toBuf := rfl
    have h3 : (c.withArgs s).env = c.env := rfl
    rw [h2, h3]
    split
    · rfl
    · split
      · split <;> rfl
      · rfl

theorem handleReady_wa (c : CS) (s : Store) : handleReady (c.withArgs s) = ((handleReady c).1.withArgs s, (handleReady c).2) := by
  rw [handleReady_eq, handleReady_eq]
  unfold handleReady'
  have h1 : (c.withArgs s).dev.conn = c.dev.conn := rfl
  have h2 : (c.withArgs s).env = c.env := rfl
  have h3 : (c.withArgs s).dev.fd = c.dev.fd := rfl
  rw [h1, h2, h3]
  dsimp only
  split
  · rfl
  split
  · rfl
  split
  · rfl
  by_cases hw : (c.env.revents &&& 2 != 0) = true
  · simp only [hw, ↓reduceIte]
    rw [hrWrite_wa]
    generalize hrWrite c = w
    dsimp only
    split
    · rfl
    split
    · rfl
    split
    · rw [clipRead_wa, hrRead_wa]
    · rfl
  · simp only [hw, Bool.false_eq_true, ↓reduceIte]
    split
    · rw [clipRead_wa, hrRead_wa]
    · rfl

theorem ppReady_wa (d : Dev) (env : Env) (s : Store) :
    ppReady (withArgs d s) env = ((ppReady d env).1.withArgs s, (ppReady d env).2) := by
  unfold ppReady
  dsimp only
  have h1 : (withArgs d s).fd = d.fd := rfl
  rw [h1]
  generalize (if d.fd.isSome = true then env.revents else 0) = flags
  split
  · exact handleReady_wa { dev := d, env := { env with revents := flags }, sys := [] } s
  · rfl

theorem ppReconnect_wa (c : CS) (ioerr : Bool) (s : Store) :
    ppReconnect (c.withArgs s) ioerr = ((ppReconnect c ioerr).1.withArgs s, (ppReconnect c ioerr).2) := by
  unfold ppReconnect
  have h1 : (c.withArgs s).dev.conn = c.dev.conn := rfl
  rw [h1]
  split
  · rw [reconnectDev_wa]
  · rfl

theorem ppPing_wa (c : CS) (now : Time) (tmo : Option Time) (s : Store) :
    ppPing (c.withArgs s) now tmo = ((ppPing c now tmo).1.withArgs s, (ppPing c now tmo).2) := by
  unfold ppPing CS.withArgs withArgs pingAction loginAction
  dsimp only
  repeat' split
  all_goals first | rfl | simp_all

theorem failAll_wa (rest : List Action) (c : CS) (a : Action) (o : Oracle) (out : List Out) (tmo : Option Time) (s : Store) :
    failAll rest (c.withArgs s) a o out tmo =
      ((failAll rest c a o out tmo).1.withArgs s, (failAll rest c a o out tmo).2) := by
  have e := reconnectDev_wa { c with dev := { c.dev with acts := [], xmStr := none, xmResult := false, xmUsed := false } } tmo s
  by_cases hc : (c.dev.conn == 2) = true
  · have hc' : ((c.withArgs s).dev.conn == 2) = true := hc
    unfold failAll
    dsimp only
    rw [if_pos hc', if_pos hc]
    change ((reconnectDev (CS.withArgs { c with dev := { c.dev with acts := [], xmStr := none, xmResult := false, xmUsed := false } } s) tmo).1, o, _,
      (reconnectDev (CS.withArgs { c with dev := { c.dev with acts := [], xmStr := none, xmResult := false, xmUsed := false } } s) tmo).2) = _
    rw [e]
  · have hc' : ¬ ((c.withArgs s).dev.conn == 2) = true := hc
    unfold failAll
    dsimp only
    rw [if_neg hc', if_neg hc]
    rfl

theorem onTimeout_wa (rest : List Action) (c : CS) (a : Action) (o : Oracle) (out : List Out) (tmo : Option Time) (s : Store) :
    onTimeout rest (c.withArgs s) a o out tmo =
      ((onTimeout rest c a o out tmo).1.withArgs s, (onTimeout rest c a o out tmo).2) := by
  unfold onTimeout
  dsimp only
  have h1 : (c.withArgs s).dev.conn = c.dev.conn := rfl
  have h2 : (c.withArgs s).dev.loggedIn = c.dev.loggedIn := rfl
  have h3 : (c.withArgs s).dev.fromBuf = c.dev.fromBuf := rfl
  rw [h1, h2, h3]
  generalize (if a.telemetry = true then
      (if (c.dev.conn != 2) = true then [Out.telemetry a.clientId (str "connect(dev): timeout")]
       else teleMem a.clientId "recv(dev): '" c.dev.fromBuf) else []) = tele
  split
  · rfl
  · rw [failAll_wa]

/-! ### `_process_action`, two runs -/

/-- the shape of the two-run lemmas at `_process_action` level -/
def PARel (Q : Bytes → Bool) (x x' : PA) : Prop := ∃ t', x' = (x.1.withArgs t', x.2) ∧ SAgree Q x.1.dev.args t'

def ActsOK (Q : Bytes → Bool) (acts : List Action) : Prop := ∀ a ∈ acts, ActOK Q a

def KRel (Q : Bytes → Bool) (k : CS → Oracle → List Out → Option Time → PA) : Prop :=
  ∀ c o out tmo s', SAgree Q c.dev.args s' → QOn Q c.dev → ActsOK Q c.dev.acts →
    PARel Q (k c o out tmo) (k (c.withArgs s') o out tmo)

theorem failAll_args (rest c a o out tmo) : (failAll rest c a o out tmo).1.dev.args = c.dev.args := by
  have hr := reconnectDev_devFrame { c with dev := { c.dev with acts := [], xmStr := none, xmResult := false, xmUsed := false } } tmo
  unfold failAll
  dsimp only
  split
  · exact hr.args
  · rfl

theorem onTimeout_args (rest c a o out tmo) : (onTimeout rest c a o out tmo).1.dev.args = c.dev.args := by
  unfold onTimeout
  dsimp only
  generalize (if a.telemetry = true then
      (if (c.dev.conn != 2) = true then [Out.telemetry a.clientId (str "connect(dev): timeout")]
       else teleMem a.clientId "recv(dev): '" c.dev.fromBuf) else []) = tele
  split
  · rfl
  · exact failAll_args ..

theorem advance_actOK (Q : Bytes → Bool) (a : Action) (h : ActOK Q a) : ActOK Q (advance a) := by
  unfold advance
  dsimp only
  split
  · intro e he; exact h e (List.mem_of_mem_drop he)
  · exact h.setTop _ (h.top.congr rfl rfl)

theorem stamp_actOK (Q : Bytes → Bool) (now : Time) (a : Action) (h : ActOK Q a) : ActOK Q (stamp now a) := by
  unfold stamp; split
  · exact h.of_exec rfl
  · exact h

theorem onRunOk_rel (Q : Bytes → Bool) (k rest c q out tmo) (s' t' : Store) (hk : KRel Q k)
    (hS : SAgree Q q.dev.args t') (hQ : QOn Q q.dev) (hq : ActOK Q q.act) (hrest : ActsOK Q rest) :
    PARel Q (onRunOk k rest c q out tmo) (onRunOk k rest (c.withArgs s') (q.withArgs t') out tmo) := by
  unfold onRunOk
  dsimp only
  have ha := advance_actOK Q q.act hq
  by_cases hc : (advance q.act).exec.isEmpty = true
  · have hc' : (advance (q.withArgs t').act).exec.isEmpty = true := hc
    rw [if_pos hc', if_pos hc]
    exact hk { c with dev := { q.dev with acts := rest, loggedIn := q.dev.loggedIn || (advance q.act).com == 0, statActions := q.dev.statActions + 1, xmStr := none, xmResult := false, xmUsed := false } }
      q.oracle _ tmo t' hS hQ hrest
  · have hc' : ¬ (advance (q.withArgs t').act).exec.isEmpty = true := hc
    rw [if_neg hc', if_neg hc]
    exact hk { c with dev := { q.dev with acts := advance q.act :: rest } } q.oracle out tmo t' hS hQ
      (by intro b hb; simp only [List.mem_cons] at hb; rcases hb with hb | hb
          · subst hb; exact ha
          · exact hrest b hb)

theorem onRunTail_rel (Q : Bytes → Bool) (k rest c q out tmo left) (s' t' : Store) (hk : KRel Q k)
    (hS : SAgree Q q.dev.args t') (hQ : QOn Q q.dev) (hq : ActOK Q q.act) (hrest : ActsOK Q rest) :
    PARel Q (onRunTail k rest c q out tmo left) (onRunTail k rest (c.withArgs s') (q.withArgs t') out tmo left) := by
  unfold onRunTail
  dsimp only
  by_cases h1 : hasAbort q.out = true
  · have h1' : hasAbort (q.withArgs t').out = true := h1
    rw [if_pos h1', if_pos h1]
    exact ⟨t', rfl, hS⟩
  · have h1' : ¬ hasAbort (q.withArgs t').out = true := h1
    rw [if_neg h1', if_neg h1]
    by_cases h2 : (!q.finished) = true
    · have h2' : (!(q.withArgs t').finished) = true := h2
      rw [if_pos h2', if_pos h2]
      exact ⟨t', rfl, hS⟩
    · have h2' : ¬ (!(q.withArgs t').finished) = true := h2
      rw [if_neg h2', if_neg h2]
      by_cases h3 : (q.act.errnum == ActErr.success) = true
      · have h3' : ((q.withArgs t').act.errnum == ActErr.success) = true := h3
        rw [if_pos h3', if_pos h3]
        exact onRunOk_rel Q k rest c q _ tmo s' t' hk hS hQ hq hrest
      · have h3' : ¬ ((q.withArgs t').act.errnum == ActErr.success) = true := h3
        rw [if_neg h3', if_neg h3]
        have e := failAll_wa rest { c with dev := q.dev } q.act q.oracle (out ++ q.out) tmo t'
        refine ⟨t', e, ?_⟩
        rw [failAll_args]; exact hS

theorem innerLoop_plugs (now fuel d a o acc) : (innerLoop now fuel d a o acc).dev.plugs = d.plugs := by
  induction fuel generalizing d a o acc with
  | zero => exact processStmt_plugs d a o now
  | succ n ih =>
    rw [innerLoop_succ]
    unfold innerStep
    split
    · rw [ih]; exact processStmt_plugs d a o now
    · exact processStmt_plugs d a o now

theorem onRun_rel (Q : Bytes → Bool) (k rest c a o out tmo left) (s' : Store) (hk : KRel Q k)
    (hS : SAgree Q c.dev.args s') (hQ : QOn Q c.dev) (ha : ActOK Q a) (hrest : ActsOK Q rest) :
    PARel Q (onRun k rest c a o out tmo left) (onRun k rest (c.withArgs s') a o out tmo left) := by
  rw [onRun_eq, onRun_eq]
  have hil := innerLoop_rel Q c.env.now (loopBound a) { c.dev with wake := none } a o [] s' hS hQ ha
  obtain ⟨⟨t', h1, h2⟩, h3⟩ := hil
  have hp := innerLoop_plugs c.env.now (loopBound a) { c.dev with wake := none } a o []
  have e : innerLoop (c.withArgs s').env.now (loopBound a) { (c.withArgs s').dev with wake := none } a o []
      = (innerLoop c.env.now (loopBound a) { c.dev with wake := none } a o []).withArgs t' := h1
  rw [e]
  exact onRunTail_rel Q k rest c _ out tmo left s' t' hk h2 (hQ.congr hp) h3 hrest

/-- `_process_action` depends on the store only through the `Q`-entries -/
theorem processActionF_rel (Q : Bytes → Bool) (fuel : Nat) : KRel Q (processActionF fuel) := by
  induction fuel with
  | zero => intro c o out tmo s' hS _ _; exact ⟨s', rfl, hS⟩
  | succ n ih =>
    intro c o out tmo s' hS hQ hacts
    unfold processActionF processActionBody
    have h0 : (c.withArgs s').aborted = c.aborted := rfl
    have h1 : (c.withArgs s').dev.acts = c.dev.acts := rfl
    rw [h0, h1]
    split
    · exact ⟨s', rfl, hS⟩
    · split
      · exact ⟨s', rfl, hS⟩
      · rename_i a0 rest hq
        dsimp only
        have h2 : (c.withArgs s').env = c.env := rfl
        have h3 : (c.withArgs s').dev.timeout = c.dev.timeout := rfl
        have h4 : (c.withArgs s').dev.conn = c.dev.conn := rfl
        rw [h2, h3, h4]
        have ha0 : ActOK Q a0 := hacts a0 (by simp [hq])
        have ha := stamp_actOK Q c.env.now a0 ha0
        have hrest : ActsOK Q rest := fun b hb => hacts b (by simp [hq, hb])
        generalize stamp c.env.now a0 = a at *
        split
        · refine ⟨s', onTimeout_wa rest c a o out tmo s', ?_⟩
          rw [onTimeout_args]; exact hS
        · split
          · exact ⟨s', rfl, hS⟩
          · exact onRun_rel Q _ rest c a o out tmo _ s' ih hS hQ ha hrest

theorem loginAction_actOK (Q : Bytes → Bool) (d : Dev) : ActOK Q (loginAction d) := by
  intro e he
  simp only [loginAction, List.mem_singleton] at he
  subst he
  constructor <;> (intro p hp; simp at hp)

theorem pingAction_actOK (Q : Bytes → Bool) (d : Dev) : ActOK Q (pingAction d) := by
  intro e he
  simp only [pingAction, List.mem_singleton] at he
  subst he
  constructor <;> (intro p hp; simp at hp)

theorem rewind_actOK (Q : Bytes → Bool) (a : Action) (h : ActOK Q a) : ActOK Q (rewind a) := by
  unfold rewind
  split
  · rename_i outer ho
    intro e he
    simp only [List.mem_singleton] at he
    subst he
    exact (h outer (List.mem_of_getLast? ho)).congr rfl rfl
  · exact h

theorem DevFrame.actsOK {Q : Bytes → Bool} {d d' : Dev} (h : DevFrame d d') (hk : ActsOK Q d.acts) : ActsOK Q d'.acts :=
  h.acts (ActOK Q) (loginAction_actOK Q d) (rewind_actOK Q) hk

/-- **two-run lemma for one device's share of `dev_post_poll`**: run with a store `s'` that agrees with the device's own
    on the entries of `Q`-nodes — `Q` containing the nodes of the device's plugs and of the plugs its queued actions
    carry — the step yields the same device (apart from the store copy), the same oracle remainder, the same callbacks
    and the same timeout; and the two resulting stores agree on `Q` again. -/
theorem postPoll_rel (Q : Bytes → Bool) (d : Dev) (env : Env) (o : Oracle) (s' : Store)
    (hS : SAgree Q d.args s') (hQ : QOn Q d) (hacts : ActsOK Q d.acts) :
    PARel Q (postPoll d env o) (postPoll (withArgs d s') env o) := by
  rw [postPoll_eq, postPoll_eq]
  unfold postPoll'
  dsimp only
  rw [ppReady_wa]
  have h1 := ppReady_devFrame d env
  generalize ppReady d env = r at *
  dsimp only
  have hab : (r.1.withArgs s').aborted = r.1.aborted := rfl
  rw [hab]
  split
  · refine ⟨s', rfl, ?_⟩
    rw [h1.args]; exact hS
  · rw [ppReconnect_wa]
    have h2 := ppReconnect_devFrame r.1 r.2
    generalize ppReconnect r.1 r.2 = r2 at *
    dsimp only
    rw [ppPing_wa]
    have h3 := ppPing_frame r2.1 env.now r2.2
    have h12 := h1.trans h2
    have h3a : ActsOK Q (ppPing r2.1 env.now r2.2).1.dev.acts := by
      have hk := h12.actsOK hacts
      rcases h3.2.2.2 with h | h
      · rw [h]; exact hk
      · rw [h]; intro a ha; simp only [List.mem_append, List.mem_singleton] at ha
        rcases ha with ha | ha
        · exact hk a ha
        · subst ha; exact pingAction_actOK Q _
    generalize ppPing r2.1 env.now r2.2 = r3 at *
    dsimp only
    unfold processAction
    have hf : passFuel (r3.1.withArgs s').dev = passFuel r3.1.dev := rfl
    rw [hf]
    have hargs : r3.1.dev.args = d.args := h3.2.2.1.trans h12.args
    have hplugs : r3.1.dev.plugs = d.plugs := h3.1.trans h12.plugs
    exact processActionF_rel Q _ r3.1 o [] r3.2 s' (by rw [hargs]; exact hS) (hQ.congr hplugs) h3a


end Pm.Dev2
