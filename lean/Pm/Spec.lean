/- pilot for C17: the static format check is sound for the dynamic formatter -/
namespace Pm.Spec

abbrev Bytes := List Nat

/-- a send string after splitting at '%' -/
inductive Tok where
  | lit (c : Nat)       -- ordinary byte
  | pct                 -- "%%"
  | str                 -- "%s"
  | bad                 -- any other conversion, or a trailing '%'
deriving DecidableEq

/-- `afterPct` = the previous byte was an unconsumed '%' -/
def toksAux : Bool → Bytes → List Tok
  | false, [] => []
  | true, [] => [.bad]
  | false, c :: r => if c = 37 then toksAux true r else .lit c :: toksAux false r
  | true, c :: r => (if c = 37 then .pct else if c = 115 then .str else .bad) :: toksAux false r

def toks (fmt : Bytes) : List Tok := toksAux false fmt

/-- `hvsprintf(fmt, arg)` as the interpreter uses it: at most one optional string argument.
    `none` = undefined behaviour -/
def render : List Tok → Option Bytes → Option Bytes
  | [], _ => some []
  | .lit c :: r, a => (render r a).map (c :: ·)
  | .pct :: r, a => (render r a).map (37 :: ·)
  | .str :: r, some arg => (render r none).map (arg ++ ·)       -- the single argument is consumed
  | .str :: _, none => none
  | .bad :: _, _ => none

/-- the static check run over every send string of every shipped specification;
    `k` = number of string arguments the context provides (0 or 1) -/
def sendSafe : List Tok → Nat → Bool
  | [], _ => true
  | .lit _ :: r, k => sendSafe r k
  | .pct :: r, k => sendSafe r k
  | .str :: r, k => k > 0 && sendSafe r (k - 1)
  | .bad :: _, _ => false

def nargs (a : Option Bytes) : Nat := if a.isSome then 1 else 0

theorem sendSafe_sound : ∀ (ts : List Tok) (arg : Option Bytes),
    sendSafe ts (nargs arg) = true → (render ts arg).isSome = true
  | [], _, _ => rfl
  | .lit c :: r, a, h => by simp only [sendSafe] at h; simpa [render] using sendSafe_sound r a h
  | .pct :: r, a, h => by simp only [sendSafe] at h; simpa [render] using sendSafe_sound r a h
  | .str :: r, some arg, h => by
    simp only [sendSafe, nargs, Option.isSome_some, if_true, Bool.and_eq_true] at h
    simpa [render] using sendSafe_sound r none (by simpa [nargs] using h.2)
  | .str :: r, none, h => by simp [sendSafe, nargs] at h
  | .bad :: r, a, h => by simp [sendSafe] at h

/-- C17 link between the kernel-decided table predicate and the interpreter: a send string that
    passes the check never drives the formatter into undefined behaviour, with or without argument
    as its context provides -/
theorem C17_send_never_ub (fmt : Bytes) (arg : Option Bytes) (h : sendSafe (toks fmt) (nargs arg) = true) :
    (render (toks fmt) arg).isSome = true := sendSafe_sound _ _ h

-- a shipped string and a forbidden one, as the table would contain them
example : sendSafe (toks [111, 110, 32, 37, 115, 13, 10]) 1 = true := by decide      -- "on %s\r\n"
example : sendSafe (toks [111, 110, 32, 37, 100, 13, 10]) 1 = false := by decide     -- "on %d\r\n"
example : sendSafe (toks [108, 111, 103, 105, 110, 32, 37, 115, 10]) 0 = false := by decide   -- "login %s\n" without argument

end Pm.Spec

