import Pm.RedfishSt
/-! helper lemmas for C19, part 8: consequences of the documented rules (`specStat`, `specPower`) -/
namespace Pm.Redfish

/-- the line `specStat` gives a single target -/
def statLine (c : Cfg) (st : St) (t : Nat) : Line :=
  if (lookup c t).isNone then .unknown t
  else match blocker c st t with
    | some (_, s) => .status t s
    | none => .status t (statOf c st t)

theorem specStat_eq (c : Cfg) (st : St) (ts : List Nat) : specStat c st ts = ts.map (statLine c st) := rfl

/-- first non-`on` entry of a root-first chain under a status assignment -/
def firstOff (f : Nat → Stat) (chain : List Nat) : Option (Nat × Stat) :=
  (chain.map fun a => (a, f a)).find? (·.2 ≠ .on)

theorem blocker_eq (c : Cfg) (st : St) (p : Nat) : blocker c st p = firstOff (statOf c st) (ancUp c p).reverse := rfl

theorem firstOff_none {f : Nat → Stat} {chain : List Nat} : firstOff f chain = none ↔ ∀ a ∈ chain, f a = .on := by
  unfold firstOff
  rw [List.find?_eq_none]
  simp

theorem firstOff_append (f : Nat → Stat) (l1 l2 : List Nat) :
    firstOff f (l1 ++ l2) = (firstOff f l1).or (firstOff f l2) := by
  unfold firstOff; rw [List.map_append, List.find?_append]

theorem firstOff_cons_off (f : Nat → Stat) (a : Nat) (l : List Nat) (h : f a ≠ .on) :
    firstOff f (a :: l) = some (a, f a) := by
  unfold firstOff; simp [List.find?_cons, h]

/-- the topmost ancestor that is not on is the blocker -/
theorem firstOff_at {c : Cfg} (hw : WF c = true) (f : Nat → Stat) {t a : Nat} (ha : a ∈ ancUp c t)
    (hoff : f a ≠ .on) (habove : ∀ b ∈ ancUp c a, f b = .on) :
    firstOff f (ancUp c t).reverse = some (a, f a) := by
  obtain ⟨pre, e, _⟩ := ancUp_suffix hw t a ha
  rw [e]
  simp only [List.reverse_append, List.reverse_cons, List.append_assoc]
  rw [firstOff_append]
  have : firstOff f (ancUp c a).reverse = none := firstOff_none.2 (by simpa using habove)
  rw [this]
  simp only [Option.none_or, List.singleton_append]
  exact firstOff_cons_off f a _ hoff

/-- what a blocker is -/
theorem firstOff_some {c : Cfg} (hw : WF c = true) (f : Nat → Stat) {t a : Nat} {s : Stat}
    (h : firstOff f (ancUp c t).reverse = some (a, s)) :
    a ∈ ancUp c t ∧ s = f a ∧ s ≠ .on ∧ ∀ b ∈ ancUp c a, f b = .on := by
  -- find the topmost non-on ancestor by looking at all of them
  have hex : ∃ a' ∈ ancUp c t, f a' ≠ .on := by
    cases hn : firstOff f (ancUp c t).reverse with
    | none => rw [hn] at h; cases h
    | some _ =>
      by_cases hh : ∀ a' ∈ (ancUp c t).reverse, f a' = .on
      · rw [firstOff_none.2 hh] at hn; cases hn
      · simp at hh; obtain ⟨a', h1, h2⟩ := hh; exact ⟨a', h1, h2⟩
  -- take one of least depth
  obtain ⟨a', ha', hoff', hmin⟩ : ∃ a' ∈ ancUp c t, f a' ≠ .on ∧ ∀ b ∈ ancUp c a', f b = .on := by
    obtain ⟨a0, h0, hf0⟩ := hex
    generalize hd : depth c a0 = d
    induction d using Nat.strongRecOn generalizing a0 with
    | _ d ih =>
      by_cases hall : ∀ b ∈ ancUp c a0, f b = .on
      · exact ⟨a0, h0, hf0, hall⟩
      · simp at hall
        obtain ⟨b, hb1, hb2⟩ := hall
        exact ih (depth c b) (by rw [← hd]; exact depth_anc_lt hw hb1) b (anc_trans hw h0 hb1) hb2 rfl
  have := firstOff_at hw f ha' hoff' hmin
  rw [this] at h
  cases h
  exact ⟨ha', rfl, hoff', hmin⟩

/-! ### rule 1: status -/
theorem specStat_blocked {c : Cfg} (hw : WF c = true) (st : St) {t a : Nat} (hk : known c t = true)
    (ha : a ∈ ancUp c t) (hoff : statOf c st a ≠ .on) (habove : ∀ b ∈ ancUp c a, statOf c st b = .on) :
    statLine c st t = .status t (statOf c st a) := by
  unfold statLine
  have : (lookup c t).isNone = false := by unfold known at hk; cases h : lookup c t <;> simp_all
  rw [this, blocker_eq, firstOff_at hw _ ha hoff habove]
  simp

theorem specStat_clear {c : Cfg} (st : St) {t : Nat} (hk : known c t = true)
    (hon : ∀ b ∈ ancUp c t, statOf c st b = .on) : statLine c st t = .status t (statOf c st t) := by
  unfold statLine
  have : (lookup c t).isNone = false := by unfold known at hk; cases h : lookup c t <;> simp_all
  rw [this, blocker_eq, firstOff_none.2 (by simpa using hon)]
  simp

/-! ### `specPower` in pieces -/
def knownT (c : Cfg) (ts : List Nat) : List Nat := ts.filter fun t => (lookup c t).isSome
def unknownLines (c : Cfg) (ts : List Nat) : List Line := (ts.filter fun t => (lookup c t).isNone).map Line.unknown
def specPhased (c : Cfg) (cmd : Cmd) (ts : List Nat) : Bool :=
  cmd == .on && (knownT c ts).any fun a => (knownT c ts).any fun b => isDesc c a b
def specOrder (c : Cfg) (ts : List Nat) : List Nat :=
  (knownT c ts).mergeSort fun a b => (ancUp c a).length ≤ (ancUp c b).length

/-- the status descendants see for ancestor `a`, given the decisions made so far -/
def seenStat (c : Cfg) (st : St) (seen : List (Nat × Stat)) (a : Nat) : Stat :=
  match seen.lookup a with | some s => s | none => statOf c st a

/-- one step of the fold in `specPower`, verbatim -/
def specStep (c : Cfg) (st : St) (cmd : Cmd) (acc : List (Nat × Stat) × List Line × St) (t : Nat) :
    List (Nat × Stat) × List Line × St :=
  let (seen, lines, cur) := acc
  let chain := (ancUp c t).reverse
  let blk := (chain.map fun a => (a, match seen.lookup a with | some s => s | none => statOf c st a)).find? (·.2 ≠ .on)
  match blk with
  | some (a, s) =>
    if cmd == .off && s == .off then (((t, Stat.off) :: seen), lines ++ [.ok t], cur)
    else (((t, s) :: seen), lines ++ [.dep t cmd s a], cur)
  | none =>
    if hostFails c t then (((t, Stat.error) :: seen), lines ++ [.status t .error], cur)
    else
      let cur' := if cmd == .on then setSt cur t true else descendantsOff c (setSt cur t false) t
      (((t, if cmd == .on then Stat.on else Stat.off) :: seen), lines ++ [.ok t], cur')

theorem specPower_eq (c : Cfg) (st : St) (cmd : Cmd) (ts : List Nat) :
    specPower c st cmd ts =
      if specPhased c cmd ts then (unknownLines c ts ++ (knownT c ts).map Line.phased, st)
      else
        let r := (specOrder c ts).foldl (specStep c st cmd) ([], [], st)
        (unknownLines c ts ++ r.2.1, r.2.2) := by
  rfl

theorem specStep_eq (c : Cfg) (st : St) (cmd : Cmd) (seen : List (Nat × Stat)) (lines : List Line) (cur : St) (t : Nat) :
    specStep c st cmd (seen, lines, cur) t =
      match firstOff (seenStat c st seen) (ancUp c t).reverse with
      | some (a, s) =>
        if cmd == .off && s == .off then (((t, Stat.off) :: seen), lines ++ [.ok t], cur)
        else (((t, s) :: seen), lines ++ [.dep t cmd s a], cur)
      | none =>
        if hostFails c t then (((t, Stat.error) :: seen), lines ++ [.status t .error], cur)
        else (((t, if cmd == .on then Stat.on else Stat.off) :: seen), lines ++ [.ok t], powerSt c cur cmd t) := by
  rfl

/-! ### rule 4: parent and child `on` together -/
theorem specPower_phased (c : Cfg) (st : St) (ts : List Nat) {a b : Nat} (ha : a ∈ ts) (hb : b ∈ ts)
    (hka : known c a = true) (hkb : known c b = true) (hd : isDesc c a b = true) :
    specPower c st .on ts = (unknownLines c ts ++ (knownT c ts).map Line.phased, st) := by
  rw [specPower_eq]
  have : specPhased c .on ts = true := by
    unfold specPhased
    simp only [beq_self_eq_true, Bool.true_and]
    rw [List.any_eq_true]
    refine ⟨a, List.mem_filter.2 ⟨ha, hka⟩, ?_⟩
    rw [List.any_eq_true]
    exact ⟨b, List.mem_filter.2 ⟨hb, hkb⟩, hd⟩
  simp [this]

/-! ### a single target -/
/-- the line `specPower` gives a single known target -/
def powerLine1 (c : Cfg) (st : St) (cmd : Cmd) (t : Nat) : Line × St :=
  match blocker c st t with
  | some (a, s) => if cmd == .off && s == .off then (.ok t, st) else (.dep t cmd s a, st)
  | none => if hostFails c t then (.status t .error, st) else (.ok t, powerSt c st cmd t)

theorem seenStat_nil (c : Cfg) (st : St) : seenStat c st [] = statOf c st := by
  funext a; rfl

theorem specPower_single {c : Cfg} (hw : WF c = true) (st : St) (cmd : Cmd) {t : Nat} (hk : known c t = true) :
    specPower c st cmd [t] = ([(powerLine1 c st cmd t).1], (powerLine1 c st cmd t).2) := by
  have hk' : (lookup c t).isSome = true := hk
  have hn : (lookup c t).isNone = false := by cases h : lookup c t <;> simp_all
  have hirr : isDesc c t t = false := by
    cases h : isDesc c t t
    · rfl
    · exact absurd (isDesc_iff.1 h) (anc_irrefl hw t)
  have hkn : knownT c [t] = [t] := by simp [knownT, hk']
  have hun : unknownLines c [t] = [] := by simp [unknownLines, hn]
  have hph : specPhased c cmd [t] = false := by simp [specPhased, hkn, hirr]
  have hord : specOrder c [t] = [t] := by simp [specOrder, hkn]
  rw [specPower_eq, hph, hun, hord]
  simp only [Bool.false_eq_true, if_false, List.foldl_cons, List.foldl_nil, List.nil_append]
  rw [specStep_eq, seenStat_nil, ← blocker_eq]
  unfold powerLine1
  cases hb : blocker c st t with
  | none =>
    simp only
    by_cases hf : hostFails c t = true <;> simp [hf]
  | some as =>
    rcases as with ⟨a, s⟩
    simp only
    split <;> simp

/-! ### rules 2, 3, 5 -/
theorem specPower_on_blocked {c : Cfg} (hw : WF c = true) (st : St) {t a : Nat} (hk : known c t = true)
    (ha : a ∈ ancUp c t) (hoff : statOf c st a ≠ .on) (habove : ∀ b ∈ ancUp c a, statOf c st b = .on) :
    specPower c st .on [t] = ([.dep t .on (statOf c st a) a], st) := by
  rw [specPower_single hw st .on hk]
  unfold powerLine1
  rw [blocker_eq, firstOff_at hw _ ha hoff habove]
  simp

theorem specPower_off_below_off {c : Cfg} (hw : WF c = true) (st : St) {t a : Nat} (hk : known c t = true)
    (ha : a ∈ ancUp c t) (hoff : statOf c st a = .off) (habove : ∀ b ∈ ancUp c a, statOf c st b = .on) :
    specPower c st .off [t] = ([.ok t], st) := by
  rw [specPower_single hw st .off hk]
  unfold powerLine1
  rw [blocker_eq, firstOff_at hw _ ha (by rw [hoff]; decide) habove, hoff]
  simp

theorem specPower_off_blocked {c : Cfg} (hw : WF c = true) (st : St) {t a : Nat} (hk : known c t = true)
    (ha : a ∈ ancUp c t) (hoff : statOf c st a = .error) (habove : ∀ b ∈ ancUp c a, statOf c st b = .on) :
    specPower c st .off [t] = ([.dep t .off .error a], st) := by
  rw [specPower_single hw st .off hk]
  unfold powerLine1
  rw [blocker_eq, firstOff_at hw _ ha (by rw [hoff]; decide) habove, hoff]
  simp

theorem specPower_off_parent {c : Cfg} (hw : WF c = true) (st : St) {p : Nat} (hk : known c p = true)
    (hon : ∀ b ∈ ancUp c p, statOf c st b = .on) (hf : hostFails c p = false) :
    (specPower c st .off [p]).1 = [.ok p] ∧ isOn (specPower c st .off [p]).2 p = false ∧
    (∀ x, isDesc c x p = true → isOn (specPower c st .off [p]).2 x = false) ∧
    (∀ x, x ≠ p → isDesc c x p = false → isOn (specPower c st .off [p]).2 x = isOn st x) := by
  rw [specPower_single hw st .off hk]
  unfold powerLine1
  rw [blocker_eq, firstOff_none.2 (by simpa using hon)]
  simp only [hf, Bool.false_eq_true, if_false]
  refine ⟨trivial, ?_, ?_, ?_⟩
  · rw [isOn_powerSt_off _ _ _ _ _ (by decide)]; simp
  · intro x hx; rw [isOn_powerSt_off _ _ _ _ _ (by decide)]; simp [hx]
  · intro x h1 h2; rw [isOn_powerSt_off _ _ _ _ _ (by decide)]; simp [h1, h2]

end Pm.Redfish
