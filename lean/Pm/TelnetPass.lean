import Pm.TelnetProof
/-! C09 at the level of a whole pass of `dev_post_poll`: what `_process_action` (any script, any fuel, any oracle)
    and the surrounding reconnect logic can do to the read side of a device. -/
namespace Pm.Dev2.Tel

/-- the connection is the same one and the read side has only lost a prefix of its pending bytes -/
structure SameConn (d d' : Dev) : Prop where
  conn : d'.conn = d.conn
  stat : d'.statConnects = d.statConnects
  view : ∃ k, rview d' = (rview d).consume k

theorem RView.read_isPipe (v : RView) (bs : Bytes) : (v.read bs).isPipe = v.isPipe := by
  unfold RView.read; split <;> rfl
theorem RView.consume_consume (v : RView) (k k' : Nat) : (v.consume k).consume k' = v.consume (k + k') := by
  simp [RView.consume, List.drop_drop]

theorem SameConn.rfl' (d : Dev) : SameConn d d := ⟨rfl, rfl, 0, (RView.consume_zero _).symm⟩

theorem SameConn.trans {a b c : Dev} (h1 : SameConn a b) (h2 : SameConn b c) : SameConn a c := by
  obtain ⟨k1, hk1⟩ := h1.view
  obtain ⟨k2, hk2⟩ := h2.view
  exact ⟨h2.conn.trans h1.conn, h2.stat.trans h1.stat, k1 + k2, by rw [hk2, hk1, RView.consume_consume]⟩

theorem SameConn.of_fields {d d' : Dev} (h1 : d'.conn = d.conn) (h2 : d'.statConnects = d.statConnects)
    (h3 : d'.isPipe = d.isPipe) (h4 : d'.tstate = d.tstate) (h5 : d'.tcmd = d.tcmd) (h6 : d'.fromBuf = d.fromBuf) :
    SameConn d d' :=
  ⟨h1, h2, 0, by rw [RView.consume_zero]; unfold rview; rw [h3, h4, h5, h6]⟩

theorem SameConn.isPipe {d d' : Dev} (h : SameConn d d') : d'.isPipe = d.isPipe := by
  obtain ⟨k, hk⟩ := h.view; exact congrArg RView.isPipe hk
theorem SameConn.tstate {d d' : Dev} (h : SameConn d d') : d'.tstate = d.tstate := by
  obtain ⟨k, hk⟩ := h.view; exact congrArg RView.st hk
theorem SameConn.tcmd {d d' : Dev} (h : SameConn d d') : d'.tcmd = d.tcmd := by
  obtain ⟨k, hk⟩ := h.view; exact congrArg RView.cmd hk
theorem SameConn.fromBuf {d d' : Dev} (h : SameConn d d') : ∃ k, d'.fromBuf = d.fromBuf.drop k := by
  obtain ⟨k, hk⟩ := h.view; exact ⟨k, congrArg RView.buf hk⟩

@[simp] theorem setArgs_statConnects (d id as) : (setArgs d id as).statConnects = d.statConnects := rfl
@[simp] theorem setArgs_isPipe (d id as) : (setArgs d id as).isPipe = d.isPipe := rfl
@[simp] theorem setArgs_tstate (d id as) : (setArgs d id as).tstate = d.tstate := rfl
@[simp] theorem setArgs_tcmd (d id as) : (setArgs d id as).tcmd = d.tcmd := rfl
@[simp] theorem setArgs_fromBuf (d id as) : (setArgs d id as).fromBuf = d.fromBuf := rfl

theorem stmtExpect_same (d a o pat) : SameConn d (stmtExpect d a o pat).dev :=
  ⟨stmtExpect_conn d a o pat, by unfold stmtExpect; grind, stmtExpect_view d a o pat⟩
theorem stmtSend_same (d a o e fmt) : SameConn d (stmtSend d a o e fmt).dev := by
  unfold stmtSend; apply SameConn.of_fields <;> grind [setTop]
theorem stmtDelay_same (d a o e now us) : SameConn d (stmtDelay d a o e now us).dev := by
  unfold stmtDelay; apply SameConn.of_fields <;> grind [setTop]
theorem stmtSetplugstate_same (d a o e l p s i) : SameConn d (stmtSetplugstate d a o e l p s i).dev := by
  unfold stmtSetplugstate; apply SameConn.of_fields <;> grind [setArgs]
theorem stmtSetresult_same (d a o p s i) : SameConn d (stmtSetresult d a o p s i).dev := by
  unfold stmtSetresult; apply SameConn.of_fields <;> grind [setArgs]
theorem stmtForeach_same (d a o e b n) : SameConn d (stmtForeach d a o e b n).dev := by
  unfold stmtForeach; apply SameConn.of_fields <;> grind [setTop]
theorem stmtIf_same (d a o e b n) : SameConn d (stmtIf d a o e b n).dev := by
  unfold stmtIf; apply SameConn.of_fields <;> grind [setTop]

theorem processStmt_same (d : Dev) (a : Action) (o : Oracle) (now : Time) : SameConn d (processStmt d a o now).dev := by
  unfold processStmt
  dsimp only
  split
  · exact SameConn.rfl' d
  all_goals first
    | exact stmtExpect_same _ _ _ _
    | exact stmtSend_same _ _ _ _ _
    | exact stmtDelay_same _ _ _ _ _ _
    | exact stmtSetplugstate_same _ _ _ _ _ _ _ _
    | exact stmtSetresult_same _ _ _ _ _ _
    | exact stmtForeach_same _ _ _ _ _ _
    | exact stmtIf_same _ _ _ _ _ _

theorem innerLoop_same (now : Time) (fuel : Nat) (d : Dev) (a : Action) (o : Oracle) (acc : List Out) :
    SameConn d (innerLoop now fuel d a o acc).dev := by
  induction fuel generalizing d a o acc with
  | zero => simpa [innerLoop] using processStmt_same d a o now
  | succ n ih =>
    unfold innerLoop; dsimp only
    have hp := processStmt_same d a o now
    split
    · exact hp.trans (ih _ _ _ _)
    · simpa using hp

/-! ### `stat_successful_connects` tells connections apart -/

theorem tcpConnect_stat (c : CS) (h0 : c.dev.conn = 0) :
    (tcpConnect c).1.dev.statConnects = c.dev.statConnects ∧ (tcpConnect c).1.dev.conn ≠ 2 ∨
    (tcpConnect c).1.dev.statConnects = c.dev.statConnects + 1 ∧ (tcpConnect c).1.dev.conn = 2 := by
  rcases tcpConnect_tel c with ⟨⟨_, _, a3⟩, h | h | h⟩ | ⟨b1, _, _, b4⟩
  · left; exact ⟨a3, by omega⟩
  · left; exact ⟨a3, by omega⟩
  · left; exact ⟨a3, by omega⟩
  · right; exact ⟨b4, b1⟩

theorem pipeConnect_stat (c : CS) (h0 : c.dev.conn = 0) :
    (pipeConnect c).1.dev.statConnects = c.dev.statConnects ∧ (pipeConnect c).1.dev.conn ≠ 2 ∨
    (pipeConnect c).1.dev.statConnects = c.dev.statConnects + 1 ∧ (pipeConnect c).1.dev.conn = 2 := by
  unfold pipeConnect
  simp only [h0, bne_self_eq_false, Bool.false_eq_true, ↓reduceIte]
  split
  · left; exact ⟨rfl, by simp [h0]⟩
  split
  · right; exact ⟨rfl, rfl⟩
  · left; exact ⟨rfl, by simp [h0]⟩

theorem connectDev_stat (c : CS) (h0 : c.dev.conn = 0) :
    (connectDev c).dev.statConnects = c.dev.statConnects ∧ (connectDev c).dev.conn ≠ 2 ∨
    (connectDev c).dev.statConnects = c.dev.statConnects + 1 ∧ (connectDev c).dev.conn = 2 := by
  rw [connectDev_eq]
  have ht := tcpConnect_stat (connectPrep c) h0
  have hpp := pipeConnect_stat (connectPrep c) h0
  have e1 : (connectPrep c).dev.statConnects = c.dev.statConnects := rfl
  rw [e1] at ht hpp
  generalize tcpConnect (connectPrep c) = rt at *
  generalize pipeConnect (connectPrep c) = rp at *
  cases hp : c.dev.isPipe
  · simp only [Bool.false_eq_true, ↓reduceIte]
    split
    · simpa [enqueueLogin] using ht
    · exact ht
  · simp only [↓reduceIte]
    split
    · simpa [enqueueLogin] using hpp
    · exact hpp

theorem disconnectDev_stat (c : CS) : (disconnectDev c).dev.statConnects = c.dev.statConnects := by
  unfold disconnectDev
  dsimp only
  cases c.dev.fd <;> cases c.dev.isPipe <;> cases c.dev.cpid <;> simp

theorem reconnectDev_stat (c : CS) (tmo : Option Time) :
    (reconnectDev c tmo).1.dev.statConnects = c.dev.statConnects ∧ (reconnectDev c tmo).1.dev.conn ≠ 2 ∨
    (reconnectDev c tmo).1.dev.statConnects = c.dev.statConnects + 1 ∧ (reconnectDev c tmo).1.dev.conn = 2 := by
  unfold reconnectDev
  dsimp only
  have h0 : (if (c.dev.conn != 0) = true then disconnectDev c else c).dev.conn = 0 := by
    split
    · exact disconnectDev_conn c
    · rename_i h; simpa using h
  have hs : (if (c.dev.conn != 0) = true then disconnectDev c else c).dev.statConnects = c.dev.statConnects := by
    split
    · exact disconnectDev_stat c
    · rfl
  generalize (if (c.dev.conn != 0) = true then disconnectDev c else c) = c1 at *
  split
  · simp only; rw [← hs]; exact connectDev_stat c1 h0
  · left; exact ⟨hs, by rw [h0]; simp⟩
  · left; exact ⟨hs, by rw [h0]; simp⟩

/-- the old connection is gone: nothing pending, and if a tcp connection is up it is a new one with the decoder at rest -/
structure Reconn (d d' : Dev) : Prop where
  empty : d'.fromBuf = []
  isPipe : d'.isPipe = d.isPipe
  fresh : FreshIfUp d'
  mono : d.statConnects ≤ d'.statConnects
  up : d'.conn = 2 → d.statConnects < d'.statConnects

/-- what a pass can do to the read side -/
def PassRel (d d' : Dev) : Prop := SameConn d d' ∨ Reconn d d'

theorem PassRel.after_same {a b c : Dev} (h1 : SameConn a b) (h2 : PassRel b c) : PassRel a c := by
  rcases h2 with h2 | h2
  · exact .inl (h1.trans h2)
  · exact .inr ⟨h2.empty, h2.isPipe.trans h1.isPipe, h2.fresh, by rw [← h1.stat]; exact h2.mono,
      fun hc => by rw [← h1.stat]; exact h2.up hc⟩

theorem Reconn.then {a b c : Dev} (h1 : Reconn a b) (h2 : PassRel b c) : Reconn a c := by
  rcases h2 with h2 | h2
  · obtain ⟨k, hk⟩ := h2.fromBuf
    refine ⟨by rw [hk, h1.empty]; simp, h2.isPipe.trans h1.isPipe, ?_, by rw [h2.stat]; exact h1.mono,
      fun hc => by rw [h2.stat]; exact h1.up (by rw [← h2.conn]; exact hc)⟩
    intro hc hp
    rw [h2.tstate, h2.tcmd]
    exact h1.fresh (by rw [← h2.conn]; exact hc) (by rw [← h2.isPipe]; exact hp)
  · exact ⟨h2.empty, h2.isPipe.trans h1.isPipe, h2.fresh, Nat.le_trans h1.mono h2.mono,
      fun hc => Nat.lt_of_le_of_lt h1.mono (h2.up hc)⟩

theorem failAll_passRel (rest : List Action) (c : CS) (a : Action) (o : Oracle) (out : List Out) (tmo : Option Time) :
    PassRel c.dev (failAll rest c a o out tmo).1.dev := by
  unfold failAll
  dsimp only
  split
  · rename_i h2
    have hne : ({ c with dev := { c.dev with acts := [], xmStr := none, xmResult := false, xmUsed := false } } : CS).dev.conn ≠ 0 := by
      have : c.dev.conn = 2 := by simpa using h2
      show c.dev.conn ≠ 0
      omega
    obtain ⟨h1, _, h3, h4⟩ := reconnectDev_clean { c with dev := { c.dev with acts := [], xmStr := none, xmResult := false, xmUsed := false } } tmo hne
    have hs := reconnectDev_stat { c with dev := { c.dev with acts := [], xmStr := none, xmResult := false, xmUsed := false } } tmo
    refine .inr ⟨h1, h3, h4, ?_, ?_⟩
    · show c.dev.statConnects ≤ _
      rcases hs with hs | hs
      · exact Nat.le_of_eq hs.1.symm
      · rw [hs.1]; exact Nat.le_succ _
    · intro hc
      show c.dev.statConnects < _
      rcases hs with hs | hs
      · exact absurd hc hs.2
      · rw [hs.1]; exact Nat.lt_succ_self _
  · exact .inl (SameConn.of_fields rfl rfl rfl rfl rfl rfl)

theorem onTimeout_passRel (rest : List Action) (c : CS) (a : Action) (o : Oracle) (out : List Out) (tmo : Option Time) :
    PassRel c.dev (onTimeout rest c a o out tmo).1.dev := by
  unfold onTimeout
  dsimp only
  generalize (if a.telemetry = true then
      (if (c.dev.conn != 2) = true then [Out.telemetry a.clientId (str "connect(dev): timeout")]
       else teleMem a.clientId "recv(dev): '" c.dev.fromBuf) else []) = tele
  cases hh : hasAbort tele
  · simp only [Bool.false_eq_true, ↓reduceIte]; exact failAll_passRel _ _ _ _ _ _
  · simp only [↓reduceIte]; exact .inl (SameConn.rfl' _)

theorem onRun_passRel (k : CS → Oracle → List Out → Option Time → PA) (rest : List Action) (c : CS) (a : Action) (o : Oracle)
    (out : List Out) (tmo : Option Time) (left : Time)
    (hk : ∀ c' o' out' tmo', PassRel c'.dev (k c' o' out' tmo').1.dev) :
    PassRel c.dev (onRun k rest c a o out tmo left).1.dev := by
  unfold onRun
  dsimp only
  have h0 : SameConn c.dev { c.dev with wake := none } := SameConn.of_fields rfl rfl rfl rfl rfl rfl
  have hL := h0.trans (innerLoop_same c.env.now (loopBound a) { c.dev with wake := none } a o [])
  generalize innerLoop c.env.now (loopBound a) { c.dev with wake := none } a o [] = r at *
  split
  · exact .inl (hL.trans (SameConn.of_fields rfl rfl rfl rfl rfl rfl))
  · split
    · exact .inl (hL.trans (SameConn.of_fields rfl rfl rfl rfl rfl rfl))
    · split
      · split
        · refine PassRel.after_same ?_ (hk _ _ _ _)
          exact hL.trans (SameConn.of_fields rfl rfl rfl rfl rfl rfl)
        · refine PassRel.after_same ?_ (hk _ _ _ _)
          exact hL.trans (SameConn.of_fields rfl rfl rfl rfl rfl rfl)
      · refine PassRel.after_same ?_ (failAll_passRel _ _ _ _ _ _)
        exact hL

/-- `_process_action`, any fuel, queue, scripts, oracle, environment: on the read side it either only consumed a
    prefix of the pending bytes (same connection, decoder untouched), or it reconnected and nothing is pending -/
theorem processActionF_passRel (fuel : Nat) (c : CS) (o : Oracle) (out : List Out) (tmo : Option Time) :
    PassRel c.dev (processActionF fuel c o out tmo).1.dev := by
  induction fuel generalizing c o out tmo with
  | zero => exact .inl (SameConn.rfl' _)
  | succ n ih =>
    unfold processActionF processActionBody
    by_cases hab : c.aborted = true
    · simp only [hab, ↓reduceIte]; exact .inl (SameConn.rfl' _)
    · simp only [hab, Bool.false_eq_true, ↓reduceIte]
      cases hacts : c.dev.acts with
      | nil => exact .inl (SameConn.rfl' _)
      | cons a0 rest =>
        simp only
        generalize stamp c.env.now a0 = a
        split
        · exact onTimeout_passRel _ _ _ _ _ _
        · split
          · exact .inl (SameConn.of_fields rfl rfl rfl rfl rfl rfl)
          · exact onRun_passRel _ _ _ _ _ _ _ _ (fun c' o' out' tmo' => ih c' o' out' tmo')

/-! ### buffers are empty whenever the device is not connected -/

/-- not connected ⇒ nothing pending in either direction -/
def Quiet (d : Dev) : Prop := d.conn ≠ 2 → d.fromBuf = [] ∧ d.toBuf = []

theorem Quiet.of_connected {d : Dev} (h : d.conn = 2) : Quiet d := fun h' => absurd h h'

theorem failAll_quiet (rest : List Action) (c : CS) (a : Action) (o : Oracle) (out : List Out) (tmo : Option Time)
    (h : Quiet c.dev) : Quiet (failAll rest c a o out tmo).1.dev := by
  unfold failAll
  dsimp only
  split
  · rename_i h2
    have hne : ({ c with dev := { c.dev with acts := [], xmStr := none, xmResult := false, xmUsed := false } } : CS).dev.conn ≠ 0 := by
      have : c.dev.conn = 2 := by simpa using h2
      show c.dev.conn ≠ 0
      omega
    obtain ⟨h1, h2, _, _⟩ := reconnectDev_clean { c with dev := { c.dev with acts := [], xmStr := none, xmResult := false, xmUsed := false } } tmo hne
    exact fun _ => ⟨h1, h2⟩
  · exact h

theorem onTimeout_quiet (rest : List Action) (c : CS) (a : Action) (o : Oracle) (out : List Out) (tmo : Option Time)
    (h : Quiet c.dev) : Quiet (onTimeout rest c a o out tmo).1.dev := by
  unfold onTimeout
  dsimp only
  generalize (if a.telemetry = true then
      (if (c.dev.conn != 2) = true then [Out.telemetry a.clientId (str "connect(dev): timeout")]
       else teleMem a.clientId "recv(dev): '" c.dev.fromBuf) else []) = tele
  cases hh : hasAbort tele
  · simp only [Bool.false_eq_true, ↓reduceIte]; exact failAll_quiet _ _ _ _ _ _ h
  · simp only [↓reduceIte]; exact h

theorem onRun_quiet (k : CS → Oracle → List Out → Option Time → PA) (rest : List Action) (c : CS) (a : Action) (o : Oracle)
    (out : List Out) (tmo : Option Time) (left : Time) (h2 : c.dev.conn = 2)
    (hk : ∀ c' o' out' tmo', Quiet c'.dev → Quiet (k c' o' out' tmo').1.dev) :
    Quiet (onRun k rest c a o out tmo left).1.dev := by
  unfold onRun
  dsimp only
  have hL := (innerLoop_same c.env.now (loopBound a) { c.dev with wake := none } a o []).conn
  generalize innerLoop c.env.now (loopBound a) { c.dev with wake := none } a o [] = r at *
  have hr : r.dev.conn = 2 := by rw [hL]; exact h2
  split
  · exact Quiet.of_connected hr
  · split
    · exact Quiet.of_connected hr
    · split
      · split
        · exact hk _ _ _ _ (Quiet.of_connected hr)
        · exact hk _ _ _ _ (Quiet.of_connected hr)
      · exact failAll_quiet _ _ _ _ _ _ (Quiet.of_connected hr)

theorem processActionF_quiet (fuel : Nat) (c : CS) (o : Oracle) (out : List Out) (tmo : Option Time)
    (h : Quiet c.dev) : Quiet (processActionF fuel c o out tmo).1.dev := by
  induction fuel generalizing c o out tmo with
  | zero => exact h
  | succ n ih =>
    unfold processActionF processActionBody
    by_cases hab : c.aborted = true
    · simp only [hab, ↓reduceIte]; exact h
    · simp only [hab, Bool.false_eq_true, ↓reduceIte]
      cases hacts : c.dev.acts with
      | nil => exact h
      | cons a0 rest =>
        simp only
        generalize stamp c.env.now a0 = a
        split
        · exact onTimeout_quiet _ _ _ _ _ _ h
        · split
          · exact h
          · rename_i hc
            exact onRun_quiet _ _ _ _ _ _ _ _ (by simpa using hc) (fun c' o' out' tmo' hq => ih c' o' out' tmo' hq)

/-! ### a whole pass of `dev_post_poll` -/

/-- the poll flags `dev_post_poll` looks at -/
def ppFlags (d : Dev) (env : Env) : Nat := if d.fd.isSome then env.revents else 0

/-- the state `_handle_ready_device` is entered with -/
def ppC0 (d : Dev) (env : Env) : CS := { dev := d, env := { env with revents := ppFlags d env }, sys := [] }

def ppReady (d : Dev) (env : Env) : CS × Bool :=
  if ppFlags d env != 0 then handleReady (ppC0 d env) else ({ dev := d, env := env, sys := [] }, false)

def ppReconn (r : CS × Bool) : CS × Option Time :=
  if r.2 || r.1.dev.conn == 0 then reconnectDev r.1 none else (r.1, none)

def ppPing (env : Env) (p : CS × Option Time) : CS × Option Time :=
  let c := p.1
  let tmo := p.2
  if c.dev.conn == 2 && (c.dev.scripts 6).isSome && c.dev.pingPeriod > 0 then
    match c.dev.lastPing with
    | some t =>
      if env.now ≥ t + c.dev.pingPeriod then
        ({ c with dev := { c.dev with acts := c.dev.acts ++ [{ loginAction c.dev with com := 6, exec := [{ block := (c.dev.scripts 6).getD [], pos := 0, plugs := none, plugItr := none, plugCopy := none, processing := false }] }], lastPing := some env.now } }, tmo)
      else (c, upd tmo (t + c.dev.pingPeriod - env.now))
    | none =>
      ({ c with dev := { c.dev with acts := c.dev.acts ++ [{ loginAction c.dev with com := 6, exec := [{ block := (c.dev.scripts 6).getD [], pos := 0, plugs := none, plugItr := none, plugCopy := none, processing := false }] }], lastPing := some env.now } }, tmo)
  else (c, tmo)

/-- `postPoll` cut into its stages -/
theorem postPoll_eq (d : Dev) (env : Env) (o : Oracle) :
    postPoll d env o =
      if (ppReady d env).1.aborted then ((ppReady d env).1, o, [], none)
      else processAction (ppPing env (ppReconn (ppReady d env))).1 o [] (ppPing env (ppReconn (ppReady d env))).2 := rfl

/-- the bytes the pass reads from the descriptor -/
def passTaken (d : Dev) (env : Env) : Bytes := if ppFlags d env != 0 then readTaken (ppC0 d env) else []

/-- the number of oldest pending bytes the pass's `read` overwrites (0 unless the input buffer is full at `MAX_DEV_BUF`) -/
def passDropped (d : Dev) (env : Env) : Nat := if ppFlags d env != 0 then readDropped (ppC0 d env) else 0

theorem ppPing_same (env : Env) (p : CS × Option Time) :
    SameConn p.1.dev (ppPing env p).1.dev ∧ (ppPing env p).1.dev.toBuf = p.1.dev.toBuf := by
  unfold ppPing
  dsimp only
  repeat' split
  all_goals exact ⟨SameConn.of_fields rfl rfl rfl rfl rfl rfl, rfl⟩

theorem handleReady_stat_connected (c : CS) (h2 : c.dev.conn = 2) :
    (handleReady c).1.dev.statConnects = c.dev.statConnects := by
  rcases handleReady_view c with ⟨_, h⟩ | ⟨_, _, _, _, _, _, h, _⟩ | ⟨h, _⟩
  · exact h
  · exact h
  · omega

theorem handleReady_stat_mono (c : CS) :
    (handleReady c).1.dev.statConnects = c.dev.statConnects ∨
    (handleReady c).1.dev.statConnects = c.dev.statConnects + 1 := by
  rcases handleReady_view c with ⟨_, h⟩ | ⟨_, _, _, _, _, _, h, _⟩ | ⟨_, _, _, h, _⟩
  · exact .inl h
  · exact .inl h
  · exact .inr h

theorem handleReady_isPipe (c : CS) : (handleReady c).1.dev.isPipe = c.dev.isPipe := by
  rcases handleReady_view c with ⟨h, _⟩ | ⟨bs, _, _, _, _, _, _, h⟩ | ⟨_, _, _, _, h⟩
  · exact congrArg RView.isPipe h
  · exact (congrArg RView.isPipe h).trans (RView.read_isPipe _ _)
  · exact congrArg RView.isPipe h

/-- a connection that `_handle_ready_device` brings up is counted -/
theorem handleReady_up_stat (c : CS) (h : c.dev.conn ≠ 2) (h2 : (handleReady c).1.dev.conn = 2) :
    (handleReady c).1.dev.statConnects = c.dev.statConnects + 1 := by
  rw [handleReady_eq] at h2 ⊢
  split at h2; · exact absurd h2 h
  split at h2; · exact absurd h2 h
  split at h2; · exact absurd h2 h
  rename_i h1 h3 h4
  simp only [h1, h3, h4]
  cases hskip : (readyWrite c).2.2
  · exfalso
    have hn := readyWrite_noskip c hskip
    simp only [hskip, Bool.false_eq_true, ↓reduceIte] at h2
    split at h2
    · rw [hn.2.2.1] at h2; exact h h2
    · rw [readyRead_conn, hn.2.2.1] at h2; exact h h2
  · obtain ⟨_, hh⟩ := readyWrite_skip c hskip
    simp only [hskip, ↓reduceIte] at h2 ⊢
    rcases hh with ⟨ha, hb, hc, hd, he⟩ | ⟨ha, hb, _⟩ | ⟨ha, hb, _⟩
    · simp only [ha, Bool.false_eq_true, ↓reduceIte]; exact he
    · simp only [ha, ↓reduceIte] at h2; omega
    · simp only [ha, Bool.false_eq_true, ↓reduceIte] at h2; omega

/-- pass, stage 1, established connection -/
theorem ppReady_connected (d : Dev) (env : Env) (h2 : d.conn = 2) :
    (ppReady d env).1.dev.conn = 2 ∧ (ppReady d env).1.dev.statConnects = d.statConnects ∧
    rview (ppReady d env).1.dev = ((rview d).consume (passDropped d env)).read (passTaken d env) := by
  unfold ppReady passTaken passDropped
  split
  · have hv := handleReady_view_connected (ppC0 d env) h2
    exact ⟨hv.2, handleReady_stat_connected (ppC0 d env) h2, hv.1⟩
  · exact ⟨h2, rfl, (RView.read_nil' _).symm⟩

theorem reconnectDev_reconn (c : CS) (tmo : Option Time) (he : c.dev.conn = 0 → c.dev.fromBuf = []) :
    Reconn c.dev (reconnectDev c tmo).1.dev := by
  have hs := reconnectDev_stat c tmo
  have hmono : c.dev.statConnects ≤ (reconnectDev c tmo).1.dev.statConnects := by
    rcases hs with hs | hs
    · exact Nat.le_of_eq hs.1.symm
    · rw [hs.1]; exact Nat.le_succ _
  have hup : (reconnectDev c tmo).1.dev.conn = 2 → c.dev.statConnects < (reconnectDev c tmo).1.dev.statConnects := by
    intro hc
    rcases hs with hs | hs
    · exact absurd hc hs.2
    · rw [hs.1]; exact Nat.lt_succ_self _
  by_cases h0 : c.dev.conn = 0
  · obtain ⟨h1, _, h3, h4⟩ := reconnectDev_idle c tmo h0
    exact ⟨by rw [h1]; exact he h0, h3, h4, hmono, hup⟩
  · obtain ⟨h1, _, h3, h4⟩ := reconnectDev_clean c tmo h0
    exact ⟨h1, h3, h4, hmono, hup⟩

/-- a relation `Reconn b c` can be read from any `a` that `b` continues -/
theorem Reconn.from {a b c : Dev} (hp : b.isPipe = a.isPipe) (hs : b.statConnects = a.statConnects) (h : Reconn b c) :
    Reconn a c :=
  ⟨h.empty, h.isPipe.trans hp, h.fresh, by rw [← hs]; exact h.mono, fun hc => by rw [← hs]; exact h.up hc⟩

theorem processAction_passRel (c : CS) (o : Oracle) (out : List Out) (tmo : Option Time) :
    PassRel c.dev (processAction c o out tmo).1.dev := processActionF_passRel _ c o out tmo

theorem processAction_quiet (c : CS) (o : Oracle) (out : List Out) (tmo : Option Time) (h : Quiet c.dev) :
    Quiet (processAction c o out tmo).1.dev := processActionF_quiet _ c o out tmo h

/-- C09 over one whole pass of `dev_post_poll` on an established connection — `_handle_ready_device`, the reconnect
    logic, the ping, and `_process_action` with any queue, scripts, oracle answers: either the connection is still the
    same one, and then the read side is the old one — less the `passDropped` oldest pending bytes, overwritten only when
    the input buffer is full at `MAX_DEV_BUF` — advanced by exactly the bytes read from the descriptor, minus a prefix that
    the expects consumed; or the device reconnected, nothing is pending, and a connection that is up is a new one
    (counted) whose decoder is at rest -/
theorem postPoll_connected (d : Dev) (env : Env) (o : Oracle) (h2 : d.conn = 2) :
    ((postPoll d env o).1.dev.conn = 2 ∧ (postPoll d env o).1.dev.statConnects = d.statConnects ∧
      ∃ k, rview (postPoll d env o).1.dev =
        (((rview d).consume (passDropped d env)).read (passTaken d env)).consume k) ∨
    Reconn d (postPoll d env o).1.dev := by
  rw [postPoll_eq]
  obtain ⟨hc1, hs1, hv1⟩ := ppReady_connected d env h2
  have hp1 : (ppReady d env).1.dev.isPipe = d.isPipe :=
    (congrArg RView.isPipe hv1).trans (RView.read_isPipe _ _)
  generalize ppReady d env = r1 at *
  split
  · left; exact ⟨hc1, hs1, 0, by rw [RView.consume_zero]; exact hv1⟩
  · have hping := (ppPing_same env (ppReconn r1)).1
    have hpa := processAction_passRel (ppPing env (ppReconn r1)).1 o [] (ppPing env (ppReconn r1)).2
    have hrel := PassRel.after_same hping hpa
    generalize (processAction (ppPing env (ppReconn r1)).1 o [] (ppPing env (ppReconn r1)).2).1.dev = d' at *
    unfold ppReconn at hrel
    split at hrel
    · -- I/O error: `_reconnect`
      right
      have hr := reconnectDev_reconn r1.1 none (fun h0 => by rw [hc1] at h0; simp at h0)
      exact Reconn.from hp1 hs1 (hr.then hrel)
    · rcases hrel with hrel | hrel
      · left
        obtain ⟨k, hk⟩ := hrel.view
        exact ⟨by rw [hrel.conn]; exact hc1, by rw [hrel.stat]; exact hs1, k, by rw [hk, hv1]⟩
      · right; exact Reconn.from hp1 hs1 hrel

/-! ### not connected ⇒ both buffers empty, through a whole pass -/

theorem readyWrite_toBuf (c : CS) :
    (readyWrite c).1.dev.toBuf = c.dev.toBuf ∨ (readyWrite c).1.dev.toBuf = c.dev.toBuf.drop c.env.wcap := by
  unfold readyWrite
  dsimp only
  split
  · split
    · rename_i h1; left; exact (readyFinish_facts c (by simpa using h1)).2.2.2.2.1
    · repeat' split
      all_goals simp_all
  · left; rfl

theorem readTaken_eq (c : CS) (bs : Bytes) (h1 : ¬ (c.dev.conn == 0) = true) (h2 : ¬ c.dev.fd.isNone = true)
    (h3 : ¬ (c.env.revents &&& 4 != 0 || c.env.revents &&& 8 != 0 || c.env.revents &&& 16 != 0) = true)
    (h4 : (readyWrite c).2.1 = false) (h5 : (readyWrite c).2.2 = false) (h6 : c.env.revents &&& 1 ≠ 0)
    (hr : c.env.read = some (some bs)) : readTaken c = readOf c.dev bs := by
  unfold readTaken
  have h6' : (c.env.revents &&& 1 == 0) = false := by simpa using h6
  simp only [h1, h2, h3, h4, h5, h6', Bool.or_self, Bool.false_eq_true, ↓reduceIte, hr]

theorem handleReady_quiet (c : CS) (hq : Quiet c.dev) (hr : c.dev.conn ≠ 2 → readTaken c = []) :
    Quiet (handleReady c).1.dev := by
  by_cases h2 : c.dev.conn = 2
  · exact Quiet.of_connected (handleReady_view_connected c h2).2
  · obtain ⟨hf, ht⟩ := hq h2
    intro _
    rw [handleReady_eq]
    split; · exact ⟨hf, ht⟩
    split; · exact ⟨hf, ht⟩
    split; · exact ⟨hf, ht⟩
    rename_i h1 h3 h4
    have hfb := (readyWrite_fromBuf c).1
    have htb : (readyWrite c).1.dev.toBuf = [] := by
      rcases readyWrite_toBuf c with h | h
      · rw [h, ht]
      · rw [h, ht]; simp
    rw [hf] at hfb
    split; · exact ⟨hfb, htb⟩
    split; · exact ⟨hfb, htb⟩
    rename_i h5 h6
    rcases readyRead_cases c.env.revents (readyWrite c).1 with ⟨n, h⟩ | ⟨bs, ha, hb, hc, _, _⟩
    · rw [h]; exact ⟨hfb, htb⟩
    · exfalso
      have hn := readyWrite_noskip c (by simpa using h6)
      rw [hn.2.2.2.2] at ha
      have := readTaken_eq c bs h1 h3 h4 (by simpa using h5) (by simpa using h6) hc ha
      rw [hr h2] at this
      exact readOf_ne_nil c.dev bs hb this.symm

theorem ppReady_quiet (d : Dev) (env : Env) (hq : Quiet d) (hr : d.conn ≠ 2 → passTaken d env = []) :
    Quiet (ppReady d env).1.dev := by
  unfold ppReady
  unfold passTaken at hr
  split
  · rename_i hf
    simp only [hf, ↓reduceIte] at hr
    exact handleReady_quiet (ppC0 d env) hq hr
  · exact hq

theorem reconnectDev_quiet (c : CS) (tmo : Option Time) (hq : Quiet c.dev) : Quiet (reconnectDev c tmo).1.dev := by
  by_cases h0 : c.dev.conn = 0
  · obtain ⟨h1, h2, _, _⟩ := reconnectDev_idle c tmo h0
    obtain ⟨hf, ht⟩ := hq (by rw [h0]; simp)
    exact fun _ => ⟨by rw [h1, hf], by rw [h2, ht]⟩
  · obtain ⟨h1, h2, _, _⟩ := reconnectDev_clean c tmo h0
    exact fun _ => ⟨h1, h2⟩

/-- the invariant "not connected ⇒ nothing pending, nothing queued" is kept by a whole pass, provided the pass takes
    nothing in while the device is not connected (that is: poll does not report a connecting socket readable without
    also reporting it writable) -/
theorem postPoll_quiet (d : Dev) (env : Env) (o : Oracle) (hq : Quiet d) (hr : d.conn ≠ 2 → passTaken d env = []) :
    Quiet (postPoll d env o).1.dev := by
  rw [postPoll_eq]
  have h1 := ppReady_quiet d env hq hr
  generalize ppReady d env = r1 at *
  split
  · exact h1
  · apply processAction_quiet
    have hping := ppPing_same env (ppReconn r1)
    have h2 : Quiet (ppReconn r1).1.dev := by
      unfold ppReconn
      split
      · exact reconnectDev_quiet _ _ h1
      · exact h1
    generalize ppReconn r1 = r2 at *
    intro hne
    have hc : r2.1.dev.conn ≠ 2 := by rw [← hping.1.conn]; exact hne
    obtain ⟨hf, ht⟩ := h2 hc
    obtain ⟨k, hk⟩ := hping.1.fromBuf
    exact ⟨by rw [hk, hf]; simp, by rw [hping.2, ht]⟩

/-- a pass that starts on a device that is not connected ends with nothing pending; if it brings a connection up,
    that connection is counted and its decoder is at rest -/
theorem postPoll_fresh (d : Dev) (env : Env) (o : Oracle) (hq : Quiet d) (hr : d.conn ≠ 2 → passTaken d env = [])
    (hn : d.conn ≠ 2) : Reconn d (postPoll d env o).1.dev := by
  rw [postPoll_eq]
  have hq1 := ppReady_quiet d env hq hr
  have h1 : Reconn d (ppReady d env).1.dev := by
    unfold ppReady at hq1 ⊢
    split
    · rename_i hf
      simp only [hf, ↓reduceIte] at hq1
      have hcn : (ppC0 d env).dev.conn ≠ 2 := hn
      refine ⟨?_, handleReady_isPipe (ppC0 d env), ?_, ?_, ?_⟩
      · by_cases hc : (handleReady (ppC0 d env)).1.dev.conn = 2
        · rw [(handleReady_up (ppC0 d env) hcn hc).2.2]; exact (hq hn).1
        · exact (hq1 hc).1
      · intro hc _
        exact ⟨(handleReady_up (ppC0 d env) hcn hc).1, (handleReady_up (ppC0 d env) hcn hc).2.1⟩
      · rcases handleReady_stat_mono (ppC0 d env) with h | h
        · exact Nat.le_of_eq h.symm
        · rw [h]; exact Nat.le_succ _
      · intro hc
        rw [handleReady_up_stat (ppC0 d env) hcn hc]; exact Nat.lt_succ_self _
    · exact ⟨(hq hn).1, rfl, fun hc => absurd hc hn, Nat.le_refl _, fun hc => absurd hc hn⟩
  generalize ppReady d env = r1 at *
  split
  · exact h1
  · have hping := (ppPing_same env (ppReconn r1)).1
    have hpa := processAction_passRel (ppPing env (ppReconn r1)).1 o [] (ppPing env (ppReconn r1)).2
    have hrel := PassRel.after_same hping hpa
    generalize (processAction (ppPing env (ppReconn r1)).1 o [] (ppPing env (ppReconn r1)).2).1.dev = d' at *
    unfold ppReconn at hrel
    split at hrel
    · exact h1.then (.inr ((reconnectDev_reconn r1.1 none (fun _ => h1.empty)).then hrel))
    · exact h1.then hrel

/-! ### any number of passes -/

/-- what the daemon keeps of a connection's stream `S`: `S` itself on a coprocess, `strip S` on a tcp device -/
def keptStream (isPipe : Bool) (S : Bytes) : Bytes := if isPipe then S else strip S

/-- a run of passes; with the device goes, as a ghost, the stream its descriptor has delivered on the connection that
    is up: it grows by what each pass takes in while the connection stays the same (still up, same connection
    count), and starts again from nothing otherwise -/
def passStep (s : Dev × Bytes) (p : Env × Oracle) : Dev × Bytes :=
  ((postPoll s.1 p.1 p.2).1.dev,
   if s.1.conn = 2 ∧ (postPoll s.1 p.1 p.2).1.dev.conn = 2 ∧
      (postPoll s.1 p.1 p.2).1.dev.statConnects = s.1.statConnects
   then s.2 ++ passTaken s.1 p.1 else [])

/-- the C09 read-side invariant: while a connection is up, `fromBuf` is what is left of the decoded stream of that
    connection after a prefix was consumed, and the decoder is in the state that stream leads to; while none is up,
    nothing is pending -/
structure Good (s : Dev × Bytes) : Prop where
  quiet : Quiet s.1
  buf : s.1.conn = 2 → ∃ k, s.1.fromBuf = (keptStream s.1.isPipe s.2).drop k
  dec : s.1.conn = 2 → s.1.isPipe = false → s.1.tstate = (decode s.2).st ∧ s.1.tcmd = (decode s.2).cmd

/-- the one thing asked of the environment: nothing is delivered by a descriptor whose connection is not up -/
def EnvOk (s : Dev × Bytes) (p : Env × Oracle) : Prop := s.1.conn ≠ 2 → passTaken s.1 p.1 = []

theorem drop_append_min {α : Type} (A B : List α) (k : Nat) : A.drop k ++ B = (A ++ B).drop (min k A.length) := by
  by_cases h : k ≤ A.length
  · rw [Nat.min_eq_left h, List.drop_append_of_le_length h]
  · have h' : A.length ≤ k := by omega
    rw [Nat.min_eq_right h', List.drop_eq_nil_of_le h', List.drop_append_of_le_length (Nat.le_refl _)]
    simp

theorem good_of_reconn (d d' : Dev) (hq : Quiet d') (h : Reconn d d') : Good (d', []) :=
  ⟨hq, fun _ => ⟨0, by rw [h.empty]; unfold keptStream; split <;> simp [strip]⟩,
   fun hc hp => h.fresh hc hp⟩

theorem passStep_good (s : Dev × Bytes) (p : Env × Oracle) (hg : Good s) (he : EnvOk s p) : Good (passStep s p) := by
  obtain ⟨d, S⟩ := s
  obtain ⟨env, o⟩ := p
  have hq := postPoll_quiet d env o hg.quiet he
  unfold passStep
  simp only
  by_cases h2 : d.conn = 2
  · rcases postPoll_connected d env o h2 with ⟨hc, hs, k', hk'⟩ | hre
    · simp only [h2, hc, hs, and_self, ↓reduceIte]
      have hbuf := congrArg RView.buf hk'
      have hst := congrArg RView.st hk'
      have hcm := congrArg RView.cmd hk'
      have hpp : (postPoll d env o).1.dev.isPipe = d.isPipe :=
        (congrArg RView.isPipe hk').trans (RView.read_isPipe _ _)
      generalize (postPoll d env o).1.dev = d' at *
      obtain ⟨k, hk⟩ := hg.buf h2
      simp only at hk
      -- what is kept of the longer stream
      have hkept : keptStream d.isPipe (S ++ passTaken d env) =
          keptStream d.isPipe S ++ (rview d).keptOf (passTaken d env) := by
        unfold keptStream RView.keptOf
        cases hp : d.isPipe
        · have := hg.dec h2 hp
          simp only at this
          simp only [Bool.false_eq_true, ↓reduceIte, rview, hp]
          rw [← decode_kept, ← decode_kept]
          unfold decode
          rw [decodeFrom_append, this.1, this.2]
          rfl
        · simp [rview, hp]
      refine ⟨hq, fun _ => ⟨min (k + passDropped d env) (keptStream d.isPipe S).length + k', ?_⟩, fun _ hp => ?_⟩
      · show d'.fromBuf = _
        have : d'.fromBuf = (d.fromBuf.drop (passDropped d env) ++ (rview d).keptOf (passTaken d env)).drop k' := by
          have := hbuf
          simp only [rview, RView.consume] at this
          rw [this, RView.read_buf]
          rfl
        rw [this, hk, hpp, hkept, List.drop_drop, drop_append_min, List.drop_drop]
      · show d'.tstate = _ ∧ d'.tcmd = _
        rw [hpp] at hp
        have hd := hg.dec h2 hp
        simp only at hd
        have h1 : d'.tstate = (decodeFrom d.tstate d.tcmd (passTaken d env)).st := by
          have := hst
          simp only [rview, RView.consume, RView.read, hp, Bool.false_eq_true, ↓reduceIte] at this
          exact this
        have h3 : d'.tcmd = (decodeFrom d.tstate d.tcmd (passTaken d env)).cmd := by
          have := hcm
          simp only [rview, RView.consume, RView.read, hp, Bool.false_eq_true, ↓reduceIte] at this
          exact this
        rw [h1, h3, hd.1, hd.2]
        unfold decode
        rw [decodeFrom_append]
        exact ⟨rfl, rfl⟩
    · have hcond : ¬ (d.conn = 2 ∧ (postPoll d env o).1.dev.conn = 2 ∧
          (postPoll d env o).1.dev.statConnects = d.statConnects) := by
        intro ⟨_, hc, hs⟩
        have := hre.up hc
        omega
      simp only [hcond, ↓reduceIte]
      exact good_of_reconn d _ hq hre
  · have hre := postPoll_fresh d env o hg.quiet he h2
    simp only [h2, false_and, ↓reduceIte]
    exact good_of_reconn d _ hq hre

/-- the environment condition along a run -/
def RunOk : Dev × Bytes → List (Env × Oracle) → Prop
  | _, [] => True
  | s, p :: r => EnvOk s p ∧ RunOk (passStep s p) r

/-- C09 read side over any run of passes of `dev_post_poll`: the invariant `Good` holds throughout -/
theorem run_good (s : Dev × Bytes) (ps : List (Env × Oracle)) (hg : Good s) (hr : RunOk s ps) :
    Good (ps.foldl passStep s) := by
  induction ps generalizing s with
  | nil => exact hg
  | cons p r ih => exact ih _ (passStep_good s p hg hr.1) hr.2

/-- a device that has never been connected, with empty buffers, is a good start -/
theorem good_initial (d : Dev) (hc : d.conn ≠ 2) (hf : d.fromBuf = []) (ht : d.toBuf = []) : Good (d, []) :=
  ⟨fun _ => ⟨hf, ht⟩, fun h => absurd h hc, fun h => absurd h hc⟩

/-! sufficient conditions for `EnvOk`, on the poll flags alone -/

theorem passTaken_of_not_connected (d : Dev) (env : Env) (h0 : d.conn = 0) : passTaken d env = [] := by
  unfold passTaken readTaken
  split
  · have : (ppC0 d env).dev.conn = 0 := h0
    simp [this]
  · rfl

theorem passTaken_of_no_pollin (d : Dev) (env : Env) (h : env.revents &&& 1 = 0) : passTaken d env = [] := by
  unfold passTaken readTaken
  split
  · have : (ppC0 d env).env.revents &&& 1 = 0 := by
      show ppFlags d env &&& 1 = 0
      unfold ppFlags; split
      · exact h
      · rfl
    have h' : ((ppC0 d env).env.revents &&& 1 == 0) = true := by simpa using this
    simp only [h', Bool.or_true, ↓reduceIte]
  · rfl

theorem passTaken_of_connecting_pollout (d : Dev) (env : Env) (h1 : d.conn = 1) (h : env.revents &&& 2 ≠ 0) :
    passTaken d env = [] := by
  unfold passTaken readTaken
  split
  · rename_i hf
    have hfl : ppFlags d env = env.revents := by
      unfold ppFlags at hf ⊢; split
      · rfl
      · rename_i hh; simp [hh] at hf
    have hskip : (readyWrite (ppC0 d env)).2.2 = true := by
      unfold readyWrite
      have e1 : (ppC0 d env).env.revents = env.revents := hfl
      have e2 : (ppC0 d env).dev.conn = 1 := h1
      have h' : (env.revents &&& 2 != 0) = true := by simpa using h
      simp only [e1, e2, h', ↓reduceIte, beq_self_eq_true]
      exact (readyFinish_facts _ e2).1
    simp only [hskip, Bool.or_true, Bool.true_or, ↓reduceIte]
  · rfl

end Pm.Dev2.Tel

/-! axioms check -/
