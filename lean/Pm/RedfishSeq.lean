import Pm.RedfishRefine
/-! helper lemmas for C19, part 13: one statement for all three commands; sequences of commands -/
namespace Pm.Redfish

/-- the documented rules for one command, as the driver `RfMain` applies them -/
def specRun (c : Cfg) (st : St) (cmd : Cmd) (ts : List Nat) : List Line × St :=
  if cmd = .stat then (specStat c st ts, st) else specPower c st cmd ts

/-- two association lists describing the same plug states -/
def SameSt (a b : St) : Prop := ∀ x, isOn a x = isOn b x

theorem SameSt.refl (a : St) : SameSt a a := fun _ => rfl
theorem SameSt.trans {a b d : St} (h1 : SameSt a b) (h2 : SameSt b d) : SameSt a d := fun x => (h1 x).trans (h2 x)

/-- one command: the machine prints the rules' lines (in some order) and reaches the rules' plug states -/
theorem runCmd_refines {c : Cfg} (hw : WF c = true) (st : St) (cmd : Cmd) (ts : List Nat) :
    (runCmd c st cmd ts).1.Perm (specRun c st cmd ts).1 ∧ SameSt (runCmd c st cmd ts).2.1 (specRun c st cmd ts).2 := by
  unfold specRun
  by_cases hc : cmd = .stat
  · subst hc
    have := runCmd_stat hw st ts
    simp only [if_true]
    exact ⟨this.1, fun x => by rw [this.2]⟩
  · simp only [hc, if_false]
    exact runCmd_power hw st hc ts

/-! ### the rules depend on the plug states only through `isOn` -/
theorem statOf_congr {c : Cfg} {a b : St} (h : SameSt a b) : statOf c a = statOf c b := by
  funext x; unfold statOf; rw [h x]

theorem specStat_congr {c : Cfg} {a b : St} (h : SameSt a b) (ts : List Nat) : specStat c a ts = specStat c b ts := by
  rw [specStat_eq, specStat_eq]
  apply List.map_congr_left
  intro t _
  unfold statLine blocker
  rw [statOf_congr h]

theorem effStat_congr {c : Cfg} {a b : St} (h : SameSt a b) (C : Cmd) (T : List Nat) :
    effStat c a C T = effStat c b C T := by
  funext x; unfold effStat; rw [statOf_congr h]

theorem specPower_congr {c : Cfg} (hw : WF c = true) {a b : St} (h : SameSt a b) {cmd : Cmd} (hc : cmd ≠ .stat)
    (ts : List Nat) :
    (specPower c a cmd ts).1 = (specPower c b cmd ts).1 ∧ SameSt (specPower c a cmd ts).2 (specPower c b cmd ts).2 := by
  by_cases hph : specPhased c cmd ts = true
  · rw [specPower_eq, specPower_eq, hph]
    simp only [if_true]
    exact ⟨trivial, h⟩
  · have hph : specPhased c cmd ts = false := by simpa using hph
    obtain ⟨l1, s1⟩ := specPower_closed hw a hc ts hph
    obtain ⟨l2, s2⟩ := specPower_closed hw b hc ts hph
    have e1 : powLine c a cmd (knownT c ts) = powLine c b cmd (knownT c ts) := by
      funext t; unfold powLine blk; rw [effStat_congr h]
    have e2 : succeeds c a cmd (knownT c ts) = succeeds c b cmd (knownT c ts) := by
      funext t; unfold succeeds blk; rw [effStat_congr h]
    refine ⟨by rw [l1, l2, e1], fun x => ?_⟩
    rw [s1 x, s2 x]
    unfold finalOn
    rw [e2, h x]

theorem specRun_congr {c : Cfg} (hw : WF c = true) {a b : St} (h : SameSt a b) (cmd : Cmd) (ts : List Nat) :
    (specRun c a cmd ts).1 = (specRun c b cmd ts).1 ∧ SameSt (specRun c a cmd ts).2 (specRun c b cmd ts).2 := by
  unfold specRun
  by_cases hc : cmd = .stat
  · simp only [hc, if_true]; exact ⟨specStat_congr h ts, h⟩
  · simp only [hc, if_false]; exact specPower_congr hw h hc ts

/-! ### sequences of commands, each started from where the previous one left the plugs -/
/-- the machine on a sequence of commands: per command its lines and its "back at the prompt" flag; the last states -/
def machSeq (c : Cfg) : St → List (Cmd × List Nat) → List (List Line × Bool) × St
  | st, [] => ([], st)
  | st, (cmd, ts) :: rest =>
    let r := runCmd c st cmd ts
    let q := machSeq c r.2.1 rest
    ((r.1, r.2.2) :: q.1, q.2)

/-- the rules on a sequence of commands -/
def specSeq (c : Cfg) : St → List (Cmd × List Nat) → List (List Line) × St
  | st, [] => ([], st)
  | st, (cmd, ts) :: rest =>
    let r := specRun c st cmd ts
    let q := specSeq c r.2 rest
    (r.1 :: q.1, q.2)

/-- command by command: back at the prompt, and the same lines up to order -/
def SeqAgree : List (List Line × Bool) → List (List Line) → Prop
  | [], [] => True
  | (l, d) :: ls, l' :: ls' => d = true ∧ l.Perm l' ∧ SeqAgree ls ls'
  | _, _ => False

theorem seq_refines {c : Cfg} (hw : WF c = true) (cmds : List (Cmd × List Nat)) : ∀ (sm ss : St), SameSt sm ss →
    SeqAgree (machSeq c sm cmds).1 (specSeq c ss cmds).1 ∧ SameSt (machSeq c sm cmds).2 (specSeq c ss cmds).2 := by
  induction cmds with
  | nil => intro sm ss h; exact ⟨trivial, h⟩
  | cons ct rest ih =>
    intro sm ss h
    rcases ct with ⟨cmd, ts⟩
    have h1 := runCmd_refines hw sm cmd ts
    have h2 := specRun_congr hw h cmd ts
    have h3 := ih (runCmd c sm cmd ts).2.1 (specRun c ss cmd ts).2 (h1.2.trans h2.2)
    simp only [machSeq, specSeq, SeqAgree]
    exact ⟨⟨runCmd_done hw sm cmd ts, by rw [← h2.1]; exact h1.1, h3.1⟩, h3.2⟩

/-! ### the rules for arbitrary target lists, target by target -/

/-- not refused: unknown targets get their line, every known target gets `powLine` -/
theorem specPower_lines {c : Cfg} (hw : WF c = true) (st : St) {cmd : Cmd} (hc : cmd ≠ .stat) (ts : List Nat)
    (hph : specPhased c cmd ts = false) :
    (specPower c st cmd ts).1.Perm (unknownLines c ts ++ (knownT c ts).map (powLine c st cmd (knownT c ts))) ∧
    ∀ x, isOn (specPower c st cmd ts).2 x = finalOn c st cmd (knownT c ts) (knownT c ts) x := by
  obtain ⟨hl, hs⟩ := specPower_closed hw st hc ts hph
  have hperm : (specOrder c ts).Perm (knownT c ts) := List.mergeSort_perm _ _
  refine ⟨by rw [hl]; exact List.Perm.append_left _ (hperm.map _), fun x => ?_⟩
  rw [hs x, finalOn_eq_curOn, finalOn_eq_curOn]
  exact curOn_congr (fun t _ => hperm.mem_iff) x

/-- `on`: each known target is judged as if it were the only one -/
theorem powLine_on (c : Cfg) (st : St) (T : List Nat) (t : Nat) :
    powLine c st .on T t = (powerLine1 c st .on t).1 := by
  have : effStat c st .on T = statOf c st := by funext a; simp [effStat]
  unfold powLine powerLine1 blk
  rw [this, ← blocker_eq]
  cases blocker c st t with
  | none => simp only; split <;> rfl
  | some as => rcases as with ⟨a, s⟩; simp only; split <;> rfl

/-- `off`: below a co-target that answers (everything above it on), a target is reported `ok` -/
theorem powLine_off_below_target {c : Cfg} (hw : WF c = true) (st : St) (T : List Nat) {t a : Nat}
    (ha : a ∈ ancUp c t) (haT : a ∈ T) (hf : hostFails c a = false)
    (habove : ∀ b ∈ ancUp c a, effStat c st .off T b = .on) :
    powLine c st .off T t = .ok t := by
  unfold powLine
  rw [blk_at hw ha (by rw [effStat_off_target haT hf]; decide) habove, effStat_off_target haT hf]
  rfl

/-- `off`: a target that is switched ends off together with everything below it -/
theorem finalOn_off_below {c : Cfg} (st : St) (T : List Nat) {t x : Nat} (ht : t ∈ T)
    (hs : succeeds c st .off T t = true) (hx : x = t ∨ isDesc c x t = true) :
    finalOn c st .off T T x = false := by
  unfold finalOn
  have : (T.any fun t => succeeds c st .off T t && (x == t || isDesc c x t)) = true := by
    rw [List.any_eq_true]
    refine ⟨t, ht, ?_⟩
    rcases hx with rfl | hx
    · simp [hs]
    · simp [hs, hx]
  simp [this]

end Pm.Redfish
