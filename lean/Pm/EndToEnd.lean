import Pm.E2EDev
import Pm.E2ECli
/-! End-to-end composition for C02: the invariant linking a client's command record to the actions of that client still in
    the device queues (`Link`: `pending` = number of its actions queued), kept by every pass that does not end in a
    modelled assertion; what one pass does to a client's command as a function of the completions the devices report for it
    (`devPass_client`, `daemonPass_client`); and the theorems read off from it (`sound`, `complete`). -/
namespace Pm.Daemon.E2E
open Pm Pm.Client Pm.Daemon
open Pm.Daemon.Reply (cliOf outStep outText finErr isFin errPre okLine errLine withStore entriesOf isPower)
open Pm.Daemon.Isolation (Iso IdsFresh ArgScope worldAt ids)
open Pm.Dev2 (Dev Action ActErr Oracle qcount fcount outCid)
open Pm.Dev2.Login2 (NoClientLogin)
open Pm.Daemon.Enq (installDev installTotal newActs)
abbrev DOut := Pm.Dev2.Out

/-! ## A. a run of callbacks, seen from one client -/

theorem self_eq (c : Cli) : c = { c with toBuf := c.toBuf ++ [] } := by cases c; simp

/-- one callback that is not a completion for client `id`: the client's record changes only by the text appended -/
theorem outStep_nofin (name : Bytes) (id : Nat) (acc : W × List String) (o : DOut) (c : Cli)
    (h : cliOf acc.1 id = some c) (hf : isFin id o = false) :
    cliOf (outStep name acc o).1 id = some { c with toBuf := c.toBuf ++ outText name id o } := by
  cases o with
  | finish cid e =>
    have hid : cid ≠ id := by simpa [isFin] using hf
    simp only [outStep, outText, if_neg hid]
    rw [Reply.actFinish_other _ _ _ _ _ (fun h' => hid h'.symm), h]
    exact congrArg some (self_eq c)
  | telemetry cid t =>
    simp only [outStep, outText]
    rw [Reply.cliOf_updCli]
    · by_cases hid : cid = id
      · subst hid; simp [h, put]
      · have : ¬ id = cid := fun h' => hid h'.symm
        simp only [if_neg this, if_neg hid, h]
        exact congrArg some (self_eq c)
    · intro _; rfl
  | diag cid t =>
    simp only [outStep, outText]
    rw [Reply.cliOf_updCli]
    · by_cases hid : cid = id
      · subst hid; simp [h, put]
      · have : ¬ id = cid := fun h' => hid h'.symm
        simp only [if_neg this, if_neg hid, h]
        exact congrArg some (self_eq c)
    · intro _; rfl
  | sent b => simp only [outStep, outText, h]; exact congrArg some (self_eq c)
  | rxMismatch a b => simp only [outStep, outText, h]; exact congrArg some (self_eq c)
  | abortAssert s => simp only [outStep, outText, h]; exact congrArg some (self_eq c)

/-- a run of callbacks none of which is a completion for client `id`: the lines addressed to it are appended, in order;
    nothing else of its record changes — whether or not it has a command -/
theorem fold_nofin (name : Bytes) (id : Nat) (outs : List DOut) : ∀ (acc : W × List String) (c : Cli),
    cliOf acc.1 id = some c → outs.countP (isFin id) = 0 →
    cliOf (outs.foldl (outStep name) acc).1 id = some { c with toBuf := c.toBuf ++ outs.flatMap (outText name id) } := by
  induction outs with
  | nil => intro acc c h _; rw [List.foldl_nil, h]; simp
  | cons o os ih =>
    intro acc c h hn
    rw [List.countP_cons] at hn
    have hf : isFin id o = false := by
      cases hb : isFin id o
      · rfl
      · rw [hb] at hn; simp at hn
    have h1 := outStep_nofin name id acc o c h hf
    rw [List.foldl_cons, ih _ _ h1 (by omega)]
    simp [List.append_assoc]

/-- a list with an element satisfying `p` splits at the last such element -/
theorem split_last {α : Type} (p : α → Bool) (l : List α) (h : 0 < l.countP p) :
    ∃ pre x post, l = pre ++ x :: post ∧ p x = true ∧ post.countP p = 0 ∧ pre.countP p + 1 = l.countP p := by
  induction l with
  | nil => simp at h
  | cons y r ih =>
    by_cases hr : 0 < r.countP p
    · obtain ⟨pre, x, post, h1, h2, h3, h4⟩ := ih hr
      refine ⟨y :: pre, x, post, by rw [h1]; rfl, h2, h3, ?_⟩
      rw [List.countP_cons, List.countP_cons, ← h4]; omega
    · have hr0 : r.countP p = 0 := by omega
      rw [List.countP_cons, hr0] at h
      have hy : p y = true := by
        cases hb : p y
        · rw [hb] at h; simp at h
        · rfl
      exact ⟨[], y, r, rfl, hy, hr0, by rw [List.countP_cons, hr0, hy]; simp⟩

theorem isFin_iff {id : Nat} {x : DOut} : isFin id x = true ↔ ∃ e, x = Pm.Dev2.Out.finish id e := by
  cases x <;> simp [isFin]

/-- the command as the reply functions see it when the run `pre`, then the completion `e`, have been delivered -/
def finalCmd (w : W) (k : CmdC) (id : Nat) (pre : List DOut) (e : ActErr) : CmdC :=
  { k with error := k.error || pre.any (finErr id) || (e != .success), args := (storeArgs w k.al).map argC }

/-- **a whole run of callbacks, seen from client `id`** (`applyOuts` for one device).  With `n` = the number of completions
    for `id` in the run:
    * no command, `n = 0`: only the lines addressed to the client are appended;
    * a command with more than `n` completions outstanding: `C02_error_accumulates`;
    * a command with exactly `n > 0` outstanding: the run splits at the last completion `e` for `id` into `pre`, `e`, `post`
      (no completion for `id` in `post`), and either building the reply hit the sort assertion (reported) or the command
      is cleared and the client was sent: the lines of `pre`, the `308` line of `e` if any, the reply computed from the
      accumulated error flag and the arglist in the store, the prompt — and then the lines of `post`. -/
theorem applyOuts_client (w : W) (name : Bytes) (outs : List DOut) (id : Nat) (c : Cli) (h : cliOf w id = some c) :
    (c.cmd = none → outs.countP (isFin id) = 0 →
      cliOf (applyOuts w name outs).1 id = some { c with toBuf := c.toBuf ++ outs.flatMap (outText name id) }) ∧
    (∀ k, c.cmd = some k → outs.countP (isFin id) < k.pending →
      cliOf (applyOuts w name outs).1 id =
        some { c with cmd := some { k with error := k.error || outs.any (finErr id), pending := k.pending - outs.countP (isFin id) },
                      toBuf := c.toBuf ++ outs.flatMap (outText name id) }) ∧
    (∀ k, c.cmd = some k → 0 < k.pending → outs.countP (isFin id) = k.pending →
      ∃ pre e post, outs = pre ++ Pm.Dev2.Out.finish id e :: post ∧ post.countP (isFin id) = 0 ∧
        pre.countP (isFin id) + 1 = k.pending ∧
        ("O ABORT act_finish" ∈ (applyOuts w name outs).2 ∨
         ∃ r, finalReply c.exprange (finalCmd w k id pre e) = some r ∧
           cliOf (applyOuts w name outs).1 id =
             some { c with cmd := none,
                           toBuf := c.toBuf ++ pre.flatMap (outText name id) ++ errPre e name ++ r ++ prompt ++
                                    post.flatMap (outText name id) })) := by
  rw [Reply.applyOuts_eq]
  refine ⟨fun _ hn => fold_nofin name id outs (w, []) c h hn, fun k hk hlt => Reply.fold_pending name id outs (w, []) c k h hk hlt, ?_⟩
  intro k hk hpos hn
  obtain ⟨pre, x, post, h1, h2, h3, h4⟩ := split_last (isFin id) outs (by omega)
  obtain ⟨e, rfl⟩ := isFin_iff.mp h2
  refine ⟨pre, e, post, h1, h3, by omega, ?_⟩
  have hf := Reply.fold_final name id pre e (w, []) c k h hk (by omega)
  simp only at hf
  have hsplit : outs.foldl (outStep name) (w, []) =
      post.foldl (outStep name) ((pre ++ [Pm.Dev2.Out.finish id e]).foldl (outStep name) (w, [])) := by
    rw [h1, ← List.foldl_append]; simp
  rw [hsplit]
  generalize (pre ++ [Pm.Dev2.Out.finish id e]).foldl (outStep name) (w, []) = mid at hf ⊢
  cases hr : finalReply c.exprange (finalCmd w k id pre e) with
  | none =>
    left
    have hr' : finalReply c.exprange { k with error := k.error || pre.any (finErr id) || (e != .success), args := (storeArgs w k.al).map argC } = none := hr
    rw [hr'] at hf
    exact Reply.fold_msgs_mono name post mid _ hf
  | some r =>
    right
    have hr' : finalReply c.exprange { k with error := k.error || pre.any (finErr id) || (e != .success), args := (storeArgs w k.al).map argC } = some r := hr
    rw [hr'] at hf
    refine ⟨r, rfl, ?_⟩
    rw [fold_nofin name id post mid _ hf h3]

/-! ### the assertion in `_act_finish` -/

/-- some `_act_finish` call of the run of callbacks returned through an assertion (`assert(c->cmd != NULL)`, or the
    assertion inside `hostlist_sort` while the reply was built) -/
def anyBad (name : Bytes) : W → List DOut → Bool
  | _, [] => false
  | w, o :: r =>
    (match o with | .finish cid e => (actFinish w cid e name).2 | _ => false) || anyBad name (outStep name (w, []) o).1 r

/-- the number of completions a client waits for: `pending` of its command, `0` without a command -/
def pendingOf (c : Cli) : Nat := match c.cmd with | some k => k.pending | none => 0

/-- **`assert(c->cmd != NULL)` cannot fire.**  If no client is sent more completions than it waits for (which the invariant
    `Link` guarantees for every device's turn) and a command in progress waits for at least one, the only way an
    `_act_finish` call of the run ends in an assertion is F19: the last completion of a command arrives and the reply
    cannot be built because `hostlist_sort` asserts (a query command: for a power command the reply always exists). -/
theorem anyBad_F19 (name : Bytes) : ∀ (outs : List DOut) (w : W),
    (∀ g c, cliOf w g = some c → outs.countP (isFin g) ≤ pendingOf c) →
    (∀ g c k, cliOf w g = some c → c.cmd = some k → 0 < k.pending) → anyBad name w outs = true →
    ∃ wm g c k e, cliOf wm g = some c ∧ c.cmd = some k ∧ k.pending = 1 ∧ finalReply c.exprange (withStore wm k e) = none := by
  intro outs
  induction outs with
  | nil => intro w _ _ h; simp [anyBad] at h
  | cons o r ih =>
    intro w hcount hpos h
    unfold anyBad at h
    rw [Bool.or_eq_true] at h
    -- a callback that is not a completion for `g` leaves `g`'s count alone
    have hcnt_of : ∀ g, isFin g o = false → r.countP (isFin g) = (o :: r).countP (isFin g) := by
      intro g hf; rw [List.countP_cons, hf]; simp
    -- callbacks that only append text
    have put_case : ∀ (cid : Nat) (b : Bytes), (∀ g, isFin g o = false) →
        anyBad name (updCli w cid fun c => put c b) r = true →
        ∃ wm g c k e, cliOf wm g = some c ∧ c.cmd = some k ∧ k.pending = 1 ∧ finalReply c.exprange (withStore wm k e) = none := by
      intro cid b hnf hb
      apply ih _ _ _ hb
      · intro g c hc
        rw [Reply.cliOf_updCli w cid g (fun c => put c b) (fun _ => rfl)] at hc
        rw [hcnt_of g (hnf g)]
        split at hc
        · rename_i hg; subst hg
          cases hq : cliOf w g with
          | none => rw [hq] at hc; cases hc
          | some c0 =>
            rw [hq] at hc; simp only [Option.map_some, Option.some.injEq] at hc; subst hc
            exact hcount g c0 hq
        · exact hcount g c hc
      · intro g c k hc hk
        rw [Reply.cliOf_updCli w cid g (fun c => put c b) (fun _ => rfl)] at hc
        split at hc
        · rename_i hg; subst hg
          cases hq : cliOf w g with
          | none => rw [hq] at hc; cases hc
          | some c0 =>
            rw [hq] at hc; simp only [Option.map_some, Option.some.injEq] at hc; subst hc
            exact hpos g c0 k hq hk
        · exact hpos g c k hc hk
    cases o with
    | finish cid e =>
      have hself : isFin cid (Pm.Dev2.Out.finish cid e) = true := by simp [isFin]
      have hother : ∀ g, g ≠ cid → isFin g (Pm.Dev2.Out.finish cid e) = false := by
        intro g hg; simp [isFin]; exact fun e' => hg e'.symm
      have hc1 := hcount cid
      rw [List.countP_cons, hself] at hc1
      simp only [outStep] at h
      cases hq : cliOf w cid with
      | none =>
        rw [Reply.actFinish_absent w cid e name hq] at h
        simp only [Bool.false_eq_true, false_or] at h
        refine ih w ?_ hpos h
        intro g c hc
        by_cases hg : g = cid
        · subst hg; rw [hq] at hc; cases hc
        · rw [hcnt_of g (hother g hg)]; exact hcount g c hc
      | some c =>
        cases hk : c.cmd with
        | none =>
          have := hc1 c hq
          unfold pendingOf at this
          rw [hk] at this
          simp at this
        | some k =>
          have hp := hpos cid c k hq hk
          have hle : r.countP (isFin cid) + 1 ≤ k.pending := by
            have := hc1 c hq
            unfold pendingOf at this
            rw [hk] at this
            simpa using this
          by_cases hp1 : k.pending = 1
          · cases hr : finalReply c.exprange (withStore w k e) with
            | none => exact ⟨w, cid, c, k, e, hq, hk, hp1, hr⟩
            | some rr =>
              obtain ⟨b1, b2⟩ := Reply.actFinish_last w cid e name c k rr hq hk hp1 hr
              rw [b1] at h
              simp only [Bool.false_eq_true, false_or] at h
              apply ih _ _ _ h
              · intro g c' hc'
                by_cases hg : g = cid
                · subst hg
                  rw [b2] at hc'; simp only [Option.some.injEq] at hc'; subst hc'
                  simp only [pendingOf]; omega
                · rw [Reply.actFinish_other w cid g e name hg] at hc'
                  rw [hcnt_of g (hother g hg)]; exact hcount g c' hc'
              · intro g c' k' hc' hk'
                by_cases hg : g = cid
                · subst hg
                  rw [b2] at hc'; simp only [Option.some.injEq] at hc'; subst hc'
                  simp at hk'
                · rw [Reply.actFinish_other w cid g e name hg] at hc'
                  exact hpos g c' k' hc' hk'
          · obtain ⟨b1, b2⟩ := Reply.actFinish_more w cid e name c k hq hk hp1
            rw [b1] at h
            simp only [Bool.false_eq_true, false_or] at h
            apply ih _ _ _ h
            · intro g c' hc'
              by_cases hg : g = cid
              · subst hg
                rw [b2] at hc'; simp only [Option.some.injEq] at hc'; subst hc'
                simp only [pendingOf]; omega
              · rw [Reply.actFinish_other w cid g e name hg] at hc'
                rw [hcnt_of g (hother g hg)]; exact hcount g c' hc'
            · intro g c' k' hc' hk'
              by_cases hg : g = cid
              · subst hg
                rw [b2] at hc'; simp only [Option.some.injEq] at hc'; subst hc'
                simp only [Option.some.injEq] at hk'; subst hk'
                simp only; omega
              · rw [Reply.actFinish_other w cid g e name hg] at hc'
                exact hpos g c' k' hc' hk'
    | telemetry cid t =>
      simp only [outStep, Bool.false_eq_true, false_or] at h
      exact put_case cid _ (fun g => by simp [isFin]) h
    | diag cid t =>
      simp only [outStep, Bool.false_eq_true, false_or] at h
      exact put_case cid _ (fun g => by simp [isFin]) h
    | sent b =>
      simp only [outStep, Bool.false_eq_true, false_or] at h
      exact ih w (fun g c hc => by rw [hcnt_of g (by simp [isFin])]; exact hcount g c hc) hpos h
    | rxMismatch a b =>
      simp only [outStep, Bool.false_eq_true, false_or] at h
      exact ih w (fun g c hc => by rw [hcnt_of g (by simp [isFin])]; exact hcount g c hc) hpos h
    | abortAssert site =>
      simp only [outStep, Bool.false_eq_true, false_or] at h
      exact ih w (fun g c hc => by rw [hcnt_of g (by simp [isFin])]; exact hcount g c hc) hpos h

/-! ## B. the invariant -/

/-- **`pending` = queued.**  For every live client the number of completions it waits for is the number of its actions in
    all device queues, and a command in progress waits for at least one; client actions never use script slot 0 (login:
    `_disconnect` drops such a head silently); arglist id 0 is never handed out (it is the dummy id of the internal
    actions). -/
structure Link (w : W) : Prop where
  count : ∀ g c, cliRec w g = some c → pendingOf c = totalQ g w.devs
  pos : ∀ g c k, cliRec w g = some c → c.cmd = some k → 0 < k.pending
  ncl : ∀ nd ∈ w.devs, NoClientLogin nd.2
  al : 0 < w.alNext
  alpos : ∀ g c k, cliRec w g = some c → c.cmd = some k → 0 < k.al

/-- the id and arglist disciplines of C11 together with `Link` -/
def Inv (w : W) : Prop := Iso w ∧ Link w

theorem Link.congr {w w' : W} (h : Link w) (h1 : w'.clients = w.clients) (h2 : w'.devs = w.devs) (h3 : w'.alNext = w.alNext) :
    Link w' := by
  have hc : ∀ g, cliRec w' g = cliRec w g := fun g => by unfold cliRec; rw [h1]
  exact ⟨fun g c hg => by rw [h2]; exact h.count g c (hc g ▸ hg), fun g c k hg => h.pos g c k (hc g ▸ hg),
    by rw [h2]; exact h.ncl, by rw [h3]; exact h.al, fun g c k hg => h.alpos g c k (hc g ▸ hg)⟩

theorem totalQ_zero_of {g : Nat} {devs : List (Bytes × Dev)} (h : ∀ nd ∈ devs, ∀ a ∈ nd.2.acts, a.clientId ≠ g) :
    totalQ g devs = 0 := by
  induction devs with
  | nil => rfl
  | cons nd r ih =>
    rw [totalQ_cons, ih (fun x hx => h x (by simp [hx])), qcount_none (h nd (by simp))]

/-- accepting a connection -/
theorem cliAccept_link (w : W) (acc : Nat) (hI : IdsFresh w) (h : Link w) : Link (ClientPf.cliAccept w acc) := by
  unfold ClientPf.cliAccept
  split
  · refine ⟨?_, ?_, h.ncl, h.al, ?_⟩
    rotate_left 2
    · intro g c k hg hk
      have hg : (w.clients ++ [ClientPf.newClient w]).find? (·.id == g) = some c := hg
      exact h.alpos g c k (Isolation.cliRec_append_new w.clients (ClientPf.newClient w) g c k rfl hg hk) hk
    · intro g c hg
      show pendingOf c = totalQ g w.devs
      have hg : (w.clients ++ [ClientPf.newClient w]).find? (·.id == g) = some c := hg
      rw [List.find?_append] at hg
      cases hx : w.clients.find? (·.id == g) with
      | some x =>
        rw [hx] at hg
        simp only [Option.some_or, Option.some.injEq] at hg
        subst hg
        exact h.count g x hx
      | none =>
        rw [hx] at hg
        simp only [Option.none_or] at hg
        have hm := List.mem_of_find?_eq_some hg
        have hgid : c.id = g := by simpa using List.find?_some hg
        simp only [List.mem_singleton] at hm
        subst hm
        rw [totalQ_zero_of]
        · rfl
        · intro nd hnd a ha e
          have := hI.acts nd hnd a ha
          rw [e, ← hgid] at this
          simp [ClientPf.newClient] at this
    · intro g c k hg hk
      have hg : (w.clients ++ [ClientPf.newClient w]).find? (·.id == g) = some c := hg
      exact h.pos g c k (Isolation.cliRec_append_new w.clients (ClientPf.newClient w) g c k rfl hg hk) hk
  · split
    · exact h.congr rfl rfl rfl
    · exact h

theorem installDev_ncl (cm : Com) (bn : List Bytes) (cid : Nat) (tele : Bool) (al : Nat) (nd : Bytes × Dev)
    (h : NoClientLogin nd.2) : NoClientLogin (installDev (comIdx cm) bn cid tele al nd).2 := by
  unfold NoClientLogin
  rw [(Enq.installDev_spec (comIdx cm) bn cid tele al nd).2.2.1]
  intro a ha h0
  rcases List.mem_append.mp ha with ha | ha
  · exact h a ha h0
  · exfalso
    rcases (Enq.newActs_kind ha).1 with e | e | e
    · rw [e] at h0; cases cm <;> simp [comIdx] at h0
    · exact Pm.Dev2.Login2.allOf_ne_zero _ _ e h0
    · exact Pm.Dev2.Login2.rangedOf_ne_zero _ _ e h0

/-- one turn of the loop of `cli_post_poll` -/
theorem cliStep_link (envs : List FdEnv) (w : W) (c0 : Cli) (hI : Iso w) (h : Link w) (hc0 : c0 ∈ w.clients) :
    Link (ClientPf.cliStep envs w c0) := by
  have hrec0 : cliRec w c0.id = some c0 := hI.1.cliRec_of_mem hc0
  rcases Isolation.cliStep_cases envs w c0 with ⟨_, e⟩ | ⟨_, ext, hp, ⟨c, hc, e⟩ | ⟨hn, e⟩⟩
  · rw [e]; exact h
  · obtain ⟨hid, _, _, henq, _⟩ := hp.alive c hc
    have hreq := clientPass_req w c0 _ c hc
    have hself : cliRec (ClientPf.cliStep envs w c0) c0.id = some c := by
      rw [e]; exact Isolation.find_map_replace_self w.clients c0.id c c0 hid hrec0
    have hoth : ∀ g, g ≠ c0.id → cliRec (ClientPf.cliStep envs w c0) g = cliRec w g := fun g hg => Isolation.cliStep_other envs w c0 g hg
    have hdevs : (ClientPf.cliStep envs w c0).devs = (clientPass w c0 (envs.find? (·.fd == c0.fd))).1.devs := by rw [e]
    have halx : (ClientPf.cliStep envs w c0).alNext = (clientPass w c0 (envs.find? (·.fd == c0.fd))).1.alNext := by rw [e]
    generalize ClientPf.cliStep envs w c0 = w' at *
    generalize (clientPass w c0 (envs.find? (·.fd == c0.fd))).1 = w1 at *
    have hal : 0 < w'.alNext := by
      rw [halx]
      rcases henq with ⟨_, _, a3, _⟩ | ⟨_, _, _, _, _, _, _, _, b3, _⟩
      · rw [a3]; exact h.al
      · rw [b3]; omega
    have halpos : ∀ g c' k, cliRec w' g = some c' → c'.cmd = some k → 0 < k.al := by
      intro g c' k hg hk
      by_cases hgc : g = c0.id
      · subst hgc
        rw [hself] at hg; cases hg
        rcases henq with ⟨_, _, _, a4⟩ | ⟨_, k0, _, _, _, _, e1, e2, _⟩
        · exact h.alpos c0.id c0 k hrec0 (a4 ▸ hk)
        · rw [e1] at hk; cases hk; rw [e2]; exact h.al
      · rw [hoth g hgc] at hg; exact h.alpos g c' k hg hk
    rcases hreq with ⟨d1, d2⟩ | ⟨hidle, cm, names, tele, al, b1, b2, b3, b4⟩
    · refine ⟨?_, ?_, by rw [hdevs, d1]; exact h.ncl, hal, halpos⟩
      · intro g c' hg
        rw [hdevs, d1]
        by_cases hgc : g = c0.id
        · subst hgc
          rw [hself] at hg; cases hg
          have := h.count c0.id c0 hrec0
          unfold pendingOf at this ⊢
          rw [d2]; exact this
        · rw [hoth g hgc] at hg; exact h.count g c' hg
      · intro g c' k hg hk
        by_cases hgc : g = c0.id
        · subst hgc
          rw [hself] at hg; cases hg
          exact h.pos c0.id c0 k hrec0 (d2 ▸ hk)
        · rw [hoth g hgc] at hg; exact h.pos g c' k hg hk
    · refine ⟨?_, ?_, ?_, hal, halpos⟩
      · intro g c' hg
        rw [hdevs, b4, totalQ_install]
        by_cases hgc : g = c0.id
        · subst hgc
          rw [hself] at hg; cases hg
          have := h.count c0.id c0 hrec0
          unfold pendingOf at this ⊢
          rw [hidle] at this
          rw [b1, if_pos rfl, ← this]
          simp
        · rw [hoth g hgc] at hg
          rw [if_neg hgc, Nat.add_zero]
          exact h.count g c' hg
      · intro g c' k hg hk
        by_cases hgc : g = c0.id
        · subst hgc
          rw [hself] at hg; cases hg
          rw [b1] at hk
          simp only [Option.some.injEq] at hk
          subst hk
          exact b2
        · rw [hoth g hgc] at hg; exact h.pos g c' k hg hk
      · intro nd hnd
        rw [hdevs, b4] at hnd
        obtain ⟨nd0, hnd0, rfl⟩ := List.mem_map.mp hnd
        exact installDev_ncl cm _ _ _ _ nd0 (h.ncl nd0 hnd0)
  · obtain ⟨g1, _, g3, _⟩ := hp.gone hn
    have hdevs : (ClientPf.cliStep envs w c0).devs = w.devs := by rw [e]; exact g1
    have halx : (ClientPf.cliStep envs w c0).alNext = w.alNext := by rw [e]; exact g3
    have hrec : ∀ g c, cliRec (ClientPf.cliStep envs w c0) g = some c → cliRec w g = some c := by
      intro g c hg
      by_cases hgc : g = c0.id
      · subst hgc
        rw [e] at hg
        have : (w.clients.filter fun x => x.id != c0.id).find? (·.id == c0.id) = some c := hg
        rw [Isolation.find_filter_self] at this; cases this
      · rw [Isolation.cliStep_other envs w c0 g hgc] at hg; exact hg
    exact ⟨fun g c hg => by rw [hdevs]; exact h.count g c (hrec g c hg), fun g c k hg => h.pos g c k (hrec g c hg),
      by rw [hdevs]; exact h.ncl, by rw [halx]; exact h.al, fun g c k hg => h.alpos g c k (hrec g c hg)⟩

theorem foldl_cliStep_inv (envs : List FdEnv) (l : List Cli) (w : W) (h : Inv w) (hl : ∀ c ∈ l, c ∈ w.clients)
    (hnd : (l.map (·.id)).Nodup) : Inv (l.foldl (ClientPf.cliStep envs) w) := by
  induction l generalizing w with
  | nil => exact h
  | cons c r ih =>
    rw [List.foldl_cons]
    have hc := hl c (by simp)
    have hidm : c.id ∈ ids w := List.mem_map.mpr ⟨c, hc, rfl⟩
    have h1 := Isolation.cliStep_ids envs w c h.1.1 (h.1.1.below c.id hidm)
    have h2 := Isolation.cliStep_scope envs w c h.1.2 (h.1.1.cliRec_of_mem hc) (Nat.ne_of_gt (h.1.1.pos c.id hidm))
    have h3 := cliStep_link envs w c h.1 h.2 hc
    rw [List.map_cons, List.nodup_cons] at hnd
    refine ih _ ⟨⟨h1.1, h2⟩, h3⟩ ?_ hnd.2
    intro x hx
    refine Isolation.cliStep_mem envs w c x (hl x (by simp [hx])) ?_
    intro e
    exact hnd.1 (e ▸ List.mem_map.mpr ⟨x, hx, rfl⟩)

/-- **`cli_post_poll` keeps the invariant** -/
theorem cliPostPoll_inv (w : W) (acc : Nat) (envs : List FdEnv) (h : Inv w) : Inv (cliPostPoll w acc envs) := by
  rw [ClientPf.cliPostPoll_eq]
  have h1 : Inv { w with sys := [], caps := envs.map fun (e : FdEnv) => (e.fd, e.cap) } :=
    ⟨⟨h.1.1.congr rfl rfl rfl, ⟨h.1.2.cmds, h.1.2.acts, h.1.2.owned, h.1.2.apart, h.1.2.internal⟩⟩, h.2.congr rfl rfl rfl⟩
  have h2 : Inv (ClientPf.cliAccept _ acc) :=
    ⟨⟨Isolation.cliAccept_ids _ acc h1.1.1, Isolation.cliAccept_scope _ acc h1.1.2⟩, cliAccept_link _ acc h1.1.1 h1.2⟩
  exact foldl_cliStep_inv envs _ _ h2 (fun c hc => hc) h2.1.1.nodup

/-! ## C. one device's share of the device phase -/

theorem fcount_eq (g : Nat) (outs : List DOut) : fcount g outs = outs.countP (isFin g) := by
  unfold fcount
  congr 1

/-- the callbacks of device `nd`'s turn -/
abbrev outsOf (p : PassIn) (a : DevAcc) (nd : Bytes × Dev) : List DOut := (devStep p a.w a.oracle nd).2.2.1
/-- the device as its turn leaves it -/
abbrev devAfter (p : PassIn) (a : DevAcc) (nd : Bytes × Dev) : Dev := (devStep p a.w a.oracle nd).1.dev

theorem devStep_ncl (p : PassIn) (w : W) (o : Oracle) (nd : Bytes × Dev) (h : NoClientLogin nd.2) :
    NoClientLogin (devStep p w o nd).1.dev :=
  (Pm.Dev2.Login2.postPoll_fifo { nd.2 with args := w.store } (devEnv p w nd) o h).1

/-- conservation for one device's turn -/
theorem devStep_count (p : PassIn) (w : W) (o : Oracle) (nd : Bytes × Dev) (h : NoClientLogin nd.2) (g : Nat) (hg : g ≠ 0) :
    (devStep p w o nd).2.2.1.countP (isFin g) + qcount g (devStep p w o nd).1.dev.acts = qcount g nd.2.acts := by
  rw [← fcount_eq]
  exact Pm.Dev2.E2E.postPoll_count { nd.2 with args := w.store } (devEnv p w nd) o h g hg

theorem devPass_dead_eq (p : PassIn) (a : DevAcc) (nd : Bytes × Dev) (hd : a.dead = false) :
    (devPass p a nd).dead = ((devStep p a.w a.oracle nd).1.aborted ||
      isAbortMsg (applyOuts (afterStep a.w (devStep p a.w a.oracle nd).1) nd.1 (outsOf p a nd)).2) := by
  rw [devPass_eq]; unfold devPass'; simp only [hd, Bool.false_eq_true, ↓reduceIte]

/-- a turn after which the pass is alive started alive, and no `_act_finish` hit an assertion in it -/
theorem devPass_alive (p : PassIn) (a : DevAcc) (nd : Bytes × Dev) (h : (devPass p a nd).dead = false) :
    a.dead = false ∧ "O ABORT act_finish" ∉ (applyOuts (afterStep a.w (devStep p a.w a.oracle nd).1) nd.1 (outsOf p a nd)).2 := by
  cases hd : a.dead with
  | true => rw [devPass_dead _ _ _ hd] at h; simp [hd] at h
  | false =>
    refine ⟨rfl, ?_⟩
    rw [devPass_dead_eq p a nd hd, Bool.or_eq_false_iff] at h
    intro hm
    have : isAbortMsg (applyOuts (afterStep a.w (devStep p a.w a.oracle nd).1) nd.1 (outsOf p a nd)).2 = true := by
      unfold isAbortMsg
      rw [List.any_eq_true]
      exact ⟨_, hm, by decide +kernel⟩
    rw [h.2] at this; cases this

theorem stepped_alive (p : PassIn) (a : DevAcc) (nd : Bytes × Dev) (hd : a.dead = false) :
    stepped p a nd = (nd.1, devAfter p a nd) := by
  unfold stepped; simp [hd]

theorem cliRec_isSome_iff (w : W) (g : Nat) : (cliRec w g).isSome = true ↔ g ∈ ids w := by
  unfold cliRec ids
  rw [List.find?_isSome]
  simp only [List.mem_map, beq_iff_eq]

theorem outText_of_notMine (name : Bytes) (g : Nat) (x : DOut) (h : outCid x ≠ some g) : outText name g x = [] := by
  cases x <;> simp_all [outText, outCid]

/-- `pending` of a client never exceeds what is queued on one device -/
theorem Link.le_pending {w : W} (h : Link w) {g : Nat} {c : Cli} (hc : cliRec w g = some c) {nd : Bytes × Dev} (hnd : nd ∈ w.devs) :
    qcount g nd.2.acts ≤ pendingOf c := by
  rw [h.count g c hc]
  obtain ⟨l1, l2, e⟩ := List.append_of_mem hnd
  rw [e, totalQ_append, totalQ_cons]; omega

theorem forCid_nil_of_lastFin {g : Nat} {pre post : List DOut} {e : ActErr}
    (h : Pm.Dev2.E2E.LastFin g (pre ++ Pm.Dev2.Out.finish g e :: post)) (hp : post.countP (isFin g) = 0) :
    ∀ x ∈ post, outCid x ≠ some g := by
  have hnil : Pm.Dev2.E2E.forCid g post = [] := by
    cases hl : (Pm.Dev2.E2E.forCid g post).getLast? with
    | none => exact List.getLast?_eq_none_iff.mp hl
    | some x =>
      exfalso
      have hx : (Pm.Dev2.E2E.forCid g (pre ++ Pm.Dev2.Out.finish g e :: post)).getLast? = some x := by
        rw [show pre ++ Pm.Dev2.Out.finish g e :: post = (pre ++ [Pm.Dev2.Out.finish g e]) ++ post by simp,
          Pm.Dev2.E2E.forCid_append, List.getLast?_append, hl]
        rfl
      have hfin := h x hx
      have hmem := List.mem_of_getLast? hl
      have hxp : x ∈ post := (List.mem_filter.mp hmem).1
      have hxc : outCid x = some g := by simpa using (List.mem_filter.mp hmem).2
      have : isFin g x = true := by
        cases x <;> simp_all [Pm.Dev2.isFinish, isFin, outCid]
      have hpos : 0 < post.countP (isFin g) := List.countP_pos_iff.mpr ⟨x, hxp, this⟩
      omega
  intro x hx hc
  have : x ∈ Pm.Dev2.E2E.forCid g post := List.mem_filter.mpr ⟨hx, by simpa using hc⟩
  rw [hnil] at this; cases this

theorem flatMap_outText_nil (name : Bytes) (g : Nat) (l : List DOut) (h : ∀ x ∈ l, outCid x ≠ some g) :
    l.flatMap (outText name g) = [] := by
  rw [List.flatMap_eq_nil_iff]
  intro x hx
  exact outText_of_notMine name g x (h x hx)

theorem any_finErr_nil (g : Nat) (l : List DOut) (h : l.countP (isFin g) = 0) : l.any (finErr g) = false := by
  rw [List.any_eq_false]
  intro x hx hf
  have : isFin g x = true := by
    cases x <;> simp_all [finErr, isFin]
  have hpos : 0 < l.countP (isFin g) := List.countP_pos_iff.mpr ⟨x, hx, this⟩
  omega

/-- **one device's turn, seen from client `g`** (pass alive after the turn; `n` = completions for `g` the device reports):
    `n` + what the device still holds for `g` is what it held; a client without a command is not touched; a command that
    waits for more than `n` completions has `pending` lowered by `n`, the error bits or-ed into its flag and the `305`/`308`/
    `309` lines appended; a command that waits for exactly `n` is answered: after those lines come the terminal reply —
    computed from the accumulated flag and the arglist as it stands in the store after this device's turn — and the
    prompt, nothing else; and then no action of `g` is queued anywhere. -/
theorem devPass_view (p : PassIn) (a : DevAcc) (nd : Bytes × Dev) (rest : List (Bytes × Dev)) (g : Nat) (c : Cli)
    (hinv : Inv (worldAt a (nd :: rest))) (hd : (devPass p a nd).dead = false) (hc : cliRec a.w g = some c) :
    (outsOf p a nd).countP (isFin g) + qcount g (devAfter p a nd).acts = qcount g nd.2.acts ∧
    (c.cmd = none → cliRec (devPass p a nd).w g = some c ∧ (outsOf p a nd).countP (isFin g) = 0) ∧
    (∀ k, c.cmd = some k → (outsOf p a nd).countP (isFin g) < k.pending →
      cliRec (devPass p a nd).w g =
        some { c with cmd := some { k with error := k.error || (outsOf p a nd).any (finErr g),
                                           pending := k.pending - (outsOf p a nd).countP (isFin g) },
                      toBuf := c.toBuf ++ (outsOf p a nd).flatMap (outText nd.1 g) }) ∧
    (∀ k, c.cmd = some k → (outsOf p a nd).countP (isFin g) = k.pending →
      totalQ g (worldAt (devPass p a nd) rest).devs = 0 ∧
      ∃ r, finalReply c.exprange { k with error := k.error || (outsOf p a nd).any (finErr g),
                                          args := (storeArgs (devPass p a nd).w k.al).map argC } = some r ∧
        cliRec (devPass p a nd).w g =
          some { c with cmd := none, toBuf := c.toBuf ++ (outsOf p a nd).flatMap (outText nd.1 g) ++ r ++ prompt }) := by
  obtain ⟨hd0, hnab⟩ := devPass_alive p a nd hd
  have hcW : cliRec (worldAt a (nd :: rest)) g = some c := hc
  have hg : g ≠ 0 := by
    have hm : g ∈ ids (worldAt a (nd :: rest)) := (cliRec_isSome_iff _ g).mp (by rw [hcW]; rfl)
    exact Nat.ne_of_gt (hinv.1.1.pos g hm)
  have hndm : nd ∈ (worldAt a (nd :: rest)).devs := by simp [worldAt]
  have hcount := devStep_count p a.w a.oracle nd (hinv.2.ncl nd hndm) g hg
  have hle := hinv.2.le_pending hcW hndm
  have hw := Isolation.devPass_w p a nd hd0
  have hc1 : cliOf (afterStep a.w (devStep p a.w a.oracle nd).1) g = some c := hc
  obtain ⟨hA, hB, hC⟩ := applyOuts_client (afterStep a.w (devStep p a.w a.oracle nd).1) nd.1 (outsOf p a nd) g c hc1
  dsimp only [outsOf, devAfter] at *
  refine ⟨hcount, ?_, ?_, ?_⟩
  · intro hnone
    have h0 : pendingOf c = 0 := by unfold pendingOf; rw [hnone]
    have hq0 : qcount g nd.2.acts = 0 := by omega
    refine ⟨?_, by omega⟩
    rw [devPass_client p a nd g hg (Pm.Dev2.E2E.qcount_zero_iff.mp hq0)]
    exact hc
  · intro k hk hlt
    rw [hw]
    exact hB k hk hlt
  · intro k hk hn
    have hpk : pendingOf c = k.pending := by unfold pendingOf; rw [hk]
    have hpos := hinv.2.pos g c k hcW hk
    have hq' : qcount g (devStep p a.w a.oracle nd).1.dev.acts = 0 := by omega
    have htot : totalQ g (worldAt (devPass p a nd) rest).devs = 0 := by
      rw [Isolation.worldAt_devPass_devs, stepped_alive p a nd hd0]
      have hT := hinv.2.count g c hcW
      have : (worldAt a (nd :: rest)).devs = a.devs ++ nd :: rest := rfl
      rw [this, totalQ_append, totalQ_cons] at hT
      rw [totalQ_append, totalQ_cons]
      show totalQ g a.devs + (qcount g (devStep p a.w a.oracle nd).1.dev.acts + totalQ g rest) = 0
      omega
    refine ⟨htot, ?_⟩
    obtain ⟨pre, e, post, hsplit, hpost, hpre, hres⟩ := hC k hk hpos hn
    rcases hres with hab | ⟨r, hr, hrec⟩
    · exact absurd hab hnab
    · have hlast : Pm.Dev2.E2E.LastFin g (devStep p a.w a.oracle nd).2.2.1 :=
        Pm.Dev2.E2E.postPoll_lastFin { nd.2 with args := a.w.store } (devEnv p a.w nd) a.oracle g hg hq'
      rw [hsplit] at hlast
      have hnot := forCid_nil_of_lastFin hlast hpost
      have htext : (devStep p a.w a.oracle nd).2.2.1.flatMap (outText nd.1 g) = pre.flatMap (outText nd.1 g) ++ errPre e nd.1 := by
        rw [hsplit, List.flatMap_append, List.flatMap_cons, flatMap_outText_nil nd.1 g post hnot]
        simp [outText]
      have herr : (devStep p a.w a.oracle nd).2.2.1.any (finErr g) = (pre.any (finErr g) || (e != .success)) := by
        rw [hsplit, List.any_append, List.any_cons, any_finErr_nil g post hpost]
        simp [finErr]
      have hstore : storeArgs (afterStep a.w (devStep p a.w a.oracle nd).1) k.al = storeArgs (devPass p a nd).w k.al := by
        unfold storeArgs; rw [devPass_store_eq _ _ _ hd0]; rfl
      refine ⟨r, ?_, ?_⟩
      · rw [← hr]
        apply Reply.finalReply_congr <;> simp only [finalCmd, herr, hstore, Bool.or_assoc]
      · rw [hw]
        refine hrec.trans ?_
        rw [htext, flatMap_outText_nil nd.1 g post hnot]
        simp [List.append_assoc]

theorem devPass_rec_before (p : PassIn) (a : DevAcc) (nd : Bytes × Dev) (g : Nat) (c' : Cli)
    (h : cliRec (devPass p a nd).w g = some c') : ∃ c, cliRec a.w g = some c := by
  have hm : g ∈ ids (devPass p a nd).w := (cliRec_isSome_iff _ g).mp (by rw [h]; rfl)
  rw [(Isolation.devPass_ids_eq p a nd).1] at hm
  have := (cliRec_isSome_iff a.w g).mpr hm
  cases hq : cliRec a.w g with
  | none => rw [hq] at this; cases this
  | some c => exact ⟨c, rfl⟩

/-- **one device's turn keeps `pending` = queued** (pass alive after the turn) -/
theorem devPass_link (p : PassIn) (a : DevAcc) (nd : Bytes × Dev) (rest : List (Bytes × Dev))
    (hinv : Inv (worldAt a (nd :: rest))) (hd : (devPass p a nd).dead = false) : Link (worldAt (devPass p a nd) rest) := by
  obtain ⟨hd0, _⟩ := devPass_alive p a nd hd
  have hdevs : (worldAt (devPass p a nd) rest).devs = a.devs ++ (nd.1, (devStep p a.w a.oracle nd).1.dev) :: rest := by
    rw [Isolation.worldAt_devPass_devs, stepped_alive p a nd hd0]
  have hold : (worldAt a (nd :: rest)).devs = a.devs ++ nd :: rest := rfl
  have hndm : nd ∈ (worldAt a (nd :: rest)).devs := by simp [worldAt]
  -- every record afterwards, in terms of the record before
  have key : ∀ g c', cliRec (devPass p a nd).w g = some c' →
      pendingOf c' = totalQ g (worldAt (devPass p a nd) rest).devs ∧ (∀ k, c'.cmd = some k → 0 < k.pending ∧ 0 < k.al) := by
    intro g c' hc'
    obtain ⟨c, hc⟩ := devPass_rec_before p a nd g c' hc'
    have hcW : cliRec (worldAt a (nd :: rest)) g = some c := hc
    obtain ⟨h1, h2, h3, h4⟩ := devPass_view p a nd rest g c hinv hd hc
    dsimp only [outsOf, devAfter] at h1 h2 h3 h4
    have hle := hinv.2.le_pending hcW hndm
    have hT := hinv.2.count g c hcW
    rw [hold, totalQ_append, totalQ_cons] at hT
    rw [hdevs, totalQ_append, totalQ_cons]
    show _ = totalQ g a.devs + (qcount g (devStep p a.w a.oracle nd).1.dev.acts + totalQ g rest) ∧ _
    cases hk : c.cmd with
    | none =>
      obtain ⟨e1, e2⟩ := h2 hk
      rw [e1] at hc'; cases hc'
      refine ⟨by omega, fun k hk' => by rw [hk] at hk'; cases hk'⟩
    | some k =>
      have hpk : pendingOf c = k.pending := by unfold pendingOf; rw [hk]
      by_cases hlt : (devStep p a.w a.oracle nd).2.2.1.countP (isFin g) < k.pending
      · rw [h3 k hk hlt] at hc'
        simp only [Option.some.injEq] at hc'
        subst hc'
        refine ⟨by simp only [pendingOf]; omega, ?_⟩
        intro k' hk'
        simp only [Option.some.injEq] at hk'
        subst hk'
        exact ⟨by simp only; omega, hinv.2.alpos g c k hcW hk⟩
      · have hn : (devStep p a.w a.oracle nd).2.2.1.countP (isFin g) = k.pending := by omega
        obtain ⟨_, r, _, hrec⟩ := h4 k hk hn
        rw [hrec] at hc'
        simp only [Option.some.injEq] at hc'
        subst hc'
        refine ⟨by simp only [pendingOf]; omega, fun k' hk' => by simp at hk'⟩
  refine ⟨fun g c' hc' => (key g c' hc').1, fun g c' k hc' hk => ((key g c' hc').2 k hk).1, ?_, ?_,
    fun g c' k hc' hk => ((key g c' hc').2 k hk).2⟩
  · intro x hx
    rw [hdevs] at hx
    rcases List.mem_append.mp hx with hx | hx
    · exact hinv.2.ncl x (by rw [hold]; exact List.mem_append_left _ hx)
    · rcases List.mem_cons.mp hx with rfl | hx
      · exact devStep_ncl p a.w a.oracle nd (hinv.2.ncl nd hndm)
      · exact hinv.2.ncl x (by rw [hold]; simp [hx])
  · show 0 < (devPass p a nd).w.alNext
    rw [(Isolation.devPass_ids_eq p a nd).2.2]
    exact hinv.2.al

theorem devPass_inv (p : PassIn) (a : DevAcc) (nd : Bytes × Dev) (rest : List (Bytes × Dev))
    (hinv : Inv (worldAt a (nd :: rest))) (hd : (devPass p a nd).dead = false) : Inv (worldAt (devPass p a nd) rest) :=
  ⟨Isolation.devPass_iso p a nd rest hinv.1, devPass_link p a nd rest hinv hd⟩

/-- a dead pass stays dead -/
theorem foldl_devPass_dead (p : PassIn) (l : List (Bytes × Dev)) (a : DevAcc) (h : a.dead = true) :
    (l.foldl (devPass p) a).dead = true := by
  induction l generalizing a with
  | nil => exact h
  | cons nd r ih => rw [List.foldl_cons]; exact ih _ (by rw [devPass_dead _ _ _ h]; exact h)

theorem foldl_devPass_alive_head (p : PassIn) (nd : Bytes × Dev) (r : List (Bytes × Dev)) (a : DevAcc)
    (h : ((nd :: r).foldl (devPass p) a).dead = false) : (devPass p a nd).dead = false := by
  cases hd : (devPass p a nd).dead with
  | false => rfl
  | true => rw [List.foldl_cons, foldl_devPass_dead p r _ hd] at h; cases h

theorem foldl_devPass_inv (p : PassIn) (l : List (Bytes × Dev)) (a : DevAcc) (hinv : Inv (worldAt a l))
    (hd : (l.foldl (devPass p) a).dead = false) : Inv (worldAt (l.foldl (devPass p) a) []) := by
  induction l generalizing a with
  | nil => exact hinv
  | cons nd r ih =>
    have h1 := foldl_devPass_alive_head p nd r a hd
    rw [List.foldl_cons] at hd ⊢
    exact ih _ (devPass_inv p a nd r hinv h1) hd

/-- the pass ended in a modelled assertion (`assert` in `_act_finish`, in the device layer, in `hostlist_sort`; or the
    iteration bound of a mirror): the C process is gone, what the model computes from there on means nothing -/
def passDead (w : W) (p : PassIn) : Bool :=
  if (cliPostPoll w p.acc p.envs).exited then false
  else ((cliPostPoll w p.acc p.envs).devs.foldl (devPass p) (acc0 (cliPostPoll w p.acc p.envs))).dead

/-- **a whole pass keeps the invariant** unless it ends in an assertion -/
theorem daemonPass_inv (w : W) (p : PassIn) (h : Inv w) (hd : passDead w p = false) : Inv (daemonPass w p).1 := by
  rw [daemonPass_fst]
  have h0 := cliPostPoll_inv w p.acc p.envs h
  unfold passDead at hd
  dsimp only
  split
  · exact h0
  · rename_i hex
    rw [if_neg hex] at hd
    have := foldl_devPass_inv p (cliPostPoll w p.acc p.envs).devs (acc0 (cliPostPoll w p.acc p.envs))
      (by rw [Isolation.worldAt_acc0]; exact h0) hd
    exact ⟨⟨this.1.1.congr rfl rfl (by simp [worldAt]), this.1.2.congr rfl rfl (by simp [worldAt])⟩,
      this.2.congr rfl (by simp [worldAt]) rfl⟩

/-- the daemon starts in a state that satisfies the invariant: no client, empty queues -/
theorem inv_init (w : W) (hc : w.clients = []) (hq : ∀ nd ∈ w.devs, nd.2.acts = []) (hn : 0 < w.nextId) (ha : 0 < w.alNext) :
    Inv w := by
  refine ⟨Isolation.iso_init w hc hq hn, ?_, ?_, ?_, ha, ?_⟩
  · intro g c h; simp [cliRec, hc] at h
  · intro g c k h; simp [cliRec, hc] at h
  · intro nd hnd a ha'; rw [hq nd hnd] at ha'; cases ha'
  · intro g c k h; simp [cliRec, hc] at h

/-- **under the invariant the assertion `assert(c->cmd != NULL)` of `_act_finish` is unreachable**: in the turn of any device,
    an `_act_finish` call can end in an assertion only through F19 (the reply of a query command cannot be built because
    `hostlist_sort` asserts) -/
theorem devPass_assert_unreachable (p : PassIn) (a : DevAcc) (nd : Bytes × Dev) (rest : List (Bytes × Dev))
    (hinv : Inv (worldAt a (nd :: rest)))
    (h : anyBad nd.1 (afterStep a.w (devStep p a.w a.oracle nd).1) (outsOf p a nd) = true) :
    ∃ wm g c k e, cliOf wm g = some c ∧ c.cmd = some k ∧ k.pending = 1 ∧ finalReply c.exprange (withStore wm k e) = none := by
  refine anyBad_F19 nd.1 _ _ ?_ ?_ h
  · intro g c hc
    have hcW : cliRec (worldAt a (nd :: rest)) g = some c := hc
    have hg : g ≠ 0 := by
      have hm : g ∈ ids (worldAt a (nd :: rest)) := (cliRec_isSome_iff _ g).mp (by rw [hcW]; rfl)
      exact Nat.ne_of_gt (hinv.1.1.pos g hm)
    have hndm : nd ∈ (worldAt a (nd :: rest)).devs := by simp [worldAt]
    have hcount := devStep_count p a.w a.oracle nd (hinv.2.ncl nd hndm) g hg
    have hle := hinv.2.le_pending hcW hndm
    show (devStep p a.w a.oracle nd).2.2.1.countP (isFin g) ≤ pendingOf c
    omega
  · intro g c k hc hk
    exact hinv.2.pos g c k hc hk

/-! ## D. the device phase of a pass, seen from one client -/

/-- the completions for `g` in a run of callbacks of device `name`: (device, outcome), in order -/
def finsOf (g : Nat) (name : Bytes) (outs : List DOut) : List (Bytes × ActErr) :=
  outs.filterMap fun x => match x with | .finish cid e => if cid = g then some (name, e) else none | _ => none

/-- a completion that is not a success -/
def failed (x : Bytes × ActErr) : Bool := x.2 != .success

theorem finsOf_cons (g : Nat) (name : Bytes) (x : DOut) (r : List DOut) :
    finsOf g name (x :: r) = finsOf g name [x] ++ finsOf g name r := by
  simp [finsOf, List.filterMap_cons]
  split <;> simp

theorem finsOf_length (g : Nat) (name : Bytes) (outs : List DOut) : (finsOf g name outs).length = outs.countP (isFin g) := by
  induction outs with
  | nil => rfl
  | cons x r ih =>
    rw [finsOf_cons, List.length_append, ih, List.countP_cons]
    cases x with
    | finish cid e => by_cases h : cid = g <;> simp [finsOf, isFin, h]; omega
    | _ => simp [finsOf, isFin]

theorem finsOf_failed (g : Nat) (name : Bytes) (outs : List DOut) : (finsOf g name outs).any failed = outs.any (finErr g) := by
  induction outs with
  | nil => rfl
  | cons x r ih =>
    rw [finsOf_cons, List.any_append, ih, List.any_cons]
    cases x with
    | finish cid e => by_cases h : cid = g <;> simp [finsOf, finErr, failed, h]
    | _ => simp [finsOf, finErr]

theorem mem_finsOf {g : Nat} {name : Bytes} {outs : List DOut} {x : Bytes × ActErr} :
    x ∈ finsOf g name outs ↔ x.1 = name ∧ Pm.Dev2.Out.finish g x.2 ∈ outs := by
  unfold finsOf
  rw [List.mem_filterMap]
  constructor
  · rintro ⟨o, ho, h⟩
    cases o with
    | finish cid e =>
      simp only at h
      split at h
      · rename_i hc; subst hc
        simp only [Option.some.injEq] at h; subst h
        exact ⟨rfl, ho⟩
      · cases h
    | _ => simp at h
  · rintro ⟨h1, h2⟩
    refine ⟨_, h2, ?_⟩
    simp only [if_true, Option.some.injEq]
    rw [← h1]

/-- the callbacks of device `nd`'s turn; none once the pass is dead -/
def turnOuts (p : PassIn) (a : DevAcc) (nd : Bytes × Dev) : List DOut := if a.dead then [] else outsOf p a nd

/-- the completions the device phase reports for `g`, device by device in configuration order -/
def foldFins (p : PassIn) (g : Nat) : DevAcc → List (Bytes × Dev) → List (Bytes × ActErr)
  | _, [] => []
  | a, nd :: r => finsOf g nd.1 (turnOuts p a nd) ++ foldFins p g (devPass p a nd) r

/-- the `305`/`308`/`309` lines the device phase writes to `g` -/
def foldText (p : PassIn) (g : Nat) : DevAcc → List (Bytes × Dev) → Bytes
  | _, [] => []
  | a, nd :: r => (turnOuts p a nd).flatMap (outText nd.1 g) ++ foldText p g (devPass p a nd) r

theorem turnOuts_alive (p : PassIn) (a : DevAcc) (nd : Bytes × Dev) (h : a.dead = false) : turnOuts p a nd = outsOf p a nd := by
  unfold turnOuts; simp [h]

/-- the devices behind the one that delivered the last completion: client `g` has no command and (hence) no action anywhere;
    nothing is reported for it, nothing is written to it, its record and the arglist `al` (to which no queued action refers)
    stay as they are -/
theorem foldl_devPass_idle (p : PassIn) (g : Nat) (al : Nat) (hal : al ≠ 0) : ∀ (l : List (Bytes × Dev)) (a : DevAcc) (c : Cli),
    Inv (worldAt a l) → (l.foldl (devPass p) a).dead = false → cliRec a.w g = some c → c.cmd = none →
    (∀ nd ∈ l, ∀ x ∈ nd.2.acts, x.arglist ≠ al) →
    cliRec (l.foldl (devPass p) a).w g = some c ∧ foldFins p g a l = [] ∧ foldText p g a l = [] ∧
    (l.foldl (devPass p) a).w.store.lookup al = a.w.store.lookup al := by
  intro l
  induction l with
  | nil => intro a c _ _ hc _ _; exact ⟨hc, rfl, rfl, rfl⟩
  | cons nd r ih =>
    intro a c hinv hd hc hnone hq
    have h1 := foldl_devPass_alive_head p nd r a hd
    obtain ⟨hd0, _⟩ := devPass_alive p a nd h1
    have hcW : cliRec (worldAt a (nd :: r)) g = some c := hc
    have hg : g ≠ 0 := by
      have hm : g ∈ ids (worldAt a (nd :: r)) := (cliRec_isSome_iff _ g).mp (by rw [hcW]; rfl)
      exact Nat.ne_of_gt (hinv.1.1.pos g hm)
    have hndm : nd ∈ (worldAt a (nd :: r)).devs := by simp [worldAt]
    have hle := hinv.2.le_pending hcW hndm
    have hq0 : qcount g nd.2.acts = 0 := by
      have : pendingOf c = 0 := by unfold pendingOf; rw [hnone]
      omega
    have hnone' := Pm.Dev2.E2E.qcount_zero_iff.mp hq0
    obtain ⟨_, h2, _, _⟩ := devPass_view p a nd r g c hinv h1 hc
    obtain ⟨e1, e2⟩ := h2 hnone
    have haddr : ∀ x ∈ outsOf p a nd, outCid x ≠ some g := by
      intro x hx hcx
      rcases Isolation.devStep_addr p a.w a.oracle nd x hx g hcx with h0 | ⟨b, hb, hbc⟩
      · exact hg h0
      · exact hnone' b hb hbc
    rw [List.foldl_cons] at hd ⊢
    obtain ⟨i1, i2, i3, i4⟩ := ih (devPass p a nd) c (devPass_inv p a nd r hinv h1) hd e1 hnone
      (fun x hx => hq x (by simp [hx]))
    refine ⟨i1, ?_, ?_, ?_⟩
    · unfold foldFins
      rw [i2, turnOuts_alive p a nd hd0, List.append_nil]
      apply List.eq_nil_of_length_eq_zero
      rw [finsOf_length]; exact e2
    · unfold foldText
      rw [i3, turnOuts_alive p a nd hd0, List.append_nil]
      exact flatMap_outText_nil nd.1 g _ haddr
    · rw [i4]
      exact devPass_store_cell p a nd al hal (hq nd (by simp))

theorem cmd_self (c : Cli) (k : CmdC) (h : c.cmd = some k) :
    c = { c with cmd := some { k with error := k.error || false, pending := k.pending - 0 }, toBuf := c.toBuf ++ [] } := by
  cases c; cases k; simp_all

/-- **the device phase, seen from client `g`** which has command `k` when the phase begins (pass alive at its end).  With
    `F` the completions reported for `g` by the devices, in order, and `T` the lines written to it:
    * fewer than `pending` completions: the command stays, `pending` lowered by their number, the error flag or-ed with
      "some completion failed", `T` appended;
    * exactly `pending` completions: the command is cleared and the client was sent `T`, then the terminal reply computed
      from that flag and the arglist as it stands in the store at the end of the phase, then the prompt. -/
theorem foldl_devPass_view (p : PassIn) (g : Nat) : ∀ (l : List (Bytes × Dev)) (a : DevAcc) (c : Cli) (k : CmdC),
    Inv (worldAt a l) → (l.foldl (devPass p) a).dead = false → cliRec a.w g = some c → c.cmd = some k →
    ((foldFins p g a l).length < k.pending ∧
      cliRec (l.foldl (devPass p) a).w g =
        some { c with cmd := some { k with error := k.error || (foldFins p g a l).any failed,
                                           pending := k.pending - (foldFins p g a l).length },
                      toBuf := c.toBuf ++ foldText p g a l }) ∨
    ((foldFins p g a l).length = k.pending ∧
      ∃ r, finalReply c.exprange { k with error := k.error || (foldFins p g a l).any failed,
                                          args := (storeArgs (l.foldl (devPass p) a).w k.al).map argC } = some r ∧
        cliRec (l.foldl (devPass p) a).w g =
          some { c with cmd := none, toBuf := c.toBuf ++ foldText p g a l ++ r ++ prompt }) := by
  intro l
  induction l with
  | nil =>
    intro a c k hinv _ hc hk
    left
    exact ⟨hinv.2.pos g c k hc hk, by rw [show cliRec ([].foldl (devPass p) a).w g = cliRec a.w g from rfl, hc]; exact congrArg some (cmd_self c k hk)⟩
  | cons nd r ih =>
    intro a c k hinv hd hc hk
    have h1 := foldl_devPass_alive_head p nd r a hd
    obtain ⟨hd0, _⟩ := devPass_alive p a nd h1
    have hcW : cliRec (worldAt a (nd :: r)) g = some c := hc
    have hndm : nd ∈ (worldAt a (nd :: r)).devs := by simp [worldAt]
    have hle := hinv.2.le_pending hcW hndm
    have hpk : pendingOf c = k.pending := by unfold pendingOf; rw [hk]
    obtain ⟨hcnt, _, h3, h4⟩ := devPass_view p a nd r g c hinv h1 hc
    have hinv1 := devPass_inv p a nd r hinv h1
    rw [List.foldl_cons] at hd ⊢
    have hF : foldFins p g a (nd :: r) = finsOf g nd.1 (outsOf p a nd) ++ foldFins p g (devPass p a nd) r := by
      rw [foldFins, turnOuts_alive p a nd hd0]
    have hT : foldText p g a (nd :: r) = (outsOf p a nd).flatMap (outText nd.1 g) ++ foldText p g (devPass p a nd) r := by
      rw [foldText, turnOuts_alive p a nd hd0]
    rw [hF, hT]
    by_cases hlt : (outsOf p a nd).countP (isFin g) < k.pending
    · have hrec := h3 k hk hlt
      rcases ih (devPass p a nd) _ _ hinv1 hd hrec rfl with ⟨j1, j2⟩ | ⟨j1, r', j2, j3⟩
      · left
        simp only at j1
        refine ⟨by rw [List.length_append, finsOf_length]; omega, ?_⟩
        rw [j2]
        simp only [List.any_append, List.length_append, finsOf_length, finsOf_failed, Bool.or_assoc, List.append_assoc, Nat.sub_sub]
      · right
        simp only at j1
        refine ⟨by rw [List.length_append, finsOf_length]; omega, r', ?_, ?_⟩
        · rw [← j2]
          apply Reply.finalReply_congr <;> simp only [List.any_append, finsOf_failed, Bool.or_assoc]
        · rw [j3]
          simp only [List.append_assoc]
    · have hn : (outsOf p a nd).countP (isFin g) = k.pending := by
        dsimp only [outsOf, devAfter] at hcnt hlt ⊢
        omega
      obtain ⟨htot, r', hr', hrec⟩ := h4 k hk hn
      -- the devices behind: nothing of `g` is queued there
      have hrest0 : totalQ g r = 0 := by
        rw [Isolation.worldAt_devPass_devs, totalQ_append, totalQ_cons] at htot
        omega
      have hal := hinv.2.alpos g c k hcW hk
      have hq : ∀ nd' ∈ r, ∀ x ∈ nd'.2.acts, x.arglist ≠ k.al := by
        intro nd' hnd' x hx
        have hmem : nd' ∈ (worldAt a (nd :: r)).devs := by simp [worldAt, hnd']
        apply hinv.1.2.foreign hcW hk (Nat.ne_of_gt hal) hmem hx
        intro hxg
        obtain ⟨l1, l2, e⟩ := List.append_of_mem hnd'
        rw [e, totalQ_append, totalQ_cons] at hrest0
        have := Pm.Dev2.E2E.qcount_pos_of_mem hx hxg
        omega
      obtain ⟨i1, i2, i3, i4⟩ := foldl_devPass_idle p g k.al (Nat.ne_of_gt hal) r (devPass p a nd) _ hinv1 hd hrec rfl hq
      right
      refine ⟨by rw [i2, List.append_nil, finsOf_length]; exact hn, r', ?_, ?_⟩
      · rw [← hr']
        apply Reply.finalReply_congr <;> simp only [i2, List.append_nil, finsOf_failed]
        unfold storeArgs; rw [i4]
      · rw [i1, i3, List.append_nil]

/-! ## E. a whole pass, seen from one client -/

theorem cliStep_inv (envs : List FdEnv) (w : W) (c : Cli) (h : Inv w) (hc : c ∈ w.clients) : Inv (ClientPf.cliStep envs w c) := by
  have hidm : c.id ∈ ids w := List.mem_map.mpr ⟨c, hc, rfl⟩
  exact ⟨⟨(Isolation.cliStep_ids envs w c h.1.1 (h.1.1.below c.id hidm)).1,
    Isolation.cliStep_scope envs w c h.1.2 (h.1.1.cliRec_of_mem hc) (Nat.ne_of_gt (h.1.1.pos c.id hidm))⟩,
    cliStep_link envs w c h.1 h.2 hc⟩

/-- a property that every turn of the loop of `cli_post_poll` keeps (under the invariant) holds after the loop -/
theorem foldl_cliStep_gen (envs : List FdEnv) (P : W → Prop)
    (hP : ∀ w c0, Inv w → P w → c0 ∈ w.clients → P (ClientPf.cliStep envs w c0)) :
    ∀ (l : List Cli) (w : W), Inv w → P w → (∀ c ∈ l, c ∈ w.clients) → (l.map (·.id)).Nodup →
      P (l.foldl (ClientPf.cliStep envs) w) := by
  intro l
  induction l with
  | nil => intro w _ h _ _; exact h
  | cons c r ih =>
    intro w hI h hl hnd
    rw [List.foldl_cons]
    have hc := hl c (by simp)
    rw [List.map_cons, List.nodup_cons] at hnd
    refine ih _ (cliStep_inv envs w c hI hc) (hP w c hI h hc) ?_ hnd.2
    intro x hx
    refine Isolation.cliStep_mem envs w c x (hl x (by simp [hx])) ?_
    intro e
    exact hnd.1 (e ▸ List.mem_map.mpr ⟨x, hx, rfl⟩)

theorem cliPostPoll_gen (w : W) (acc : Nat) (envs : List FdEnv) (P : W → Prop) (h : Inv w)
    (h0 : P (ClientPf.cliAccept { w with sys := [], caps := envs.map fun (e : FdEnv) => (e.fd, e.cap) } acc))
    (hP : ∀ w c0, Inv w → P w → c0 ∈ w.clients → P (ClientPf.cliStep envs w c0)) : P (cliPostPoll w acc envs) := by
  rw [ClientPf.cliPostPoll_eq]
  have h1 : Inv { w with sys := [], caps := envs.map fun (e : FdEnv) => (e.fd, e.cap) } :=
    ⟨⟨h.1.1.congr rfl rfl rfl, ⟨h.1.2.cmds, h.1.2.acts, h.1.2.owned, h.1.2.apart, h.1.2.internal⟩⟩, h.2.congr rfl rfl rfl⟩
  have h2 : Inv (ClientPf.cliAccept _ acc) :=
    ⟨⟨Isolation.cliAccept_ids _ acc h1.1.1, Isolation.cliAccept_scope _ acc h1.1.2⟩, cliAccept_link _ acc h1.1.1 h1.2⟩
  exact foldl_cliStep_gen envs P hP _ _ h2 h0 (fun c hc => hc) h2.1.1.nodup

/-- client `g` is gone, or still has the command `k` -/
def Busy (g : Nat) (k : CmdC) (w : W) : Prop := cliRec w g = none ∨ ∃ c, cliRec w g = some c ∧ c.cmd = some k

theorem cliAccept_rec (w : W) (acc : Nat) (g : Nat) (c : Cli) (h : cliRec w g = some c) :
    cliRec (ClientPf.cliAccept w acc) g = some c := by
  unfold ClientPf.cliAccept
  split
  · show (w.clients ++ [ClientPf.newClient w]).find? (·.id == g) = some c
    rw [List.find?_append, show w.clients.find? (·.id == g) = some c from h]; rfl
  · split <;> exact h

theorem cliStep_busy (envs : List FdEnv) (g : Nat) (k : CmdC) (w : W) (c0 : Cli) (hI : Inv w) (h : Busy g k w) (hc0 : c0 ∈ w.clients) :
    Busy g k (ClientPf.cliStep envs w c0) := by
  by_cases hg : g = c0.id
  · subst hg
    have hrec0 : cliRec w c0.id = some c0 := hI.1.1.cliRec_of_mem hc0
    have hk0 : c0.cmd = some k := by
      rcases h with h | ⟨c, h1, h2⟩
      · rw [hrec0] at h; cases h
      · rw [hrec0] at h1; cases h1; exact h2
    rcases Isolation.cliStep_cases envs w c0 with ⟨_, e⟩ | ⟨_, ext, hp, ⟨c, hc, e⟩ | ⟨hn, e⟩⟩
    · rw [e]; exact Or.inr ⟨c0, hrec0, hk0⟩
    · obtain ⟨hid, _, _, henq, _⟩ := hp.alive c hc
      right
      refine ⟨c, by rw [e]; exact Isolation.find_map_replace_self w.clients c0.id c c0 hid hrec0, ?_⟩
      rw [(henq.busy (by rw [hk0]; rfl)).2.2.2, hk0]
    · left
      rw [e]; exact Isolation.find_filter_self w.clients c0.id
  · unfold Busy
    rw [Isolation.cliStep_other envs w c0 g hg]
    exact h

/-- **the client phase does not touch a command in progress**: the client is destroyed (error on its descriptor), or its
    command record is exactly what it was -/
theorem cliPostPoll_busy (w : W) (acc : Nat) (envs : List FdEnv) (g : Nat) (c : Cli) (k : CmdC) (h : Inv w)
    (hc : cliRec w g = some c) (hk : c.cmd = some k) : Busy g k (cliPostPoll w acc envs) :=
  cliPostPoll_gen w acc envs (Busy g k) h (Or.inr ⟨c, cliAccept_rec _ acc g c hc, hk⟩)
    (fun w c0 hI hB hc0 => cliStep_busy envs g k w c0 hI hB hc0)

theorem foldl_devPass_ids (p : PassIn) (l : List (Bytes × Dev)) (a : DevAcc) : ids (l.foldl (devPass p) a).w = ids a.w := by
  induction l generalizing a with
  | nil => rfl
  | cons nd r ih => rw [List.foldl_cons, ih, (Isolation.devPass_ids_eq p a nd).1]

theorem cliRec_none_iff (w : W) (g : Nat) : cliRec w g = none ↔ g ∉ ids w := by
  rw [← cliRec_isSome_iff]
  cases cliRec w g <;> simp

/-- the completions a pass reports for client `g`: (device, outcome), devices in configuration order -/
def passFins (w : W) (p : PassIn) (g : Nat) : List (Bytes × ActErr) :=
  if (cliPostPoll w p.acc p.envs).exited then []
  else foldFins p g (acc0 (cliPostPoll w p.acc p.envs)) (cliPostPoll w p.acc p.envs).devs

/-- the `305`/`308`/`309` lines the device phase of a pass writes to client `g` -/
def passText (w : W) (p : PassIn) (g : Nat) : Bytes :=
  if (cliPostPoll w p.acc p.envs).exited then []
  else foldText p g (acc0 (cliPostPoll w p.acc p.envs)) (cliPostPoll w p.acc p.envs).devs

/-- **one pass, seen from a client with a command in progress** (pass not ending in an assertion).  The client phase
    destroys the client, or leaves its command untouched (record `c1`); then, with `F = passFins w p g`:
    fewer than `pending` completions — the command stays with `pending` lowered and the error flag or-ed with "one of them
    failed"; exactly `pending` — the command is cleared and the client is sent the lines, the terminal reply computed
    from that flag and the arglist as it stands at the end of the pass, and the prompt. -/
theorem daemonPass_view (w : W) (p : PassIn) (g : Nat) (c : Cli) (k : CmdC) (hinv : Inv w) (hd : passDead w p = false)
    (hc : cliRec w g = some c) (hk : c.cmd = some k) :
    (cliRec (cliPostPoll w p.acc p.envs) g = none ∧ cliRec (daemonPass w p).1 g = none) ∨
    ∃ c1, cliRec (cliPostPoll w p.acc p.envs) g = some c1 ∧ c1.cmd = some k ∧
      (((passFins w p g).length < k.pending ∧
        cliRec (daemonPass w p).1 g =
          some { c1 with cmd := some { k with error := k.error || (passFins w p g).any failed,
                                              pending := k.pending - (passFins w p g).length },
                         toBuf := c1.toBuf ++ passText w p g }) ∨
       ((passFins w p g).length = k.pending ∧
        ∃ r, finalReply c1.exprange { k with error := k.error || (passFins w p g).any failed,
                                             args := (storeArgs (daemonPass w p).1 k.al).map argC } = some r ∧
          cliRec (daemonPass w p).1 g = some { c1 with cmd := none, toBuf := c1.toBuf ++ passText w p g ++ r ++ prompt })) := by
  have h0 := cliPostPoll_inv w p.acc p.envs hinv
  have hb := cliPostPoll_busy w p.acc p.envs g c k hinv hc hk
  rw [daemonPass_fst]
  unfold passFins passText
  unfold passDead at hd
  dsimp only
  by_cases hex : (cliPostPoll w p.acc p.envs).exited = true
  · simp only [hex, ↓reduceIte]
    rcases hb with hb | ⟨c1, hb1, hb2⟩
    · exact Or.inl ⟨hb, hb⟩
    · right
      refine ⟨c1, hb1, hb2, Or.inl ⟨h0.2.pos g c1 k hb1 hb2, ?_⟩⟩
      rw [hb1]; exact congrArg some (cmd_self c1 k hb2)
  · simp only [hex, Bool.false_eq_true, ↓reduceIte] at hd ⊢
    rcases hb with hb | ⟨c1, hb1, hb2⟩
    · left
      refine ⟨hb, ?_⟩
      show cliRec ((cliPostPoll w p.acc p.envs).devs.foldl (devPass p) (acc0 (cliPostPoll w p.acc p.envs))).w g = none
      rw [cliRec_none_iff, foldl_devPass_ids]
      exact (cliRec_none_iff _ g).mp hb
    · right
      refine ⟨c1, hb1, hb2, ?_⟩
      exact foldl_devPass_view p g (cliPostPoll w p.acc p.envs).devs (acc0 (cliPostPoll w p.acc p.envs)) c1 k
        (by rw [Isolation.worldAt_acc0]; exact h0) hd hb1 hb2

/-- the same from the middle of the pass: whatever command `k` client `g` has when the client phase is over — in particular
    one accepted in this very pass — the device phase treats as `daemonPass_view` says -/
theorem devPhase_view (w : W) (p : PassIn) (g : Nat) (c1 : Cli) (k : CmdC) (hinv : Inv w) (hd : passDead w p = false)
    (hc : cliRec (cliPostPoll w p.acc p.envs) g = some c1) (hk : c1.cmd = some k) :
    k.pending = totalQ g (cliPostPoll w p.acc p.envs).devs ∧
    (((passFins w p g).length < k.pending ∧
      cliRec (daemonPass w p).1 g =
        some { c1 with cmd := some { k with error := k.error || (passFins w p g).any failed,
                                            pending := k.pending - (passFins w p g).length },
                       toBuf := c1.toBuf ++ passText w p g }) ∨
     ((passFins w p g).length = k.pending ∧
      ∃ r, finalReply c1.exprange { k with error := k.error || (passFins w p g).any failed,
                                           args := (storeArgs (daemonPass w p).1 k.al).map argC } = some r ∧
        cliRec (daemonPass w p).1 g = some { c1 with cmd := none, toBuf := c1.toBuf ++ passText w p g ++ r ++ prompt })) := by
  have h0 := cliPostPoll_inv w p.acc p.envs hinv
  have hcnt : k.pending = totalQ g (cliPostPoll w p.acc p.envs).devs := by
    have := h0.2.count g c1 hc
    unfold pendingOf at this
    rw [hk] at this
    exact this
  refine ⟨hcnt, ?_⟩
  rw [daemonPass_fst]
  unfold passFins passText
  unfold passDead at hd
  dsimp only
  by_cases hex : (cliPostPoll w p.acc p.envs).exited = true
  · simp only [hex, ↓reduceIte]
    refine Or.inl ⟨h0.2.pos g c1 k hc hk, ?_⟩
    rw [hc]; exact congrArg some (cmd_self c1 k hk)
  · simp only [hex, Bool.false_eq_true, ↓reduceIte] at hd ⊢
    exact foldl_devPass_view p g (cliPostPoll w p.acc p.envs).devs (acc0 (cliPostPoll w p.acc p.envs)) c1 k
      (by rw [Isolation.worldAt_acc0]; exact h0) hd hc hk

/-- client `g` has no command, or one whose error flag is clear -/
def Fresh (g : Nat) (w : W) : Prop := ∀ c k, cliRec w g = some c → c.cmd = some k → k.error = false

theorem cliStep_fresh (envs : List FdEnv) (g : Nat) (w : W) (c0 : Cli) (hI : Inv w) (h : Fresh g w) (hc0 : c0 ∈ w.clients) :
    Fresh g (ClientPf.cliStep envs w c0) := by
  intro c' k hc' hk
  by_cases hg : g = c0.id
  · subst hg
    have hrec0 : cliRec w c0.id = some c0 := hI.1.1.cliRec_of_mem hc0
    rcases Isolation.cliStep_cases envs w c0 with ⟨_, e⟩ | ⟨_, ext, hp, ⟨c, hc, e⟩ | ⟨hn, e⟩⟩
    · rw [e] at hc'; exact h c' k hc' hk
    · have hid := (hp.alive c hc).1
      have hself : cliRec (ClientPf.cliStep envs w c0) c0.id = some c := by
        rw [e]; exact Isolation.find_map_replace_self w.clients c0.id c c0 hid hrec0
      rw [hself] at hc'; cases hc'
      rcases clientPass_req w c0 _ c' hc with ⟨_, d2⟩ | ⟨_, cm, names, tele, al, b1, _⟩
      · exact h c0 k hrec0 (d2 ▸ hk)
      · rw [b1] at hk; cases hk; rfl
    · rw [e] at hc'
      have : (w.clients.filter fun x => x.id != c0.id).find? (·.id == c0.id) = some c' := hc'
      rw [Isolation.find_filter_self] at this; cases this
  · rw [Isolation.cliStep_other envs w c0 g hg] at hc'
    exact h c' k hc' hk

/-- **a command accepted in this pass starts with a clear error flag**: if client `g` has no command (or is not there yet)
    when the pass begins, whatever command it has when the client phase is over has `error = false` -/
theorem cliPostPoll_fresh (w : W) (acc : Nat) (envs : List FdEnv) (g : Nat) (h : Inv w)
    (hidle : ∀ c k, cliRec w g = some c → c.cmd = some k → False) : Fresh g (cliPostPoll w acc envs) := by
  refine cliPostPoll_gen w acc envs (Fresh g) h ?_ (fun w c0 hI hF hc0 => cliStep_fresh envs g w c0 hI hF hc0)
  intro c k hc hk
  unfold ClientPf.cliAccept at hc
  split at hc
  · have hc : (w.clients ++ [ClientPf.newClient w]).find? (·.id == g) = some c := hc
    exact absurd hk (fun hk => hidle c k (Isolation.cliRec_append_new w.clients (ClientPf.newClient w) g c k rfl hc hk) hk)
  · split at hc <;> exact (hidle c k hc hk).elim

/-! ## F. a command that is over never comes back -/

/-- arglist id `A` has been handed out, and client `g` (if it is there) is not running the command with that arglist -/
def Over (g A : Nat) (w : W) : Prop := A < w.alNext ∧ ∀ c k, cliRec w g = some c → c.cmd = some k → k.al ≠ A

theorem cliAccept_over (g A : Nat) (w : W) (acc : Nat) (h : Over g A w) : Over g A (ClientPf.cliAccept w acc) := by
  unfold ClientPf.cliAccept
  split
  · refine ⟨h.1, ?_⟩
    intro c k hc hk
    have hc : (w.clients ++ [ClientPf.newClient w]).find? (·.id == g) = some c := hc
    exact h.2 c k (Isolation.cliRec_append_new w.clients (ClientPf.newClient w) g c k rfl hc hk) hk
  · split
    · exact h
    · exact h

theorem cliStep_alNext (envs : List FdEnv) (w : W) (c0 : Cli) : w.alNext ≤ (ClientPf.cliStep envs w c0).alNext := by
  rcases Isolation.cliStep_cases envs w c0 with ⟨_, e⟩ | ⟨_, ext, hp, ⟨c, hc, e⟩ | ⟨hn, e⟩⟩
  · rw [e]; exact Nat.le_refl _
  · rw [e]
    show w.alNext ≤ (clientPass w c0 (envs.find? (·.fd == c0.fd))).1.alNext
    rcases (hp.alive c hc).2.2.2.1 with ⟨_, _, a3, _⟩ | ⟨_, _, _, _, _, _, _, _, b3, _⟩
    · rw [a3]; exact Nat.le_refl _
    · rw [b3]; omega
  · rw [e]
    show w.alNext ≤ (clientPass w c0 (envs.find? (·.fd == c0.fd))).1.alNext
    rw [(hp.gone hn).2.2.1]; exact Nat.le_refl _

theorem cliStep_over (envs : List FdEnv) (g A : Nat) (w : W) (c0 : Cli) (hI : Inv w) (h : Over g A w) (hc0 : c0 ∈ w.clients) :
    Over g A (ClientPf.cliStep envs w c0) := by
  refine ⟨Nat.lt_of_lt_of_le h.1 (cliStep_alNext envs w c0), ?_⟩
  intro c' k hc' hk
  by_cases hg : g = c0.id
  · subst hg
    have hrec0 : cliRec w c0.id = some c0 := hI.1.1.cliRec_of_mem hc0
    rcases Isolation.cliStep_cases envs w c0 with ⟨_, e⟩ | ⟨_, ext, hp, ⟨c, hc, e⟩ | ⟨hn, e⟩⟩
    · rw [e] at hc'; exact h.2 c' k hc' hk
    · obtain ⟨hid, _, _, henq, _⟩ := hp.alive c hc
      have hself : cliRec (ClientPf.cliStep envs w c0) c0.id = some c := by
        rw [e]; exact Isolation.find_map_replace_self w.clients c0.id c c0 hid hrec0
      rw [hself] at hc'; cases hc'
      rcases henq with ⟨_, _, _, a4⟩ | ⟨_, k0, _, _, _, _, e1, e2, _⟩
      · exact h.2 c0 k hrec0 (a4 ▸ hk)
      · rw [e1] at hk; cases hk
        rw [e2]; exact Nat.ne_of_gt h.1
    · rw [e] at hc'
      have : (w.clients.filter fun x => x.id != c0.id).find? (·.id == c0.id) = some c' := hc'
      rw [Isolation.find_filter_self] at this; cases this
  · rw [Isolation.cliStep_other envs w c0 g hg] at hc'
    exact h.2 c' k hc' hk

theorem devPass_over (g A : Nat) (p : PassIn) (a : DevAcc) (nd : Bytes × Dev) (h : Over g A a.w) : Over g A (devPass p a nd).w := by
  refine ⟨by rw [(Isolation.devPass_ids_eq p a nd).2.2]; exact h.1, ?_⟩
  intro c' k' hc' hk'
  cases hd : a.dead with
  | true => rw [devPass_dead _ _ _ hd] at hc'; exact h.2 c' k' hc' hk'
  | false =>
    rw [Isolation.devPass_w p a nd hd] at hc'
    obtain ⟨c, k, h1, h2, h3⟩ := Isolation.applyOuts_cmd (afterStep a.w (devStep p a.w a.oracle nd).1) nd.1 _ g c' k' hc' hk'
    rw [← h3]
    exact h.2 c k h1 h2

theorem foldl_devPass_over (g A : Nat) (p : PassIn) (l : List (Bytes × Dev)) (a : DevAcc) (h : Over g A a.w) :
    Over g A (l.foldl (devPass p) a).w := by
  induction l generalizing a with
  | nil => exact h
  | cons nd r ih => rw [List.foldl_cons]; exact ih _ (devPass_over g A p a nd h)

/-- **a command that is over stays over**: no later pass gives client `g` a command with the arglist id `A` again -/
theorem daemonPass_over (g A : Nat) (w : W) (p : PassIn) (hinv : Inv w) (h : Over g A w) : Over g A (daemonPass w p).1 := by
  have h1 : Over g A (cliPostPoll w p.acc p.envs) :=
    cliPostPoll_gen w p.acc p.envs (Over g A) hinv (cliAccept_over g A _ p.acc h) (fun w c0 hI hO hc0 => cliStep_over p.envs g A w c0 hI hO hc0)
  rw [daemonPass_fst]
  dsimp only
  split
  · exact h1
  · exact foldl_devPass_over g A p _ (acc0 (cliPostPoll w p.acc p.envs)) h1

/-! ## G. any number of passes -/

open Pm.Daemon.Isolation (runPasses)

/-- the completions a run of passes reports for client `g`, in order -/
def runFins : W → List PassIn → Nat → List (Bytes × ActErr)
  | _, [], _ => []
  | w, p :: ps, g => passFins w p g ++ runFins (daemonPass w p).1 ps g

/-- no pass of the run ends in a modelled assertion -/
def Alive : W → List PassIn → Prop
  | _, [] => True
  | w, p :: ps => passDead w p = false ∧ Alive (daemonPass w p).1 ps

theorem runPasses_cons (w : W) (p : PassIn) (ps : List PassIn) : runPasses w (p :: ps) = runPasses (daemonPass w p).1 ps := rfl

theorem runPasses_append (w : W) (ps qs : List PassIn) : runPasses w (ps ++ qs) = runPasses (runPasses w ps) qs := by
  unfold runPasses; rw [List.foldl_append]

theorem runFins_append (w : W) (ps qs : List PassIn) (g : Nat) :
    runFins w (ps ++ qs) g = runFins w ps g ++ runFins (runPasses w ps) qs g := by
  induction ps generalizing w with
  | nil => rfl
  | cons p ps ih => rw [List.cons_append, runFins, runFins, ih, runPasses_cons, List.append_assoc]

theorem Alive.append {w : W} {ps qs : List PassIn} (h : Alive w (ps ++ qs)) : Alive w ps ∧ Alive (runPasses w ps) qs := by
  induction ps generalizing w with
  | nil => exact ⟨trivial, h⟩
  | cons p ps ih =>
    obtain ⟨h1, h2⟩ := h
    obtain ⟨i1, i2⟩ := ih h2
    exact ⟨⟨h1, i1⟩, i2⟩

/-- **the invariant over a run** -/
theorem runPasses_inv (w : W) (ps : List PassIn) (h : Inv w) (ha : Alive w ps) : Inv (runPasses w ps) := by
  induction ps generalizing w with
  | nil => exact h
  | cons p ps ih => rw [runPasses_cons]; exact ih _ (daemonPass_inv w p h ha.1) ha.2

theorem runPasses_over (g A : Nat) (w : W) (ps : List PassIn) (h : Inv w) (ha : Alive w ps) (ho : Over g A w) :
    Over g A (runPasses w ps) := by
  induction ps generalizing w with
  | nil => exact ho
  | cons p ps ih => rw [runPasses_cons]; exact ih _ (daemonPass_inv w p h ha.1) ha.2 (daemonPass_over g A w p h ho)

theorem daemonPass_alNext (w : W) (p : PassIn) (h : Inv w) : w.alNext ≤ (daemonPass w p).1.alNext := by
  have h1 : w.alNext ≤ (cliPostPoll w p.acc p.envs).alNext :=
    cliPostPoll_gen w p.acc p.envs (fun x => w.alNext ≤ x.alNext) h
      (by unfold ClientPf.cliAccept; split; · exact Nat.le_refl _
          · split <;> exact Nat.le_refl _)
      (fun x c0 _ hx _ => Nat.le_trans hx (cliStep_alNext p.envs x c0))
  rw [daemonPass_fst]
  dsimp only
  split
  · exact h1
  · have : ∀ (l : List (Bytes × Dev)) (a : DevAcc), (l.foldl (devPass p) a).w.alNext = a.w.alNext := by
      intro l; induction l with
      | nil => intro a; rfl
      | cons nd r ih => intro a; rw [List.foldl_cons, ih, (Isolation.devPass_ids_eq p a nd).2.2]
    show w.alNext ≤ ((cliPostPoll w p.acc p.envs).devs.foldl (devPass p) (acc0 (cliPostPoll w p.acc p.envs))).w.alNext
    rw [this]; exact h1

/-- **tracking a command over a run.**  Client `g` has command `k` (arglist id `A`) at the start; if after the run it still
    (again: see `Over`) has a command with arglist id `A`, that command is `k` with `pending` lowered by the number of
    completions the run reported for `g` — fewer than `pending` — and the error flag or-ed with "one of them failed". -/
theorem run_track (g : Nat) : ∀ (ps : List PassIn) (w : W) (c : Cli) (k : CmdC), Inv w → Alive w ps →
    cliRec w g = some c → c.cmd = some k →
    ∀ c' k', cliRec (runPasses w ps) g = some c' → c'.cmd = some k' → k'.al = k.al →
      (runFins w ps g).length < k.pending ∧
      k' = { k with error := k.error || (runFins w ps g).any failed, pending := k.pending - (runFins w ps g).length } := by
  intro ps
  induction ps with
  | nil =>
    intro w c k hinv _ hc hk c' k' hc' hk' _
    have : cliRec (runPasses w []) g = cliRec w g := rfl
    rw [this, hc] at hc'; cases hc'
    rw [hk] at hk'; cases hk'
    exact ⟨hinv.2.pos g c k hc hk, by cases k; simp [runFins]⟩
  | cons p ps ih =>
    intro w c k hinv ha hc hk c' k' hc' hk' hal
    obtain ⟨ha1, ha2⟩ := ha
    have hinv' := daemonPass_inv w p hinv ha1
    rw [runPasses_cons] at hc'
    have hA : k.al < (daemonPass w p).1.alNext := Nat.lt_of_lt_of_le (hinv.1.2.cmds g c k hc hk) (daemonPass_alNext w p hinv)
    have hover : cliRec (daemonPass w p).1 g = none ∨ (∃ c2, cliRec (daemonPass w p).1 g = some c2 ∧ c2.cmd = none) → False := by
      intro hgone
      have ho : Over g k.al (daemonPass w p).1 := by
        refine ⟨hA, ?_⟩
        intro c2 k2 h1 h2
        rcases hgone with hn | ⟨c3, h3, h4⟩
        · rw [hn] at h1; cases h1
        · rw [h3] at h1; cases h1; rw [h4] at h2; cases h2
      exact (runPasses_over g k.al _ ps hinv' ha2 ho).2 c' k' hc' hk' hal
    rcases daemonPass_view w p g c k hinv ha1 hc hk with ⟨_, hn⟩ | ⟨c1, _, _, ⟨hlt, hrec⟩ | ⟨_, r, _, hrec⟩⟩
    · exact absurd (Or.inl hn) hover
    · obtain ⟨i1, i2⟩ := ih _ _ _ hinv' ha2 hrec rfl c' k' hc' hk' hal
      simp only at i1 i2
      refine ⟨by rw [runFins, List.length_append]; omega, ?_⟩
      rw [i2, runFins]
      simp only [List.any_append, List.length_append, Bool.or_assoc, Nat.sub_sub]
    · exact absurd (Or.inr ⟨_, hrec, rfl⟩) hover

/-- **the pass that answers the command.**  Client `g` has command `k0` at the start of a run none of whose passes ends in an
    assertion; before the last pass `p` of the run the command (identified by its arglist id) is still in progress, after it
    the client is there and idle.  Then the run reported exactly `k0.pending` completions for `g`, and in pass `p` the
    client — `c1` is its record when the client phase of `p` is over — was sent the lines of that pass, then the terminal
    reply `r` computed from `k0`'s targets, the flag `k0.error ∨ some completion of the run failed` and the arglist as it
    stands after the pass, then the prompt, and nothing else. -/
theorem run_answer (w0 : W) (ps : List PassIn) (p : PassIn) (g : Nat) (c0 : Cli) (k0 : CmdC) (c' : Cli)
    (hinv : Inv w0) (ha : Alive w0 (ps ++ [p])) (hc0 : cliRec w0 g = some c0) (hk0 : c0.cmd = some k0)
    (hbusy : ∃ c k, cliRec (runPasses w0 ps) g = some c ∧ c.cmd = some k ∧ k.al = k0.al)
    (hidle : cliRec (runPasses w0 (ps ++ [p])) g = some c') (hnone : c'.cmd = none) :
    (runFins w0 (ps ++ [p]) g).length = k0.pending ∧
    ∃ c1 r, cliRec (cliPostPoll (runPasses w0 ps) p.acc p.envs) g = some c1 ∧
      finalReply c1.exprange { k0 with error := k0.error || (runFins w0 (ps ++ [p]) g).any failed,
                                       args := (storeArgs (runPasses w0 (ps ++ [p])) k0.al).map argC } = some r ∧
      c'.toBuf = c1.toBuf ++ passText (runPasses w0 ps) p g ++ r ++ prompt := by
  obtain ⟨ha1, ha2⟩ := ha.append
  obtain ⟨c, k, hc, hk, hal⟩ := hbusy
  obtain ⟨t1, t2⟩ := run_track g ps w0 c0 k0 hinv ha1 hc0 hk0 c k hc hk hal
  have hinv1 := runPasses_inv w0 ps hinv ha1
  have hlast : runPasses w0 (ps ++ [p]) = (daemonPass (runPasses w0 ps) p).1 := by rw [runPasses_append]; rfl
  rw [hlast] at hidle ⊢
  have hF : runFins w0 (ps ++ [p]) g = runFins w0 ps g ++ passFins (runPasses w0 ps) p g := by
    rw [runFins_append]; simp [runFins]
  rcases daemonPass_view (runPasses w0 ps) p g c k hinv1 ha2.1 hc hk with ⟨_, hn⟩ | ⟨c1, h1, _, ⟨_, hrec⟩ | ⟨hn, r, hr, hrec⟩⟩
  · rw [hn] at hidle; cases hidle
  · rw [hrec] at hidle; cases hidle; cases hnone
  · rw [hrec] at hidle
    simp only [Option.some.injEq] at hidle
    subst hidle
    rw [t2] at hn hr
    simp only at hn hr
    refine ⟨by rw [hF, List.length_append]; omega, c1, r, h1, ?_, rfl⟩
    rw [← hr]
    apply Reply.finalReply_congr <;> simp only [hF, List.any_append, Bool.or_assoc]

/-- **what can become of a command over a run**: it is still in progress at the end; or there is a pass `p` of the run
    before which it is in progress and after which the client is gone (destroyed: the completions of its actions are
    dropped) or idle (answered: `run_answer` says with what) -/
theorem run_outcome (g : Nat) : ∀ (ps : List PassIn) (w : W) (c : Cli) (k : CmdC), Inv w → Alive w ps →
    cliRec w g = some c → c.cmd = some k →
    (∃ c' k', cliRec (runPasses w ps) g = some c' ∧ c'.cmd = some k' ∧ k'.al = k.al) ∨
    (∃ ps1 p ps2, ps = ps1 ++ p :: ps2 ∧
      (∃ c1 k1, cliRec (runPasses w ps1) g = some c1 ∧ c1.cmd = some k1 ∧ k1.al = k.al) ∧
      (cliRec (runPasses w (ps1 ++ [p])) g = none ∨ ∃ c2, cliRec (runPasses w (ps1 ++ [p])) g = some c2 ∧ c2.cmd = none)) := by
  intro ps
  induction ps with
  | nil => intro w c k _ _ hc hk; exact Or.inl ⟨c, k, hc, hk, rfl⟩
  | cons p ps ih =>
    intro w c k hinv ha hc hk
    obtain ⟨ha1, ha2⟩ := ha
    have hhere : ∃ c1 k1, cliRec (runPasses w []) g = some c1 ∧ c1.cmd = some k1 ∧ k1.al = k.al := ⟨c, k, hc, hk, rfl⟩
    rcases daemonPass_view w p g c k hinv ha1 hc hk with ⟨_, hn⟩ | ⟨c1, _, _, ⟨_, hrec⟩ | ⟨_, r, _, hrec⟩⟩
    · exact Or.inr ⟨[], p, ps, rfl, hhere, Or.inl hn⟩
    · rcases ih _ _ _ (daemonPass_inv w p hinv ha1) ha2 hrec rfl with h | ⟨ps1, p', ps2, e, ⟨c2, k2, h1, h2, h3⟩, h4⟩
      · exact Or.inl h
      · exact Or.inr ⟨p :: ps1, p', ps2, by rw [e]; rfl, ⟨c2, k2, h1, h2, h3⟩, h4⟩
    · exact Or.inr ⟨[], p, ps, rfl, hhere, Or.inr ⟨_, hrec, rfl⟩⟩

/-! ## H. reading off C02 -/

/-- a buffer that ends with the 210 line and the prompt does not end with the 102 line and the prompt -/
theorem not_ok_suffix_err (X : Bytes) : ¬ (okLine ++ prompt <:+ X ++ errLine ++ prompt) := by
  intro h
  obtain ⟨t, ht⟩ := h
  have h1 : t ++ okLine = X ++ errLine := by
    apply List.append_cancel_right (bs := prompt)
    simpa [List.append_assoc] using ht
  have h2 := congrArg (fun (l : List UInt8) => (l.reverse.take 35)) h1
  simp only [List.reverse_append] at h2
  have e1 : (okLine.reverse ++ t.reverse).take 35 = okLine.reverse.take 35 := by
    rw [List.take_append_of_le_length]; decide +kernel
  have e2 : (errLine.reverse ++ X.reverse).take 35 = errLine.reverse := by
    rw [List.take_append_of_le_length (by decide +kernel)]; decide +kernel
  rw [e1, e2] at h2
  revert h2
  decide +kernel

theorem any_failed_false {F : List (Bytes × ActErr)} : F.any failed = false ↔ ∀ x ∈ F, x.2 = .success := by
  rw [List.any_eq_false]
  constructor
  · intro h x hx
    have := h x hx
    simpa [failed] using this
  · intro h x hx
    simp [failed, h x hx]

/-- the terminal line of a power command, from the flag "error so far or one of the completions `F` failed" and the arglist
    `args`: 102 exactly when the flag is clear, every completion is a success and no result cell of a target is `unknown`;
    210 otherwise -/
theorem power_reply (ex : Bool) (k : CmdC) (F : List (Bytes × ActErr)) (args : List ArgC) (r : Bytes) (hp : isPower k.com = true)
    (hr : finalReply ex { k with error := k.error || F.any failed, args := args } = some r) :
    (r = okLine ↔ k.error = false ∧ (∀ x ∈ F, x.2 = .success) ∧
      ∀ n ∈ k.names, ∀ a, args.find? (·.node == n) = some a → a.result ≠ 1) ∧
    (r ≠ okLine → r = errLine) := by
  obtain ⟨h1, h2⟩ := Reply.finalReply_power_iff ex { k with error := k.error || F.any failed, args := args } hp
  rw [hr] at h1 h2
  simp only [Option.some.injEq, Bool.or_eq_false_iff, any_failed_false, ne_eq] at h1 h2
  exact ⟨by rw [h1]; exact and_assoc, h2⟩

/-- every failed completion of a pass leaves a line `308 <device>: <reason>` among the lines written to the client -/
theorem foldText_failure (p : PassIn) (g : Nat) : ∀ (l : List (Bytes × Dev)) (a : DevAcc) (x : Bytes × ActErr),
    x ∈ foldFins p g a l → x.2 ≠ .success →
    ∃ u v reason, foldText p g a l = u ++ (bstr "308 " ++ (x.1 ++ reason) ++ crlf) ++ v := by
  intro l
  induction l with
  | nil => intro a x hx; simp [foldFins] at hx
  | cons nd r ih =>
    intro a x hx hf
    rw [foldFins] at hx
    rw [foldText]
    rcases List.mem_append.mp hx with hx | hx
    · obtain ⟨h1, h2⟩ := mem_finsOf.mp hx
      obtain ⟨o1, o2, ho⟩ := List.append_of_mem h2
      obtain ⟨reason, hre⟩ := Reply.errPre_failure x.2 nd.1 hf
      refine ⟨o1.flatMap (outText nd.1 g), o2.flatMap (outText nd.1 g) ++ foldText p g (devPass p a nd) r, reason, ?_⟩
      rw [ho, List.flatMap_append, List.flatMap_cons, h1, ← hre]
      simp [outText, List.append_assoc]
    · obtain ⟨u, v, reason, e⟩ := ih _ x hx hf
      exact ⟨(turnOuts p a nd).flatMap (outText nd.1 g) ++ u, v, reason, by rw [e]; simp [List.append_assoc]⟩

theorem passText_failure (w : W) (p : PassIn) (g : Nat) (x : Bytes × ActErr) (hx : x ∈ passFins w p g) (hf : x.2 ≠ .success) :
    ∃ u v reason, passText w p g = u ++ (bstr "308 " ++ (x.1 ++ reason) ++ crlf) ++ v := by
  unfold passFins at hx
  unfold passText
  split
  · rename_i h; rw [if_pos h] at hx; cases hx
  · rename_i h; rw [if_neg h] at hx
    exact foldText_failure p g _ _ x hx hf

/-- a completion in the log of the device phase was reported by the turn of some device, under that device's name -/
theorem mem_foldFins (p : PassIn) (g : Nat) : ∀ (l : List (Bytes × Dev)) (a : DevAcc) (x : Bytes × ActErr),
    x ∈ foldFins p g a l →
    ∃ i nd, l[i]? = some nd ∧ x.1 = nd.1 ∧ (accAt p a l i).dead = false ∧
      Pm.Dev2.Out.finish g x.2 ∈ (devStep p (accAt p a l i).w (accAt p a l i).oracle nd).2.2.1 := by
  intro l
  induction l with
  | nil => intro a x hx; simp [foldFins] at hx
  | cons nd r ih =>
    intro a x hx
    rw [foldFins] at hx
    rcases List.mem_append.mp hx with hx | hx
    · obtain ⟨h1, h2⟩ := mem_finsOf.mp hx
      unfold turnOuts at h2
      split at h2
      · cases h2
      · rename_i hd
        exact ⟨0, nd, rfl, h1, by simpa using hd, by simpa using h2⟩
    · obtain ⟨i, nd', h1, h2, h3, h4⟩ := ih _ x hx
      exact ⟨i + 1, nd', by simpa using h1, h2, by rw [accAt_succ_cons]; exact h3, by rw [accAt_succ_cons]; exact h4⟩

/-- **a success in a device's turn is a script that ran to its end**: the turn's `_process_action` loop went through an
    iteration (`iterStates`, starting from the device as `_handle_ready_device`, `_reconnect` and the ping left it) in which
    the head action — an action of client `g` — completed (`Completes`) -/
theorem turn_success (p : PassIn) (w : W) (o : Oracle) (nd : Bytes × Dev) (g : Nat)
    (h : Pm.Dev2.Out.finish g .success ∈ (devStep p w o nd).2.2.1) :
    ∃ s ∈ Pm.Dev2.Login2.iterStates
        (Pm.Dev2.passFuel (Pm.Dev2.Login2.postPollPre { nd.2 with args := w.store } (devEnv p w nd)).1.dev)
        (Pm.Dev2.Login2.postPollPre { nd.2 with args := w.store } (devEnv p w nd)).1 o []
        (Pm.Dev2.Login2.postPollPre { nd.2 with args := w.store } (devEnv p w nd)).2,
      ∃ act, Pm.Dev2.E2E.Completes s.1 s.2 act ∧ act.clientId = g :=
  Pm.Dev2.E2E.postPoll_success _ _ _ g h

/-- **an accepted request**: the line leaves a client that had no command with the command `k`.  Then `k`'s error flag is
    clear, `pending` is the number of actions `dev_enqueue_actions` appended over all devices (positive), every device's
    queue was extended by its `newActs` for the request, and every device the request involves passed the capability check -/
theorem request_installed (w : W) (c : Cli) (line : Bytes) (k : CmdC) (h0 : c.cmd = none)
    (hk : (parseLine w c line).2.cmd = some k) :
    ∃ tele al, k.error = false ∧ 0 < k.pending ∧
      k.pending = installTotal (comIdx k.com) (k.names.map ofChars) c.id tele al w.devs ∧
      (parseLine w c line).1.devs = w.devs.map (installDev (comIdx k.com) (k.names.map ofChars) c.id tele al) ∧
      (∀ nd ∈ w.devs, needsDev nd.2 (k.names.map ofChars) = true → handles nd.2 (comIdx k.com) (k.names.map ofChars) = true) := by
  rcases parseLine_req w c line with ⟨_, h2⟩ | ⟨_, cm, names, tele, al, b1, b2, b3, b4⟩
  · rw [h2, h0] at hk; cases hk
  · rw [b1] at hk
    simp only [Option.some.injEq] at hk
    subst hk
    exact ⟨tele, al, rfl, b2, rfl, b4, b3⟩

/-- **targets that no script can handle**: if some device the request involves has no script variant that can serve it,
    `install` answers 213, nothing is queued and the client gets no command -/
theorem cannot_be_handled (w : W) (c : Cli) (com : Com) (names : List Name) (nd : Bytes × Dev) (hnd : nd ∈ w.devs)
    (hneed : needsDev nd.2 (names.map ofChars) = true) (hno : handles nd.2 (comIdx com) (names.map ofChars) = false) :
    install w c com names = (w, put c (codeLine 213 ++ crlf ++ (if c.quit then [] else prompt))) := by
  rcases Enq.install_cases w c com names with h | ⟨h1, _⟩
  · exact h
  · rw [h1 nd hnd hneed] at hno; cases hno

/-! ### start-up: `dev_initial_connect` -/

theorem foldl_icStep_link (now : Nat) (con soe : List Nat) (g : Nat) (hg : g ≠ 0) : ∀ (l : List (Bytes × Dev)) (acc : W × List String × List (Bytes × Dev)),
    (∀ nd ∈ l, NoClientLogin nd.2) → (∀ nd ∈ acc.2.2, NoClientLogin nd.2) →
    totalQ g (l.foldl (Isolation.icStep now con soe) acc).2.2 = totalQ g acc.2.2 + totalQ g l ∧
    ∀ nd ∈ (l.foldl (Isolation.icStep now con soe) acc).2.2, NoClientLogin nd.2 := by
  intro l
  induction l with
  | nil => intro acc _ ha; exact ⟨by simp, ha⟩
  | cons nd r ih =>
    intro acc hl ha
    rw [List.foldl_cons]
    obtain ⟨w, lines, devs⟩ := acc
    have hn : ∀ x ∈ (Isolation.icStep now con soe (w, lines, devs) nd).2.2, NoClientLogin x.2 := by
      intro x hx
      simp only [Isolation.icStep, List.mem_append, List.mem_singleton] at hx
      rcases hx with hx | rfl
      · exact ha x hx
      · exact Pm.Dev2.Login2.connectDev_ncl _ (hl nd (by simp))
    obtain ⟨i1, i2⟩ := ih (Isolation.icStep now con soe (w, lines, devs) nd) (fun x hx => hl x (by simp [hx])) hn
    refine ⟨?_, i2⟩
    rw [i1]
    have := congrArg (List.count g) (Pm.Dev2.Login2.connectDev_clientIds { dev := nd.2, env := mkDevEnv w nd.2 now con soe [], sys := [] })
    rw [Pm.Dev2.E2E.count_clientIds g hg, Pm.Dev2.E2E.count_clientIds g hg] at this
    simp only at this
    simp only [Isolation.icStep, totalQ_append, totalQ_cons, totalQ_nil, this]
    omega

/-- **`dev_initial_connect` keeps the invariant** (it only adds login actions, which belong to no client) -/
theorem initialConnect_inv (w : W) (now : Nat) (con soe : List Nat) (h : Inv w) : Inv (initialConnect w now con soe).1 := by
  refine ⟨Isolation.initialConnect_iso w now con soe h.1, ?_⟩
  rw [Isolation.initialConnect_eq]
  obtain ⟨h1, _, h3, _⟩ := Isolation.foldl_icStep (fun _ _ => True) trivial now con soe w.devs (w, [], [])
    (fun _ _ _ _ => trivial) (by intro nd hnd; cases hnd)
  have hc : ∀ g, cliRec { (w.devs.foldl (Isolation.icStep now con soe) (w, [], [])).1 with devs := (w.devs.foldl (Isolation.icStep now con soe) (w, [], [])).2.2 } g = cliRec w g := by
    intro g; unfold cliRec; rw [show _ = w.clients from h1]
  refine ⟨?_, fun g c k hg => h.2.pos g c k (hc g ▸ hg), ?_, by rw [show _ = w.alNext from h3]; exact h.2.al,
    fun g c k hg => h.2.alpos g c k (hc g ▸ hg)⟩
  · intro g c hg
    rw [hc g] at hg
    have hgid : g ≠ 0 := by
      have hm : g ∈ ids w := (cliRec_isSome_iff _ g).mp (by rw [hg]; rfl)
      exact Nat.ne_of_gt (h.1.1.pos g hm)
    rw [h.2.count g c hg]
    have := (foldl_icStep_link now con soe g hgid w.devs (w, [], []) h.2.ncl (by intro nd hnd; cases hnd)).1
    simp only [totalQ_nil, Nat.zero_add] at this
    exact this.symm
  · exact (foldl_icStep_link now con soe 1 (by decide) w.devs (w, [], []) h.2.ncl (by intro nd hnd; cases hnd)).2

/-- the result cells the reply looks at: the arglist of the command as it stands in the store of `w` -/
def resultCells (w : W) (k : CmdC) : List ArgC := (storeArgs w k.al).map argC

/-- no result cell of a target is classified unsuccessful (`RT_UNKNOWN`) -/
def ResultsOk (w : W) (k : CmdC) : Prop := ∀ n ∈ k.names, ∀ a, (resultCells w k).find? (·.node == n) = some a → a.result ≠ 1

/-- **soundness.**  (Hypotheses as in `run_answer`; the command is a power command.)  If the client's output buffer ends
    with `102 Command completed successfully` and the prompt after the answering pass, then: the error flag was clear at
    the start; the run reported exactly `pending` completions for the client — as many as it had actions queued at the
    start —; every one of them is a success; and no result cell of a target is `unknown` in the arglist as it stands after
    the pass. -/
theorem sound (w0 : W) (ps : List PassIn) (p : PassIn) (g : Nat) (c0 : Cli) (k0 : CmdC) (c' : Cli)
    (hinv : Inv w0) (ha : Alive w0 (ps ++ [p])) (hc0 : cliRec w0 g = some c0) (hk0 : c0.cmd = some k0)
    (hp : isPower k0.com = true)
    (hbusy : ∃ c k, cliRec (runPasses w0 ps) g = some c ∧ c.cmd = some k ∧ k.al = k0.al)
    (hidle : cliRec (runPasses w0 (ps ++ [p])) g = some c') (hnone : c'.cmd = none)
    (h102 : okLine ++ prompt <:+ c'.toBuf) :
    k0.error = false ∧ (runFins w0 (ps ++ [p]) g).length = k0.pending ∧ k0.pending = totalQ g w0.devs ∧
    (∀ x ∈ runFins w0 (ps ++ [p]) g, x.2 = .success) ∧ ResultsOk (runPasses w0 (ps ++ [p])) k0 := by
  obtain ⟨hlen, c1, r, _, hr, hbuf⟩ := run_answer w0 ps p g c0 k0 c' hinv ha hc0 hk0 hbusy hidle hnone
  obtain ⟨hiff, helse⟩ := power_reply c1.exprange k0 _ _ r hp hr
  have hrok : r = okLine := by
    apply Classical.byContradiction
    intro hne
    rw [hbuf, helse hne] at h102
    exact not_ok_suffix_err _ h102
  obtain ⟨e1, e2, e3⟩ := hiff.mp hrok
  have hcnt : pendingOf c0 = totalQ g w0.devs := hinv.2.count g c0 hc0
  unfold pendingOf at hcnt
  rw [hk0] at hcnt
  exact ⟨e1, hlen, hcnt, e2, e3⟩

/-- **completeness.**  (Hypotheses as in `run_answer`; a power command.)  If the error flag was clear at the start, every
    completion the run reported for the client is a success, and no result cell of a target is `unknown` after the pass,
    the client was sent — after the lines of that pass — `102 Command completed successfully` and the prompt. -/
theorem complete (w0 : W) (ps : List PassIn) (p : PassIn) (g : Nat) (c0 : Cli) (k0 : CmdC) (c' : Cli)
    (hinv : Inv w0) (ha : Alive w0 (ps ++ [p])) (hc0 : cliRec w0 g = some c0) (hk0 : c0.cmd = some k0)
    (hp : isPower k0.com = true)
    (hbusy : ∃ c k, cliRec (runPasses w0 ps) g = some c ∧ c.cmd = some k ∧ k.al = k0.al)
    (hidle : cliRec (runPasses w0 (ps ++ [p])) g = some c') (hnone : c'.cmd = none)
    (herr : k0.error = false) (hall : ∀ x ∈ runFins w0 (ps ++ [p]) g, x.2 = .success)
    (hres : ResultsOk (runPasses w0 (ps ++ [p])) k0) :
    ∃ c1, cliRec (cliPostPoll (runPasses w0 ps) p.acc p.envs) g = some c1 ∧
      c'.toBuf = c1.toBuf ++ passText (runPasses w0 ps) p g ++ okLine ++ prompt := by
  obtain ⟨_, c1, r, h1, hr, hbuf⟩ := run_answer w0 ps p g c0 k0 c' hinv ha hc0 hk0 hbusy hidle hnone
  obtain ⟨hiff, _⟩ := power_reply c1.exprange k0 _ _ r hp hr
  have hrok : r = okLine := hiff.mpr ⟨herr, hall, hres⟩
  exact ⟨c1, h1, by rw [hbuf, hrok]⟩

/-- **errors.**  (Hypotheses as in `run_answer`; a power command.)  If the error flag was set at the start, or some
    completion the run reported for the client is a failure (expect time-out, aborted queue entry, connect or login
    time-out), or some result cell of a target is `unknown` after the pass, the client was sent — after the lines of that
    pass — `210 Command completed with errors` and the prompt; and every failed completion of that pass has its line
    `308 <device>: <reason>` among those lines. -/
theorem errors (w0 : W) (ps : List PassIn) (p : PassIn) (g : Nat) (c0 : Cli) (k0 : CmdC) (c' : Cli)
    (hinv : Inv w0) (ha : Alive w0 (ps ++ [p])) (hc0 : cliRec w0 g = some c0) (hk0 : c0.cmd = some k0)
    (hp : isPower k0.com = true)
    (hbusy : ∃ c k, cliRec (runPasses w0 ps) g = some c ∧ c.cmd = some k ∧ k.al = k0.al)
    (hidle : cliRec (runPasses w0 (ps ++ [p])) g = some c') (hnone : c'.cmd = none)
    (hbad : k0.error = true ∨ (∃ x ∈ runFins w0 (ps ++ [p]) g, x.2 ≠ .success) ∨ ¬ ResultsOk (runPasses w0 (ps ++ [p])) k0) :
    (∃ c1, cliRec (cliPostPoll (runPasses w0 ps) p.acc p.envs) g = some c1 ∧
      c'.toBuf = c1.toBuf ++ passText (runPasses w0 ps) p g ++ errLine ++ prompt) ∧
    ∀ x ∈ passFins (runPasses w0 ps) p g, x.2 ≠ .success →
      ∃ u v reason, passText (runPasses w0 ps) p g = u ++ (bstr "308 " ++ (x.1 ++ reason) ++ crlf) ++ v := by
  obtain ⟨_, c1, r, h1, hr, hbuf⟩ := run_answer w0 ps p g c0 k0 c' hinv ha hc0 hk0 hbusy hidle hnone
  obtain ⟨hiff, helse⟩ := power_reply c1.exprange k0 _ _ r hp hr
  have hrne : r ≠ okLine := by
    intro hrok
    obtain ⟨e1, e2, e3⟩ := hiff.mp hrok
    rcases hbad with h | ⟨x, hx, hf⟩ | h
    · rw [e1] at h; cases h
    · exact hf (e2 x hx)
    · exact h e3
  exact ⟨⟨c1, h1, by rw [hbuf, helse hrne]⟩, fun x hx hf => passText_failure _ p g x hx hf⟩

/-- the invariant, spelled out for one client -/
theorem Inv.spelled {w : W} (h : Inv w) (g : Nat) (c : Cli) (hc : cliRec w g = some c) :
    match c.cmd with
    | some k => k.pending = totalQ g w.devs ∧ 0 < k.pending
    | none => totalQ g w.devs = 0 := by
  have h1 := h.2.count g c hc
  unfold pendingOf at h1
  cases hk : c.cmd with
  | none => rw [hk] at h1; exact h1.symm
  | some k => rw [hk] at h1; exact ⟨h1, h.2.pos g c k hc hk⟩

end Pm.Daemon.E2E

section AxiomChecks
open Pm.Daemon.E2E
/-- info: 'Pm.Daemon.E2E.sound' depends on axioms: [propext, Classical.choice, Quot.sound] -/
#guard_msgs in #print axioms sound
/-- info: 'Pm.Daemon.E2E.complete' depends on axioms: [propext, Classical.choice, Quot.sound] -/
#guard_msgs in #print axioms complete
/-- info: 'Pm.Daemon.E2E.errors' depends on axioms: [propext, Classical.choice, Quot.sound] -/
#guard_msgs in #print axioms errors
/-- info: 'Pm.Daemon.E2E.daemonPass_inv' depends on axioms: [propext, Classical.choice, Quot.sound] -/
#guard_msgs in #print axioms daemonPass_inv
/-- info: 'Pm.Daemon.E2E.daemonPass_view' depends on axioms: [propext, Classical.choice, Quot.sound] -/
#guard_msgs in #print axioms daemonPass_view
/-- info: 'Pm.Daemon.E2E.turn_success' depends on axioms: [propext, Classical.choice, Quot.sound] -/
#guard_msgs in #print axioms turn_success
/-- info: 'Pm.Daemon.E2E.request_installed' depends on axioms: [propext, Classical.choice, Quot.sound] -/
#guard_msgs in #print axioms request_installed
/-- info: 'Pm.Daemon.E2E.newActs_covers' depends on axioms: [propext, Quot.sound] -/
#guard_msgs in #print axioms newActs_covers
/-- info: 'Pm.Daemon.E2E.cannot_be_handled' depends on axioms: [propext, Quot.sound] -/
#guard_msgs in #print axioms cannot_be_handled
/-- info: 'Pm.Daemon.E2E.anyBad_F19' depends on axioms: [propext, Classical.choice, Quot.sound] -/
#guard_msgs in #print axioms anyBad_F19
/-- info: 'Pm.Daemon.E2E.run_outcome' depends on axioms: [propext, Classical.choice, Quot.sound] -/
#guard_msgs in #print axioms run_outcome
/-- info: 'Pm.Daemon.E2E.run_track' depends on axioms: [propext, Classical.choice, Quot.sound] -/
#guard_msgs in #print axioms run_track
/-- info: 'Pm.Daemon.E2E.initialConnect_inv' depends on axioms: [propext, Classical.choice, Quot.sound] -/
#guard_msgs in #print axioms initialConnect_inv
/-- info: 'Pm.Daemon.E2E.devPhase_view' depends on axioms: [propext, Classical.choice, Quot.sound] -/
#guard_msgs in #print axioms devPhase_view
/-- info: 'Pm.Daemon.E2E.cliPostPoll_fresh' depends on axioms: [propext, Classical.choice, Quot.sound] -/
#guard_msgs in #print axioms cliPostPoll_fresh
end AxiomChecks
