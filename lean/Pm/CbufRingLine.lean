import Pm.CbufRingWrite
/-! Refinement proof of the index-level cbuf model, part 3: `cbuf_find_unread_line` as a scan over the unread bytes,
`cbuf_read_line`. -/
namespace Pm.CbufRing

/-- the scan of `cbuf_find_unread_line` over the unread bytes as a list: `(m, l, lines)` when the loop ends -/
def scan : List UInt8 → Nat → Nat → Nat → Int → Int → Nat × Nat × Int
  | [], _, m, l, _, lines => (m, l, lines)
  | b :: bs, n, m, l, chars, lines =>
    if (if chars > 0 then chars - 1 else chars) = 0 ∨ (if (b == 10) = true ∧ lines > 0 then lines - 1 else lines) = 0 then
      (if (b == 10) = true then n + 1 else m, if (b == 10) = true then l + 1 else l,
        if (b == 10) = true ∧ lines > 0 then lines - 1 else lines)
    else
      scan bs (n + 1) (if (b == 10) = true then n + 1 else m) (if (b == 10) = true then l + 1 else l)
        (if chars > 0 then chars - 1 else chars) (if (b == 10) = true ∧ lines > 0 then lines - 1 else lines)

/-- `cbuf_find_unread_line` on the unread bytes `c`: the number of bytes that make up the lines asked for, and the
    number of lines -/
def findLineSpec (c : List UInt8) (chars lines : Int) : Nat × Nat :=
  if lines = 0 ∨ (lines ≤ -1 ∧ chars ≤ 0) then (0, 0)
  else if c = [] then (0, 0)
  else if (scan c 0 0 0 (if lines > 0 then -1 else chars) lines).2.2 > 0 then (0, 0)
  else ((scan c 0 0 0 (if lines > 0 then -1 else chars) lines).1, (scan c 0 0 0 (if lines > 0 then -1 else chars) lines).2.1)

/-- the loop of the model walks the ring exactly as `scan` walks the unread bytes -/
theorem findLoop_eq_scan (data : List UInt8) (size i_in : Nat) (hl : data.length = size + 1) (k : Nat) :
    ∀ (fuel : Nat) (s : FLoop), k ≤ fuel → k ≤ size → s.i ≤ size → (s.i + k) % (size + 1) = i_in → s.cur = data.drop s.i →
      ((findLoop fuel data size i_in s).m, (findLoop fuel data size i_in s).l, (findLoop fuel data size i_in s).lines) =
        scan (rslice data (size + 1) s.i k) s.n s.m s.l s.chars s.lines := by
  induction k with
  | zero =>
    intro fuel s _ _ hi hk _
    have : s.i = i_in := by rw [← hk]; simp; exact (Nat.mod_eq_of_lt (by omega)).symm
    cases fuel with
    | zero => simp [findLoop, scan]
    | succ f => simp [findLoop, this, scan]
  | succ k ih =>
    intro fuel s hf hks hi hk hcur
    cases fuel with
    | zero => omega
    | succ f =>
      have hne : s.i ≠ i_in := by
        have := mod2 (s.i + (k + 1)) (size + 1) (by omega)
        omega
      have hsl : rslice data (size + 1) s.i (k + 1) = data.getD s.i 0 :: rslice data (size + 1) ((s.i + 1) % (size + 1)) k := by
        have := rslice_add data (size + 1) s.i 1 k
        rw [Nat.add_comm 1 k] at this
        rw [this]
        simp [rslice, Nat.mod_eq_of_lt (show s.i < size + 1 by omega)]
      have hhead : s.cur.headD 0 = data.getD s.i 0 := by
        rw [hcur, List.getD_eq_getElem?_getD, ← List.head?_drop]
        cases hd : data.drop s.i <;> simp [List.headD]
      unfold findLoop
      rw [hsl]
      simp only [ne_eq, hne, not_false_eq_true, ↓reduceIte, hhead]
      unfold scan
      generalize (data.getD s.i 0 == 10) = nl
      by_cases hstop : (if s.chars > 0 then s.chars - 1 else s.chars) = 0 ∨ (if nl = true ∧ s.lines > 0 then s.lines - 1 else s.lines) = 0
      · rw [if_pos hstop, if_pos hstop]
      · rw [if_neg hstop, if_neg hstop]
        have hm := mod2 (s.i + 1) (size + 1) (by omega)
        apply ih f _ (by omega) (by omega)
        · dsimp only; omega
        · dsimp only; rw [mod_add_mod']; rw [← hk]; congr 1; omega
        · dsimp only
          by_cases hz : (s.i + 1) % (size + 1) = 0
          · rw [if_pos hz, hz]; rfl
          · rw [if_neg hz, hcur, List.tail_drop]
            congr 1; omega

/-- the byte count the scan reports never exceeds the bytes it has walked over -/
theorem scan_le (c : List UInt8) (n m l : Nat) (chars lines : Int) (hm : m ≤ n) :
    (scan c n m l chars lines).1 ≤ n + c.length := by
  induction c generalizing n m l chars lines with
  | nil => simp [scan]; omega
  | cons b bs ih =>
    unfold scan
    generalize (if chars > 0 then chars - 1 else chars) = chars'
    generalize (if (b == 10) = true ∧ lines > 0 then lines - 1 else lines) = lines'
    by_cases hstop : chars' = 0 ∨ lines' = 0
    · rw [if_pos hstop]; simp only [List.length_cons]; split <;> omega
    · rw [if_neg hstop]
      have := ih (n + 1) (if (b == 10) = true then n + 1 else m) (if (b == 10) = true then l + 1 else l) chars' lines'
        (by split <;> omega)
      simp only [List.length_cons]; omega

theorem findLineSpec_le (c : List UInt8) (chars lines : Int) : (findLineSpec c chars lines).1 ≤ c.length := by
  unfold findLineSpec
  by_cases h1 : lines = 0 ∨ (lines ≤ -1 ∧ chars ≤ 0)
  · rw [if_pos h1]; exact Nat.zero_le _
  · rw [if_neg h1]
    by_cases h2 : c = []
    · rw [if_pos h2]; exact Nat.zero_le _
    · rw [if_neg h2]
      by_cases h3 : (scan c 0 0 0 (if lines > 0 then -1 else chars) lines).2.2 > 0
      · rw [if_pos h3]; exact Nat.zero_le _
      · rw [if_neg h3]
        have := scan_le c 0 0 0 (if lines > 0 then -1 else chars) lines (Nat.le_refl _)
        simpa using this

/-- `cbuf_find_unread_line` on a valid ring is the scan of the unread bytes -/
theorem findUnreadLine_eq (r : Ring) (chars lines : Int) (h : ValidP r) :
    findUnreadLine r chars lines = findLineSpec r.contents chars lines := by
  unfold findUnreadLine findLineSpec
  have hcl := h.contents_length
  by_cases h1 : lines = 0 ∨ (lines ≤ -1 ∧ chars ≤ 0)
  · rw [if_pos h1, if_pos h1]
  · rw [if_neg h1, if_neg h1]
    by_cases h2 : r.used = 0
    · rw [if_pos h2, if_pos (List.length_eq_zero_iff.mp (by rw [hcl]; exact h2))]
    · have hne : r.contents ≠ [] := by
        intro hh; rw [hh] at hcl; simp at hcl; omega
      rw [if_neg h2, if_neg hne]
      dsimp only
      have hk := findLoop_eq_scan r.data r.size r.i_in h.len r.used (r.size + 1)
        { i := r.i_out, cur := r.data.drop r.i_out, n := 0, m := 0, l := 0, chars := if lines > 0 then -1 else chars, lines := lines }
        (by have := h.used_le; omega) h.used_le h.out_le h.in_eq.symm rfl
      dsimp only at hk
      rw [← h.contents_eq] at hk
      rw [← hk]

/-! ### `cbuf_read_line` -/

/-- `cbuf_read_line (src, dstbuf, len, lines)` on a valid ring: the ring stays valid, no assertion fires (in particular
    the inner `cbuf_reader` delivers exactly `m` bytes and `cbuf_dropper` is never asked for more than `used`); invalid
    arguments are refused; otherwise, with `n` the byte count that `cbuf_find_unread_line` finds on the unread bytes
    (`findLineSpec contents (len - 1) lines`): `n` is returned; if `n > 0`, `dstbuf` (when `len > 0`) receives the first
    `min n (len - 1)` unread bytes, and exactly the first `n` unread bytes leave the ring — a line longer than the
    caller's buffer is cut, its tail is discarded, as `cbuf.h` says; if `n = 0` nothing changes. -/
theorem readLine_spec (r : Ring) (len lines : Int) (h : ValidP r) :
    ValidP (readLine r len lines).2.2.1 ∧ (readLine r len lines).2.2.2 = true ∧
    ((len < 0 ∨ lines < -1) → (readLine r len lines).1 = -1 ∧ (readLine r len lines).2.1 = none ∧ (readLine r len lines).2.2.1 = r) ∧
    (¬ (len < 0 ∨ lines < -1) →
      (readLine r len lines).1 = ((if lines = 0 then 0 else (findLineSpec r.contents (len - 1) lines).1 : Nat) : Int) ∧
      (readLine r len lines).2.2.1.contents = r.contents.drop (if lines = 0 then 0 else (findLineSpec r.contents (len - 1) lines).1) ∧
      (readLine r len lines).2.1 =
        (if lines ≠ 0 ∧ 0 < (findLineSpec r.contents (len - 1) lines).1 ∧ 0 < len then
          some (r.contents.take (min (findLineSpec r.contents (len - 1) lines).1 (len - 1).toNat)) else none)) := by
  have hv := (valid_iff r).mpr h
  unfold readLine
  by_cases h1 : len < 0 ∨ lines < -1
  · rw [if_pos h1]; exact ⟨h, rfl, fun _ => ⟨rfl, rfl, rfl⟩, fun hh => absurd h1 hh⟩
  · rw [if_neg h1]
    by_cases h2 : lines = 0
    · rw [if_pos h2]
      refine ⟨h, rfl, fun hh => absurd hh h1, fun _ => ?_⟩
      simp [h2]
    · rw [if_neg h2]
      dsimp only
      rw [findUnreadLine_eq r _ _ h]
      have hle := findLineSpec_le r.contents (len - 1) lines
      rw [h.contents_length] at hle
      generalize (findLineSpec r.contents (len - 1) lines).1 = n at hle
      generalize (len - 1).toNat = k
      by_cases h3 : n > 0
      · rw [if_pos h3]
        have hdv := dropper_valid r n h hle
        have hdo := dropper_ok r n h hle h3
        have hdc := dropper_contents r n h hle
        by_cases h4 : len > 0 ∧ min n k > 0
        · simp only [h4, and_self, ↓reduceIte]
          have hm := reader_mem r (min n k) [] h h4.2
          have hs := reader_spec r (min n k) (.mem []) h h4.2
          have hmin : min (min n k) r.used = min n k := by omega
          refine ⟨hdv, ?_, fun hh => absurd hh h1, fun _ => ⟨by simp [h2], by simp [h2, hdc], ?_⟩⟩
          · simp [hv, hs.1, hm.1, hmin, hdo, (valid_iff _).mpr hdv]
          · simp [h2, h3, h4.1, hm.2]
        · have hx : (if len > 0 ∧ min n k > 0 then reader r (min n k) (.mem []) else ((0 : Int), Putter.mem [], true))
              = ((0 : Int), Putter.mem [], true) := by rw [if_neg h4]
          rw [hx]
          simp only [h4, ↓reduceIte]
          refine ⟨hdv, by simp [hv, hdo, (valid_iff _).mpr hdv], fun hh => absurd hh h1, fun _ => ⟨by simp [h2], by simp [h2, hdc], ?_⟩⟩
          by_cases h5 : len > 0
          · have h6 : min n k = 0 := by
              have : ¬ (min n k > 0) := fun hh => h4 ⟨h5, hh⟩
              omega
            simp [h2, h3, h5, h6, Putter.out]
          · simp [h5]
      · rw [if_neg h3]
        have hn0 : n = 0 := by omega
        subst hn0
        refine ⟨h, by simp [hv], fun hh => absurd hh h1, fun _ => ?_⟩
        simp [h2]

/-! ### one line (`lines = 1`: the call `client.c` makes) -/

theorem scan_one (c : List UInt8) (n m l : Nat) :
    scan c n m l (-1) 1 =
      if 10 ∈ c then (n + (c.takeWhile (· != 10)).length + 1, l + 1, 0) else (m, l, 1) := by
  induction c generalizing n m l with
  | nil => simp [scan]
  | cons b bs ih =>
    unfold scan
    by_cases hb : b = 10
    · subst hb
      simp
    · have hb' : (b == 10) = false := by simp [hb]
      have hb2 : (b != 10) = true := by simp [hb]
      have hmem : (10 ∈ b :: bs) ↔ 10 ∈ bs := by
        simp only [List.mem_cons]
        constructor
        · rintro (h | h)
          · exact absurd h.symm hb
          · exact h
        · exact Or.inr
      simp only [hb', Bool.false_eq_true, false_and, ↓reduceIte, List.takeWhile_cons, hb2, List.length_cons, hmem]
      have : ¬ ((if (-1 : Int) > 0 then (-1 : Int) - 1 else -1) = 0 ∨ (1 : Int) = 0) := by decide
      rw [if_neg this]
      have e : (if (-1 : Int) > 0 then (-1 : Int) - 1 else -1) = -1 := by decide
      rw [e, ih]
      split
      · congr 1; omega
      · rfl

/-- asked for one line, `cbuf_find_unread_line` finds the bytes up to and including the first line feed, or nothing -/
theorem findLineSpec_one (c : List UInt8) (chars : Int) :
    findLineSpec c chars 1 = if 10 ∈ c then ((c.takeWhile (· != 10)).length + 1, 1) else (0, 0) := by
  unfold findLineSpec
  have h1 : ¬ ((1 : Int) = 0 ∨ ((1 : Int) ≤ -1 ∧ chars ≤ 0)) := by omega
  have h2 : (if (1 : Int) > 0 then (-1 : Int) else chars) = -1 := by simp
  rw [if_neg h1, h2, scan_one]
  by_cases hc : c = []
  · subst hc; simp
  · rw [if_neg hc]
    by_cases hm : 10 ∈ c
    · simp [hm]
    · simp [hm]

theorem takeWhile_line (c : List UInt8) (h : 10 ∈ c) :
    c.take ((c.takeWhile (· != 10)).length + 1) = c.takeWhile (· != 10) ++ [10] ∧
    c.drop ((c.takeWhile (· != 10)).length + 1) = (c.dropWhile (· != 10)).drop 1 := by
  induction c with
  | nil => cases h
  | cons b bs ih =>
    by_cases hb : b = 10
    · subst hb; simp
    · have hb2 : (b != 10) = true := by simp [hb]
      have hmem : 10 ∈ bs := by
        rcases List.mem_cons.mp h with h | h
        · exact absurd h.symm hb
        · exact h
      obtain ⟨i1, i2⟩ := ih hmem
      simp only [List.takeWhile_cons, hb2, ↓reduceIte, List.length_cons, List.take_succ_cons, List.drop_succ_cons,
        List.dropWhile_cons, List.cons_append]
      exact ⟨by rw [i1], i2⟩

/-- `cbuf_read_line (src, buf, len, 1)` with a buffer that is long enough, on a valid ring.  If the unread bytes contain
    a line feed, the return value is the length of the first line including it, `buf` receives exactly that line, and
    exactly that line leaves the ring; if they contain none, 0 is returned and the unread bytes stay. -/
theorem readLine_one (r : Ring) (len : Int) (h : ValidP r) (hlen : 0 ≤ len) :
    (10 ∈ r.contents → ((r.contents.takeWhile (· != 10)).length + 1 : Nat) < len →
      (readLine r len 1).1 = (((r.contents.takeWhile (· != 10)).length + 1 : Nat) : Int) ∧
      (readLine r len 1).2.1 = some (r.contents.takeWhile (· != 10) ++ [10]) ∧
      (readLine r len 1).2.2.1.contents = (r.contents.dropWhile (· != 10)).drop 1) ∧
    (10 ∉ r.contents → (readLine r len 1).1 = 0 ∧ (readLine r len 1).2.1 = none ∧
      (readLine r len 1).2.2.1.contents = r.contents) := by
  obtain ⟨_, _, _, hs⟩ := readLine_spec r len 1 h
  obtain ⟨s1, s2, s3⟩ := hs (by omega)
  rw [findLineSpec_one] at s1 s2 s3
  have h10 : ¬ ((1 : Int) = 0) := by decide
  simp only [h10, ↓reduceIte] at s1 s2 s3
  constructor
  · intro hm hl
    simp only [hm, ↓reduceIte] at s1 s2 s3
    obtain ⟨t1, t2⟩ := takeWhile_line r.contents hm
    refine ⟨s1, ?_, by rw [s2, t2]⟩
    rw [s3]
    have hlp : 0 < len := by omega
    have hmin : min ((r.contents.takeWhile (· != 10)).length + 1) (len - 1).toNat = (r.contents.takeWhile (· != 10)).length + 1 := by omega
    simp only [ne_eq, not_false_eq_true, Nat.zero_lt_succ, hlp, and_self, ↓reduceIte, hmin, t1, h10]
  · intro hm
    simp only [hm, ↓reduceIte] at s1 s2 s3
    refine ⟨by simpa using s1, ?_, by simpa using s2⟩
    rw [s3]; simp

end Pm.CbufRing
