import Pm.FrameEx
import Pm.Dev2Fd
import Pm.Dev2Login2
import Pm.TelnetPass
import Pm.InterpSends
/-! Helper lemmas for C04 (timer coverage: no wedge, tenure, minimum over the devices), C12 (i/o error, restart after a
    connect, what a time-out reports, recovery) and C20 (shutdown, daemon-level descriptor ledger) on the mirrors
    `Pm/Dev2.lean` (`device.c`) and `Pm/Daemon.lean` (`powermand.c`, `client.c`).  No model definition is touched. -/
namespace Pm.Dev2.Timer
open Pm.Dev2 Pm.Dev2.Login2

/-! ## 1. what script statements leave alone: the device time-out, the retry bookkeeping, the action's time stamp -/

structure SameTimer (d d' : Dev) : Prop where
  timeout : d'.timeout = d.timeout
  retryCount : d'.retryCount = d.retryCount
  lastRetry : d'.lastRetry = d.lastRetry

theorem SameTimer.rfl' (d : Dev) : SameTimer d d := ⟨rfl, rfl, rfl⟩
theorem SameTimer.trans {a b c : Dev} (h1 : SameTimer a b) (h2 : SameTimer b c) : SameTimer a c :=
  ⟨h2.timeout.trans h1.timeout, h2.retryCount.trans h1.retryCount, h2.lastRetry.trans h1.lastRetry⟩

theorem stmtExpect_timer (d a o pat) : SameTimer d (stmtExpect d a o pat).dev ∧ (stmtExpect d a o pat).act.timeStamp = a.timeStamp := by
  unfold stmtExpect; constructor
  · constructor <;> grind
  · grind
theorem stmtSend_timer (d a o e fmt) : SameTimer d (stmtSend d a o e fmt).dev ∧ (stmtSend d a o e fmt).act.timeStamp = a.timeStamp := by
  unfold stmtSend; constructor
  · constructor <;> grind [setTop]
  · grind [setTop]
theorem stmtDelay_timer (d a o e now us) : SameTimer d (stmtDelay d a o e now us).dev ∧ (stmtDelay d a o e now us).act.timeStamp = a.timeStamp := by
  unfold stmtDelay; constructor
  · constructor <;> grind [setTop]
  · grind [setTop]
theorem stmtSetplugstate_timer (d a o e l p s i) : SameTimer d (stmtSetplugstate d a o e l p s i).dev ∧ (stmtSetplugstate d a o e l p s i).act.timeStamp = a.timeStamp := by
  unfold stmtSetplugstate; constructor
  · constructor <;> grind [setArgs]
  · grind
theorem stmtSetresult_timer (d a o p s i) : SameTimer d (stmtSetresult d a o p s i).dev ∧ (stmtSetresult d a o p s i).act.timeStamp = a.timeStamp := by
  unfold stmtSetresult; constructor
  · constructor <;> grind [setArgs]
  · grind
theorem stmtForeach_timer (d a o e b n) : SameTimer d (stmtForeach d a o e b n).dev ∧ (stmtForeach d a o e b n).act.timeStamp = a.timeStamp := by
  unfold stmtForeach; constructor
  · constructor <;> grind [setTop]
  · grind [setTop]
theorem stmtIf_timer (d a o e b n) : SameTimer d (stmtIf d a o e b n).dev ∧ (stmtIf d a o e b n).act.timeStamp = a.timeStamp := by
  unfold stmtIf; constructor
  · constructor <;> grind [setTop]
  · grind [setTop]

theorem processStmt_timer (d : Dev) (a : Action) (o : Oracle) (now : Time) :
    SameTimer d (processStmt d a o now).dev ∧ (processStmt d a o now).act.timeStamp = a.timeStamp := by
  unfold processStmt
  dsimp only
  split
  · exact ⟨SameTimer.rfl' d, rfl⟩
  all_goals first
    | exact stmtExpect_timer _ _ _ _
    | exact stmtSend_timer _ _ _ _ _
    | exact stmtDelay_timer _ _ _ _ _ _
    | exact stmtSetplugstate_timer _ _ _ _ _ _ _ _
    | exact stmtSetresult_timer _ _ _ _ _ _
    | exact stmtForeach_timer _ _ _ _ _ _
    | exact stmtIf_timer _ _ _ _ _ _

theorem innerLoop_timer (now : Time) (fuel : Nat) (d : Dev) (a : Action) (o : Oracle) (acc : List Out) :
    SameTimer d (innerLoop now fuel d a o acc).dev ∧ (innerLoop now fuel d a o acc).act.timeStamp = a.timeStamp := by
  induction fuel generalizing d a o acc with
  | zero => simpa [innerLoop] using processStmt_timer d a o now
  | succ n ih =>
    unfold innerLoop; dsimp only
    have hp := processStmt_timer d a o now
    split
    · have := ih (processStmt d a o now).dev (processStmt d a o now).act (processStmt d a o now).oracle (acc ++ (processStmt d a o now).out)
      exact ⟨hp.1.trans this.1, this.2.trans hp.2⟩
    · simpa using hp

/-! ## 2. what the connection layer leaves alone: the clock of the pass, the device time-out, the scripts -/

structure SameClock (c c' : CS) : Prop where
  now : c'.env.now = c.env.now
  timeout : c'.dev.timeout = c.dev.timeout
  scripts : c'.dev.scripts = c.dev.scripts

theorem SameClock.rfl' (c : CS) : SameClock c c := ⟨rfl, rfl, rfl⟩
theorem SameClock.trans {a b c : CS} (h1 : SameClock a b) (h2 : SameClock b c) : SameClock a c :=
  ⟨h2.now.trans h1.now, h2.timeout.trans h1.timeout, h2.scripts.trans h1.scripts⟩

/-- the retry bookkeeping (`retry_count`, `last_retry`) is left alone as well -/
structure SameRetry (c c' : CS) : Prop extends SameClock c c' where
  retryCount : c'.dev.retryCount = c.dev.retryCount
  lastRetry : c'.dev.lastRetry = c.dev.lastRetry

theorem SameRetry.rfl' (c : CS) : SameRetry c c := ⟨SameClock.rfl' c, rfl, rfl⟩
theorem SameRetry.trans {a b c : CS} (h1 : SameRetry a b) (h2 : SameRetry b c) : SameRetry a c :=
  ⟨h1.toSameClock.trans h2.toSameClock, h2.retryCount.trans h1.retryCount, h2.lastRetry.trans h1.lastRetry⟩

theorem SameRetry.mk' {c c' : CS} (h : c'.env.now = c.env.now ∧ c'.dev.timeout = c.dev.timeout ∧ c'.dev.scripts = c.dev.scripts ∧
    c'.dev.retryCount = c.dev.retryCount ∧ c'.dev.lastRetry = c.dev.lastRetry) : SameRetry c c' :=
  ⟨⟨h.1, h.2.1, h.2.2.1⟩, h.2.2.2.1, h.2.2.2.2⟩
theorem SameRetry.flat {c c' : CS} (h : SameRetry c c') : c'.env.now = c.env.now ∧ c'.dev.timeout = c.dev.timeout ∧
    c'.dev.scripts = c.dev.scripts ∧ c'.dev.retryCount = c.dev.retryCount ∧ c'.dev.lastRetry = c.dev.lastRetry :=
  ⟨h.now, h.timeout, h.scripts, h.retryCount, h.lastRetry⟩

theorem finishConnectOne_retry (c : CS) : SameRetry c (finishConnectOne c).1 := by
  apply SameRetry.mk'
  unfold finishConnectOne; grind

theorem connectOne_retry (c : CS) : SameRetry c (connectOne c).1 := by
  apply SameRetry.mk'
  have := fun c => (finishConnectOne_retry c).flat
  unfold connectOne; grind

theorem tcpConnect_retry (c : CS) : SameRetry c (tcpConnect c).1 := by
  apply SameRetry.mk'
  have := fun c => (connectOne_retry c).flat
  unfold tcpConnect; grind

theorem pipeConnect_retry (c : CS) : SameRetry c (pipeConnect c).1 := by
  apply SameRetry.mk'
  unfold pipeConnect; grind

theorem disconnectDev_retry (c : CS) : SameRetry c (disconnectDev c) := by
  apply SameRetry.mk'
  unfold disconnectDev; grind

theorem enqueueLogin_scripts (d : Dev) : (enqueueLogin d).scripts = d.scripts := rfl

/-- what `_connect` does, seen from the queue: the clock, time-out and scripts stay; `last_retry` becomes the time of the
    pass and `retry_count` goes up by one; and unless the pass is aborted either the device is not CONNECTED afterwards
    and the queue is untouched, or it is CONNECTED and the login action has been put in front of the queue with the
    former head rewound -/
theorem connectDev_cases (c : CS) (h0 : c.dev.conn = 0) :
    SameClock c (connectDev c) ∧ (connectDev c).dev.lastRetry = c.env.now ∧
    (connectDev c).dev.retryCount = c.dev.retryCount + 1 ∧ (connectDev c).dev.loggedIn = c.dev.loggedIn ∧
    ((connectDev c).aborted = false →
      ((connectDev c).dev.conn ≠ 2 ∧ (connectDev c).dev.acts = c.dev.acts) ∨
      ((connectDev c).dev.conn = 2 ∧ (connectDev c).dev.acts = (enqueueLogin c.dev).acts)) := by
  rw [Fd.connectDev_eq]
  have hb0 : (Fd.bump c).dev.conn = 0 := h0
  have hf : (if (Fd.bump c).dev.isPipe then pipeConnect (Fd.bump c) else tcpConnect (Fd.bump c)).2 =
      ((if (Fd.bump c).dev.isPipe then pipeConnect (Fd.bump c) else tcpConnect (Fd.bump c)).1.dev.conn == 2) := by
    split
    · exact pipeConnect_flag _ hb0
    · exact tcpConnect_flag _ hb0
  have hr : SameRetry (Fd.bump c) (if (Fd.bump c).dev.isPipe then pipeConnect (Fd.bump c) else tcpConnect (Fd.bump c)).1 := by
    split
    · exact pipeConnect_retry _
    · exact tcpConnect_retry _
  have ha : (if (Fd.bump c).dev.isPipe then pipeConnect (Fd.bump c) else tcpConnect (Fd.bump c)).1.dev.acts = c.dev.acts := by
    split
    · exact pipeConnect_acts _
    · exact tcpConnect_acts _
  have hl : (if (Fd.bump c).dev.isPipe then pipeConnect (Fd.bump c) else tcpConnect (Fd.bump c)).1.dev.loggedIn = c.dev.loggedIn := by
    split
    · exact pipeConnect_loggedIn _
    · exact tcpConnect_loggedIn _
  generalize (if (Fd.bump c).dev.isPipe then pipeConnect (Fd.bump c) else tcpConnect (Fd.bump c)) = r at *
  obtain ⟨c2, ok⟩ := r
  simp only at hf hr ha hl
  have hnow : c2.env.now = c.env.now := hr.now
  have hto : c2.dev.timeout = c.dev.timeout := hr.timeout
  have hsc : c2.dev.scripts = c.dev.scripts := hr.scripts
  have hrc : c2.dev.retryCount = c.dev.retryCount + 1 := hr.retryCount
  have hlr : c2.dev.lastRetry = c.env.now := hr.lastRetry
  unfold Fd.connTail
  simp only
  split
  · rename_i hh
    simp only [Bool.and_eq_true, Bool.not_eq_eq_eq_not, Bool.not_true] at hh
    refine ⟨⟨hnow, hto, hsc⟩, hlr, hrc, hl, fun _ => Or.inr ⟨?_, ?_⟩⟩
    · have := hh.1; rw [hf] at this; simpa [enqueueLogin] using this
    · show (enqueueLogin c2.dev).acts = _
      unfold enqueueLogin loginAction
      simp only [ha, hsc]
  · rename_i hh
    refine ⟨⟨hnow, hto, hsc⟩, hlr, hrc, hl, fun hna => Or.inl ⟨?_, ha⟩⟩
    intro h2
    apply hh
    have hna' : c2.aborted = false := hna
    simp [hf, h2, hna']

/-! ## 3. the back-off timer -/

/-- the instant at which `_time_to_reconnect` allows the next attempt (meaningful when `retry_count > 0`) -/
def backoffEnd (d : Dev) : Time := d.lastRetry + (rtab.getD (min (d.retryCount - 1) 6) 60) * 1000000

theorem timeToReconnect_spec (d : Dev) (now : Time) :
    (timeToReconnect d now = (true, none) ∧ (d.retryCount = 0 ∨ backoffEnd d ≤ now)) ∨
    (timeToReconnect d now = (false, some (backoffEnd d - now)) ∧ 0 < d.retryCount ∧ now < backoffEnd d) := by
  unfold timeToReconnect backoffEnd
  by_cases h : d.retryCount > 0
  · rw [if_pos h]
    dsimp only
    by_cases h2 : now ≥ d.lastRetry + rtab.getD (min (d.retryCount - 1) 6) 60 * 1000000
    · rw [if_pos h2]; exact Or.inl ⟨rfl, Or.inr h2⟩
    · rw [if_neg h2]; exact Or.inr ⟨rfl, h, by unfold Time at *; omega⟩
  · rw [if_neg h]
    exact Or.inl ⟨rfl, Or.inl (by omega)⟩

/-- a time-out is registered and is at most `b` -/
def Covers (tmo : Option Time) (b : Time) : Prop := ∃ t, tmo = some t ∧ t ≤ b

theorem covers_upd_self (tmo : Option Time) (left : Time) : Covers (upd tmo left) left := by
  unfold upd Covers; cases tmo with
  | none => exact ⟨left, rfl, Nat.le_refl _⟩
  | some x => exact ⟨min x left, rfl, Nat.min_le_right _ _⟩

theorem covers_upd (tmo : Option Time) (left b : Time) (h : Covers tmo b) : Covers (upd tmo left) b := by
  obtain ⟨t, rfl, ht⟩ := h
  exact ⟨min t left, rfl, Nat.le_trans (Nat.min_le_left _ _) ht⟩

theorem Covers.mono {tmo : Option Time} {b b' : Time} (h : Covers tmo b) (hb : b ≤ b') : Covers tmo b' := by
  obtain ⟨t, rfl, ht⟩ := h
  exact ⟨t, rfl, Nat.le_trans ht hb⟩

/-- the back-off of a device that is not connected is covered by the registered time-out — or the last attempt was
    made at the very instant of this pass (and then, as coded, nothing is registered for it) -/
def BackCov (c : CS) (tmo : Option Time) : Prop :=
  c.dev.conn = 0 → 0 < c.dev.retryCount →
    (c.env.now < backoffEnd c.dev ∧ Covers tmo (backoffEnd c.dev - c.env.now)) ∨ c.dev.lastRetry = c.env.now

theorem disconnectDev_loggedIn' (c : CS) : (disconnectDev c).dev.loggedIn = false := rfl

/-- `_reconnect` establishes `BackCov`, whatever held before -/
theorem reconnectDev_backCov (c : CS) (tmo : Option Time) : BackCov (reconnectDev c tmo).1 (reconnectDev c tmo).2 := by
  unfold reconnectDev
  dsimp only
  have h0 : (if (c.dev.conn != 0) = true then disconnectDev c else c).dev.conn = 0 := by
    split
    · exact disconnectDev_conn c
    · rename_i h; simpa using h
  generalize (if (c.dev.conn != 0) = true then disconnectDev c else c) = c1 at *
  rcases timeToReconnect_spec c1.dev c1.env.now with ⟨h, _⟩ | ⟨h, hpos, hlt⟩
  · rw [h]
    simp only
    obtain ⟨hc, hl, _⟩ := connectDev_cases c1 h0
    intro _ _
    exact Or.inr (by rw [hl, hc.now])
  · rw [h]
    simp only
    intro _ _
    exact Or.inl ⟨hlt, covers_upd_self _ _⟩

/-! ## 4. the clock and the retry bookkeeping through the rest of the pass -/

theorem telnetFilter_fields (d : Dev) (bs : Bytes) : (telnetFilter d bs).timeout = d.timeout ∧ (telnetFilter d bs).scripts = d.scripts ∧
    (telnetFilter d bs).retryCount = d.retryCount ∧ (telnetFilter d bs).lastRetry = d.lastRetry := by
  unfold telnetFilter; exact ⟨rfl, rfl, rfl, rfl⟩

theorem readyConnectFail_retry (c : CS) : SameRetry c (readyConnectFail c) := by
  apply SameRetry.mk'
  unfold readyConnectFail; grind

theorem readyConnectTail_retry (c : CS) : SameRetry c (readyConnectTail c).1 := by
  apply SameRetry.mk'
  unfold readyConnectTail enqueueLogin; grind

theorem readyConnect_retry (c : CS) : SameRetry c (readyConnect c).1 := by
  unfold readyConnect
  refine SameRetry.trans ?_ (readyConnectTail_retry _)
  split
  · exact finishConnectOne_retry c
  · exact (finishConnectOne_retry c).trans (readyConnectFail_retry _)

theorem readyWrite_retry (c : CS) : SameRetry c (readyWrite c).1 := by
  apply SameRetry.mk'
  unfold readyWrite; grind

theorem readyRead_retry (c : CS) : SameRetry c (readyRead c).1 := by
  apply SameRetry.mk'
  have := telnetFilter_fields
  unfold readyRead; grind

theorem readyTail_retry (f : Nat) (r : CS × Bool × Bool) : SameRetry r.1 (readyTail f r).1 := by
  unfold readyTail
  split
  · exact SameRetry.rfl' _
  · split
    · exact SameRetry.rfl' _
    · split
      · exact readyRead_retry _
      · exact SameRetry.rfl' _

theorem handleReady_retry (c : CS) : SameRetry c (handleReady c).1 := by
  rw [Login2.handleReady_eq]; unfold Login2.handleReady'
  dsimp only
  split
  · exact SameRetry.mk' ⟨rfl, rfl, rfl, rfl, rfl⟩
  · split
    · exact SameRetry.mk' ⟨rfl, rfl, rfl, rfl, rfl⟩
    · split
      · exact SameRetry.rfl' _
      · refine SameRetry.trans ?_ (readyTail_retry _ _)
        split
        · split
          · exact readyConnect_retry c
          · exact readyWrite_retry c
        · exact SameRetry.rfl' _

theorem reconnectDev_clock (c : CS) (tmo : Option Time) : SameClock c (reconnectDev c tmo).1 := by
  unfold reconnectDev
  dsimp only
  have h0 : (if (c.dev.conn != 0) = true then disconnectDev c else c).dev.conn = 0 := by
    split
    · exact disconnectDev_conn c
    · rename_i h; simpa using h
  have h1 : SameClock c (if (c.dev.conn != 0) = true then disconnectDev c else c) := by
    split
    · exact (disconnectDev_retry c).toSameClock
    · exact SameClock.rfl' _
  generalize (if (c.dev.conn != 0) = true then disconnectDev c else c) = c1 at *
  split
  · exact h1.trans (connectDev_cases c1 h0).1
  · exact h1
  · exact h1

/-! ## 5. `_process_action` as an iterated step: an induction principle -/

/-- to show `Post` of a run of `_process_action` from a state satisfying `Pre`: show `Post` of every iteration that ends
    the loop and `Pre` after every iteration that goes on (running out of the model's fuel is an abort) -/
theorem processActionF_ind {Pre : CS → Option Time → Prop} {Post : PA → Prop}
    (hfuel : ∀ (c : CS) o out tmo, Post ({ c with aborted := true }, o, out ++ [Out.abortAssert "model: fuel exhausted"], tmo))
    (hstop : ∀ c o out tmo, Pre c tmo → (bodyStep c o out tmo).2 = false → Post (bodyStep c o out tmo).1)
    (hgo : ∀ c o out tmo, Pre c tmo → (bodyStep c o out tmo).2 = true →
        Pre (bodyStep c o out tmo).1.1 (bodyStep c o out tmo).1.2.2.2)
    (fuel : Nat) (c : CS) (o : Oracle) (out : List Out) (tmo : Option Time) (h : Pre c tmo) :
    Post (processActionF fuel c o out tmo) := by
  induction fuel generalizing c o out tmo with
  | zero => exact hfuel c o out tmo
  | succ n ih =>
    rw [processActionF_succ]
    unfold andThen
    have h1 := hstop c o out tmo h
    have h2 := hgo c o out tmo h
    generalize bodyStep c o out tmo = s at *
    cases hs : s.2
    · simpa using h1 hs
    · simpa using ih _ _ _ _ (h2 hs)

/-! ## 6. timer coverage -/

/-- the head of the queue is covered: it carries a time stamp, its deadline lies ahead and the registered time-out is
    no later than that deadline — or it is a login action that `_reconnect`, called from the error branch, has just put
    into the (otherwise empty) queue of the freshly connected device, and that has not been looked at yet -/
def HeadCov (c : CS) (tmo : Option Time) : Prop :=
  ∀ h rest, c.dev.acts = h :: rest →
    (∃ ts, h.timeStamp = some ts ∧ c.env.now < ts + c.dev.timeout ∧ Covers tmo (ts + c.dev.timeout - c.env.now)) ∨
    (h.timeStamp = none ∧ rest = [] ∧ h.com = 0 ∧ h.clientId = 0 ∧ c.dev.conn = 2 ∧ c.dev.loggedIn = false)

def TimerPost (r : PA) : Prop := r.1.aborted = false → HeadCov r.1 r.2.2.2 ∧ BackCov r.1 r.2.2.2

theorem BackCov.transport {c c' : CS} {tmo tmo' : Option Time} (h : BackCov c tmo)
    (h1 : c'.dev.conn = c.dev.conn) (h2 : c'.dev.retryCount = c.dev.retryCount) (h3 : c'.dev.lastRetry = c.dev.lastRetry)
    (h4 : c'.env.now = c.env.now) (hm : ∀ b, Covers tmo b → Covers tmo' b) : BackCov c' tmo' := by
  unfold BackCov backoffEnd at *
  rw [h1, h2, h3, h4]
  intro a b
  rcases h a b with ⟨x, y⟩ | x
  · exact Or.inl ⟨x, hm _ y⟩
  · exact Or.inr x

/-- `_reconnect` on an empty queue: afterwards the queue is empty, or holds exactly the fresh login action of a device
    that is now CONNECTED -/
theorem reconnectDev_queue (c : CS) (tmo : Option Time) (ha : c.dev.acts = []) (h2 : c.dev.conn ≠ 0)
    (hna : (reconnectDev c tmo).1.aborted = false) :
    (reconnectDev c tmo).1.dev.acts = [] ∨
    ((reconnectDev c tmo).1.dev.acts = [loginAction c.dev] ∧ (reconnectDev c tmo).1.dev.conn = 2 ∧
      (reconnectDev c tmo).1.dev.loggedIn = false) := by
  unfold reconnectDev at hna ⊢
  have hne : (c.dev.conn != 0) = true := by simpa using h2
  simp only [hne, ↓reduceIte] at hna ⊢
  have hd := disconnectDev_empty c ha
  have hs := (disconnectDev_retry c).scripts
  have hl := disconnectDev_loggedIn' c
  have h0 := disconnectDev_conn c
  generalize disconnectDev c = c1 at *
  split
  · rename_i heq
    simp only [heq] at hna
    obtain ⟨_, _, _, hlog, hq⟩ := connectDev_cases c1 h0
    rcases hq hna with ⟨_, hq⟩ | ⟨hc, hq⟩
    · exact Or.inl (by rw [hq, hd])
    · refine Or.inr ⟨?_, hc, by rw [hlog, hl]⟩
      rw [hq]; unfold enqueueLogin loginAction; simp only [hd, hs]
  · exact Or.inl hd
  · exact Or.inl hd

theorem failAll_timer (rest : List Action) (c : CS) (a : Action) (o : Oracle) (out : List Out) (tmo : Option Time)
    (hb : BackCov c tmo) : TimerPost (failAll rest c a o out tmo) := by
  unfold failAll TimerPost
  dsimp only
  split
  · rename_i hc2
    have hc2' : c.dev.conn = 2 := by simpa using hc2
    intro hna
    refine ⟨?_, reconnectDev_backCov _ _⟩
    have := reconnectDev_queue { c with dev := { c.dev with acts := [] } } tmo rfl (by simp [hc2']) hna
    intro h r hh
    rcases this with h1 | ⟨h1, h2, h3⟩
    · rw [h1] at hh; cases hh
    · rw [h1] at hh
      cases hh
      exact Or.inr ⟨rfl, rfl, rfl, rfl, h2, h3⟩
  · intro _
    refine ⟨?_, hb.transport rfl rfl rfl rfl (fun _ h => h)⟩
    intro h r hh; cases hh

theorem stamp_stamped (now : Time) (a : Action) : (stamp now a).timeStamp = some ((stamp now a).timeStamp.getD now) := by
  unfold stamp
  split
  · rfl
  · rename_i h
    cases ht : a.timeStamp with
    | none => simp [ht] at h
    | some x => rfl

theorem onRunStep_timer (rest : List Action) (c : CS) (a : Action) (o : Oracle) (out : List Out) (tmo : Option Time)
    (left ts : Time) (hb : BackCov c tmo) (hts : a.timeStamp = some ts) (hlt : c.env.now < ts + c.dev.timeout)
    (hleft : left = ts + c.dev.timeout - c.env.now) :
    ((onRunStep rest c a o out tmo left).2 = false → TimerPost (onRunStep rest c a o out tmo left).1) ∧
    ((onRunStep rest c a o out tmo left).2 = true →
      BackCov (onRunStep rest c a o out tmo left).1.1 (onRunStep rest c a o out tmo left).1.2.2.2) := by
  unfold onRunStep
  dsimp only
  have hT := innerLoop_timer c.env.now (loopBound a) { c.dev with wake := none } a o []
  have hL := innerLoop_link c.env.now (loopBound a) { c.dev with wake := none } a o []
  generalize innerLoop c.env.now (loopBound a) { c.dev with wake := none } a o [] = r at *
  obtain ⟨⟨hto, hrc, hlr⟩, hstamp⟩ := hT
  obtain ⟨⟨hconn, _⟩, _⟩ := hL
  simp only at hto hrc hlr hconn
  split
  · exact ⟨fun _ hna => by simp at hna, fun h => by simp at h⟩
  · split
    · refine ⟨fun _ _ => ⟨?_, ?_⟩, fun h => by simp at h⟩
      · intro h rr hh
        cases hh
        refine Or.inl ⟨ts, by rw [hstamp, hts], by simpa [hto] using hlt, ?_⟩
        simp only [hto]
        rw [← hleft]
        exact covers_upd_self _ _
      · refine hb.transport hconn hrc hlr rfl ?_
        intro b hc
        apply covers_upd
        split
        · exact covers_upd _ _ _ hc
        · exact hc
    · split
      · split
        · exact ⟨fun h => by simp at h, fun _ => hb.transport hconn hrc hlr rfl (fun _ h => h)⟩
        · exact ⟨fun h => by simp at h, fun _ => hb.transport hconn hrc hlr rfl (fun _ h => h)⟩
      · refine ⟨fun _ => failAll_timer _ _ _ _ _ _ (hb.transport hconn hrc hlr rfl (fun _ h => h)), fun h => by simp at h⟩

theorem bodyStep_timer (c : CS) (o : Oracle) (out : List Out) (tmo : Option Time) (hb : BackCov c tmo) :
    ((bodyStep c o out tmo).2 = false → TimerPost (bodyStep c o out tmo).1) ∧
    ((bodyStep c o out tmo).2 = true → BackCov (bodyStep c o out tmo).1.1 (bodyStep c o out tmo).1.2.2.2) := by
  unfold bodyStep
  by_cases hab : c.aborted = true
  · simp only [hab, ↓reduceIte]
    exact ⟨fun _ hna => by simp [hab] at hna, fun h => by simp at h⟩
  · simp only [hab, Bool.false_eq_true, ↓reduceIte]
    cases hacts : c.dev.acts with
    | nil =>
      refine ⟨fun _ _ => ⟨?_, hb⟩, fun h => by simp at h⟩
      intro h r hh; rw [hacts] at hh; cases hh
    | cons a0 rest =>
      dsimp only
      have hst := stamp_stamped c.env.now a0
      generalize stamp c.env.now a0 = a at *
      generalize hts : a.timeStamp.getD c.env.now = ts at *
      split
      · refine ⟨fun _ => ?_, fun h => by simp at h⟩
        rw [Fd.onTimeout_eq_failAll]
        exact failAll_timer _ _ _ _ _ _ hb
      · rename_i hlt
        have hlt' : c.env.now < ts + c.dev.timeout := by unfold Time at *; omega
        split
        · refine ⟨fun _ _ => ⟨?_, hb.transport rfl rfl rfl rfl (fun _ h => covers_upd _ _ _ h)⟩, fun h => by simp at h⟩
          intro h r hh
          cases hh
          exact Or.inl ⟨ts, hst, hlt', covers_upd_self _ _⟩
        · exact onRunStep_timer rest c a o out tmo _ ts hb hst hlt' rfl

/-- timer coverage of `_process_action`, every fuel: started with the back-off covered, a run that does not abort ends
    with the head of the queue covered and the back-off covered -/
theorem processActionF_timer (fuel : Nat) (c : CS) (o : Oracle) (out : List Out) (tmo : Option Time)
    (hb : BackCov c tmo) : TimerPost (processActionF fuel c o out tmo) :=
  processActionF_ind (Pre := BackCov) (Post := TimerPost)
    (fun _ _ _ _ hna => by simp at hna)
    (fun c o out tmo h => (bodyStep_timer c o out tmo h).1)
    (fun c o out tmo h => (bodyStep_timer c o out tmo h).2) fuel c o out tmo hb

theorem postPollPing_backCov (now : Time) (r : CS × Option Time) (h : BackCov r.1 r.2) :
    BackCov (postPollPing now r).1 (postPollPing now r).2 := by
  unfold postPollPing appendPing
  split
  · split
    · split
      · exact h.transport rfl rfl rfl rfl (fun _ h => h)
      · exact h.transport rfl rfl rfl rfl (fun _ h => covers_upd _ _ _ h)
    · exact h.transport rfl rfl rfl rfl (fun _ h => h)
  · exact h

theorem postPollReconnect_backCov (r : CS × Bool) : BackCov (postPollReconnect r).1 (postPollReconnect r).2 := by
  unfold postPollReconnect
  split
  · exact reconnectDev_backCov _ _
  · rename_i h
    intro h0
    have h0' : r.1.dev.conn = 0 := h0
    simp [h0'] at h

/-- timer coverage of a whole `dev_post_poll` pass -/
theorem postPoll_timer (d : Dev) (env : Env) (o : Oracle) : TimerPost (postPoll d env o) := by
  rw [Login2.postPoll_eq]
  unfold Login2.postPoll'
  split
  · rename_i h; intro hna; simp [h] at hna
  · exact processActionF_timer _ _ _ _ _ (postPollPing_backCov _ _ (postPollReconnect_backCov _))

end Pm.Dev2.Timer
