import Pm.FrameEx
import Pm.Dev2Fd
import Pm.Dev2Login2
import Pm.TelnetPass
import Pm.InterpSends
/-! Helper lemmas for C04 (timer coverage: no wedge, tenure, minimum over the devices), C12 (i/o error, restart after a
    connect, what a time-out reports, recovery) and C20 (shutdown, daemon-level descriptor ledger) on the mirrors
    `Pm/Dev2.lean` (`device.c`) and `Pm/Daemon.lean` (`powermand.c`, `client.c`).  No model definition is touched. -/
namespace Pm.Dev2.Timer
open Pm.Dev2 Pm.Dev2.Login2

/-! ## 1. what script statements leave alone: the device time-out, the retry bookkeeping, the action's time stamp -/

structure SameTimer (d d' : Dev) : Prop where
  timeout : d'.timeout = d.timeout
  retryCount : d'.retryCount = d.retryCount
  lastRetry : d'.lastRetry = d.lastRetry

theorem SameTimer.rfl' (d : Dev) : SameTimer d d := ⟨rfl, rfl, rfl⟩
theorem SameTimer.trans {a b c : Dev} (h1 : SameTimer a b) (h2 : SameTimer b c) : SameTimer a c :=
  ⟨h2.timeout.trans h1.timeout, h2.retryCount.trans h1.retryCount, h2.lastRetry.trans h1.lastRetry⟩

theorem stmtExpect_timer (d a o pat) : SameTimer d (stmtExpect d a o pat).dev ∧ (stmtExpect d a o pat).act.timeStamp = a.timeStamp := by
  unfold stmtExpect; constructor
  · constructor <;> grind
  · grind
theorem stmtSend_timer (d a o e fmt) : SameTimer d (stmtSend d a o e fmt).dev ∧ (stmtSend d a o e fmt).act.timeStamp = a.timeStamp := by
  unfold stmtSend; constructor
  · constructor <;> grind [setTop]
  · grind [setTop]
theorem stmtDelay_timer (d a o e now us) : SameTimer d (stmtDelay d a o e now us).dev ∧ (stmtDelay d a o e now us).act.timeStamp = a.timeStamp := by
  unfold stmtDelay; constructor
  · constructor <;> grind [setTop]
  · grind [setTop]
theorem stmtSetplugstate_timer (d a o e l p s i) : SameTimer d (stmtSetplugstate d a o e l p s i).dev ∧ (stmtSetplugstate d a o e l p s i).act.timeStamp = a.timeStamp := by
  unfold stmtSetplugstate; constructor
  · constructor <;> grind [setArgs]
  · grind
theorem stmtSetresult_timer (d a o p s i) : SameTimer d (stmtSetresult d a o p s i).dev ∧ (stmtSetresult d a o p s i).act.timeStamp = a.timeStamp := by
  unfold stmtSetresult; constructor
  · constructor <;> grind [setArgs]
  · grind
theorem stmtForeach_timer (d a o e b n) : SameTimer d (stmtForeach d a o e b n).dev ∧ (stmtForeach d a o e b n).act.timeStamp = a.timeStamp := by
  unfold stmtForeach; constructor
  · constructor <;> grind [setTop]
  · grind [setTop]
theorem stmtIf_timer (d a o e b n) : SameTimer d (stmtIf d a o e b n).dev ∧ (stmtIf d a o e b n).act.timeStamp = a.timeStamp := by
  unfold stmtIf; constructor
  · constructor <;> grind [setTop]
  · grind [setTop]

theorem processStmt_timer (d : Dev) (a : Action) (o : Oracle) (now : Time) :
    SameTimer d (processStmt d a o now).dev ∧ (processStmt d a o now).act.timeStamp = a.timeStamp := by
  unfold processStmt
  dsimp only
  split
  · exact ⟨SameTimer.rfl' d, rfl⟩
  all_goals first
    | exact stmtExpect_timer _ _ _ _
    | exact stmtSend_timer _ _ _ _ _
    | exact stmtDelay_timer _ _ _ _ _ _
    | exact stmtSetplugstate_timer _ _ _ _ _ _ _ _
    | exact stmtSetresult_timer _ _ _ _ _ _
    | exact stmtForeach_timer _ _ _ _ _ _
    | exact stmtIf_timer _ _ _ _ _ _

theorem innerLoop_timer (now : Time) (fuel : Nat) (d : Dev) (a : Action) (o : Oracle) (acc : List Out) :
    SameTimer d (innerLoop now fuel d a o acc).dev ∧ (innerLoop now fuel d a o acc).act.timeStamp = a.timeStamp := by
  induction fuel generalizing d a o acc with
  | zero => simpa [innerLoop] using processStmt_timer d a o now
  | succ n ih =>
    unfold innerLoop; dsimp only
    have hp := processStmt_timer d a o now
    split
    · have := ih (processStmt d a o now).dev (processStmt d a o now).act (processStmt d a o now).oracle (acc ++ (processStmt d a o now).out)
      exact ⟨hp.1.trans this.1, this.2.trans hp.2⟩
    · simpa using hp

/-! ## 2. what the connection layer leaves alone: the clock of the pass, the device time-out, the scripts -/

structure SameClock (c c' : CS) : Prop where
  now : c'.env.now = c.env.now
  timeout : c'.dev.timeout = c.dev.timeout
  scripts : c'.dev.scripts = c.dev.scripts

theorem SameClock.rfl' (c : CS) : SameClock c c := ⟨rfl, rfl, rfl⟩
theorem SameClock.trans {a b c : CS} (h1 : SameClock a b) (h2 : SameClock b c) : SameClock a c :=
  ⟨h2.now.trans h1.now, h2.timeout.trans h1.timeout, h2.scripts.trans h1.scripts⟩

/-- the retry bookkeeping (`retry_count`, `last_retry`) is left alone as well -/
structure SameRetry (c c' : CS) : Prop extends SameClock c c' where
  retryCount : c'.dev.retryCount = c.dev.retryCount
  lastRetry : c'.dev.lastRetry = c.dev.lastRetry

theorem SameRetry.rfl' (c : CS) : SameRetry c c := ⟨SameClock.rfl' c, rfl, rfl⟩
theorem SameRetry.trans {a b c : CS} (h1 : SameRetry a b) (h2 : SameRetry b c) : SameRetry a c :=
  ⟨h1.toSameClock.trans h2.toSameClock, h2.retryCount.trans h1.retryCount, h2.lastRetry.trans h1.lastRetry⟩

theorem SameRetry.mk' {c c' : CS} (h : c'.env.now = c.env.now ∧ c'.dev.timeout = c.dev.timeout ∧ c'.dev.scripts = c.dev.scripts ∧
    c'.dev.retryCount = c.dev.retryCount ∧ c'.dev.lastRetry = c.dev.lastRetry) : SameRetry c c' :=
  ⟨⟨h.1, h.2.1, h.2.2.1⟩, h.2.2.2.1, h.2.2.2.2⟩
theorem SameRetry.flat {c c' : CS} (h : SameRetry c c') : c'.env.now = c.env.now ∧ c'.dev.timeout = c.dev.timeout ∧
    c'.dev.scripts = c.dev.scripts ∧ c'.dev.retryCount = c.dev.retryCount ∧ c'.dev.lastRetry = c.dev.lastRetry :=
  ⟨h.now, h.timeout, h.scripts, h.retryCount, h.lastRetry⟩

theorem finishConnectOne_retry (c : CS) : SameRetry c (finishConnectOne c).1 := by
  apply SameRetry.mk'
  unfold finishConnectOne; grind

theorem _root_.Pm.Dev2.WalkFrame.sameRetry {c c' : CS} (h : WalkFrame c c') : SameRetry c c' :=
  ⟨⟨h.now, h.dev.timeout, h.dev.scripts⟩, h.dev.retryCount, h.dev.lastRetry⟩

theorem connectOne_retry (c : CS) : SameRetry c (connectOne c).1 := (connectOne_frame c).sameRetry

theorem tcpConnect_retry (c : CS) : SameRetry c (tcpConnect c).1 := (tcpConnect_frame c).sameRetry

theorem pipeConnect_retry (c : CS) : SameRetry c (pipeConnect c).1 := by
  apply SameRetry.mk'
  unfold pipeConnect; grind

theorem disconnectDev_retry (c : CS) : SameRetry c (disconnectDev c) := by
  apply SameRetry.mk'
  unfold disconnectDev; grind

theorem enqueueLogin_scripts (d : Dev) : (enqueueLogin d).scripts = d.scripts := rfl

/-- what `_connect` does, seen from the queue: the clock, time-out and scripts stay; `last_retry` becomes the time of the
    pass and `retry_count` goes up by one; and unless the pass is aborted either the device is not CONNECTED afterwards
    and the queue is untouched, or it is CONNECTED and the login action has been put in front of the queue with the
    former head rewound -/
theorem connectDev_cases (c : CS) (h0 : c.dev.conn = 0) :
    SameClock c (connectDev c) ∧ (connectDev c).dev.lastRetry = c.env.now ∧
    (connectDev c).dev.retryCount = c.dev.retryCount + 1 ∧ (connectDev c).dev.loggedIn = c.dev.loggedIn ∧
    ((connectDev c).aborted = false →
      ((connectDev c).dev.conn ≠ 2 ∧ (connectDev c).dev.acts = c.dev.acts) ∨
      ((connectDev c).dev.conn = 2 ∧ (connectDev c).dev.acts = (enqueueLogin c.dev).acts)) := by
  rw [Fd.connectDev_eq]
  have hb0 : (Fd.bump c).dev.conn = 0 := h0
  have hf : (if (Fd.bump c).dev.isPipe then pipeConnect (Fd.bump c) else tcpConnect (Fd.bump c)).2 =
      ((if (Fd.bump c).dev.isPipe then pipeConnect (Fd.bump c) else tcpConnect (Fd.bump c)).1.dev.conn == 2) := by
    split
    · exact pipeConnect_flag _ hb0
    · exact tcpConnect_flag _ hb0
  have hr : SameRetry (Fd.bump c) (if (Fd.bump c).dev.isPipe then pipeConnect (Fd.bump c) else tcpConnect (Fd.bump c)).1 := by
    split
    · exact pipeConnect_retry _
    · exact tcpConnect_retry _
  have ha : (if (Fd.bump c).dev.isPipe then pipeConnect (Fd.bump c) else tcpConnect (Fd.bump c)).1.dev.acts = c.dev.acts := by
    split
    · exact pipeConnect_acts _
    · exact tcpConnect_acts _
  have hl : (if (Fd.bump c).dev.isPipe then pipeConnect (Fd.bump c) else tcpConnect (Fd.bump c)).1.dev.loggedIn = c.dev.loggedIn := by
    split
    · exact pipeConnect_loggedIn _
    · exact tcpConnect_loggedIn _
  generalize (if (Fd.bump c).dev.isPipe then pipeConnect (Fd.bump c) else tcpConnect (Fd.bump c)) = r at *
  obtain ⟨c2, ok⟩ := r
  simp only at hf hr ha hl
  have hnow : c2.env.now = c.env.now := hr.now
  have hto : c2.dev.timeout = c.dev.timeout := hr.timeout
  have hsc : c2.dev.scripts = c.dev.scripts := hr.scripts
  have hrc : c2.dev.retryCount = c.dev.retryCount + 1 := hr.retryCount
  have hlr : c2.dev.lastRetry = c.env.now := hr.lastRetry
  unfold Fd.connTail
  simp only
  split
  · rename_i hh
    simp only [Bool.and_eq_true, Bool.not_eq_eq_eq_not, Bool.not_true] at hh
    refine ⟨⟨hnow, hto, hsc⟩, hlr, hrc, hl, fun _ => Or.inr ⟨?_, ?_⟩⟩
    · have := hh.1; rw [hf] at this; simpa [enqueueLogin] using this
    · show (enqueueLogin c2.dev).acts = _
      unfold enqueueLogin loginAction
      simp only [ha, hsc]
  · rename_i hh
    refine ⟨⟨hnow, hto, hsc⟩, hlr, hrc, hl, fun hna => Or.inl ⟨?_, ha⟩⟩
    intro h2
    apply hh
    have hna' : c2.aborted = false := hna
    simp [hf, h2, hna']

/-! ## 3. the back-off timer -/

/-- the instant at which `_time_to_reconnect` allows the next attempt (meaningful when `retry_count > 0`) -/
def backoffEnd (d : Dev) : Time := d.lastRetry + (rtab.getD (min (d.retryCount - 1) 6) 60) * 1000000

theorem timeToReconnect_spec (d : Dev) (now : Time) :
    (timeToReconnect d now = (true, none) ∧ (d.retryCount = 0 ∨ backoffEnd d ≤ now)) ∨
    (timeToReconnect d now = (false, some (backoffEnd d - now)) ∧ 0 < d.retryCount ∧ now < backoffEnd d) := by
  unfold timeToReconnect backoffEnd
  by_cases h : d.retryCount > 0
  · rw [if_pos h]
    dsimp only
    by_cases h2 : now ≥ d.lastRetry + rtab.getD (min (d.retryCount - 1) 6) 60 * 1000000
    · rw [if_pos h2]; exact Or.inl ⟨rfl, Or.inr h2⟩
    · rw [if_neg h2]; exact Or.inr ⟨rfl, h, by unfold Time at *; omega⟩
  · rw [if_neg h]
    exact Or.inl ⟨rfl, Or.inl (by omega)⟩

/-- a time-out is registered and is at most `b` -/
def Covers (tmo : Option Time) (b : Time) : Prop := ∃ t, tmo = some t ∧ t ≤ b

theorem covers_upd_self (tmo : Option Time) (left : Time) : Covers (upd tmo left) left := by
  unfold upd Covers; cases tmo with
  | none => exact ⟨left, rfl, Nat.le_refl _⟩
  | some x => exact ⟨min x left, rfl, Nat.min_le_right _ _⟩

theorem covers_upd (tmo : Option Time) (left b : Time) (h : Covers tmo b) : Covers (upd tmo left) b := by
  obtain ⟨t, rfl, ht⟩ := h
  exact ⟨min t left, rfl, Nat.le_trans (Nat.min_le_left _ _) ht⟩

theorem Covers.mono {tmo : Option Time} {b b' : Time} (h : Covers tmo b) (hb : b ≤ b') : Covers tmo b' := by
  obtain ⟨t, rfl, ht⟩ := h
  exact ⟨t, rfl, Nat.le_trans ht hb⟩

/-- the back-off of a device that is not connected is covered by the registered time-out — or the last attempt was
    made at the very instant of this pass (and then, as coded, nothing is registered for it) -/
def BackCov (c : CS) (tmo : Option Time) : Prop :=
  c.dev.conn = 0 → 0 < c.dev.retryCount →
    (c.env.now < backoffEnd c.dev ∧ Covers tmo (backoffEnd c.dev - c.env.now)) ∨ c.dev.lastRetry = c.env.now

theorem disconnectDev_loggedIn' (c : CS) : (disconnectDev c).dev.loggedIn = false := rfl

/-- `_reconnect` establishes `BackCov`, whatever held before -/
theorem reconnectDev_backCov (c : CS) (tmo : Option Time) : BackCov (reconnectDev c tmo).1 (reconnectDev c tmo).2 := by
  unfold reconnectDev
  dsimp only
  have h0 : (if (c.dev.conn != 0) = true then disconnectDev c else c).dev.conn = 0 := by
    split
    · exact disconnectDev_conn c
    · rename_i h; simpa using h
  generalize (if (c.dev.conn != 0) = true then disconnectDev c else c) = c1 at *
  rcases timeToReconnect_spec c1.dev c1.env.now with ⟨h, _⟩ | ⟨h, hpos, hlt⟩
  · rw [h]
    simp only
    obtain ⟨hc, hl, _⟩ := connectDev_cases c1 h0
    intro _ _
    exact Or.inr (by rw [hl, hc.now])
  · rw [h]
    simp only
    intro _ _
    exact Or.inl ⟨hlt, covers_upd_self _ _⟩

/-! ## 4. the clock and the retry bookkeeping through the rest of the pass -/

theorem telnetFilter_fields (d : Dev) (bs : Bytes) : (telnetFilter d bs).timeout = d.timeout ∧ (telnetFilter d bs).scripts = d.scripts ∧
    (telnetFilter d bs).retryCount = d.retryCount ∧ (telnetFilter d bs).lastRetry = d.lastRetry := by
  unfold telnetFilter; exact ⟨rfl, rfl, rfl, rfl⟩

theorem readyConnectFail_retry (c : CS) : SameRetry c (readyConnectFail c) := (finishConnectFail_frame c).sameRetry

theorem readyConnectTail_retry (c : CS) : SameRetry c (readyConnectTail c).1 := by
  apply SameRetry.mk'
  unfold readyConnectTail enqueueLogin; grind

theorem readyConnect_retry (c : CS) : SameRetry c (readyConnect c).1 := by
  unfold readyConnect
  split
  · exact SameRetry.mk' ⟨rfl, rfl, rfl, rfl, rfl⟩
  refine SameRetry.trans ?_ (readyConnectTail_retry _)
  split
  · exact finishConnectOne_retry c
  · exact (finishConnectOne_retry c).trans (readyConnectFail_retry _)

theorem readyWrite_retry (c : CS) : SameRetry c (readyWrite c).1 := by
  apply SameRetry.mk'
  unfold readyWrite; grind

theorem readyRead_retry0 (c : CS) : SameRetry c (readyRead c).1 := by
  apply SameRetry.mk'
  have := telnetFilter_fields
  unfold readyRead; grind

theorem clipRead_retry (c : CS) : SameRetry c (clipRead c) :=
  SameRetry.mk' ⟨by simp, by simp, by simp, by simp, by simp⟩

theorem readyRead_retry (c : CS) : SameRetry c (readyRead (clipRead c)).1 :=
  (clipRead_retry c).trans (readyRead_retry0 _)

theorem readyTail_retry (f : Nat) (r : CS × Bool × Bool) : SameRetry r.1 (readyTail f r).1 := by
  unfold readyTail
  split
  · exact SameRetry.rfl' _
  · split
    · exact SameRetry.rfl' _
    · split
      · exact readyRead_retry _
      · exact SameRetry.rfl' _

theorem handleReady_retry (c : CS) : SameRetry c (handleReady c).1 := by
  rw [Login2.handleReady_eq]; unfold Login2.handleReady'
  dsimp only
  split
  · exact SameRetry.mk' ⟨rfl, rfl, rfl, rfl, rfl⟩
  · split
    · exact SameRetry.mk' ⟨rfl, rfl, rfl, rfl, rfl⟩
    · split
      · exact SameRetry.rfl' _
      · refine SameRetry.trans ?_ (readyTail_retry _ _)
        split
        · split
          · exact readyConnect_retry c
          · exact readyWrite_retry c
        · exact SameRetry.rfl' _

theorem reconnectDev_clock (c : CS) (tmo : Option Time) : SameClock c (reconnectDev c tmo).1 := by
  unfold reconnectDev
  dsimp only
  have h0 : (if (c.dev.conn != 0) = true then disconnectDev c else c).dev.conn = 0 := by
    split
    · exact disconnectDev_conn c
    · rename_i h; simpa using h
  have h1 : SameClock c (if (c.dev.conn != 0) = true then disconnectDev c else c) := by
    split
    · exact (disconnectDev_retry c).toSameClock
    · exact SameClock.rfl' _
  generalize (if (c.dev.conn != 0) = true then disconnectDev c else c) = c1 at *
  split
  · exact h1.trans (connectDev_cases c1 h0).1
  · exact h1
  · exact h1

/-! ## 5. `_process_action` as an iterated step: an induction principle -/

/-- to show `Post` of a run of `_process_action` from a state satisfying `Pre`: show `Post` of every iteration that ends
    the loop and `Pre` after every iteration that goes on (running out of the model's fuel is an abort) -/
theorem processActionF_ind {Pre : CS → Option Time → Prop} {Post : PA → Prop}
    (hfuel : ∀ (c : CS) o out tmo, Pre c tmo →
        Post ({ c with aborted := true }, o, out ++ [Out.abortAssert "model: fuel exhausted"], tmo))
    (hstop : ∀ c o out tmo, Pre c tmo → (bodyStep c o out tmo).2 = false → Post (bodyStep c o out tmo).1)
    (hgo : ∀ c o out tmo, Pre c tmo → (bodyStep c o out tmo).2 = true →
        Pre (bodyStep c o out tmo).1.1 (bodyStep c o out tmo).1.2.2.2)
    (fuel : Nat) (c : CS) (o : Oracle) (out : List Out) (tmo : Option Time) (h : Pre c tmo) :
    Post (processActionF fuel c o out tmo) := by
  induction fuel generalizing c o out tmo with
  | zero => exact hfuel c o out tmo h
  | succ n ih =>
    rw [processActionF_succ]
    unfold andThen
    have h1 := hstop c o out tmo h
    have h2 := hgo c o out tmo h
    generalize bodyStep c o out tmo = s at *
    cases hs : s.2
    · simpa using h1 hs
    · simpa using ih _ _ _ _ (h2 hs)

/-! ## 6. timer coverage -/

/-- the head of the queue is covered: it carries a time stamp, its deadline lies ahead and the registered time-out is
    no later than that deadline — or it is a login action that `_reconnect`, called from the error branch, has just put
    into the (otherwise empty) queue of the freshly connected device, and that has not been looked at yet -/
def HeadCov (c : CS) (tmo : Option Time) : Prop :=
  ∀ h rest, c.dev.acts = h :: rest →
    (∃ ts, h.timeStamp = some ts ∧ c.env.now < ts + c.dev.timeout ∧ Covers tmo (ts + c.dev.timeout - c.env.now)) ∨
    (h.timeStamp = none ∧ rest = [] ∧ h.com = 0 ∧ h.clientId = 0 ∧ c.dev.conn = 2 ∧ c.dev.loggedIn = false)

def TimerPost (r : PA) : Prop := r.1.aborted = false → HeadCov r.1 r.2.2.2 ∧ BackCov r.1 r.2.2.2

theorem BackCov.transport {c c' : CS} {tmo tmo' : Option Time} (h : BackCov c tmo)
    (h1 : c'.dev.conn = c.dev.conn) (h2 : c'.dev.retryCount = c.dev.retryCount) (h3 : c'.dev.lastRetry = c.dev.lastRetry)
    (h4 : c'.env.now = c.env.now) (hm : ∀ b, Covers tmo b → Covers tmo' b) : BackCov c' tmo' := by
  unfold BackCov backoffEnd at *
  rw [h1, h2, h3, h4]
  intro a b
  rcases h a b with ⟨x, y⟩ | x
  · exact Or.inl ⟨x, hm _ y⟩
  · exact Or.inr x

/-- `_reconnect` on an empty queue: afterwards the queue is empty, or holds exactly the fresh login action of a device
    that is now CONNECTED -/
theorem reconnectDev_queue (c : CS) (tmo : Option Time) (ha : c.dev.acts = []) (h2 : c.dev.conn ≠ 0)
    (hna : (reconnectDev c tmo).1.aborted = false) :
    (reconnectDev c tmo).1.dev.acts = [] ∨
    ((reconnectDev c tmo).1.dev.acts = [loginAction c.dev] ∧ (reconnectDev c tmo).1.dev.conn = 2 ∧
      (reconnectDev c tmo).1.dev.loggedIn = false) := by
  unfold reconnectDev at hna ⊢
  have hne : (c.dev.conn != 0) = true := by simpa using h2
  simp only [hne, ↓reduceIte] at hna ⊢
  have hd := disconnectDev_empty c ha
  have hs := (disconnectDev_retry c).scripts
  have hl := disconnectDev_loggedIn' c
  have h0 := disconnectDev_conn c
  generalize disconnectDev c = c1 at *
  split
  · rename_i heq
    simp only [heq] at hna
    obtain ⟨_, _, _, hlog, hq⟩ := connectDev_cases c1 h0
    rcases hq hna with ⟨_, hq⟩ | ⟨hc, hq⟩
    · exact Or.inl (by rw [hq, hd])
    · refine Or.inr ⟨?_, hc, by rw [hlog, hl]⟩
      rw [hq]; unfold enqueueLogin loginAction; simp only [hd, hs]
  · exact Or.inl hd
  · exact Or.inl hd

theorem failAll_timer (rest : List Action) (c : CS) (a : Action) (o : Oracle) (out : List Out) (tmo : Option Time)
    (hb : BackCov c tmo) : TimerPost (failAll rest c a o out tmo) := by
  unfold failAll TimerPost
  dsimp only
  split
  · rename_i hc2
    have hc2' : c.dev.conn = 2 := by simpa using hc2
    intro hna
    refine ⟨?_, reconnectDev_backCov _ _⟩
    have := reconnectDev_queue { c with dev := { c.dev with acts := [], xmStr := none, xmResult := false, xmUsed := false } } tmo rfl (by simp [hc2']) hna
    intro h r hh
    rcases this with h1 | ⟨h1, h2, h3⟩
    · rw [h1] at hh; cases hh
    · rw [h1] at hh
      cases hh
      exact Or.inr ⟨rfl, rfl, rfl, rfl, h2, h3⟩
  · intro _
    refine ⟨?_, hb.transport rfl rfl rfl rfl (fun _ h => h)⟩
    intro h r hh; cases hh

theorem stamp_stamped (now : Time) (a : Action) : (stamp now a).timeStamp = some ((stamp now a).timeStamp.getD now) := by
  unfold stamp
  split
  · rfl
  · rename_i h
    cases ht : a.timeStamp with
    | none => simp [ht] at h
    | some x => rfl

theorem onRunStep_timer (rest : List Action) (c : CS) (a : Action) (o : Oracle) (out : List Out) (tmo : Option Time)
    (left ts : Time) (hb : BackCov c tmo) (hts : a.timeStamp = some ts) (hlt : c.env.now < ts + c.dev.timeout)
    (hleft : left = ts + c.dev.timeout - c.env.now) :
    ((onRunStep rest c a o out tmo left).2 = false → TimerPost (onRunStep rest c a o out tmo left).1) ∧
    ((onRunStep rest c a o out tmo left).2 = true →
      BackCov (onRunStep rest c a o out tmo left).1.1 (onRunStep rest c a o out tmo left).1.2.2.2) := by
  unfold onRunStep
  dsimp only
  have hT := innerLoop_timer c.env.now (loopBound a) { c.dev with wake := none } a o []
  have hL := innerLoop_link c.env.now (loopBound a) { c.dev with wake := none } a o []
  generalize innerLoop c.env.now (loopBound a) { c.dev with wake := none } a o [] = r at *
  obtain ⟨⟨hto, hrc, hlr⟩, hstamp⟩ := hT
  obtain ⟨⟨hconn, _⟩, _⟩ := hL
  simp only at hto hrc hlr hconn
  split
  · exact ⟨fun _ hna => by simp at hna, fun h => by simp at h⟩
  · split
    · refine ⟨fun _ _ => ⟨?_, ?_⟩, fun h => by simp at h⟩
      · intro h rr hh
        cases hh
        refine Or.inl ⟨ts, by rw [hstamp, hts], by simpa [hto] using hlt, ?_⟩
        simp only [hto]
        rw [← hleft]
        exact covers_upd_self _ _
      · refine hb.transport hconn hrc hlr rfl ?_
        intro b hc
        apply covers_upd
        split
        · exact covers_upd _ _ _ hc
        · exact hc
    · split
      · split
        · exact ⟨fun h => by simp at h, fun _ => hb.transport hconn hrc hlr rfl (fun _ h => h)⟩
        · exact ⟨fun h => by simp at h, fun _ => hb.transport hconn hrc hlr rfl (fun _ h => h)⟩
      · refine ⟨fun _ => failAll_timer _ _ _ _ _ _ (hb.transport hconn hrc hlr rfl (fun _ h => h)), fun h => by simp at h⟩

theorem bodyStep_timer (c : CS) (o : Oracle) (out : List Out) (tmo : Option Time) (hb : BackCov c tmo) :
    ((bodyStep c o out tmo).2 = false → TimerPost (bodyStep c o out tmo).1) ∧
    ((bodyStep c o out tmo).2 = true → BackCov (bodyStep c o out tmo).1.1 (bodyStep c o out tmo).1.2.2.2) := by
  unfold bodyStep
  by_cases hab : c.aborted = true
  · simp only [hab, ↓reduceIte]
    exact ⟨fun _ hna => by simp [hab] at hna, fun h => by simp at h⟩
  · simp only [hab, Bool.false_eq_true, ↓reduceIte]
    cases hacts : c.dev.acts with
    | nil =>
      refine ⟨fun _ _ => ⟨?_, hb⟩, fun h => by simp at h⟩
      intro h r hh; rw [hacts] at hh; cases hh
    | cons a0 rest =>
      dsimp only
      have hst := stamp_stamped c.env.now a0
      generalize stamp c.env.now a0 = a at *
      generalize hts : a.timeStamp.getD c.env.now = ts at *
      split
      · refine ⟨fun _ => ?_, fun h => by simp at h⟩
        rw [Fd.onTimeout_eq_failAll]
        exact failAll_timer _ _ _ _ _ _ hb
      · rename_i hlt
        have hlt' : c.env.now < ts + c.dev.timeout := by unfold Time at *; omega
        split
        · refine ⟨fun _ _ => ⟨?_, hb.transport rfl rfl rfl rfl (fun _ h => covers_upd _ _ _ h)⟩, fun h => by simp at h⟩
          intro h r hh
          cases hh
          exact Or.inl ⟨ts, hst, hlt', covers_upd_self _ _⟩
        · exact onRunStep_timer rest c a o out tmo _ ts hb hst hlt' rfl

/-- timer coverage of `_process_action`, every fuel: started with the back-off covered, a run that does not abort ends
    with the head of the queue covered and the back-off covered -/
theorem processActionF_timer (fuel : Nat) (c : CS) (o : Oracle) (out : List Out) (tmo : Option Time)
    (hb : BackCov c tmo) : TimerPost (processActionF fuel c o out tmo) :=
  processActionF_ind (Pre := BackCov) (Post := TimerPost)
    (fun _ _ _ _ _ hna => by simp at hna)
    (fun c o out tmo h => (bodyStep_timer c o out tmo h).1)
    (fun c o out tmo h => (bodyStep_timer c o out tmo h).2) fuel c o out tmo hb

theorem postPollPing_backCov (now : Time) (r : CS × Option Time) (h : BackCov r.1 r.2) :
    BackCov (postPollPing now r).1 (postPollPing now r).2 := by
  unfold postPollPing appendPing
  split
  · split
    · split
      · exact h.transport rfl rfl rfl rfl (fun _ h => h)
      · exact h.transport rfl rfl rfl rfl (fun _ h => covers_upd _ _ _ h)
    · exact h.transport rfl rfl rfl rfl (fun _ h => h)
  · exact h

theorem postPollReconnect_backCov (r : CS × Bool) : BackCov (postPollReconnect r).1 (postPollReconnect r).2 := by
  unfold postPollReconnect
  split
  · exact reconnectDev_backCov _ _
  · rename_i h
    intro h0
    have h0' : r.1.dev.conn = 0 := h0
    simp [h0'] at h

/-- timer coverage of a whole `dev_post_poll` pass -/
theorem postPoll_timer (d : Dev) (env : Env) (o : Oracle) : TimerPost (postPoll d env o) := by
  rw [Login2.postPoll_eq]
  unfold Login2.postPoll'
  split
  · rename_i h; intro hna; simp [h] at hna
  · exact processActionF_timer _ _ _ _ _ (postPollPing_backCov _ _ (postPollReconnect_backCov _))

/-! ## 7. the clock of the pass and the device time-out are constants of the pass -/

def SameNow (c c' : CS) : Prop := c'.env.now = c.env.now ∧ c'.dev.timeout = c.dev.timeout

theorem SameNow.trans {a b c : CS} (h1 : SameNow a b) (h2 : SameNow b c) : SameNow a c :=
  ⟨h2.1.trans h1.1, h2.2.trans h1.2⟩
theorem SameClock.sameNow {c c' : CS} (h : SameClock c c') : SameNow c c' := ⟨h.now, h.timeout⟩

theorem failAll_now (rest : List Action) (c : CS) (a : Action) (o : Oracle) (out : List Out) (tmo : Option Time) :
    SameNow c (failAll rest c a o out tmo).1 := by
  unfold failAll
  dsimp only
  split
  · exact (reconnectDev_clock { c with dev := { c.dev with acts := [], xmStr := none, xmResult := false, xmUsed := false } } tmo).sameNow
  · exact ⟨rfl, rfl⟩

theorem onRunStep_now (rest : List Action) (c : CS) (a : Action) (o : Oracle) (out : List Out) (tmo : Option Time)
    (left : Time) : SameNow c (onRunStep rest c a o out tmo left).1.1 := by
  unfold onRunStep
  dsimp only
  have hT := (innerLoop_timer c.env.now (loopBound a) { c.dev with wake := none } a o []).1.timeout
  generalize innerLoop c.env.now (loopBound a) { c.dev with wake := none } a o [] = r at *
  simp only at hT
  split
  · exact ⟨rfl, hT⟩
  · split
    · exact ⟨rfl, hT⟩
    · split
      · split <;> exact ⟨rfl, hT⟩
      · exact SameNow.trans (b := { c with dev := r.dev }) ⟨rfl, hT⟩ (failAll_now _ _ _ _ _ _)

theorem bodyStep_now (c : CS) (o : Oracle) (out : List Out) (tmo : Option Time) : SameNow c (bodyStep c o out tmo).1.1 := by
  unfold bodyStep
  split
  · exact ⟨rfl, rfl⟩
  · split
    · exact ⟨rfl, rfl⟩
    · dsimp only
      split
      · rw [Fd.onTimeout_eq_failAll]; exact failAll_now _ _ _ _ _ _
      · split
        · exact ⟨rfl, rfl⟩
        · exact onRunStep_now _ _ _ _ _ _ _

theorem processActionF_now (fuel : Nat) (c : CS) (o : Oracle) (out : List Out) (tmo : Option Time) :
    SameNow c (processActionF fuel c o out tmo).1 :=
  processActionF_ind (Pre := fun c' _ => SameNow c c') (Post := fun r => SameNow c r.1)
    (fun _ _ _ _ h => h)
    (fun c' o out tmo h _ => h.trans (bodyStep_now c' o out tmo))
    (fun c' o out tmo h _ => h.trans (bodyStep_now c' o out tmo)) fuel c o out tmo ⟨rfl, rfl⟩

theorem postPollPing_now (now : Time) (r : CS × Option Time) : SameNow r.1 (postPollPing now r).1 := by
  unfold postPollPing appendPing
  split
  · split
    · split <;> exact ⟨rfl, rfl⟩
    · exact ⟨rfl, rfl⟩
  · exact ⟨rfl, rfl⟩

theorem postPollReconnect_now (r : CS × Bool) : SameNow r.1 (postPollReconnect r).1 := by
  unfold postPollReconnect
  split
  · exact (reconnectDev_clock _ _).sameNow
  · exact ⟨rfl, rfl⟩

theorem postPollReady_now (d : Dev) (env : Env) :
    (postPollReady d env).1.env.now = env.now ∧ (postPollReady d env).1.dev.timeout = d.timeout := by
  unfold postPollReady
  generalize (if d.fd.isSome then env.revents else 0) = fl
  split
  · have := handleReady_retry { dev := d, env := { env with revents := fl }, sys := [] }
    exact ⟨this.now, this.timeout⟩
  · exact ⟨rfl, rfl⟩

/-- the time of the pass and the device's time-out are the same at the end of `dev_post_poll` as at its beginning -/
theorem postPoll_now (d : Dev) (env : Env) (o : Oracle) :
    (postPoll d env o).1.env.now = env.now ∧ (postPoll d env o).1.dev.timeout = d.timeout := by
  rw [Login2.postPoll_eq]
  unfold Login2.postPoll'
  have h1 := postPollReady_now d env
  split
  · exact h1
  · have h2 := postPollReconnect_now (postPollReady d env)
    have h3 := postPollPing_now env.now (postPollReconnect (postPollReady d env))
    have h4 := processActionF_now (passFuel (postPollPre d env).1.dev) (postPollPre d env).1 o [] (postPollPre d env).2
    unfold processAction
    unfold postPollPre at h4 ⊢
    exact ⟨h4.1.trans (h3.1.trans (h2.1.trans h1.1)), h4.2.trans (h3.2.trans (h2.2.trans h1.2))⟩

/-! ## 8. tenure: a head whose deadline has passed is failed, and the whole queue with it -/

theorem stamp_of_stamped (now : Time) (a : Action) (ts : Time) (h : a.timeStamp = some ts) : stamp now a = a := by
  unfold stamp; simp [h]

/-- `_process_action` called on a queue whose head is overdue takes the time-out branch at once -/
theorem processActionF_overdue (fuel : Nat) (c : CS) (o : Oracle) (out : List Out) (tmo : Option Time)
    (a0 : Action) (rest : List Action) (ts : Time) (hna : c.aborted = false) (hacts : c.dev.acts = a0 :: rest)
    (hts : a0.timeStamp = some ts) (hdue : c.env.now ≥ ts + c.dev.timeout) :
    processActionF (fuel + 1) c o out tmo =
      failAll rest c { a0 with errnum := Fd.timeoutErr c.dev } o (out ++ Fd.timeoutTele c.dev a0) tmo := by
  rw [← Fd.onTimeout_eq_failAll]
  unfold processActionF processActionBody
  simp only [hna, Bool.false_eq_true, ↓reduceIte, hacts, stamp_of_stamped _ _ _ hts, hts, Option.getD_some]
  rw [if_pos hdue]

/-- the queue the error branch leaves holds no client action: it is empty, or holds exactly one unstamped login action -/
theorem failAll_queue (rest : List Action) (c : CS) (a : Action) (o : Oracle) (out : List Out) (tmo : Option Time)
    (hna : (failAll rest c a o out tmo).1.aborted = false) :
    (failAll rest c a o out tmo).1.dev.acts = [] ∨
    ((failAll rest c a o out tmo).1.dev.acts = [loginAction c.dev] ∧ (failAll rest c a o out tmo).1.dev.conn = 2 ∧
      (failAll rest c a o out tmo).1.dev.loggedIn = false) := by
  unfold failAll at hna ⊢
  dsimp only at hna ⊢
  split
  · rename_i hc2
    have hc2' : c.dev.conn = 2 := by simpa using hc2
    simp only [hc2, ↓reduceIte] at hna
    exact reconnectDev_queue { c with dev := { c.dev with acts := [], xmStr := none, xmResult := false, xmUsed := false } } tmo rfl (by simp [hc2']) hna
  · exact Or.inl rfl

/-- a pass in which `poll` reports nothing for the device (it was woken by the timer, or by somebody else) and the device
    is not NOT_CONNECTED: before `_process_action` only `_enqueue_ping` may have appended a ping behind the queue -/
theorem postPollPre_quiet (d : Dev) (env : Env) (hfl : (if d.fd.isSome then env.revents else 0) = 0) (hc : d.conn ≠ 0) :
    (postPollReady d env).1.aborted = false ∧
    ∃ l, (∀ x ∈ l, x.clientId = 0) ∧ (postPollPre d env).1.dev.acts = d.acts ++ l ∧ (postPollPre d env).1.dev.conn = d.conn ∧
      (postPollPre d env).1.dev.timeout = d.timeout ∧ (postPollPre d env).1.dev.loggedIn = d.loggedIn ∧
      (postPollPre d env).1.env = env ∧ (postPollPre d env).1.aborted = false := by
  have h1 : postPollReady d env = ({ dev := d, env := env, sys := [] }, false) := by
    unfold postPollReady; simp [hfl]
  have h2 : postPollReconnect (postPollReady d env) = ({ dev := d, env := env, sys := [] }, none) := by
    rw [h1]; unfold postPollReconnect; simp [hc]
  refine ⟨by rw [h1], ?_⟩
  unfold postPollPre
  rw [h2]
  unfold postPollPing appendPing
  split
  · split
    · split
      · exact ⟨[pingAction d], by simp [pingAction, loginAction], rfl, rfl, rfl, rfl, rfl, rfl⟩
      · exact ⟨[], by simp, by simp, rfl, rfl, rfl, rfl, rfl⟩
    · exact ⟨[pingAction d], by simp [pingAction, loginAction], rfl, rfl, rfl, rfl, rfl, rfl⟩
  · exact ⟨[], by simp, by simp, rfl, rfl, rfl, rfl, rfl⟩

theorem qcount_append (cid : Nat) (l m : List Action) : qcount cid (l ++ m) = qcount cid l + qcount cid m := by
  simp [qcount, List.countP_append]

theorem qcount_zero_of (cid : Nat) (hc : cid ≠ 0) (l : List Action) (h : ∀ x ∈ l, x.clientId = 0) : qcount cid l = 0 := by
  unfold qcount
  rw [List.countP_eq_zero]
  intro x hx
  have := h x hx
  simp [this]; omega

theorem foldl_add_ge {α : Type} (g : α → Nat) (l : List α) (init : Nat) : init ≤ l.foldl (fun n a => n + g a) init := by
  induction l generalizing init with
  | nil => exact Nat.le_refl _
  | cons x r ih => exact Nat.le_trans (Nat.le_add_right _ _) (ih _)

theorem passFuel_pos (d : Dev) : ∃ n, passFuel d = n + 1 := by
  have : 2 ≤ passFuel d := foldl_add_ge _ _ _
  exact ⟨passFuel d - 1, by omega⟩

theorem fcount_timeoutTele (cid : Nat) (d : Dev) (a : Action) : fcount cid (Fd.timeoutTele d a) = 0 := by
  unfold Fd.timeoutTele
  split
  · split
    · rfl
    · rw [Fd.teleMem_eq]; rfl
  · rfl

/-- tenure, whole pass: the device is not NOT_CONNECTED, `poll` reports nothing for it, and the deadline of the head of
    its queue has passed: the pass fails the whole queue — every client action in it is reported exactly once, and what
    is left in the queue is no client's (nothing, or the login action of a reconnect) -/
theorem postPoll_overdue (d : Dev) (env : Env) (o : Oracle) (a0 : Action) (rest : List Action) (ts : Time)
    (hfl : (if d.fd.isSome then env.revents else 0) = 0) (hc : d.conn ≠ 0)
    (hacts : d.acts = a0 :: rest) (hts : a0.timeStamp = some ts) (hdue : env.now ≥ ts + d.timeout) :
    (∀ cid, cid ≠ 0 → fcount cid (postPoll d env o).2.2.1 = qcount cid d.acts ∧
        qcount cid (postPoll d env o).1.dev.acts = 0) ∧
    ((postPoll d env o).1.aborted = false →
      (postPoll d env o).1.dev.acts = [] ∨ ∃ l, (postPoll d env o).1.dev.acts = [l] ∧ l.com = 0 ∧ l.clientId = 0 ∧
        l.timeStamp = none) := by
  obtain ⟨hr, l, hl, hq, hconn, hto, _, henv, hab⟩ := postPollPre_quiet d env hfl hc
  rw [Login2.postPoll_eq]
  unfold Login2.postPoll'
  simp only [hr, Bool.false_eq_true, ↓reduceIte]
  unfold processAction
  obtain ⟨n, hn⟩ := passFuel_pos (postPollPre d env).1.dev
  rw [hn]
  have hq' : (postPollPre d env).1.dev.acts = a0 :: (rest ++ l) := by rw [hq, hacts]; rfl
  rw [processActionF_overdue n _ o [] _ a0 (rest ++ l) ts hab hq' hts (by rw [henv, hto]; exact hdue)]
  refine ⟨fun cid hcid => ?_, fun hna => ?_⟩
  · have h1 := failAll_count (rest ++ l) (postPollPre d env).1 { a0 with errnum := Fd.timeoutErr (postPollPre d env).1.dev } o
      ([] ++ Fd.timeoutTele (postPollPre d env).1.dev a0) (postPollPre d env).2 cid hcid
    have h2 := failAll_queue_empty (rest ++ l) (postPollPre d env).1 { a0 with errnum := Fd.timeoutErr (postPollPre d env).1.dev } o
      ([] ++ Fd.timeoutTele (postPollPre d env).1.dev a0) (postPollPre d env).2 cid hcid
    refine ⟨?_, h2⟩
    rw [h2] at h1
    rw [fcount_append, fcount_timeoutTele] at h1
    have h3 : qcount cid ({ a0 with errnum := Fd.timeoutErr (postPollPre d env).1.dev } :: (rest ++ l)) = qcount cid d.acts := by
      rw [hacts, qcount_cons, qcount_cons, qcount_append, qcount_zero_of cid hcid l hl]; simp
    rw [h3] at h1
    simpa using h1
  · rcases failAll_queue _ _ _ _ _ _ hna with h | ⟨h, _, _⟩
    · exact Or.inl h
    · exact Or.inr ⟨_, h, rfl, rfl, rfl⟩

/-! ## 9. the daemon hands `poll` the minimum of the devices' registrations -/

section daemon
open Pm.Daemon

/-- `daemonPass` (the body of `_select_loop`): whatever time-out a device registers in its turn of `dev_post_poll`
    (`stepOut … .2.2` is the fourth component of that device's `postPoll`), the time-out the daemon keeps for the next
    `poll` is set and not later -/
theorem daemonPass_tmo_min (w : W) (p : PassIn) (hex : (cliPostPoll w p.acc p.envs).exited = false)
    (i : Nat) (nd : Bytes × Dev) (t : Nat)
    (hi : (cliPostPoll w p.acc p.envs).devs[i]? = some nd)
    (hd : (accAt p (acc0 (cliPostPoll w p.acc p.envs)) (cliPostPoll w p.acc p.envs).devs i).dead = false)
    (ht : (stepOut p (accAt p (acc0 (cliPostPoll w p.acc p.envs)) (cliPostPoll w p.acc p.envs).devs i) nd).2.2 = some t) :
    ∃ t', (daemonPass w p).1.tmo = some t' ∧ t' ≤ t := by
  rw [daemonPass_fst]
  simp only [hex, Bool.false_eq_true, ↓reduceIte]
  exact foldl_tmo_le p _ _ i nd t hi hd ht

/-- what `stepOut` is: the device's own `dev_post_poll` share, run on the shared argument store -/
theorem stepOut_eq (p : PassIn) (a : DevAcc) (nd : Bytes × Dev) :
    (stepOut p a nd).2.2 = (postPoll { nd.2 with args := a.w.store } (devEnv p a.w nd) a.oracle).2.2.2 := rfl

end daemon

/-! ## 9b. every registered time-out is positive

In C a `struct timeval` of zero means "no time-out registered" (`_update_timeout` tests `timerisset`, `_select_loop` passes
`NULL` to `poll`); the mirror uses `none`.  The two readings agree because no zero is ever registered. -/

def WakeOK (d : Dev) : Prop := ∀ w, d.wake = some w → 0 < w

theorem stmtExpect_wake (d a o pat) (h : WakeOK d) : WakeOK (stmtExpect d a o pat).dev := by
  unfold WakeOK at *; unfold stmtExpect; grind
theorem stmtSend_wake (d a o e fmt) (h : WakeOK d) : WakeOK (stmtSend d a o e fmt).dev := by
  unfold WakeOK at *; unfold stmtSend; grind
theorem stmtDelay_wake (d a o e now us) (h : WakeOK d) : WakeOK (stmtDelay d a o e now us).dev := by
  unfold WakeOK at *; unfold stmtDelay Time at *; grind
theorem stmtSetplugstate_wake (d a o e l p s i) (h : WakeOK d) : WakeOK (stmtSetplugstate d a o e l p s i).dev := by
  unfold WakeOK at *; unfold stmtSetplugstate; grind [setArgs]
theorem stmtSetresult_wake (d a o p s i) (h : WakeOK d) : WakeOK (stmtSetresult d a o p s i).dev := by
  unfold WakeOK at *; unfold stmtSetresult; grind [setArgs]
theorem stmtForeach_wake (d a o e b n) (h : WakeOK d) : WakeOK (stmtForeach d a o e b n).dev := by
  unfold WakeOK at *; unfold stmtForeach; grind
theorem stmtIf_wake (d a o e b n) (h : WakeOK d) : WakeOK (stmtIf d a o e b n).dev := by
  unfold WakeOK at *; unfold stmtIf; grind

theorem processStmt_wake (d : Dev) (a : Action) (o : Oracle) (now : Time) (h : WakeOK d) :
    WakeOK (processStmt d a o now).dev := by
  unfold processStmt
  dsimp only
  split
  · exact h
  all_goals first
    | exact stmtExpect_wake _ _ _ _ h
    | exact stmtSend_wake _ _ _ _ _ h
    | exact stmtDelay_wake _ _ _ _ _ _ h
    | exact stmtSetplugstate_wake _ _ _ _ _ _ _ _ h
    | exact stmtSetresult_wake _ _ _ _ _ _ h
    | exact stmtForeach_wake _ _ _ _ _ _ h
    | exact stmtIf_wake _ _ _ _ _ _ h

theorem innerLoop_wake (now : Time) (fuel : Nat) (d : Dev) (a : Action) (o : Oracle) (acc : List Out) (h : WakeOK d) :
    WakeOK (innerLoop now fuel d a o acc).dev := by
  induction fuel generalizing d a o acc with
  | zero => simpa [innerLoop] using processStmt_wake d a o now h
  | succ n ih =>
    unfold innerLoop; dsimp only
    have hp := processStmt_wake d a o now h
    split
    · exact ih _ _ _ _ hp
    · simpa using hp

/-- a registered time-out is never zero -/
def Pos (tmo : Option Time) : Prop := ∀ t, tmo = some t → 0 < t

theorem pos_upd (tmo : Option Time) (left : Time) (h : Pos tmo) (hl : 0 < left) : Pos (upd tmo left) := by
  unfold upd Pos at *
  cases tmo with
  | none => intro t ht; cases ht; exact hl
  | some x =>
    intro t ht; cases ht
    have := h x rfl
    exact Nat.lt_min.mpr ⟨this, hl⟩

theorem reconnectDev_pos (c : CS) (tmo : Option Time) (h : Pos tmo) : Pos (reconnectDev c tmo).2 := by
  unfold reconnectDev
  dsimp only
  generalize (if (c.dev.conn != 0) = true then disconnectDev c else c) = c1
  rcases timeToReconnect_spec c1.dev c1.env.now with ⟨h1, _⟩ | ⟨h1, _, hlt⟩
  · rw [h1]; exact h
  · rw [h1]; exact pos_upd _ _ h (by unfold Time at *; omega)

theorem failAll_pos (rest : List Action) (c : CS) (a : Action) (o : Oracle) (out : List Out) (tmo : Option Time)
    (h : Pos tmo) : Pos (failAll rest c a o out tmo).2.2.2 := by
  unfold failAll
  dsimp only
  split
  · exact reconnectDev_pos _ _ h
  · exact h

theorem onRunStep_pos (rest : List Action) (c : CS) (a : Action) (o : Oracle) (out : List Out) (tmo : Option Time)
    (left : Time) (h : Pos tmo) (hl : 0 < left) : Pos (onRunStep rest c a o out tmo left).1.2.2.2 := by
  unfold onRunStep
  dsimp only
  have hW := innerLoop_wake c.env.now (loopBound a) { c.dev with wake := none } a o []
    (by intro w hw; cases hw)
  generalize innerLoop c.env.now (loopBound a) { c.dev with wake := none } a o [] = r at *
  split
  · exact h
  · split
    · apply pos_upd _ _ _ hl
      split
      · rename_i w hw; exact pos_upd _ _ h (hW w hw)
      · exact h
    · split
      · split <;> exact h
      · exact failAll_pos _ _ _ _ _ _ h

theorem bodyStep_pos (c : CS) (o : Oracle) (out : List Out) (tmo : Option Time) (h : Pos tmo) :
    Pos (bodyStep c o out tmo).1.2.2.2 := by
  unfold bodyStep
  split
  · exact h
  · split
    · exact h
    · dsimp only
      split
      · rw [Fd.onTimeout_eq_failAll]; exact failAll_pos _ _ _ _ _ _ h
      · rename_i hlt
        split
        · exact pos_upd _ _ h (by unfold Time at *; omega)
        · exact onRunStep_pos _ _ _ _ _ _ _ h (by unfold Time at *; omega)

theorem processActionF_pos (fuel : Nat) (c : CS) (o : Oracle) (out : List Out) (tmo : Option Time) (h : Pos tmo) :
    Pos (processActionF fuel c o out tmo).2.2.2 :=
  processActionF_ind (Pre := fun _ t => Pos t) (Post := fun r => Pos r.2.2.2)
    (fun _ _ _ _ h => h)
    (fun c o out tmo h _ => bodyStep_pos c o out tmo h)
    (fun c o out tmo h _ => bodyStep_pos c o out tmo h) fuel c o out tmo h

/-- every time-out `dev_post_poll` registers is positive -/
theorem postPoll_pos (d : Dev) (env : Env) (o : Oracle) : Pos (postPoll d env o).2.2.2 := by
  rw [Login2.postPoll_eq]
  unfold Login2.postPoll'
  split
  · intro t ht; cases ht
  · apply processActionF_pos
    unfold postPollPre
    have h1 : Pos (postPollReconnect (postPollReady d env)).2 := by
      unfold postPollReconnect
      split
      · exact reconnectDev_pos _ _ (by intro t ht; cases ht)
      · intro t ht; cases ht
    generalize postPollReconnect (postPollReady d env) = r at *
    unfold postPollPing
    split
    · split
      · split
        · exact h1
        · exact pos_upd _ _ h1 (by unfold Time at *; omega)
      · exact h1
    · exact h1

/-! ## 11. C12: i/o error, restart after a connect, what a time-out reports, the retry counter -/

/-- the queue `_disconnect` leaves: a login action at the head is dropped, everything else is kept in order -/
def dropLogin : List Action → List Action
  | a :: r => if a.com == 0 then r else a :: r
  | [] => []

theorem disconnectDev_sys (c : CS) :
    (disconnectDev c).sys = c.sys ++ Fd.closeOf c.dev.fd ++ Fd.reapOf c.dev.isPipe c.dev.cpid := by
  rw [Fd.disconnectDev_eq]
  obtain ⟨a1, _, a3, a4⟩ := Fd.dcClose_shape c
  obtain ⟨b1, _, _, _⟩ := Fd.dcReap_shape (Fd.dcClose c)
  show (Fd.dcReap (Fd.dcClose c)).sys = _
  rw [b1, a1, a3, a4]

/-- everything `_disconnect` does -/
theorem disconnectDev_spec (c : CS) :
    (disconnectDev c).sys = c.sys ++ Fd.closeOf c.dev.fd ++ Fd.reapOf c.dev.isPipe c.dev.cpid ∧
    (disconnectDev c).dev.fd = none ∧ (disconnectDev c).dev.cpid = (if c.dev.isPipe then none else c.dev.cpid) ∧
    (disconnectDev c).dev.toBuf = [] ∧ (disconnectDev c).dev.fromBuf = [] ∧ (disconnectDev c).dev.conn = 0 ∧
    (disconnectDev c).dev.loggedIn = false ∧ (disconnectDev c).dev.acts = dropLogin c.dev.acts ∧
    (disconnectDev c).aborted = c.aborted ∧ (disconnectDev c).env = c.env := by
  refine ⟨disconnectDev_sys c, (Fd.disconnectDev_link c).1, ?_, rfl, rfl, rfl, rfl, ?_, ?_, ?_⟩
  · rw [Fd.disconnectDev_eq]
    show (Fd.dcReap (Fd.dcClose c)).dev.cpid = _
    rw [(Fd.dcReap_shape _).2.2.1, (Fd.dcClose_shape c).2.2.1, (Fd.dcClose_shape c).2.2.2]
  · rw [Login2.disconnectDev_acts]; cases c.dev.acts <;> rfl
  · unfold disconnectDev; grind
  · unfold disconnectDev; grind

/-- `_reconnect` of a device that is not NOT_CONNECTED: `_disconnect`, then a connect attempt if the back-off allows
    it, else the remaining back-off is registered -/
theorem reconnectDev_connected (c : CS) (tmo : Option Time) (h : c.dev.conn ≠ 0) :
    ((c.dev.retryCount = 0 ∨ backoffEnd c.dev ≤ c.env.now) ∧
        reconnectDev c tmo = (connectDev (disconnectDev c), tmo)) ∨
    (0 < c.dev.retryCount ∧ c.env.now < backoffEnd c.dev ∧
        reconnectDev c tmo = (disconnectDev c, upd tmo (backoffEnd c.dev - c.env.now))) := by
  have hne : (c.dev.conn != 0) = true := by simpa using h
  have hr := disconnectDev_retry c
  have hb : backoffEnd (disconnectDev c).dev = backoffEnd c.dev := by unfold backoffEnd; rw [hr.retryCount, hr.lastRetry]
  unfold reconnectDev
  simp only [hne, ↓reduceIte]
  rcases timeToReconnect_spec (disconnectDev c).dev (disconnectDev c).env.now with ⟨h1, h2⟩ | ⟨h1, h2, h3⟩
  · rw [h1]
    rw [hb, hr.retryCount, hr.now] at h2
    exact Or.inl ⟨h2, rfl⟩
  · rw [h1]
    rw [hb, hr.now] at h3
    rw [hr.retryCount] at h2
    rw [hb, hr.now]
    exact Or.inr ⟨h2, h3, rfl⟩

/-- the read half (capacity half included) reports an i/o error exactly on a failing `read` and at end of file -/
theorem readyReadC_ioerr (c : CS) :
    (readyRead (clipRead c)).2 = true ↔ (c.env.read = some none ∨ c.env.read = some (some [])) := by
  unfold readyRead
  cases hr : c.env.read with
  | none => rw [clipRead_read_none c hr, hr]; simp
  | some x =>
    cases x with
    | none => rw [clipRead_read_err c hr]; simp
    | some bs =>
      rw [clipRead_read_data c bs hr]
      cases bs with
      | nil => simp [readOf_nil]
      | cons b r =>
        have := readOf_ne_nil c.dev (b :: r) (by simp)
        cases hh : readOf c.dev (b :: r) with
        | nil => exact absurd hh this
        | cons _ _ => simp

/-- what the read half leaves alone -/
theorem readyReadC_frame (c : CS) :
    (readyRead (clipRead c)).1.dev.acts = c.dev.acts ∧ (readyRead (clipRead c)).1.dev.conn = c.dev.conn ∧
    (readyRead (clipRead c)).1.dev.fd = c.dev.fd ∧ (readyRead (clipRead c)).1.dev.cpid = c.dev.cpid ∧
    (readyRead (clipRead c)).1.dev.isPipe = c.dev.isPipe ∧ (readyRead (clipRead c)).1.dev.loggedIn = c.dev.loggedIn ∧
    ((readyRead (clipRead c)).2 = true → (readyRead (clipRead c)).1.aborted = c.aborted) := by
  have core : ∀ c : CS, (readyRead c).1.dev.acts = c.dev.acts ∧ (readyRead c).1.dev.conn = c.dev.conn ∧
      (readyRead c).1.dev.fd = c.dev.fd ∧ (readyRead c).1.dev.cpid = c.dev.cpid ∧
      (readyRead c).1.dev.isPipe = c.dev.isPipe ∧ (readyRead c).1.dev.loggedIn = c.dev.loggedIn ∧
      ((readyRead c).2 = true → (readyRead c).1.aborted = c.aborted) := by
    intro c
    unfold readyRead telnetFilter
    repeat' split
    all_goals simp_all
  obtain ⟨a1, a2, a3, a4, a5, a6, a7⟩ := core (clipRead c)
  exact ⟨by rw [a1]; simp, by rw [a2]; simp, by rw [a3]; simp, by rw [a4]; simp, by rw [a5]; simp, by rw [a6]; simp,
    fun h => by rw [a7 h]; simp⟩

/-- `_handle_ready_device` on a CONNECTED device holding a descriptor, spelled out: when it reports an i/o error
    (`wcap = 0`: the `write` answers `EAGAIN`) -/
theorem handleReady_connected_ioerr (c : CS) (h2 : c.dev.conn = 2) (hfd : c.dev.fd.isSome = true) :
    (handleReady c).2 = true ↔
      (c.env.revents &&& 4 != 0 || c.env.revents &&& 8 != 0 || c.env.revents &&& 16 != 0) = true ∨
      ((c.env.revents &&& 2 != 0) = true ∧ (c.dev.toBuf.isEmpty = true ∨ c.env.writeOk = false ∨ c.env.wcap = 0)) ∨
      ((c.env.revents &&& 1 != 0) = true ∧ (c.env.read = some none ∨ c.env.read = some (some []))) := by
  have hn : c.dev.fd.isNone = false := by cases h : c.dev.fd <;> simp_all
  rw [Login2.handleReady_eq]
  unfold Login2.handleReady' readyTail readyWrite
  simp only [h2, hn]
  have hR := readyReadC_ioerr
  cases hH : (c.env.revents &&& 4 != 0 || c.env.revents &&& 8 != 0 || c.env.revents &&& 16 != 0)
  · cases hO : (c.env.revents &&& 2 != 0) <;> cases hI : (c.env.revents &&& 1 != 0) <;>
      cases hE : c.dev.toBuf.isEmpty <;> cases hW : c.env.writeOk <;> cases hC : (c.env.wcap == 0) <;> simp_all
  · simp

/-- … and what it leaves of the device then: the queue, the connection state, the descriptor, the child, the login flag
    are untouched, nothing is aborted -/
theorem handleReady_connected_frame (c : CS) (h2 : c.dev.conn = 2) (hfd : c.dev.fd.isSome = true)
    (he : (handleReady c).2 = true) :
    (handleReady c).1.dev.acts = c.dev.acts ∧ (handleReady c).1.dev.conn = 2 ∧ (handleReady c).1.dev.fd = c.dev.fd ∧
    (handleReady c).1.dev.cpid = c.dev.cpid ∧ (handleReady c).1.dev.isPipe = c.dev.isPipe ∧
    (handleReady c).1.dev.loggedIn = c.dev.loggedIn ∧ (handleReady c).1.aborted = c.aborted := by
  have hn : c.dev.fd.isNone = false := by cases h : c.dev.fd <;> simp_all
  rw [Login2.handleReady_eq] at he ⊢
  unfold Login2.handleReady' readyTail readyWrite at he ⊢
  simp only [h2, hn] at he ⊢
  have hR := readyReadC_frame
  cases hH : (c.env.revents &&& 4 != 0 || c.env.revents &&& 8 != 0 || c.env.revents &&& 16 != 0)
  · cases hO : (c.env.revents &&& 2 != 0) <;> cases hI : (c.env.revents &&& 1 != 0) <;>
      cases hE : c.dev.toBuf.isEmpty <;> cases hW : c.env.writeOk <;> cases hC : (c.env.wcap == 0) <;> simp_all
  · simp_all

/-! ### restart after a connect -/

theorem enqueueLogin_acts (d : Dev) :
    (enqueueLogin d).acts = loginAction d :: (match d.acts with | a :: r => rewind a :: r | [] => []) := rfl

theorem rewind_keeps (a : Action) : (rewind a).timeStamp = a.timeStamp ∧ (rewind a).clientId = a.clientId ∧
    (rewind a).arglist = a.arglist ∧ (rewind a).telemetry = a.telemetry := by
  unfold rewind; split <;> exact ⟨rfl, rfl, rfl, rfl⟩

theorem readyConnect_acts (c : CS) (h1 : c.dev.conn = 1) (h2 : (readyConnect c).1.dev.conn = 2) :
    (readyConnect c).1.dev.acts = (enqueueLogin c.dev).acts := by
  unfold readyConnect at h2 ⊢
  split at h2
  · rename_i hp
    exfalso
    have : c.dev.conn = 2 := h2
    omega
  rename_i hp
  simp only [hp, Bool.false_eq_true, ↓reduceIte]
  have ha := finishConnectOne_acts c
  have hs := (finishConnectOne_retry c).scripts
  generalize finishConnectOne c = r at *
  obtain ⟨c1, ok⟩ := r
  simp only at ha hs h2 ⊢
  have key : ∀ c2 : CS, c2.dev.acts = c.dev.acts → c2.dev.scripts = c.dev.scripts → (readyConnectTail c2).1.dev.conn = 2 →
      (readyConnectTail c2).1.dev.acts = (enqueueLogin c.dev).acts := by
    intro c2 ha2 hs2 hc2
    unfold readyConnectTail at hc2 ⊢
    split at hc2
    · rename_i h0; simp at h0; simp [h0] at hc2
    · rename_i h0
      split at hc2
      · rename_i h22
        simp only [h0, h22, Bool.false_eq_true, ↓reduceIte]
        show (enqueueLogin c2.dev).acts = _
        unfold enqueueLogin loginAction
        simp only [ha2, hs2]
      · rename_i h22; simp at h22; exact absurd hc2 h22
  cases ok
  · simp only [Bool.false_eq_true, ↓reduceIte] at h2 ⊢
    exact key (readyConnectFail c1) ((finishConnectFail_frame c1).dev.acts.trans ha)
      ((finishConnectFail_frame c1).dev.scripts.trans hs) h2
  · simp only [↓reduceIte] at h2 ⊢
    exact key c1 ha hs h2

/-- the other place where a connect completes: `_handle_ready_device` on a CONNECTING device (`tcp_finish_connect`).
    If the device is CONNECTED afterwards the queue is the one `_enqueue_login` makes of the queue before -/
theorem handleReady_connects (c : CS) (h1 : c.dev.conn = 1) (h2 : (handleReady c).1.dev.conn = 2) :
    (handleReady c).1.dev.acts = (enqueueLogin c.dev).acts := by
  rw [Login2.handleReady_eq] at h2 ⊢
  unfold Login2.handleReady' at h2 ⊢
  have h10 : (c.dev.conn == 0) = false := by simp [h1]
  have h11 : (c.dev.conn == 1) = true := by simp [h1]
  simp only [h10, h11, Bool.false_eq_true, ↓reduceIte] at h2 ⊢
  by_cases hn : c.dev.fd.isNone = true
  · simp only [hn, ↓reduceIte] at h2; rw [h1] at h2; cases h2
  · simp only [hn, Bool.false_eq_true, ↓reduceIte] at h2 ⊢
    by_cases hh : (c.env.revents &&& 4 != 0 || c.env.revents &&& 8 != 0 || c.env.revents &&& 16 != 0) = true
    · simp only [hh, ↓reduceIte] at h2; rw [h1] at h2; cases h2
    · simp only [hh, Bool.false_eq_true, ↓reduceIte] at h2 ⊢
      by_cases hO : (c.env.revents &&& 2 != 0) = true
      · simp only [hO, ↓reduceIte] at h2 ⊢
        have h3 := (Login2.readyConnect_toBuf c).2
        have ht : (readyTail c.env.revents (readyConnect c)).1 = (readyConnect c).1 := by
          unfold readyTail
          split
          · rfl
          · rfl
        rw [ht] at h2 ⊢
        exact readyConnect_acts c h1 h2
      · simp only [hO, Bool.false_eq_true, ↓reduceIte] at h2 ⊢
        exfalso
        unfold readyTail at h2
        simp only [Bool.false_eq_true, ↓reduceIte] at h2
        split at h2
        · rw [(Login2.readyRead_sameQueue c).conn, h1] at h2; cases h2
        · rw [h1] at h2; cases h2

/-! ### what the time-out branch reports -/

/-- the completion reported for the failing head -/
def headFin (a : Action) (e : ActErr) : List Out := if a.clientId != 0 then [Out.finish a.clientId e] else []
/-- the completions reported for everything queued behind it: aborted after an expect failure, the same error otherwise -/
def restFin (rest : List Action) (e : ActErr) : List Out :=
  (rest.filter (·.clientId != 0)).map fun b => Out.finish b.clientId (if e == .expfail then .abort else e)

theorem failAll_out (rest : List Action) (c : CS) (a : Action) (o : Oracle) (out : List Out) (tmo : Option Time) :
    (failAll rest c a o out tmo).2.2.1 = out ++ (headFin a a.errnum ++ restFin rest a.errnum) ∧
    (failAll rest c a o out tmo).2.1 = o := by
  unfold failAll headFin restFin
  dsimp only
  split <;> exact ⟨rfl, rfl⟩

theorem onTimeout_out (rest : List Action) (c : CS) (a : Action) (o : Oracle) (out : List Out) (tmo : Option Time) :
    (onTimeout rest c a o out tmo).2.2.1 =
      out ++ Fd.timeoutTele c.dev a ++ (headFin a (Fd.timeoutErr c.dev) ++ restFin rest (Fd.timeoutErr c.dev)) := by
  rw [Fd.onTimeout_eq_failAll, (failAll_out _ _ _ _ _ _).1]
  rfl

theorem timeoutErr_cases (d : Dev) :
    (d.conn ≠ 2 → Fd.timeoutErr d = .connectTimeout) ∧
    (d.conn = 2 → d.loggedIn = false → Fd.timeoutErr d = .loginTimeout) ∧
    (d.conn = 2 → d.loggedIn = true → Fd.timeoutErr d = .expfail) := by
  unfold Fd.timeoutErr
  refine ⟨fun h => by simp [h], fun h1 h2 => by simp [h1, h2], fun h1 h2 => by simp [h1, h2]⟩

/-! ### the retry counter is never reset by a pass -/

def RetryLe (c c' : CS) : Prop := c.dev.retryCount ≤ c'.dev.retryCount

theorem reconnectDev_retryLe (c : CS) (tmo : Option Time) : RetryLe c (reconnectDev c tmo).1 := by
  unfold reconnectDev RetryLe
  dsimp only
  have h0 : (if (c.dev.conn != 0) = true then disconnectDev c else c).dev.conn = 0 := by
    split
    · exact disconnectDev_conn c
    · rename_i h; simpa using h
  have h1 : (if (c.dev.conn != 0) = true then disconnectDev c else c).dev.retryCount = c.dev.retryCount := by
    split
    · exact (disconnectDev_retry c).retryCount
    · rfl
  generalize (if (c.dev.conn != 0) = true then disconnectDev c else c) = c1 at *
  split
  · rw [(connectDev_cases c1 h0).2.2.1]; omega
  · exact Nat.le_of_eq h1.symm
  · exact Nat.le_of_eq h1.symm

theorem failAll_retryLe (rest : List Action) (c : CS) (a : Action) (o : Oracle) (out : List Out) (tmo : Option Time) :
    RetryLe c (failAll rest c a o out tmo).1 := by
  unfold failAll
  dsimp only
  split
  · exact reconnectDev_retryLe { c with dev := { c.dev with acts := [], xmStr := none, xmResult := false, xmUsed := false } } tmo
  · exact Nat.le_refl _

theorem onRunStep_retryLe (rest : List Action) (c : CS) (a : Action) (o : Oracle) (out : List Out) (tmo : Option Time)
    (left : Time) : RetryLe c (onRunStep rest c a o out tmo left).1.1 := by
  unfold onRunStep
  dsimp only
  have hT := (innerLoop_timer c.env.now (loopBound a) { c.dev with wake := none } a o []).1.retryCount
  generalize innerLoop c.env.now (loopBound a) { c.dev with wake := none } a o [] = r at *
  simp only at hT
  have hle : c.dev.retryCount ≤ r.dev.retryCount := by omega
  split
  · exact hle
  · split
    · exact hle
    · split
      · split <;> exact hle
      · exact Nat.le_trans hle (failAll_retryLe rest { c with dev := r.dev } _ _ _ _)

theorem bodyStep_retryLe (c : CS) (o : Oracle) (out : List Out) (tmo : Option Time) : RetryLe c (bodyStep c o out tmo).1.1 := by
  unfold bodyStep
  split
  · exact Nat.le_refl _
  · split
    · exact Nat.le_refl _
    · dsimp only
      split
      · rw [Fd.onTimeout_eq_failAll]; exact failAll_retryLe _ _ _ _ _ _
      · split
        · exact Nat.le_refl _
        · exact onRunStep_retryLe _ _ _ _ _ _ _

theorem processActionF_retryLe (fuel : Nat) (c : CS) (o : Oracle) (out : List Out) (tmo : Option Time) :
    RetryLe c (processActionF fuel c o out tmo).1 :=
  processActionF_ind (Pre := fun c' _ => RetryLe c c') (Post := fun r => RetryLe c r.1)
    (fun _ _ _ _ h => h)
    (fun c' o out tmo h _ => Nat.le_trans h (bodyStep_retryLe c' o out tmo))
    (fun c' o out tmo h _ => Nat.le_trans h (bodyStep_retryLe c' o out tmo)) fuel c o out tmo (Nat.le_refl _)

/-- `dev_post_poll` never lowers `retry_count`: only `dev_enqueue_actions` (a client request on a device that is not
    CONNECTED) and `dev_create` set it to 0 -/
theorem postPoll_retryLe (d : Dev) (env : Env) (o : Oracle) : d.retryCount ≤ (postPoll d env o).1.dev.retryCount := by
  rw [Login2.postPoll_eq]
  unfold Login2.postPoll'
  have h1 : d.retryCount ≤ (postPollReady d env).1.dev.retryCount := by
    unfold postPollReady
    generalize (if d.fd.isSome then env.revents else 0) = fl
    split
    · exact Nat.le_of_eq (handleReady_retry { dev := d, env := { env with revents := fl }, sys := [] }).retryCount.symm
    · exact Nat.le_refl _
  split
  · exact h1
  · have h2 : (postPollReady d env).1.dev.retryCount ≤ (postPollReconnect (postPollReady d env)).1.dev.retryCount := by
      unfold postPollReconnect
      split
      · exact reconnectDev_retryLe _ _
      · exact Nat.le_refl _
    have h3 : (postPollPing env.now (postPollReconnect (postPollReady d env))).1.dev.retryCount =
        (postPollReconnect (postPollReady d env)).1.dev.retryCount := by
      unfold postPollPing appendPing
      split
      · split
        · split <;> rfl
        · rfl
      · rfl
    have h4 := processActionF_retryLe (passFuel (postPollPre d env).1.dev) (postPollPre d env).1 o [] (postPollPre d env).2
    unfold processAction
    unfold RetryLe at h4
    unfold postPollPre at h4 ⊢
    omega

theorem enqueue_retryCount (d : Dev) (com : Nat) (targets : List Bytes) (cid : Nat) (tele : Bool) (al : Nat) :
    (Pm.Daemon.enqueue d com targets cid tele al).1.retryCount = d.retryCount ∧
    (Pm.Daemon.enqueue d com targets cid tele al).1.conn = d.conn := by
  unfold Pm.Daemon.enqueue
  dsimp only
  split <;> exact ⟨rfl, rfl⟩

/-- the one place where `retry_count` is reset (`dev_enqueue_actions`, here the per-device step of `install`): exactly
    when the request put at least one action on a device that is not CONNECTED -/
theorem installStep_retryCount (com : Nat) (bnames : List Bytes) (cid : Nat) (tele : Bool) (al : Nat)
    (acc : List (Bytes × Dev) × Nat) (nd : Bytes × Dev) :
    ∃ d', (installStep com bnames cid tele al acc nd).1 = acc.1 ++ [(nd.1, d')] ∧
      d'.retryCount = (if (Pm.Daemon.enqueue nd.2 com bnames cid tele al).2 > 0 ∧ nd.2.conn ≠ 2 then 0 else nd.2.retryCount) := by
  unfold installStep
  have he := enqueue_retryCount nd.2 com bnames cid tele al
  generalize Pm.Daemon.enqueue nd.2 com bnames cid tele al = e at *
  obtain ⟨d1, n⟩ := e
  simp only at he ⊢
  refine ⟨_, rfl, ?_⟩
  by_cases h : n > 0 ∧ nd.2.conn ≠ 2
  · have : (decide (n > 0) && d1.conn != 2) = true := by simp [he.2, h.1, h.2]
    simp only [this, ↓reduceIte, if_pos h]
  · have : (decide (n > 0) && d1.conn != 2) = false := by
      rw [he.2]
      cases hn : decide (n > 0) <;> simp_all
    simp only [this, Bool.false_eq_true, ↓reduceIte, if_neg h, he.1]

/-! ### recovery: a fresh client action on a healthy device -/

/-- the device is CONNECTED, `poll` reports nothing for it, its queue holds exactly the unstamped action `a`, its
    time-out is positive: the first iteration of `_process_action` in this pass runs the statement interpreter on `a`
    stamped with the time of the pass — nothing else of the device state enters the choice -/
theorem recover_speaker (d : Dev) (env : Env) (a : Action) (h2 : d.conn = 2) (hq : d.acts = [a])
    (hts : a.timeStamp = none) (hto : 0 < d.timeout) (hfl : (if d.fd.isSome then env.revents else 0) = 0) :
    (postPollReady d env).1.aborted = false ∧
    speaker (postPollPre d env).1 = some { a with timeStamp := some env.now } := by
  obtain ⟨hr, l, _, hacts, hconn, hto', _, henv, hab⟩ := postPollPre_quiet d env hfl (by omega)
  refine ⟨hr, ?_⟩
  unfold speaker
  have hst : stamp env.now a = { a with timeStamp := some env.now } := by unfold stamp; simp [hts]
  simp only [hab, Bool.false_eq_true, ↓reduceIte, hacts, hq, List.cons_append, henv, hst, Option.getD_some, hto', hconn, h2]
  have : ¬ env.now ≥ env.now + d.timeout := by unfold Time at *; omega
  simp [this]

/-- … and if the interpreter stalls on it (an `expect` whose answer has not come, a `send` not yet flushed, a `delay`),
    the pass ends with that action at the head carrying the time stamp of this pass -/
theorem recover_stalled (d : Dev) (env : Env) (o : Oracle) (a : Action) (h2 : d.conn = 2) (hq : d.acts = [a])
    (hts : a.timeStamp = none) (hto : 0 < d.timeout) (hfl : (if d.fd.isSome then env.revents else 0) = 0)
    (hst : (innerLoop env.now (loopBound { a with timeStamp := some env.now }) { (postPollPre d env).1.dev with wake := none }
        { a with timeStamp := some env.now } o []).finished = false) :
    ∃ h r, (postPoll d env o).1.dev.acts = h :: r ∧ h.timeStamp = some env.now ∧ h.clientId = a.clientId ∧ h.com = a.com := by
  obtain ⟨hr, hsp⟩ := recover_speaker d env a h2 hq hts hto hfl
  obtain ⟨_, l, _, _, _, _, _, henv, _⟩ := postPollPre_quiet d env hfl (by omega)
  rw [Login2.postPoll_eq]
  unfold Login2.postPoll'
  simp only [hr, Bool.false_eq_true, ↓reduceIte]
  unfold processAction
  obtain ⟨n, hn⟩ := passFuel_pos (postPollPre d env).1.dev
  rw [hn, processActionF_succ]
  have hst' : (innerLoop (postPollPre d env).1.env.now (loopBound { a with timeStamp := some env.now })
      { (postPollPre d env).1.dev with wake := none } { a with timeStamp := some env.now } o []).finished = false := by
    rw [henv]; exact hst
  obtain ⟨hb1, hb2⟩ := bodyStep_stalled (postPollPre d env).1 o [] (postPollPre d env).2 _ hsp hst'
  unfold andThen
  simp only [hb1, Bool.false_eq_true, ↓reduceIte]
  refine ⟨_, _, hb2, ?_, ?_, ?_⟩
  · rw [(innerLoop_timer _ _ _ _ _ _).2]
  · rw [innerLoop_clientId]
  · rw [(innerLoop_link _ _ _ _ _ _).2]

/-! ## 12. C20: shutdown (`cli_fini`, `dev_fini` after `_select_loop`) -/

section shutdown
open Pm.Daemon

/-- the (irrelevant) kernel answers `teardown` runs `_disconnect` with -/
def tdEnv : Env := { now := 0, revents := 0, sockets := [], connects := [], soerrs := [], read := none, writeOk := true }

/-- the system calls `dev_destroy` issues for one device: those of `_disconnect`'s transport half, for a CONNECTED
    device only -/
def tdDev (d : Dev) : List Sys :=
  if d.conn == 2 then (disconnectDev { dev := d, env := tdEnv, sys := [] }).sys else []

theorem tdDev_eq (d : Dev) : tdDev d = if d.conn == 2 then Fd.closeOf d.fd ++ Fd.reapOf d.isPipe d.cpid else [] := by
  unfold tdDev
  split
  · rw [disconnectDev_sys]; simp
  · rfl

theorem showSys_nil : showSys [] [] = [] := by simp [showSys]

/-- `teardown`'s strings are the rendering (`showSys`, the function that prints every pass's system calls) of one `close`
    per client followed by `tdDev` of every device in configuration order -/
theorem teardown_eq (w : W) :
    teardown w = (w.clients.map fun c => s!"Y close {c.fd}") ++ w.devs.flatMap fun nd => showSys [] (tdDev nd.2) := by
  unfold teardown tdDev
  congr 1
  apply congrArg (fun f => List.flatMap f w.devs)
  funext nd
  split
  · rfl
  · exact showSys_nil.symm

/-- the strings of one CONNECTED device: signal and reap the coprocess (if there is one recorded), close the descriptor
    (`showSys` prints closes last) -/
theorem showSys_tdDev (d : Dev) (h2 : d.conn = 2) :
    showSys [] (tdDev d) =
      (match d.isPipe, d.cpid with | true, some pid => [s!"Y kill {pid} 15", s!"Y waitpid {pid}"] | _, _ => []) ++
      (match d.fd with | some fd => [s!"Y close {fd}"] | none => []) := by
  rw [tdDev_eq]
  simp only [h2, beq_self_eq_true, ↓reduceIte]
  cases d.fd <;> cases d.isPipe <;> cases d.cpid <;> simp [showSys, Fd.closeOf, Fd.reapOf]

/-- descriptor audit of one device's share: started with the descriptor the device holds, the audit succeeds (the only
    `close` is for that descriptor) and ends with nothing held if the device was CONNECTED — and with the descriptor
    still held otherwise -/
theorem tdDev_fdRun (d : Dev) : Fd.fdRun d.fd.toList (tdDev d) = some (if d.conn == 2 then [] else d.fd.toList) := by
  rw [tdDev_eq]
  split
  · cases d.fd <;> cases d.isPipe <;> cases d.cpid <;> simp [Fd.closeOf, Fd.reapOf, Fd.fdRun, Fd.fdStep]
  · rfl

/-- child audit of one device's share, under the invariants: no child is left, none is signalled without being reaped -/
theorem tdDev_kidRun (d : Dev) (hc : Fd.ChildInv d) (hr : Fd.ConnRange d) :
    Fd.kidRun (d.cpid.toList, []) (tdDev d) = some ([], []) := by
  rw [tdDev_eq]
  obtain ⟨c1, c2, c3⟩ := hc
  unfold Fd.ConnRange at hr
  split
  · rename_i h2
    have h2' : d.conn = 2 := by simpa using h2
    cases hp : d.isPipe <;> cases hk : d.cpid <;> simp_all [Fd.reapOf] <;>
      cases d.fd <;> simp [Fd.closeOf, Fd.kidRun, Fd.kidStep]
  · rename_i h2
    have h2' : d.conn ≠ 2 := by simpa using h2
    cases hk : d.cpid with
    | none => rfl
    | some pid =>
      exfalso
      have := c1 (by simp [hk])
      have := c3 this.1
      omega

/-- all descriptors the daemon holds: one per client, one per device that has one -/
def openFds (w : W) : List Nat := w.clients.map (·.fd) ++ w.devs.flatMap fun nd => nd.2.fd.toList
/-- the descriptors `teardown` closes -/
def tdClosed (w : W) : List Nat := w.clients.map (·.fd) ++ w.devs.flatMap fun nd => Fd.closed (tdDev nd.2)
/-- the descriptors it does not close -/
def tdLeft (w : W) : List Nat := w.devs.flatMap fun nd => if nd.2.conn == 2 then [] else nd.2.fd.toList

theorem tdDev_closed (d : Dev) : Fd.closed (tdDev d) = if d.conn == 2 then d.fd.toList else [] := by
  rw [tdDev_eq]
  split
  · cases d.fd <;> cases d.isPipe <;> cases d.cpid <;> simp [Fd.closeOf, Fd.reapOf, Fd.closed]
  · rfl

/-- descriptor ledger of the shutdown, per descriptor number: held = closed + left open -/
theorem teardown_balance (w : W) (n : Nat) : (openFds w).count n = (tdClosed w).count n + (tdLeft w).count n := by
  unfold openFds tdClosed tdLeft
  simp only [List.count_append]
  have : ∀ l : List (Bytes × Dev), (l.flatMap fun nd => nd.2.fd.toList).count n =
      (l.flatMap fun nd => Fd.closed (tdDev nd.2)).count n +
      (l.flatMap fun nd => if nd.2.conn == 2 then [] else nd.2.fd.toList).count n := by
    intro l
    induction l with
    | nil => rfl
    | cons x r ih =>
      simp only [List.flatMap_cons, List.count_append, ih, tdDev_closed]
      split <;> simp <;> omega
  rw [this, Nat.add_assoc]

/-- with the descriptor invariant on every device, what is left open are the descriptors of the devices that are
    CONNECTING, and nothing else -/
theorem tdLeft_connecting (w : W) (h : ∀ nd ∈ w.devs, Fd.FdInv nd.2 ∧ Fd.ConnRange nd.2) :
    tdLeft w = (w.devs.filter fun nd => nd.2.conn == 1).flatMap fun nd => nd.2.fd.toList := by
  unfold tdLeft
  have : ∀ l : List (Bytes × Dev), (∀ nd ∈ l, Fd.FdInv nd.2 ∧ Fd.ConnRange nd.2) →
      (l.flatMap fun nd => if nd.2.conn == 2 then [] else nd.2.fd.toList) =
      (l.filter fun nd => nd.2.conn == 1).flatMap fun nd => nd.2.fd.toList := by
    intro l hl
    induction l with
    | nil => rfl
    | cons x r ih =>
      have hx := hl x (by simp)
      have ih' := ih (fun nd hnd => hl nd (by simp [hnd]))
      simp only [List.flatMap_cons, List.filter_cons, ih']
      unfold Fd.FdInv Fd.ConnRange at hx
      by_cases h2 : x.2.conn = 2
      · simp [h2]
      · by_cases h1 : x.2.conn = 1
        · simp [h1]
        · have h0 : x.2.conn = 0 := by omega
          simp [h0, hx.1.mpr h0]
  exact this w.devs h

/-- when all descriptors held are distinct numbers, `teardown` closes every descriptor at most once: exactly once if it
    is held and not left open, never otherwise -/
theorem teardown_once (w : W) (hnd : (openFds w).Nodup) (n : Nat) :
    (tdClosed w).count n = if n ∈ openFds w ∧ n ∉ tdLeft w then 1 else 0 := by
  have hb := teardown_balance w n
  have h1 : (openFds w).count n ≤ 1 := List.nodup_iff_count.mp hnd n
  have h2 : 0 < (openFds w).count n ↔ n ∈ openFds w := List.count_pos_iff
  have h3 : (tdLeft w).count n = 0 ↔ n ∉ tdLeft w := List.count_eq_zero
  by_cases hm : n ∈ openFds w
  · by_cases hl : n ∈ tdLeft w
    · have : ¬ (tdLeft w).count n = 0 := fun h => (h3.mp h) hl
      simp only [hm, hl, not_true_eq_false, and_false, ↓reduceIte]
      have := h2.mpr hm
      omega
    · have := h3.mpr hl
      have := h2.mpr hm
      simp only [hm, hl, not_false_eq_true, and_self, ↓reduceIte]
      omega
  · have : ¬ 0 < (openFds w).count n := fun h => hm (h2.mp h)
    simp only [hm, false_and, ↓reduceIte]
    omega

/-- example worlds for `Props/C20`: a client on descriptor 1000; the connected tcp device (descriptor 2000), the connected
    coprocess device (descriptor 3000, child 5000), a tcp device still CONNECTING (descriptor 2001), an idle one -/
def tdWorld : W :=
  { cfg := { plugs := [], has := [], nodes := [], version := [] }, clients := [{ id := 1, fd := 1000 }],
    devs := [([65], Fd.exTcp), ([66], Fd.exPipe), ([67], { Fd.exDev with conn := 1, fd := some 2001 }), ([68], Fd.exDev)] }

end shutdown

/-! ## 13. the clients' descriptors over `cli_post_poll` and over a whole daemon pass -/

section cliLedger
open Pm.Daemon Pm.Daemon.ClientPf

abbrev DSys := Pm.Daemon.Sys

/-- descriptors obtained by `accept` in a client-side log (a failed `accept` returns −1 and yields none) -/
def accepted : List DSys → List Nat
  | [] => []
  | .accept fd :: r => (if fd < 0 then [] else [fd.toNat]) ++ accepted r
  | _ :: r => accepted r
/-- descriptors closed in a client-side log -/
def closedC : List DSys → List Nat
  | [] => []
  | .close fd :: r => fd :: closedC r
  | _ :: r => closedC r
def quietSys : DSys → Bool
  | .read _ _ => true
  | .write _ _ _ _ => true
  | _ => false

theorem accepted_append (a b : List DSys) : accepted (a ++ b) = accepted a ++ accepted b := by
  induction a with
  | nil => rfl
  | cons s r ih => cases s <;> simp [accepted, ih]
theorem closedC_append (a b : List DSys) : closedC (a ++ b) = closedC a ++ closedC b := by
  induction a with
  | nil => rfl
  | cons s r ih => cases s <;> simp [closedC, ih]
theorem quiet_none (l : List DSys) (h : l.all quietSys = true) : accepted l = [] ∧ closedC l = [] := by
  induction l with
  | nil => exact ⟨rfl, rfl⟩
  | cons s r ih =>
    simp only [List.all_cons, Bool.and_eq_true] at h
    have := ih h.2
    cases s <;> simp_all [accepted, closedC, quietSys]

/-- a client-side function that touches neither the client list, nor the client's identity and descriptor, and logs only
    reads and writes -/
structure CliQuiet (w : W) (c : Cli) (r : W × Cli) : Prop where
  clients : r.1.clients = w.clients
  id : r.2.id = c.id
  fd : r.2.fd = c.fd
  sys : ∃ ext, r.1.sys = w.sys ++ ext ∧ ext.all quietSys = true

theorem CliQuiet.refl (w : W) (c : Cli) : CliQuiet w c (w, c) := ⟨rfl, rfl, rfl, [], by simp, rfl⟩
theorem CliQuiet.trans {w : W} {c : Cli} {r r' : W × Cli} (h1 : CliQuiet w c r) (h2 : CliQuiet r.1 r.2 r') : CliQuiet w c r' := by
  obtain ⟨e1, s1, q1⟩ := h1.sys
  obtain ⟨e2, s2, q2⟩ := h2.sys
  exact ⟨h2.clients.trans h1.clients, h2.id.trans h1.id, h2.fd.trans h1.fd, e1 ++ e2,
    by rw [s2, s1, List.append_assoc], by simp [List.all_append, q1, q2]⟩
theorem CliQuiet.of_same {w : W} {c c' : Cli} {r : W × Cli} (h : CliQuiet w c' r) (hid : c'.id = c.id) (hfd : c'.fd = c.fd) :
    CliQuiet w c r := ⟨h.clients, h.id.trans hid, h.fd.trans hfd, h.sys⟩

theorem hwCore_quiet (w : W) (c : Cli) : CliQuiet w c (hwCore w c) := by
  unfold hwCore
  split
  · exact CliQuiet.refl w c
  · dsimp only
    split
    · exact ⟨rfl, rfl, rfl, _, rfl, rfl⟩
    · split
      · exact ⟨rfl, rfl, rfl, _, rfl, rfl⟩
      · split
        · exact ⟨rfl, rfl, rfl, _, rfl, rfl⟩
        · exact ⟨rfl, rfl, rfl, _, rfl, rfl⟩

theorem handleWrite_quiet (w : W) (c : Cli) : CliQuiet w c (handleWrite w c) := by
  rw [handleWrite_eq]
  apply (hwCore_quiet w _).of_same
  · split <;> rfl
  · split <;> rfl

theorem parseLine_quiet (w : W) (c : Cli) (line : Pm.Client.Bytes) : CliQuiet w c (parseLine w c line) := by
  have hf := parseLine_frame w c line
  refine ⟨hf.clients, hf.id, hf.fd, ?_⟩
  cases parseLine_shape w c line with
  | exit h _ => rw [h]; exact ⟨[], by simp, rfl⟩
  | reply items shape out buf cmd ex clean prompted =>
    rcases buf with ⟨_, hs⟩ | ⟨_, ⟨_, _, hs⟩ | ⟨_, _, hs⟩⟩
    · exact ⟨[], by simp [hs], rfl⟩
    · exact ⟨_, hs, rfl⟩
    · exact ⟨_, hs, rfl⟩
  | installed k idle cmd pending buf sys ex => exact ⟨[], by simp [sys], rfl⟩

theorem runLines_quiet (ls : List Pm.Client.Bytes) : ∀ (w : W) (c : Cli), CliQuiet w c (runLines w c ls) := by
  induction ls with
  | nil => intro w c; exact CliQuiet.refl w c
  | cons l ls ih =>
    intro w c
    unfold runLines
    split
    · exact CliQuiet.refl w c
    · exact (CliQuiet.of_same (c := c) (parseLine_quiet w { c with fromBuf := c.fromBuf.drop l.length } l) rfl rfl).trans (ih _ _)

theorem handleInput_quiet (w : W) (c : Cli) : CliQuiet w c (handleInput w c) := by
  rw [handleInput_lines]; exact runLines_quiet _ w c

theorem cpRead_quiet (w : W) (c : Cli) (e : Option FdEnv) : CliQuiet w c (cpRead w c e) := by
  unfold cpRead
  split
  · split
    · exact ⟨rfl, rfl, rfl, _, rfl, rfl⟩
    · split
      · exact ⟨rfl, rfl, rfl, _, rfl, rfl⟩
      · split
        · exact ⟨rfl, rfl, rfl, _, rfl, rfl⟩
        · exact ⟨rfl, rfl, rfl, _, rfl, rfl⟩
  · exact CliQuiet.refl w c

/-- one client's share of `cli_post_poll`: the client list is not touched; no `accept`; the client's own descriptor is
    closed — once — exactly when the client is destroyed (the result is `none`); a surviving client keeps its identity
    and its descriptor -/
theorem clientPass_ledger (w : W) (c : Cli) (e : Option FdEnv) :
    (clientPass w c e).1.clients = w.clients ∧
    ∃ ext, (clientPass w c e).1.sys = w.sys ++ ext ∧ accepted ext = [] ∧
      closedC ext = (match (clientPass w c e).2 with | none => [c.fd] | some _ => []) ∧
      ∀ c', (clientPass w c e).2 = some c' → c'.id = c.id ∧ c'.fd = c.fd := by
  rw [ClientPf.clientPass_eq]
  unfold ClientPf.clientPass'
  dsimp only
  split
  · exact ⟨rfl, [Pm.Daemon.Sys.close c.fd], rfl, rfl, rfl, fun c' h => by simp [cpDead] at h⟩
  · have h1 : CliQuiet w c (if (cpRev c e &&& 1 != 0 || cpRev c e &&& 4 != 0) = true then cpRead w (clipC c e) (clipE c e) else (w, c)) := by
      split
      · exact (cpRead_quiet w (clipC c e) (clipE c e)).of_same (by simp) (by simp)
      · exact CliQuiet.refl w c
    generalize (if (cpRev c e &&& 1 != 0 || cpRev c e &&& 4 != 0) = true then cpRead w (clipC c e) (clipE c e) else (w, c)) = r1 at *
    have h2 : CliQuiet w c (if (cpRev c e &&& 2 != 0) = true then handleWrite r1.1 r1.2 else r1) := by
      split
      · exact h1.trans (handleWrite_quiet _ _)
      · exact h1
    generalize (if (cpRev c e &&& 2 != 0) = true then handleWrite r1.1 r1.2 else r1) = r2 at *
    have h3 : CliQuiet w c (handleInput r2.1 r2.2) := h2.trans (handleInput_quiet _ _)
    generalize handleInput r2.1 r2.2 = r3 at *
    obtain ⟨ext, hs, hq⟩ := h3.sys
    obtain ⟨qa, qc⟩ := quiet_none ext hq
    unfold cpTail
    split
    · exact ⟨h3.clients, ext, hs, qa, qc, fun c' h => by cases h; exact ⟨h3.id, h3.fd⟩⟩
    · split
      · refine ⟨h3.clients, ext ++ [Pm.Daemon.Sys.close c.fd], ?_, ?_, ?_, fun c' h => by simp [cpDead] at h⟩
        · simp [cpDead, hs, h3.fd]
        · simp [accepted_append, qa, accepted]
        · simp [closedC_append, qc, closedC, cpDead]
      · exact ⟨h3.clients, ext, hs, qa, qc, fun c' h => by cases h; exact ⟨h3.id, h3.fd⟩⟩

/-! list facts about clients with pairwise distinct ids -/

theorem ids_unique (l : List Cli) (h : (l.map (·.id)).Nodup) (x y : Cli) (hx : x ∈ l) (hy : y ∈ l) (he : x.id = y.id) : x = y := by
  induction l with
  | nil => cases hx
  | cons z r ih =>
    simp only [List.map_cons, List.nodup_cons, List.mem_map, not_exists, not_and] at h
    rcases List.mem_cons.mp hx with rfl | hx' <;> rcases List.mem_cons.mp hy with rfl | hy'
    · rfl
    · exact absurd he.symm (h.1 y hy')
    · exact absurd he (h.1 x hx')
    · exact ih h.2 hx' hy'

theorem count_remove_id (l : List Cli) (h : (l.map (·.id)).Nodup) (x : Cli) (hx : x ∈ l) (n : Nat) :
    (l.map (·.fd)).count n = ((l.filter fun y => y.id != x.id).map (·.fd)).count n + (if x.fd = n then 1 else 0) := by
  induction l with
  | nil => cases hx
  | cons z r ih =>
    simp only [List.map_cons, List.nodup_cons, List.mem_map, not_exists, not_and] at h
    rcases List.mem_cons.mp hx with rfl | hx'
    · have hr : (r.filter fun y => y.id != x.id) = r := by
        rw [List.filter_eq_self]
        intro y hy
        have := h.1 y hy
        simpa using this
      simp only [List.filter_cons, bne_self_eq_false, Bool.false_eq_true, ↓reduceIte, hr, List.map_cons, List.count_cons, beq_iff_eq]
    · have hne : z.id ≠ x.id := fun he => h.1 x hx' he.symm
      have hz : (z.id != x.id) = true := by simpa using hne
      simp only [List.filter_cons, hz, ↓reduceIte, List.map_cons, List.count_cons, ih h.2 hx']
      omega

theorem map_replace (l : List Cli) (c : Cli) (h : ∀ x ∈ l, x.id = c.id → x.fd = c.fd) :
    (l.map fun x => if x.id == c.id then c else x).map (·.fd) = l.map (·.fd) ∧
    (l.map fun x => if x.id == c.id then c else x).map (·.id) = l.map (·.id) := by
  simp only [List.map_map]
  constructor
  · apply List.map_congr_left
    intro x hx
    simp only [Function.comp]
    split
    · rename_i he; exact (h x hx (by simpa using he)).symm
    · rfl
  · apply List.map_congr_left
    intro x hx
    simp only [Function.comp]
    split
    · rename_i he; exact (by simpa using he : x.id = c.id).symm
    · rfl

/-- the clients' descriptor ledger against the list `H` of descriptors held when the log began -/
def Led (H : List Nat) (w : W) : Prop :=
  ∀ n, H.count n + (accepted w.sys).count n = (closedC w.sys).count n + (w.clients.map (·.fd)).count n

/-- the clients still to be visited (`rem`, records as they were when the loop began) are all present in the current
    list, under their id, with their descriptor; ids are pairwise distinct -/
def Sync (w : W) (rem : List Cli) : Prop :=
  (w.clients.map (·.id)).Nodup ∧ (rem.map (·.id)).Nodup ∧ ∀ c0 ∈ rem, ∃ x ∈ w.clients, x.id = c0.id ∧ x.fd = c0.fd

theorem cliStep_inv (H : List Nat) (envs : List FdEnv) (w : W) (c0 : Cli) (rem : List Cli)
    (hl : Led H w) (hs : Sync w (c0 :: rem)) : Led H (ClientPf.cliStep envs w c0) ∧ Sync (ClientPf.cliStep envs w c0) rem := by
  obtain ⟨hn, hr, hp⟩ := hs
  simp only [List.map_cons, List.nodup_cons, List.mem_map, not_exists, not_and] at hr
  have hrem : ∀ c ∈ rem, ∃ x ∈ w.clients, x.id = c.id ∧ x.fd = c.fd := fun c hc => hp c (by simp [hc])
  unfold ClientPf.cliStep
  split
  · exact ⟨hl, hn, hr.2, hrem⟩
  · obtain ⟨hcl, ext, hsys, ha, hc, hsome⟩ := clientPass_ledger w c0 (envs.find? (·.fd == c0.fd))
    generalize clientPass w c0 (envs.find? (·.fd == c0.fd)) = r at *
    obtain ⟨w', res⟩ := r
    simp only at hcl hsys hc hsome ⊢
    obtain ⟨x0, hx0, hx0id, hx0fd⟩ := hp c0 (by simp)
    cases res with
    | some c =>
      obtain ⟨hcid, hcfd⟩ := hsome c rfl
      simp only at hc ⊢
      have hrep := map_replace w.clients c (by
        intro x hx he
        have : x = x0 := ids_unique w.clients hn x x0 hx hx0 (by rw [he, hcid, hx0id])
        rw [this, hx0fd, hcfd])
      refine ⟨?_, ?_, hr.2, ?_⟩
      · intro n
        have := hl n
        simp only [hcl, hsys, accepted_append, closedC_append, ha, hc, List.append_nil]
        rw [hrep.1]
        exact this
      · simp only [hcl]; rw [hrep.2]; exact hn
      · intro c1 hc1
        obtain ⟨x, hx, hxid, hxfd⟩ := hrem c1 hc1
        have hne : x.id ≠ c.id := by
          rw [hxid, hcid]; exact fun he => hr.1 c1 hc1 he
        refine ⟨x, ?_, hxid, hxfd⟩
        simp only [List.mem_map]
        refine ⟨x, by rw [hcl]; exact hx, ?_⟩
        have : (x.id == c.id) = false := by simpa using hne
        simp [this]
    | none =>
      simp only at hc ⊢
      refine ⟨?_, ?_, hr.2, ?_⟩
      · intro n
        have h1 := hl n
        have h2 := count_remove_id w.clients hn x0 hx0 n
        simp only [hcl, hsys, accepted_append, closedC_append, ha, hc, List.append_nil, List.count_append,
          List.count_cons, List.count_nil, beq_iff_eq, ← hx0id]
        rw [hx0fd] at h2
        omega
      · rw [hcl]
        exact List.Nodup.sublist ((List.filter_sublist).map _) hn
      · intro c1 hc1
        obtain ⟨x, hx, hxid, hxfd⟩ := hrem c1 hc1
        refine ⟨x, ?_, hxid, hxfd⟩
        rw [hcl, List.mem_filter]
        refine ⟨hx, ?_⟩
        have : x.id ≠ c0.id := by rw [hxid]; exact fun he => hr.1 c1 hc1 he
        simpa using this

theorem foldl_cliStep_inv (H : List Nat) (envs : List FdEnv) (rem : List Cli) (w : W) (hl : Led H w) (hs : Sync w rem) :
    Led H (rem.foldl (ClientPf.cliStep envs) w) ∧ ((rem.foldl (ClientPf.cliStep envs) w).clients.map (·.id)).Nodup := by
  induction rem generalizing w with
  | nil => exact ⟨hl, hs.1⟩
  | cons c0 r ih =>
    obtain ⟨h1, h2⟩ := cliStep_inv H envs w c0 r hl hs
    exact ih _ h1 h2

/-- **the clients' descriptor ledger of `cli_post_poll`** (whose log starts empty): for every descriptor number, held by a
    client before + accepted in the pass = closed in the pass + held by a client afterwards; and the ids stay pairwise
    distinct.  Needs: ids pairwise distinct and below `nextId` (true initially, kept by every pass) -/
theorem cliPostPoll_ledger (w : W) (acc : Nat) (envs : List FdEnv) (hid : (w.clients.map (·.id)).Nodup)
    (hfresh : ∀ c ∈ w.clients, c.id < w.nextId) :
    (∀ n, (w.clients.map (·.fd)).count n + (accepted (cliPostPoll w acc envs).sys).count n =
        (closedC (cliPostPoll w acc envs).sys).count n + ((cliPostPoll w acc envs).clients.map (·.fd)).count n) ∧
    ((cliPostPoll w acc envs).clients.map (·.id)).Nodup := by
  rw [ClientPf.cliPostPoll_eq]
  apply foldl_cliStep_inv
  · unfold Led ClientPf.cliAccept ClientPf.newClient
    intro n
    split
    · have h0 : ¬ ((1000 : Int) + (w.nacc : Int) < 0) := by omega
      have h1 : ((1000 : Int) + (w.nacc : Int)).toNat = 1000 + w.nacc := by omega
      simp [accepted, closedC, List.count_append, h0, h1]
    · split
      · simp [accepted, closedC]
      · simp [accepted, closedC]
  · have hids : ((ClientPf.cliAccept { w with sys := [], caps := envs.map fun (e : FdEnv) => (e.fd, e.cap) } acc).clients.map (·.id)).Nodup := by
      unfold ClientPf.cliAccept ClientPf.newClient
      split
      · simp only [List.map_append, List.map_cons, List.map_nil]
        rw [List.nodup_append]
        refine ⟨hid, by simp, ?_⟩
        intro a ha b hb
        simp only [List.mem_singleton] at hb
        simp only [List.mem_map] at ha
        obtain ⟨c, hc, rfl⟩ := ha
        have := hfresh c hc
        omega
      · split <;> exact hid
    exact ⟨hids, hids, fun c0 hc0 => ⟨c0, hc0, rfl, rfl⟩⟩

/-- the device phase of the pass leaves the clients' ids and descriptors and the client-side log alone (its callbacks
    only append to clients' output buffers and finish their commands) -/
theorem devPass_cli (p : PassIn) (a : DevAcc) (nd : Bytes × Dev) :
    (devPass p a nd).w.clients.map (·.fd) = a.w.clients.map (·.fd) ∧
    (devPass p a nd).w.clients.map (·.id) = a.w.clients.map (·.id) ∧ (devPass p a nd).w.sys = a.w.sys := by
  rw [Pm.Daemon.devPass_eq]
  unfold devPass'
  split
  · exact ⟨rfl, rfl, rfl⟩
  · dsimp only
    obtain ⟨h1, G, hG, hA⟩ := applyOuts_shape (afterStep a.w (devStep p a.w a.oracle nd).1) nd.1 (devStep p a.w a.oracle nd).2.2.1
    generalize applyOuts (afterStep a.w (devStep p a.w a.oracle nd).1) nd.1 (devStep p a.w a.oracle nd).2.2.1 = x at *
    have hcl : (afterStep a.w (devStep p a.w a.oracle nd).1).clients = a.w.clients := rfl
    have hsy : (afterStep a.w (devStep p a.w a.oracle nd).1).sys = a.w.sys := rfl
    refine ⟨?_, ?_, ?_⟩
    · rw [hG, hcl, List.map_map]
      apply List.map_congr_left
      intro c _
      obtain ⟨items, hap, _⟩ := hA c
      exact hap.fd
    · rw [hG, hcl, List.map_map]
      apply List.map_congr_left
      intro c _
      obtain ⟨items, hap, _⟩ := hA c
      exact hap.id
    · rw [← hsy, ← h1]

theorem foldl_devPass_cli (p : PassIn) (l : List (Bytes × Dev)) (a : DevAcc) :
    (l.foldl (devPass p) a).w.clients.map (·.fd) = a.w.clients.map (·.fd) ∧
    (l.foldl (devPass p) a).w.clients.map (·.id) = a.w.clients.map (·.id) ∧ (l.foldl (devPass p) a).w.sys = a.w.sys := by
  induction l generalizing a with
  | nil => exact ⟨rfl, rfl, rfl⟩
  | cons x r ih =>
    obtain ⟨h1, h2, h3⟩ := devPass_cli p a x
    obtain ⟨i1, i2, i3⟩ := ih (devPass p a x)
    exact ⟨i1.trans h1, i2.trans h2, i3.trans h3⟩

/-- **the clients' descriptor ledger of a whole daemon pass** (`daemonPass`, the body of `_select_loop`): `w'.sys` is the
    client-side system-call log of the pass -/
theorem daemonPass_cli_ledger (w : W) (p : PassIn) (hid : (w.clients.map (·.id)).Nodup)
    (hfresh : ∀ c ∈ w.clients, c.id < w.nextId) :
    (∀ n, (w.clients.map (·.fd)).count n + (accepted (daemonPass w p).1.sys).count n =
        (closedC (daemonPass w p).1.sys).count n + ((daemonPass w p).1.clients.map (·.fd)).count n) ∧
    ((daemonPass w p).1.clients.map (·.id)).Nodup := by
  obtain ⟨h1, h2⟩ := cliPostPoll_ledger w p.acc p.envs hid hfresh
  rw [daemonPass_fst]
  dsimp only
  split
  · exact ⟨h1, h2⟩
  · obtain ⟨f1, f2, f3⟩ := foldl_devPass_cli p (cliPostPoll w p.acc p.envs).devs (acc0 (cliPostPoll w p.acc p.envs))
    simp only
    have e1 : (acc0 (cliPostPoll w p.acc p.envs)).w = cliPostPoll w p.acc p.envs := rfl
    rw [e1] at f1 f2 f3
    rw [f1, f2, f3]
    exact ⟨h1, h2⟩

/-- example for `Props/C20`: the world of `tdWorld` after one earlier `accept`; a pass in which a second client connects
    and `poll` reports POLLNVAL for the first one's descriptor -/
def cliWorld : W := { tdWorld with nacc := 1, nextId := 2 }
def cliEnvs : List FdEnv := [{ fd := 1000, rev := 16, rk := 0, data := [], cap := 0 }]

end cliLedger

/-! ## 10. concrete devices for the non-vacuity examples and the counterexamples of `Props/C04` -/
namespace Ex

/-- a client action (client 1, script 7) that became head of the queue at time 0 -/
def ctx1 : ExecCtx := { block := [Stmt.expect 1], pos := 0, plugs := none, plugItr := none, plugCopy := none, processing := false }
def act1 : Action := { loginAction Fd.exDev with com := 7, clientId := 1, timeStamp := some 0, exec := [ctx1] }
/-- the same for client 2, never looked at yet -/
def act2 : Action := { act1 with clientId := 2, timeStamp := none }
/-- a connected, logged-in coprocess device (time-out 1 s) with two client actions queued -/
def pipeBusy : Dev := { Fd.exPipe with acts := [act1, act2] }
/-- a connected, logged-in tcp device with the same queue -/
def tcpBusy : Dev := { Fd.exTcp with acts := [act1, act2] }
/-- a tcp device that is not connected (no attempt made yet), same queue -/
def tcpDown : Dev := { Fd.exDev with acts := [act1, act2] }
/-- a tcp device that is not connected, with nothing queued -/
def tcpIdle : Dev := Fd.exDev
/-- no poll event; 0.4 s after the head was stamped; the kernel has answers for one reconnect (which goes through at once
    for the coprocess) -/
def envEarly : Env :=
  { now := 400000, revents := 0, sockets := [2001], connects := [2], soerrs := [], read := none, writeOk := true,
    pairs := [3002], pids := [5001] }
/-- the same 2 s after the head was stamped: its deadline (1 s) has passed -/
def envLate : Env := { envEarly with now := 2000000 }

end Ex

end Pm.Dev2.Timer

/-! axiom audit of everything `Props/C04`, `Props/C12`, `Props/C20` take from here -/
section AxiomChecks
open Pm.Dev2.Timer
end AxiomChecks

