import Pm.LsdHash
/-! # `liblsd/hash.c`: the table is a finite map

For every table that satisfies the representation invariant (`Inv`; `valid` is its executable form; `create` establishes
it and every call keeps it — `run_inv`): `hash_find` after `hash_insert` / `hash_remove` / `hash_delete_if` is what a finite map
answers (`insert_spec`, `remove_spec`, `deleteIf_spec`), `hash_insert` refuses a key that is there, `count` is the number of
items, `hash_for_each` counts the marked items.  `powermand` keeps the argument list of a command in such a table (key = node
name): `arglist_find` is `hash_find` — what C03 assumes when it reads the result cells of a query by node name. -/
set_option linter.unusedSectionVars false
namespace Pm.LsdHash
variable {κ δ : Type} [DecidableEq κ]

/-- the representation invariant (what `valid` computes) -/
structure Inv (t : Table κ δ) : Prop where
  pos : 0 < t.size
  tsize : t.table.size = t.size
  slot : ∀ s e, e ∈ chain t s → slotOf t e.1 = s
  nodup : ∀ s, ((chain t s).map (·.1)).Nodup
  count : t.count = (toList t).length

theorem slotOf_lt (t : Table κ δ) (h : 0 < t.size) (k : κ) : slotOf t k < t.size := Nat.mod_lt _ h

theorem flatten_set_length : ∀ (l : List (List (κ × δ))) (s : Nat) (c : List (κ × δ)), s < l.length →
    (l.set s c).flatten.length + (l[s]?.getD []).length = l.flatten.length + c.length := by
  intro l
  induction l with
  | nil => intro s c h; simp at h
  | cons a rest ih =>
    intro s c h
    cases s with
    | zero => simp; omega
    | succ s' =>
      have := ih s' c (by simpa using h)
      simp at this ⊢; omega

theorem mem_toList (t : Table κ δ) (e : κ × δ) : e ∈ toList t ↔ ∃ s, e ∈ chain t s := by
  unfold toList chain
  simp only [List.mem_flatten, Array.mem_toList_iff]
  constructor
  · rintro ⟨c, hc, he⟩
    obtain ⟨s, hs, rfl⟩ := Array.getElem_of_mem hc
    exact ⟨s, by simp [hs, he]⟩
  · rintro ⟨s, he⟩
    by_cases hs : s < t.table.size
    · simp [hs] at he
      exact ⟨t.table[s], Array.getElem_mem hs, he⟩
    · simp [hs] at he

theorem find_eq_some (t : Table κ δ) (h : Inv t) (k : κ) (d : δ) : find t k = some d ↔ (k, d) ∈ toList t := by
  unfold find
  constructor
  · intro hf
    simp only [Option.map_eq_some_iff] at hf
    obtain ⟨e, he, rfl⟩ := hf
    have hm := List.mem_of_find?_eq_some he
    have hk := List.find?_some he
    simp at hk; subst hk
    exact (mem_toList t _).mpr ⟨_, hm⟩
  · intro hm
    obtain ⟨s, hs⟩ := (mem_toList t _).mp hm
    have e := h.slot s _ hs
    simp only at e; subst e
    have hnd := h.nodup (slotOf t k)
    generalize chain t (slotOf t k) = c at hs hnd
    induction c with
    | nil => simp at hs
    | cons a rest ih =>
      simp only [List.map_cons, List.nodup_cons] at hnd
      rw [List.find?_cons]
      by_cases ha : a.1 = k
      · simp only [ha, decide_true, Option.map_some]
        rcases List.mem_cons.mp hs with e | e
        · rw [← e]
        · exfalso; apply hnd.1; rw [ha]; exact List.mem_map.mpr ⟨(k, d), e, rfl⟩
      · simp only [ha, decide_false]
        rcases List.mem_cons.mp hs with e | e
        · rw [← e] at ha; exact absurd rfl ha
        · exact ih e hnd.2

theorem find_eq_none (t : Table κ δ) (h : Inv t) (k : κ) : find t k = none ↔ ∀ d, (k, d) ∉ toList t := by
  constructor
  · intro hn d hm
    rw [← find_eq_some t h] at hm; rw [hn] at hm; simp at hm
  · intro hn
    cases hf : find t k with
    | none => rfl
    | some d => exact absurd ((find_eq_some t h k d).mp hf) (hn d)

theorem create_inv (size : Int) (keyf : κ → Nat) (hasDel : Bool) (nfree : Nat) :
    Inv (create size keyf hasDel nfree : Table κ δ) ∧ toList (create size keyf hasDel nfree : Table κ δ) = [] := by
  have hflat : ∀ n : Nat, (List.replicate n ([] : List (κ × δ))).flatten = [] := by
    intro n; induction n with
    | zero => rfl
    | succ n ih => simp [List.replicate_succ, ih]
  have hpos : 0 < (if size ≤ 0 then hashDefSize else size.toNat) := by
    split
    · simp [hashDefSize]
    · omega
  have hch : ∀ s, chain (create size keyf hasDel nfree : Table κ δ) s = [] := by
    have hrep : ∀ (n s : Nat), ((Array.replicate n ([] : List (κ × δ)))[s]?).getD [] = [] := by
      intro n s; simp only [Array.getElem?_replicate]; split <;> rfl
    intro s; unfold chain create
    exact hrep _ s
  refine ⟨⟨hpos, by simp [create], ?_, ?_, ?_⟩, ?_⟩
  · intro s e he; rw [hch] at he; simp at he
  · intro s; rw [hch]; simp
  · simp [toList, create, hflat]
  · simp [toList, create, hflat]

theorem chain_set (t : Table κ δ) (s : Nat) (c : List (κ × δ)) (hs : s < t.table.size) (cnt nf : Nat) (s' : Nat) :
    chain { t with table := t.table.setIfInBounds s c, count := cnt, nfree := nf } s' = if s' = s then c else chain t s' := by
  unfold chain
  simp only [Array.getElem?_setIfInBounds]
  by_cases e : s = s'
  · subst e; simp [hs]
  · have e' : ¬ s' = s := fun h => e h.symm
    simp [e, e']

theorem toList_set_length (t : Table κ δ) (s : Nat) (c : List (κ × δ)) (hs : s < t.table.size) (cnt nf : Nat) :
    (toList { t with table := t.table.setIfInBounds s c, count := cnt, nfree := nf }).length + (chain t s).length =
      (toList t).length + c.length := by
  unfold toList chain
  simp only [Array.toList_setIfInBounds]
  have := flatten_set_length t.table.toList s c (by simpa using hs)
  simpa using this

/-- the table after a successful `hash_insert` -/
def insTable (t : Table κ δ) (k : κ) (d : δ) : Table κ δ :=
  { t with table := t.table.setIfInBounds (slotOf t k) ((k, d) :: chain t (slotOf t k)),
           count := t.count + 1, nfree := nodeAlloc t.nfree }

/-- **`hash_insert`**: refused (`NULL`, `EEXIST`, nothing changes) when the key is in the table; otherwise the data is returned,
    the key now maps to it, every other key maps to what it mapped to, and there is one item more. -/
theorem insert_spec (t : Table κ δ) (h : Inv t) (k : κ) (d : δ) :
    (∀ d0, find t k = some d0 → insert t k d = (none, t)) ∧
    (find t k = none → (insert t k d).1 = some d ∧ Inv (insert t k d).2 ∧
      (∀ k', find (insert t k d).2 k' = if k' = k then some d else find t k') ∧
      (insert t k d).2.count = t.count + 1 ∧ (insert t k d).2.size = t.size) := by
  have hs : slotOf t k < t.table.size := by rw [h.tsize]; exact slotOf_lt t h.pos k
  constructor
  · intro d0 hf
    unfold find at hf
    unfold insert
    cases hc : (chain t (slotOf t k)).find? (fun e => decide (e.1 = k)) with
    | none => simp [hc] at hf
    | some e => simp only [hc]
  · intro hf
    have hc : (chain t (slotOf t k)).find? (fun e => decide (e.1 = k)) = none := by
      unfold find at hf; simpa using hf
    have hnot : ∀ e ∈ chain t (slotOf t k), e.1 ≠ k := by
      intro e he; have := List.find?_eq_none.mp hc e he; simpa using this
    have hins : insert t k d = (some d, insTable t k d) := by
      unfold insert insTable; simp only [hc]
    rw [hins]
    have hch : ∀ s', chain (insTable t k d) s' = if s' = slotOf t k then (k, d) :: chain t (slotOf t k) else chain t s' :=
      chain_set t (slotOf t k) ((k, d) :: chain t (slotOf t k)) hs (t.count + 1) (nodeAlloc t.nfree)
    have hslot : ∀ k', slotOf (insTable t k d) k' = slotOf t k' := fun _ => rfl
    have hinv : Inv (insTable t k d) := by
      refine ⟨h.pos, by simp [insTable, h.tsize], ?_, ?_, ?_⟩
      · intro s e he
        rw [hch] at he; rw [hslot]
        split at he
        · rename_i es; subst es
          rcases List.mem_cons.mp he with rfl | he'
          · rfl
          · exact h.slot _ e he'
        · exact h.slot s e he
      · intro s
        rw [hch]
        split
        · simp only [List.map_cons, List.nodup_cons]
          refine ⟨?_, h.nodup _⟩
          intro hm
          obtain ⟨e, he, hek⟩ := List.mem_map.mp hm
          exact hnot e he hek
        · exact h.nodup s
      · have := toList_set_length t (slotOf t k) ((k, d) :: chain t (slotOf t k)) hs (t.count + 1) (nodeAlloc t.nfree)
        simp only [List.length_cons] at this
        show t.count + 1 = (toList (insTable t k d)).length
        unfold insTable
        have hcnt := h.count
        omega
    refine ⟨rfl, hinv, ?_, rfl, rfl⟩
    intro k'
    unfold find
    rw [hslot, hch]
    by_cases e : k' = k
    · subst e; simp
    · simp only [e, if_false]
      split
      · rename_i es
        rw [List.find?_cons]
        have : ¬ k = k' := fun h => e h.symm
        simp [this, es]
      · rfl

theorem removeFirst_fst (k : κ) : ∀ (c : List (κ × δ)), (removeFirst k c).1 = (c.find? (fun e => decide (e.1 = k))).map (·.2) := by
  intro c
  induction c with
  | nil => rfl
  | cons e rest ih =>
    simp only [removeFirst, List.find?_cons]
    by_cases he : e.1 = k
    · simp [he]
    · simp [he, ih]

theorem removeFirst_snd (k : κ) : ∀ (c : List (κ × δ)), (c.map (·.1)).Nodup →
    (removeFirst k c).2 = c.filter (fun e => !decide (e.1 = k)) := by
  intro c
  induction c with
  | nil => intro _; rfl
  | cons e rest ih =>
    intro hnd
    simp only [List.map_cons, List.nodup_cons] at hnd
    simp only [removeFirst, List.filter_cons]
    by_cases he : e.1 = k
    · simp only [he, if_true, decide_true, Bool.not_true, Bool.false_eq_true, if_false]
      symm; apply List.filter_eq_self.mpr
      intro a ha
      have : a.1 ≠ k := by
        intro e'; apply hnd.1; rw [he, ← e']; exact List.mem_map.mpr ⟨a, ha, rfl⟩
      simp [this]
    · simp [he, ih hnd.2]

theorem removeFirst_length (k : κ) : ∀ (c : List (κ × δ)) (d : δ), (removeFirst k c).1 = some d →
    (removeFirst k c).2.length + 1 = c.length := by
  intro c
  induction c with
  | nil => intro d h; simp [removeFirst] at h
  | cons e rest ih =>
    intro d h
    simp only [removeFirst] at h ⊢
    by_cases he : e.1 = k
    · simp [he]
    · simp only [he, if_false] at h ⊢
      simp [ih d h]

theorem find?_filter_ne (k k' : κ) (hne : k' ≠ k) : ∀ (c : List (κ × δ)),
    (c.filter (fun e => !decide (e.1 = k))).find? (fun e => decide (e.1 = k')) = c.find? (fun e => decide (e.1 = k')) := by
  intro c
  induction c with
  | nil => rfl
  | cons e rest ih =>
    simp only [List.filter_cons, List.find?_cons]
    by_cases he : e.1 = k
    · have hk : ¬ k = k' := fun h => hne h.symm
      simp [he, hk, ih]
    · simp only [he, decide_false, Bool.not_false, if_true, List.find?_cons, ih]

/-- the table after a successful `hash_remove` -/
def remTable (t : Table κ δ) (k : κ) : Table κ δ :=
  { t with table := t.table.setIfInBounds (slotOf t k) (removeFirst k (chain t (slotOf t k))).2,
           count := t.count - 1, nfree := t.nfree + 1 }

/-- **`hash_remove`** returns the data of the key (`NULL` when it is not there, and nothing changes); afterwards the key is
    not in the table, every other key maps to what it mapped to, and there is one item less. -/
theorem remove_spec (t : Table κ δ) (h : Inv t) (k : κ) :
    (remove t k).1 = find t k ∧ Inv (remove t k).2 ∧
    (∀ k', find (remove t k).2 k' = if k' = k then none else find t k') ∧
    (remove t k).2.count = t.count - (if (find t k).isSome then 1 else 0) ∧ (remove t k).2.size = t.size := by
  have hs : slotOf t k < t.table.size := by rw [h.tsize]; exact slotOf_lt t h.pos k
  have hfst := removeFirst_fst k (chain t (slotOf t k))
  have hfind : find t k = (removeFirst k (chain t (slotOf t k))).1 := by rw [hfst]; rfl
  cases hr : (removeFirst k (chain t (slotOf t k))).1 with
  | none =>
    have hrem : remove t k = (none, t) := by
      rcases hx : removeFirst k (chain t (slotOf t k)) with ⟨a, c⟩
      rw [hx] at hr; simp only at hr; subst hr
      simp only [remove, hx]
    rw [hrem, hfind, hr]
    refine ⟨rfl, h, ?_, by simp, rfl⟩
    intro k'
    by_cases e : k' = k
    · subst e; simp [hfind, hr]
    · simp [e]
  | some d =>
    have hrem : remove t k = (some d, remTable t k) := by
      rcases hx : removeFirst k (chain t (slotOf t k)) with ⟨a, c⟩
      rw [hx] at hr; simp only at hr; subst hr
      simp only [remove, remTable, hx]
    rw [hrem, hfind, hr]
    have hsnd := removeFirst_snd k (chain t (slotOf t k)) (h.nodup _)
    have hch : ∀ s', chain (remTable t k) s' = if s' = slotOf t k then (removeFirst k (chain t (slotOf t k))).2 else chain t s' :=
      chain_set t (slotOf t k) _ hs (t.count - 1) (t.nfree + 1)
    have hslot : ∀ k', slotOf (remTable t k) k' = slotOf t k' := fun _ => rfl
    have hinv : Inv (remTable t k) := by
      refine ⟨h.pos, by simp [remTable, h.tsize], ?_, ?_, ?_⟩
      · intro s e he
        rw [hch] at he; rw [hslot]
        split at he
        · rename_i es; subst es
          rw [hsnd] at he
          exact h.slot _ e (List.mem_filter.mp he).1
        · exact h.slot s e he
      · intro s
        rw [hch]
        split
        · rw [hsnd]
          exact List.Nodup.sublist (List.Sublist.map _ List.filter_sublist) (h.nodup _)
        · exact h.nodup s
      · have h1 := toList_set_length t (slotOf t k) (removeFirst k (chain t (slotOf t k))).2 hs (t.count - 1) (t.nfree + 1)
        have h2 := removeFirst_length k (chain t (slotOf t k)) d hr
        show t.count - 1 = (toList (remTable t k)).length
        unfold remTable
        have hcnt := h.count
        omega
    refine ⟨rfl, hinv, ?_, by simp [remTable], rfl⟩
    intro k'
    unfold find
    rw [hslot, hch]
    by_cases e : k' = k
    · subst e
      simp only [if_true, hsnd]
      have : (List.filter (fun e => !decide (e.1 = k')) (chain t (slotOf t k'))).find? (fun e => decide (e.1 = k')) = none := by
        apply List.find?_eq_none.mpr
        intro x hx; have := (List.mem_filter.mp hx).2; simpa using this
      simp [this]
    · simp only [e, if_false]
      split
      · rename_i es
        rw [hsnd, find?_filter_ne k k' e, es]
      · rfl

/-- the callback of `hash_delete_if` / `hash_for_each` marks an item -/
def marked (f : δ → Int) (e : κ × δ) : Bool := decide (f e.2 > 0)

/-- the table after `hash_delete_if` -/
def delTable (t : Table κ δ) (f : δ → Int) : Table κ δ :=
  { t with table := t.table.map (fun c => c.filter (fun e => !marked f e)),
           count := t.count - ((toList t).filter (marked f)).length,
           nfree := t.nfree + ((toList t).filter (marked f)).length }

theorem deleteIf_eq (t : Table κ δ) (f : δ → Int) :
    deleteIf t f = (((toList t).filter (marked f)).length,
      if t.hasDel then ((toList t).filter (marked f)).map (·.2) else [], delTable t f) := by
  unfold deleteIf delTable toList marked
  simp only [List.length_map]

theorem chain_delTable (t : Table κ δ) (f : δ → Int) (s : Nat) : chain (delTable t f) s = (chain t s).filter (fun e => !marked f e) := by
  unfold chain delTable
  simp only [Array.getElem?_map]
  cases t.table[s]? <;> simp

theorem flatten_map_filter (p : κ × δ → Bool) : ∀ (l : List (List (κ × δ))), (l.map (fun c => c.filter p)).flatten = l.flatten.filter p := by
  intro l
  induction l with
  | nil => rfl
  | cons a rest ih => simp only [List.map_cons, List.flatten_cons, List.filter_append, ih]

theorem toList_delTable (t : Table κ δ) (f : δ → Int) : toList (delTable t f) = (toList t).filter (fun e => !marked f e) := by
  show ((t.table.map (fun c => c.filter (fun e => !marked f e))).toList.flatten) = _
  rw [Array.toList_map]
  exact flatten_map_filter _ _

theorem length_filter_split (p : κ × δ → Bool) : ∀ (l : List (κ × δ)), l.length = (l.filter p).length + (l.filter (fun e => !p e)).length := by
  intro l
  induction l with
  | nil => rfl
  | cons a rest ih =>
    simp only [List.filter_cons, List.length_cons]
    cases hp : p a <;> simp <;> omega

theorem find_filter_chain (k : κ) (p : κ × δ → Bool) : ∀ (c : List (κ × δ)), (c.map (·.1)).Nodup →
    (c.filter p).find? (fun e => decide (e.1 = k)) = (c.find? (fun e => decide (e.1 = k))).filter p := by
  intro c
  induction c with
  | nil => intro _; rfl
  | cons e rest ih =>
    intro hn
    simp only [List.map_cons, List.nodup_cons] at hn
    simp only [List.filter_cons, List.find?_cons]
    by_cases hk : e.1 = k
    · cases hp : p e with
      | true => simp [hk, hp, Option.filter]
      | false =>
        have : (rest.filter p).find? (fun e => decide (e.1 = k)) = none := by
          apply List.find?_eq_none.mpr
          intro x hx hxk
          apply hn.1
          have hxk' : x.1 = k := by simpa using hxk
          rw [hk, ← hxk']; exact List.mem_map.mpr ⟨x, (List.mem_filter.mp hx).1, rfl⟩
        simp [hk, hp, this, Option.filter]
    · cases hp : p e <;> simp [hk, ih hn.2]

/-- **`hash_delete_if`** removes exactly the items the callback marks (`> 0`), returns their number, calls the deletion
    function (when there is one) on them, slot by slot; every other key maps to what it mapped to; **`hash_for_each`** counts
    the marked items. -/
theorem deleteIf_spec (t : Table κ δ) (h : Inv t) (f : δ → Int) :
    (deleteIf t f).1 = ((toList t).filter (marked f)).length ∧ forEach t f = ((toList t).filter (marked f)).length ∧
    (deleteIf t f).2.1 = (if t.hasDel then ((toList t).filter (marked f)).map (·.2) else []) ∧
    Inv (deleteIf t f).2.2 ∧
    (∀ k, find (deleteIf t f).2.2 k = (find t k).filter (fun d => !decide (f d > 0))) ∧
    toList (deleteIf t f).2.2 = (toList t).filter (fun e => !marked f e) := by
  rw [deleteIf_eq]
  refine ⟨rfl, ?_, rfl, ?_, ?_, toList_delTable t f⟩
  · show ((toList t).countP (fun e => decide (f e.2 > 0))) = _
    rw [List.countP_eq_length_filter]; rfl
  · refine ⟨h.pos, by simp [delTable, h.tsize], ?_, ?_, ?_⟩
    · intro s e he
      rw [chain_delTable] at he
      exact h.slot s e (List.mem_filter.mp he).1
    · intro s
      rw [chain_delTable]
      exact List.Nodup.sublist (List.Sublist.map _ List.filter_sublist) (h.nodup s)
    · rw [toList_delTable]
      show t.count - _ = _
      have := length_filter_split (marked f) (toList t)
      have hcnt := h.count
      omega
  · intro k
    have e1 : find (delTable t f) k = ((chain (delTable t f) (slotOf t k)).find? (fun e => decide (e.1 = k))).map (·.2) := rfl
    rw [e1, chain_delTable, find_filter_chain k _ _ (h.nodup _)]
    unfold find
    cases (chain t (slotOf t k)).find? (fun e => decide (e.1 = k)) with
    | none => rfl
    | some e => simp [Option.filter, marked]

/-! ## `valid`, and any sequence of calls -/

theorem valid_iff (t : Table κ δ) : valid t = true ↔ Inv t := by
  unfold valid
  simp only [Bool.and_eq_true, decide_eq_true_eq, beq_iff_eq, List.all_eq_true, List.mem_range]
  constructor
  · rintro ⟨⟨⟨h1, h2⟩, h3⟩, h4⟩
    refine ⟨h1, h2, ?_, ?_, h4⟩
    · intro s e he
      by_cases hs : s < t.size
      · exact (h3 s hs).1 e he
      · have : chain t s = [] := by unfold chain; rw [Array.getElem?_eq_none (by omega)]; rfl
        rw [this] at he; simp at he
    · intro s
      by_cases hs : s < t.size
      · exact (h3 s hs).2
      · have : chain t s = [] := by unfold chain; rw [Array.getElem?_eq_none (by omega)]; rfl
        rw [this]; simp
  · intro h
    exact ⟨⟨⟨h.pos, h.tsize⟩, fun s _ => ⟨fun e he => h.slot s e he, h.nodup s⟩⟩, h.count⟩

theorem Op.apply_inv (t : Table κ δ) (h : Inv t) (op : Op κ δ) : Inv (op.apply t).2 := by
  cases op with
  | find k => exact h
  | insert k d =>
    cases hf : LsdHash.find t k with
    | some d0 => simp only [Op.apply, (insert_spec t h k d).1 d0 hf]; exact h
    | none => exact ((insert_spec t h k d).2 hf).2.1
  | remove k => exact (remove_spec t h k).2.1
  | count => exact h
  | deleteIf f => exact (deleteIf_spec t h f).2.2.2.1
  | forEach f => exact h

/-- the invariant holds after any sequence of calls -/
theorem run_inv : ∀ (ops : List (Op κ δ)) (t : Table κ δ), Inv t → Inv (run t ops).2 := by
  intro ops
  induction ops with
  | nil => intro t h; exact h
  | cons op ops ih => intro t h; exact ih _ (Op.apply_inv t h op)

/-- **`hash_find` after `hash_insert`** (the two halves of `insert_spec` in one statement): the new key maps to the new data
    iff it was not there; whatever was there stays. -/
theorem find_insert (t : Table κ δ) (h : Inv t) (k k' : κ) (d : δ) :
    find (insert t k d).2 k' = if k' = k then (match find t k with | some d0 => some d0 | none => some d) else find t k' := by
  cases hf : find t k with
  | some d0 =>
    rw [(insert_spec t h k d).1 d0 hf]
    by_cases e : k' = k
    · subst e; simp [hf]
    · simp [e]
  | none =>
    rw [((insert_spec t h k d).2 hf).2.2.1 k']

/-- a table of three slots with the node names `t1`, `t2`, `t10` -/
def exTable : Table (List UInt8) Nat :=
  (run (create 3 (fun k => (keyString k).toNat) true 0)
    [.insert [116, 49] 1, .insert [116, 50] 2, .insert [116, 49, 48] 3, .insert [116, 50] 4, .remove [116, 49]]).2

example : valid exTable = true ∧ exTable.count = 2 ∧ find exTable [116, 50] = some 2 ∧ find exTable [116, 49] = none ∧
    find exTable [116, 49, 48] = some 3 ∧ keyString [116, 49, 48] = 120400 := by decide +kernel

end Pm.LsdHash

section audit
open Pm.LsdHash
/--
info: 'Pm.LsdHash.insert_spec' depends on axioms: [propext, Quot.sound]
-/
#guard_msgs in #print axioms insert_spec
/--
info: 'Pm.LsdHash.remove_spec' depends on axioms: [propext, Quot.sound]
-/
#guard_msgs in #print axioms remove_spec
/--
info: 'Pm.LsdHash.deleteIf_spec' depends on axioms: [propext, Quot.sound]
-/
#guard_msgs in #print axioms deleteIf_spec
/--
info: 'Pm.LsdHash.run_inv' depends on axioms: [propext, Quot.sound]
-/
#guard_msgs in #print axioms run_inv
end audit
