import Pm.InterpSim
/-! C08 part B, continued: the micro-steps of `Pm/InterpSim.lean` are what `innerLoop`, `onRun` and `processActionF`
    (the mirror of `_process_action`) really do with the action at the head of the queue. -/
namespace Pm.Dev2.Interp

/-- nesting depth of the statement the action stands at -/
def topDepth (a : Action) : Nat :=
  match a.exec with
  | e :: _ => ((e.block[e.pos]?).map depthS).getD 0
  | [] => 0

/-- did `_process_stmt` push a context? -/
def pushed (d : Dev) (a : Action) (o : Oracle) (now : Time) : Bool :=
  (processStmt d a o now).finished && decide ((processStmt d a o now).act.exec.length > a.exec.length)


theorem len_setTop (a : Action) (e : ExecCtx) (h : a.exec ≠ []) : (setTop a e).exec.length = a.exec.length := by
  cases hx : a.exec with
  | nil => exact absurd hx h
  | cons x xs => simp [setTop, hx]

theorem nopush_expect (d a o pat) : (stmtExpect d a o pat).act.exec.length = a.exec.length := by
  rw [stmtExpect_act]
theorem nopush_send (d a o e fmt) (h : a.exec ≠ []) : (stmtSend d a o e fmt).act.exec.length = a.exec.length := by
  have := len_setTop a
  rw [stmtSend_eq]; unfold stmtSend'; grind
theorem nopush_delay (d a o e now us) (h : a.exec ≠ []) : (stmtDelay d a o e now us).act.exec.length = a.exec.length := by
  have h1 := len_setTop a
  have h2 := len_setTop { a with delayStart := now }
  rw [stmtDelay_eq]; unfold stmtDelay' stmtDelayTail; grind [setTop]
theorem nopush_setplugstate (d a o e l p s i) : (stmtSetplugstate d a o e l p s i).act.exec.length = a.exec.length := by
  rw [stmtSetplugstate_eq, (setplugstateCore_frame d a o _ l p s i).1]
theorem nopush_setresult (d a o p s i) : (stmtSetresult d a o p s i).act.exec.length = a.exec.length := by
  rw [(stmtSetresult_frame d a o p s i).1]

theorem topDepth_of (a : Action) (e : ExecCtx) (rest : List ExecCtx) (s : Stmt) (hex : a.exec = e :: rest)
    (hcur : e.block[e.pos]? = some s) : topDepth a = depthS s := by
  simp [topDepth, hex, hcur]

theorem topDepth_body (a : Action) (b : List Stmt) (pl : Option (List Plug)) (rest : List ExecCtx)
    (hex : a.exec = bodyCtx b pl :: rest) : topDepth a ≤ depthB b := by
  simp only [topDepth, hex, bodyCtx]
  cases h : b[0]? with
  | none => simp
  | some s => simpa using depthB_getElem b 0 s h

/-- a statement that pushed a context is a `foreach` or an `if`: it changed nothing but the stack, and the new top
    stands at a statement nested less deeply -/
theorem push_facts (d : Dev) (a : Action) (o : Oracle) (now : Time) (e : ExecCtx) (rest : List ExecCtx) (s : Stmt)
    (hex : a.exec = e :: rest) (hcur : e.block[e.pos]? = some s)
    (hp : (processStmt d a o now).act.exec.length > a.exec.length) :
    (processStmt d a o now).dev = d ∧ (processStmt d a o now).oracle = o ∧ (processStmt d a o now).out = [] ∧
    (processStmt d a o now).finished = true ∧ topDepth (processStmt d a o now).act < topDepth a := by
  have hne : a.exec ≠ [] := by simp [hex]
  have hdrop : a.exec.drop 1 = rest := by simp [hex]
  rw [topDepth_of a e rest s hex hcur]
  cases hk : s.kind with
  | leaf =>
    exfalso
    have hps := processStmt_at d a o now e rest hex s hcur
    cases s <;> simp [Stmt.kind] at hk
    · rw [hps, nopush_send d a o e _ hne] at hp; omega
    · rw [hps, nopush_expect] at hp; omega
    · rw [hps, nopush_setplugstate] at hp; omega
    · rw [hps, nopush_setresult] at hp; omega
    · rw [hps, nopush_delay d a o e now _ hne] at hp; omega
  | each n b =>
    have hps := processStmt_each d a o now e rest hex s hcur n b hk
    rw [hps] at hp ⊢
    obtain ⟨f1, f2, f3, f4⟩ := stmtForeach_frame d a o e b n
    refine ⟨f1, f2, f3, f4, ?_⟩
    cases hnp : nextPlug n (foreachList d a e) (e.plugItr.getD 0) ((foreachList d a e).length + 1) with
    | none =>
      exfalso
      rw [stmtForeach_done d a o e b n hnp, len_setTop a _ hne] at hp; omega
    | some pk =>
      obtain ⟨p, k⟩ := pk
      have hact := stmtForeach_next d a o e b n p k hnp
      have := topDepth_body (stmtForeach d a o e b n).act b (some [p]) _ (by rw [hact])
      have := depthS_each s n b hk
      omega
  | cond w b =>
    have hps := processStmt_cond d a o now e rest hex s hcur w b hk
    rw [hps] at hp ⊢
    obtain ⟨f1, f2, f3, f4⟩ := stmtIf_frame d a o e b w
    refine ⟨f1, f2, f3, f4, ?_⟩
    obtain ⟨h1, h2⟩ := stmtIf_pushed_only_if d a o e b w hne hp
    have hact := stmtIf_taken d a o e b w h1 h2
    have := topDepth_body (stmtIf d a o e b w).act b (some (e.plugs.getD [])) _ (by rw [hact])
    have := depthS_cond s w b hk
    omega


theorem mrun_succ_running (now : Time) (n : Nat) (d : Dev) (a : Action) (o : Oracle) (acc : List Out)
    (hne : a.exec ≠ []) (h : (mstep now d a o).status = .running) :
    mrun now (n + 1) d a o acc =
      mrun now n (mstep now d a o).dev (mstep now d a o).act (mstep now d a o).oracle (acc ++ (mstep now d a o).out) := by
  have : a.exec.isEmpty = false := by simpa using hne
  rw [mrun]; simp [this, h]

theorem mrun_succ_stop (now : Time) (n : Nat) (d : Dev) (a : Action) (o : Oracle) (acc : List Out)
    (hne : a.exec ≠ []) (h : (mstep now d a o).status ≠ .running) :
    mrun now (n + 1) d a o acc =
      ⟨(mstep now d a o).dev, (mstep now d a o).act, (mstep now d a o).oracle, acc ++ (mstep now d a o).out,
        (mstep now d a o).status⟩ := by
  have : a.exec.isEmpty = false := by simpa using hne
  rw [mrun]; simp [this, h]

theorem mrun_done (now : Time) (n : Nat) (d : Dev) (a : Action) (o : Oracle) (acc : List Out) (h : a.exec = []) :
    mrun now (n + 1) d a o acc = ⟨d, a, o, acc, .done⟩ := by
  rw [mrun]; simp [h]

/-- the `do … while` of `_process_action`: some pushes — each a micro-step that the run function takes too, without any
    output — and then one statement that pushes nothing -/
theorem innerLoop_trip (R : Bool) (dp : List Plug) (now : Time) : ∀ (fuel : Nat) (d : Dev) (a : Action) (o : Oracle)
    (acc : List Out), Inv R dp d a → a.exec ≠ [] → topDepth a ≤ fuel →
    ∃ j a1,
      (∀ n acc', mrun now (n + j) d a o acc' = mrun now n d a1 o acc') ∧
      Inv R dp d a1 ∧ a1.exec ≠ [] ∧ a1.timeStamp = a.timeStamp ∧ a1.com = a.com ∧ a1.clientId = a.clientId ∧
      pushed d a1 o now = false ∧
      innerLoop now fuel d a o acc = { processStmt d a1 o now with out := acc ++ (processStmt d a1 o now).out } := by
  intro fuel
  induction fuel with
  | zero =>
    intro d a o acc hinv hne hdep
    refine ⟨0, a, fun _ _ => rfl, hinv, hne, rfl, rfl, rfl, ?_, rfl⟩
    -- depth 0: nothing can be pushed
    cases hex : a.exec with
    | nil => exact absurd hex hne
    | cons e rest =>
      have hpos := hinv.ok.2.2 e (by rw [hex]; rfl)
      obtain ⟨s, hcur⟩ := getElem?_some_of_lt hpos
      unfold pushed
      by_cases hp : (processStmt d a o now).act.exec.length > a.exec.length
      · have := (push_facts d a o now e rest s hex hcur hp).2.2.2.2
        omega
      · simp [hp]
  | succ f ih =>
    intro d a o acc hinv hne hdep
    by_cases hpu : pushed d a o now = true
    · cases hex : a.exec with
      | nil => exact absurd hex hne
      | cons e rest =>
        have hpos := hinv.ok.2.2 e (by rw [hex]; rfl)
        obtain ⟨s, hcur⟩ := getElem?_some_of_lt hpos
        have hpu' := hpu
        unfold pushed at hpu'
        simp only [Bool.and_eq_true, decide_eq_true_eq] at hpu'
        obtain ⟨p1, p2, p3, p4, p5⟩ := push_facts d a o now e rest s hex hcur hpu'.2
        have hm := mstep_push now d a o hpu'.1 hpu'.2
        rw [p1, p2, p3] at hm
        have hkeep := (mstep_sim R dp now d a o hne hinv.ranged hinv.plugs hinv.ok hinv.err).2
        have hfrm := mstep_frame now d a o
        rw [hm] at hkeep hfrm
        simp only [true_or, forall_const] at hkeep
        have hinv1 : Inv R dp d (processStmt d a o now).act :=
          ⟨by rw [hfrm.2.2.2.1]; exact hinv.ranged, hinv.plugs, hkeep.1, hkeep.2⟩
        have hne1 : (processStmt d a o now).act.exec ≠ [] := by
          intro h; rw [h] at hpu'; simp at hpu'
        obtain ⟨j, a1, h1, h2, h3, h4, h5, h6, h7, h8⟩ :=
          ih d (processStmt d a o now).act o acc hinv1 hne1 (by omega)
        refine ⟨j + 1, a1, ?_, h2, h3, by rw [h4, hfrm.2.2.2.2.1], by rw [h5, hfrm.2.2.2.1], by rw [h6, hfrm.2.2.2.2.2.1], h7, ?_⟩
        · intro n acc'
          rw [← Nat.add_assoc, mrun_succ_running now (n + j) d a o acc' hne (by rw [hm]), hm]
          simp only [List.append_nil]
          exact h1 n acc'
        · rw [innerLoop]
          simp only [hpu'.1, hpu'.2, decide_true, Bool.and_self, ↓reduceIte, p1, p2, p3, List.append_nil]
          exact h8
    · have hpu' : pushed d a o now = false := by simpa using hpu
      refine ⟨0, a, fun _ _ => rfl, hinv, hne, rfl, rfl, rfl, hpu', ?_⟩
      rw [innerLoop]
      unfold pushed at hpu'
      simp only [hpu', Bool.false_eq_true, ↓reduceIte]


/-! ### the queue field of the device is not looked at by any statement -/

def withActs (X : List Action) (r : StepR) : StepR := { r with dev := { r.dev with acts := X } }

theorem acts_expect (X d a o pat) : stmtExpect { d with acts := X } a o pat = withActs X (stmtExpect d a o pat) := by
  unfold stmtExpect withActs
  dsimp only
  split
  · rfl
  · generalize askRx o pat _ = q
    obtain ⟨o', ans, errs⟩ := q
    cases ans <;> rfl
theorem acts_send (X d a o e fmt) : stmtSend { d with acts := X } a o e fmt = withActs X (stmtSend d a o e fmt) := by
  simp only [stmtSend_eq]; unfold stmtSend' withActs
  dsimp only
  split
  · split
    · rfl
    · split <;> rfl
  · split <;> rfl
theorem acts_delay (X d a o e now us) : stmtDelay { d with acts := X } a o e now us = withActs X (stmtDelay d a o e now us) := by
  simp only [stmtDelay_eq]; unfold stmtDelay' stmtDelayTail withActs
  dsimp only
  split <;> split <;> rfl
theorem acts_setplugstate (X d a o e l p s i) :
    stmtSetplugstate { d with acts := X } a o e l p s i = withActs X (stmtSetplugstate d a o e l p s i) := by
  simp only [stmtSetplugstate_eq]; unfold setplugstateCore withActs
  have h1 : ∀ m, subOf { d with acts := X } m = subOf d m := fun _ => rfl
  have h2 : ∀ n, findPlug { d with acts := X } n = findPlug d n := fun _ => rfl
  have h3 : chosenName { d with acts := X } l p (ctxName e.plugs) = chosenName d l p (ctxName e.plugs) := rfl
  simp only [h1, h2, h3]
  cases chosenName d l p (ctxName e.plugs) with
  | none => rfl
  | some pn => dsimp only; cases subOf d s <;> cases findPlug d pn <;> rfl
theorem acts_setresult (X d a o p s i) :
    stmtSetresult { d with acts := X } a o p s i = withActs X (stmtSetresult d a o p s i) := by
  unfold stmtSetresult withActs
  have h1 : ∀ m, subOf { d with acts := X } m = subOf d m := fun _ => rfl
  have h2 : ∀ n, findPlug { d with acts := X } n = findPlug d n := fun _ => rfl
  simp only [h1, h2]
  cases subOf d p with
  | none => rfl
  | some pn => dsimp only; cases subOf d s <;> cases findPlug d pn <;> rfl
theorem acts_foreach (X d a o e b n) :
    stmtForeach { d with acts := X } a o e b n = withActs X (stmtForeach d a o e b n) := by
  simp only [stmtForeach_eq]; unfold stmtForeach' withActs
  have h1 : foreachList { d with acts := X } a e = foreachList d a e := rfl
  simp only [h1]
  split <;> rfl
theorem acts_if (X d a o e b n) :
    stmtIf { d with acts := X } a o e b n = withActs X (stmtIf d a o e b n) := by
  simp only [stmtIf_eq]; unfold stmtIf' withActs
  have h1 : ∀ m, nodeState { d with acts := X } a.arglist m = nodeState d a.arglist m := by
    intro m; cases m <;> rfl
  simp only [h1]
  split
  · rfl
  · split
    · rfl
    · split <;> rfl

theorem acts_processStmt (X : List Action) (d : Dev) (a : Action) (o : Oracle) (now : Time) :
    processStmt { d with acts := X } a o now = withActs X (processStmt d a o now) := by
  unfold processStmt
  dsimp only
  split
  · rfl
  all_goals first
    | exact acts_expect _ _ _ _ _
    | exact acts_send _ _ _ _ _ _
    | exact acts_delay _ _ _ _ _ _ _
    | exact acts_setplugstate _ _ _ _ _ _ _ _ _
    | exact acts_setresult _ _ _ _ _ _ _
    | exact acts_foreach _ _ _ _ _ _ _
    | exact acts_if _ _ _ _ _ _ _

def withActsM (X : List Action) (m : MR) : MR := { m with dev := { m.dev with acts := X } }

theorem acts_mstep (X : List Action) (now : Time) (d : Dev) (a : Action) (o : Oracle) :
    mstep now { d with acts := X } a o = withActsM X (mstep now d a o) := by
  unfold mstep
  rw [acts_processStmt]
  generalize processStmt d a o now = r
  unfold withActs withActsM
  dsimp only
  split
  · rfl
  · split
    · rfl
    · split
      · rfl
      · split <;> rfl

theorem acts_mrun (X : List Action) (now : Time) : ∀ (n : Nat) (d : Dev) (a : Action) (o : Oracle) (acc : List Out),
    mrun now n { d with acts := X } a o acc = withActsM X (mrun now n d a o acc) := by
  intro n
  induction n with
  | zero => intro d a o acc; rfl
  | succ n ih =>
    intro d a o acc
    rw [mrun, mrun, acts_mstep]
    split
    · rfl
    · have h1 : (withActsM X (mstep now d a o)).status = (mstep now d a o).status := rfl
      simp only [h1]
      split
      · exact ih _ _ _ _
      · rfl


/-- what `_process_action` makes of the run of the head action: `rest` is the queue behind it, `left` the time to its
    deadline, `fuel'` the loop fuel left for the actions behind it -/
def headResult (rest : List Action) (c : CS) (tmo : Option Time) (left : Time) (fuel' : Nat) (m : MR) : PA :=
  match m.status with
  | .aborted => ({ c with dev := { m.dev with acts := m.act :: rest }, aborted := true }, m.oracle, m.out, tmo)
  | .stalled => ({ c with dev := { m.dev with acts := m.act :: rest } }, m.oracle, m.out,
      upd (match m.dev.wake with | some w => upd tmo w | none => tmo) left)
  | .failed => failAll rest { c with dev := m.dev } m.act m.oracle m.out tmo
  | .done =>
    processActionF fuel'
      { c with dev := { m.dev with acts := rest, loggedIn := m.dev.loggedIn || m.act.com == 0,
                                    statActions := m.dev.statActions + 1, xmStr := none, xmResult := false, xmUsed := false } }
      m.oracle (m.out ++ (if m.act.clientId != 0 then [Out.finish m.act.clientId .success] else [])) tmo
  | .running => ({ c with dev := { m.dev with acts := m.act :: rest }, aborted := true }, m.oracle,
      m.out ++ [Out.abortAssert "model: fuel exhausted"], tmo)

theorem headResult_acts (rest : List Action) (c : CS) (tmo : Option Time) (left : Time) (fuel' : Nat) (X : List Action) (m : MR) :
    headResult rest c tmo left fuel' (withActsM X m) = headResult rest c tmo left fuel' m := by
  unfold headResult withActsM
  cases m.status <;> rfl

theorem headResult_dev (rest : List Action) (c : CS) (tmo : Option Time) (left : Time) (fuel' : Nat) (D : Dev) (m : MR) :
    headResult rest { c with dev := D } tmo left fuel' m = headResult rest c tmo left fuel' m := by
  unfold headResult
  cases m.status <;> rfl

theorem mstep_of_nopush (now : Time) (d : Dev) (a : Action) (o : Oracle) (h : pushed d a o now = false) :
    mstep now d a o =
      if hasAbort (processStmt d a o now).out then
        ⟨(processStmt d a o now).dev, (processStmt d a o now).act, (processStmt d a o now).oracle, (processStmt d a o now).out, .aborted⟩
      else if !(processStmt d a o now).finished then
        ⟨(processStmt d a o now).dev, (processStmt d a o now).act, (processStmt d a o now).oracle, (processStmt d a o now).out, .stalled⟩
      else if (processStmt d a o now).act.errnum == .success then
        ⟨(processStmt d a o now).dev, advance (processStmt d a o now).act, (processStmt d a o now).oracle, (processStmt d a o now).out, .running⟩
      else ⟨(processStmt d a o now).dev, (processStmt d a o now).act, (processStmt d a o now).oracle, (processStmt d a o now).out, .failed⟩ := by
  unfold pushed at h
  unfold mstep
  simp only [h, Bool.false_eq_true, ↓reduceIte]

/-- the fuel `onRun` gives the `do … while` covers every push the statement the action stands at can cause -/
theorem topDepth_le (a : Action) : topDepth a ≤ loopBound a := by
  unfold loopBound
  cases hex : a.exec with
  | nil => simp [topDepth, hex]
  | cons e rest =>
    rw [topCtx_of_exec a e rest hex]
    cases hcur : e.block[e.pos]? with
    | none => simp [topDepth, hex, hcur]
    | some s =>
      rw [topDepth_of a e rest s hex hcur]
      have := depthB_getElem e.block e.pos s hcur
      omega

theorem wake_none_eq (d : Dev) (h : d.wake = none) : { d with wake := none } = d := by
  cases d; simp_all


/-- what is assumed of the pass when the head action is run: the pass goes on, the device is connected, the action has
    its time stamp and is within its time-out, `wake` is clear, the configuration is well-formed -/
structure HeadOK (R : Bool) (dp : List Plug) (c : CS) (a : Action) : Prop where
  nab : c.aborted = false
  wake : c.dev.wake = none
  conn : c.dev.conn = 2
  stamped : a.timeStamp.isSome = true
  inTime : c.env.now < a.timeStamp.getD c.env.now + c.dev.timeout
  inv : Inv R dp c.dev a
  ne : a.exec ≠ []

/-- the time left to the head action's deadline -/
def timeLeft (c : CS) (a : Action) : Time := a.timeStamp.getD c.env.now + c.dev.timeout - c.env.now

/-- the rest of the loop, for a queue whose head is still `a'` -/
def RestOK (R : Bool) (dp : List Plug) (fuelk : Nat) (rest : List Action) (tmo : Option Time) : Prop :=
  ∀ (c' : CS) (a' : Action) (o' : Oracle) (out' : List Out), HeadOK R dp c' a' → c'.dev.acts = a' :: rest →
    ∃ N' fuel', processActionF fuelk c' o' out' tmo =
      headResult rest c' tmo (timeLeft c' a') fuel' (mrun c'.env.now N' c'.dev a' o' out')

theorem onRun_refines_k (R : Bool) (dp : List Plug) (fuelk : Nat) (rest : List Action) (tmo : Option Time)
    (hk : RestOK R dp fuelk rest tmo) (c : CS) (a : Action) (o : Oracle) (out : List Out) (h : HeadOK R dp c a) :
    ∃ N fuel', onRun (processActionF fuelk) rest c a o out tmo (timeLeft c a) =
      headResult rest c tmo (timeLeft c a) fuel' (mrun c.env.now N c.dev a o out) := by
  obtain ⟨j, a1, h1, h2, h3, h4, h5, h6, h7, h8⟩ :=
    innerLoop_trip R dp c.env.now (loopBound a) c.dev a o [] h.inv h.ne (topDepth_le a)
  have hm := mstep_of_nopush c.env.now c.dev a1 o h7
  have hkeep := (mstep_sim R dp c.env.now c.dev a1 o h3 h2.ranged h2.plugs h2.ok h2.err).2
  have hfrm := mstep_frame c.env.now c.dev a1 o
  have hpf := frame_processStmt c.dev a1 o c.env.now
  unfold onRun
  simp only [wake_none_eq c.dev h.wake, h8, List.nil_append]
  generalize processStmt c.dev a1 o c.env.now = r at *
  by_cases hab : hasAbort r.out = true
  · -- an assertion of the daemon
    simp only [hab, ↓reduceIte] at hm ⊢
    refine ⟨1 + j, 0, ?_⟩
    rw [h1 1 out, mrun_succ_stop c.env.now 0 c.dev a1 o out h3 (by rw [hm]; simp), hm]
    rfl
  · simp only [hab, Bool.false_eq_true, ↓reduceIte] at hm ⊢
    by_cases hfin : r.finished = true
    · simp only [hfin, Bool.not_true, Bool.false_eq_true, ↓reduceIte] at hm ⊢
      by_cases herr : (r.act.errnum == ActErr.success) = true
      · simp only [herr, ↓reduceIte] at hm ⊢
        rw [hm] at hkeep hfrm
        simp only [true_or, forall_const] at hkeep
        by_cases hemp : (advance r.act).exec.isEmpty = true
        · -- the action is complete
          simp only [hemp, ↓reduceIte]
          refine ⟨2 + j, fuelk, ?_⟩
          rw [h1 2 out, mrun_succ_running c.env.now 1 c.dev a1 o out h3 (by rw [hm]), hm]
          rw [mrun_done _ _ _ _ _ _ (by simpa using hemp)]
          simp only [headResult, List.append_assoc]
        · -- on to its next statement
          simp only [hemp, Bool.false_eq_true, ↓reduceIte]
          have hne' : (advance r.act).exec ≠ [] := by simpa using hemp
          have hts : (advance r.act).timeStamp = a.timeStamp := by rw [hfrm.2.2.2.2.1, h4]
          have hok' : HeadOK R dp { c with dev := { r.dev with acts := advance r.act :: rest } } (advance r.act) :=
            { nab := h.nab
              wake := by simp only; rw [hpf.2.2.2.2.2.2 hfin]; exact h.wake
              conn := by simp only; rw [hpf.2.1]; exact h.conn
              stamped := by rw [hts]; exact h.stamped
              inTime := by simp only; rw [hts, hpf.2.2.1]; exact h.inTime
              inv := ⟨by rw [hfrm.2.2.2.1]; exact h2.ranged, by simp only; rw [hpf.1]; exact h2.plugs, hkeep.1, hkeep.2⟩
              ne := hne' }
          obtain ⟨N', fuel', hN⟩ := hk _ (advance r.act) r.oracle (out ++ r.out) hok' rfl
          refine ⟨N' + (1 + j), fuel', ?_⟩
          rw [hN, ← Nat.add_assoc, h1 (N' + 1) out, mrun_succ_running c.env.now N' c.dev a1 o out h3 (by rw [hm]), hm]
          simp only
          have hacts := acts_mrun (advance r.act :: rest) c.env.now N' r.dev (advance r.act) r.oracle (out ++ r.out)
          rw [hacts, headResult_acts, headResult_dev]
          have : timeLeft { c with dev := { r.dev with acts := advance r.act :: rest } } (advance r.act) = timeLeft c a := by
            simp only [timeLeft]; rw [hts, hpf.2.2.1]
          rw [this]
      · -- the statement failed the action
        simp only [herr, Bool.false_eq_true, ↓reduceIte] at hm ⊢
        refine ⟨1 + j, 0, ?_⟩
        rw [h1 1 out, mrun_succ_stop c.env.now 0 c.dev a1 o out h3 (by rw [hm]; simp), hm]
        rfl
    · -- the statement did not finish
      simp only [hfin, Bool.not_false, ↓reduceIte] at hm ⊢
      refine ⟨1 + j, 0, ?_⟩
      rw [h1 1 out, mrun_succ_stop c.env.now 0 c.dev a1 o out h3 (by rw [hm]; simp), hm]
      rfl


theorem acts_self (d : Dev) (X : List Action) (h : d.acts = X) : { d with acts := X } = d := by
  cases d; simp_all

theorem stamp_of_some (now : Time) (a : Action) (h : a.timeStamp.isSome = true) : stamp now a = a := by
  unfold stamp
  have : a.timeStamp.isNone = false := by cases h' : a.timeStamp <;> simp_all
  simp [this]

/-- `processActionF` on a queue whose head is in the running situation -/
theorem processActionF_head (fuel : Nat) (c : CS) (a : Action) (rest : List Action) (o : Oracle) (out : List Out)
    (tmo : Option Time) (R : Bool) (dp : List Plug) (h : HeadOK R dp c a) (hacts : c.dev.acts = a :: rest) :
    processActionF (fuel + 1) c o out tmo = onRun (processActionF fuel) rest c a o out tmo (timeLeft c a) := by
  rw [processActionF, processActionBody]
  simp only [h.nab, Bool.false_eq_true, ↓reduceIte, hacts, stamp_of_some _ _ h.stamped]
  have h1 : ¬ (c.env.now ≥ a.timeStamp.getD c.env.now + c.dev.timeout) := by
    have := h.inTime; unfold Time at *; omega
  simp only [h1, ↓reduceIte, h.conn, timeLeft]
  rfl

theorem restOK (R : Bool) (dp : List Plug) (rest : List Action) (tmo : Option Time) :
    ∀ fuelk, RestOK R dp fuelk rest tmo := by
  intro fuelk
  induction fuelk with
  | zero =>
    intro c' a' o' out' h hacts
    refine ⟨0, 0, ?_⟩
    simp only [processActionF, mrun, headResult]
    rw [acts_self c'.dev _ hacts]
  | succ f ih =>
    intro c' a' o' out' h hacts
    rw [processActionF_head f c' a' rest o' out' tmo R dp h hacts]
    exact onRun_refines_k R dp f rest tmo ih c' a' o' out' h

/-- C08, one pass of `_process_action`: for the action at the head of the queue, in the running situation, what the
    mirror computes is what `headResult` makes of a run of micro-steps of that action -/
theorem pass_is_run (R : Bool) (dp : List Plug) (fuel : Nat) (c : CS) (a : Action) (rest : List Action) (o : Oracle)
    (out : List Out) (tmo : Option Time) (h : HeadOK R dp c a) (hacts : c.dev.acts = a :: rest) :
    ∃ N fuel', processActionF fuel c o out tmo =
      headResult rest c tmo (timeLeft c a) fuel' (mrun c.env.now N c.dev a o out) :=
  restOK R dp rest tmo fuel c a o out h hacts


theorem onRun_wake (k : CS → Oracle → List Out → Option Time → PA) (rest : List Action) (c : CS) (a : Action)
    (o : Oracle) (out : List Out) (tmo : Option Time) (left : Time) :
    onRun k rest c a o out tmo left = onRun k rest { c with dev := { c.dev with wake := none } } a o out tmo left := rfl

theorem stamp_stamped (now : Time) (a : Action) : (stamp now a).timeStamp.isSome = true := by
  unfold stamp; split
  · rfl
  · rename_i h; cases h' : a.timeStamp <;> simp_all

theorem stamp_fields (now : Time) (a : Action) : (stamp now a).exec = a.exec ∧ (stamp now a).com = a.com ∧
    (stamp now a).errnum = a.errnum ∧ info (stamp now a) = info a := by
  unfold stamp; split <;> simp [info]

theorem mrun_com (now : Time) : ∀ (n : Nat) (d : Dev) (a : Action) (o : Oracle) (acc : List Out),
    (mrun now n d a o acc).act.com = a.com := by
  intro n
  induction n with
  | zero => intro d a o acc; rfl
  | succ n ih =>
    intro d a o acc
    rw [mrun]
    have hf := (mstep_frame now d a o).2.2.2.1
    split
    · rfl
    · split
      · rw [ih, hf]
      · exact hf

/-- the machine state at the end of a reference run: the reference's device, oracle, output and outcome, and the action
    `a'` the machine holds -/
def asMR (fr : FR) (a' : Action) : MR := ⟨fr.dev, a', fr.oracle, fr.out, fr.status⟩

/-- **C08, refinement.**  One pass of `_process_action` over a queue whose head `a0` is to be run (pass not aborted,
    device connected, action within its time-out) and is well-formed: what the mirror computes is what `headResult`
    makes of a run of the *loop-free reference* on the flat program the action's context stack denotes — same device
    state, same regex-oracle consumption, same output records in the same order, same outcome (stalled / failed /
    completed / daemon assertion / model fuel) — and the action left in the queue again denotes what the reference has
    left of the program. -/
theorem pass_refines (R : Bool) (dp : List Plug) (fuel : Nat) (c : CS) (a0 : Action) (rest : List Action) (o : Oracle)
    (out : List Out) (tmo : Option Time)
    (hnab : c.aborted = false) (hacts : c.dev.acts = a0 :: rest) (hconn : c.dev.conn = 2)
    (hin : c.env.now < (stamp c.env.now a0).timeStamp.getD c.env.now + c.dev.timeout)
    (hinv : Inv R dp c.dev a0) (hne : a0.exec ≠ []) :
    ∃ k fuel' a',
      let fr := frun c.env.now k { c.dev with wake := none } (info a0) o (abs R dp a0.exec) out
      processActionF (fuel + 1) c o out tmo =
        headResult rest c tmo (timeLeft c (stamp c.env.now a0)) fuel' (asMR fr a') ∧
      fr.info = info a' ∧ a'.com = a0.com ∧
      (fr.status = .stalled ∨ fr.status = .done ∨ fr.status = .running →
        fr.f = abs R dp a'.exec ∧ Inv R dp fr.dev a') := by
  obtain ⟨s1, s2, s3, s4⟩ := stamp_fields c.env.now a0
  have hok : HeadOK R dp { c with dev := { c.dev with wake := none } } (stamp c.env.now a0) :=
    { nab := hnab, wake := rfl, conn := hconn, stamped := stamp_stamped _ _, inTime := hin
      inv := ⟨by rw [s2]; exact hinv.ranged, hinv.plugs, by rw [s1]; exact hinv.ok, by rw [s3]; exact hinv.err⟩
      ne := by rw [s1]; exact hne }
  -- the first iteration of the loop, by hand: the action is stamped and `wake` is cleared
  have hfirst : processActionF (fuel + 1) c o out tmo =
      onRun (processActionF fuel) rest { c with dev := { c.dev with wake := none } } (stamp c.env.now a0) o out tmo
        (timeLeft c (stamp c.env.now a0)) := by
    rw [← onRun_wake, processActionF, processActionBody]
    simp only [hnab, Bool.false_eq_true, ↓reduceIte, hacts]
    have h1 : ¬ (c.env.now ≥ (stamp c.env.now a0).timeStamp.getD c.env.now + c.dev.timeout) := by
      unfold Time at *; omega
    simp only [h1, ↓reduceIte, hconn, timeLeft]
    rfl
  obtain ⟨N, fuel', hN⟩ := onRun_refines_k R dp fuel rest tmo (restOK R dp rest tmo fuel) _ (stamp c.env.now a0) o out hok
  obtain ⟨k, _, hk⟩ := refines_run R dp c.env.now N { c.dev with wake := none } (stamp c.env.now a0) o out hok.inv
  have htl : timeLeft { c with dev := { c.dev with wake := none } } (stamp c.env.now a0) = timeLeft c (stamp c.env.now a0) := rfl
  rw [htl] at hN
  rw [s4, s1] at hk
  have hcom := mrun_com c.env.now N { c.dev with wake := none } (stamp c.env.now a0) o out
  rw [s2] at hcom
  generalize mrun c.env.now N { c.dev with wake := none } (stamp c.env.now a0) o out = m at *
  refine ⟨k, fuel', m.act, ?_, hk.info, ?_, ?_⟩
  · rw [hfirst, hN, headResult_dev]
    congr 1
    simp only [asMR, hk.dev, hk.oracle, hk.out, hk.status]
  · exact hcom
  · intro h
    rw [hk.status] at h
    rw [hk.dev]
    exact hk.cont h


theorem innerLoop_nopush (now : Time) (fuel : Nat) (d : Dev) (a : Action) (o : Oracle) (acc : List Out)
    (h : pushed d a o now = false) :
    innerLoop now fuel d a o acc = { processStmt d a o now with out := acc ++ (processStmt d a o now).out } := by
  cases fuel with
  | zero => rfl
  | succ f => rw [innerLoop]; unfold pushed at h; simp only [h, Bool.false_eq_true, ↓reduceIte]

/-- the fuel of the `do … while` does not matter once it covers the nesting depth of the statement the action stands
    at: in particular the mirror with `loopBound` behaves as the mirror with the former literal 64 did wherever that
    was enough -/
theorem innerLoop_fuel_irrelevant (R : Bool) (dp : List Plug) (now : Time) : ∀ (f1 f2 : Nat) (d : Dev) (a : Action)
    (o : Oracle) (acc : List Out), Inv R dp d a → a.exec ≠ [] → topDepth a ≤ f1 → topDepth a ≤ f2 →
    innerLoop now f1 d a o acc = innerLoop now f2 d a o acc := by
  intro f1
  induction f1 with
  | zero =>
    intro f2 d a o acc hinv hne h1 _
    obtain ⟨j, a1, _, _, _, _, _, _, _, _⟩ := innerLoop_trip R dp now 0 d a o acc hinv hne h1
    have hnp : pushed d a o now = false := by
      cases hex : a.exec with
      | nil => exact absurd hex hne
      | cons e rest =>
        obtain ⟨s, hcur⟩ := getElem?_some_of_lt (hinv.ok.2.2 e (by rw [hex]; rfl))
        unfold pushed
        by_cases hp : (processStmt d a o now).act.exec.length > a.exec.length
        · have := (push_facts d a o now e rest s hex hcur hp).2.2.2.2; omega
        · simp [hp]
    rw [innerLoop_nopush now 0 d a o acc hnp, innerLoop_nopush now f2 d a o acc hnp]
  | succ f ih =>
    intro f2 d a o acc hinv hne h1 h2
    by_cases hpu : pushed d a o now = true
    · cases hex : a.exec with
      | nil => exact absurd hex hne
      | cons e rest =>
        obtain ⟨s, hcur⟩ := getElem?_some_of_lt (hinv.ok.2.2 e (by rw [hex]; rfl))
        have hpu' := hpu
        unfold pushed at hpu'
        simp only [Bool.and_eq_true, decide_eq_true_eq] at hpu'
        obtain ⟨p1, p2, p3, p4, p5⟩ := push_facts d a o now e rest s hex hcur hpu'.2
        have hm := mstep_push now d a o hpu'.1 hpu'.2
        have hkeep := (mstep_sim R dp now d a o hne hinv.ranged hinv.plugs hinv.ok hinv.err).2
        have hfrm := mstep_frame now d a o
        rw [hm] at hkeep hfrm
        simp only [true_or, forall_const] at hkeep
        have hinv1 : Inv R dp (processStmt d a o now).dev (processStmt d a o now).act :=
          ⟨by rw [hfrm.2.2.2.1]; exact hinv.ranged, by rw [hfrm.1]; exact hinv.plugs, hkeep.1, hkeep.2⟩
        have hne1 : (processStmt d a o now).act.exec ≠ [] := by
          intro h; rw [h] at hpu'; simp at hpu'
        cases f2 with
        | zero => omega
        | succ g =>
          rw [innerLoop, innerLoop]
          simp only [hpu'.1, hpu'.2, decide_true, Bool.and_self, ↓reduceIte]
          exact ih g _ _ _ _ hinv1 hne1 (by omega) (by omega)
    · have hnp : pushed d a o now = false := by simpa using hpu
      rw [innerLoop_nopush now _ d a o acc hnp, innerLoop_nopush now f2 d a o acc hnp]

end Pm.Dev2.Interp
