import Pm.RunX
import Pm.EndToEnd
/-! # The end-to-end run theorems of `Pm/EndToEnd.lean` for runs that carry regex answers (`runX`)

`Pm/EndToEnd.lean` states its run-level theorems (`runPasses_inv`, `run_track`, `run_answer`, `run_outcome`, `sound`,
`complete`, `errors`) over `Isolation.runPasses`, the plain fold of `daemonPass`: a run in which only the *first* pass can
see a regex answer (see `Pm/RunX.lean`).  Here they are proved for `runX`, where every pass brings its own answers.  Nothing
new is needed about one pass: the per-pass lemmas of `Pm/EndToEnd.lean` (`daemonPass_inv`, `daemonPass_view`,
`daemonPass_over`, …) hold for an arbitrary world, answers pending or not; the invariant `Inv` does not mention `pendingX`
(`feed_inv`).

The `runPasses` versions are the special case `qs := ps.map PassX.plain` (`runX_runPasses`, `runFinsX_plain`,
`aliveX_plain`; `sound_plain`, `complete_plain`, `errors_plain`, `run_track_plain`, `run_outcome_plain` derive the old
statements from the new ones).

(`feed_inv` … `run_answerX` were first written in `Pm/QueryRun.lean` for C03; they live here now and `QueryRun` imports
this file.) -/
namespace Pm.Daemon.E2E
open Pm Pm.Client Pm.Daemon
open Pm.Daemon.Reply (okLine errLine isPower)
open Pm.Dev2 (Dev ActErr RxCall)

/-- a run whose passes bring no regex answer is `Isolation.runPasses` -/
theorem runX_runPasses (w : W) (ps : List PassIn) : runX w (ps.map PassX.plain) = Isolation.runPasses w ps :=
  runX_plain w ps

/-- **the invariant does not mention the pending regex answers** -/
theorem feed_inv {w : W} (rx : List RxCall) (h : Inv w) : Inv (feed w rx) :=
  ⟨⟨h.1.1.congr rfl rfl rfl, h.1.2.congr rfl rfl rfl⟩, h.2.congr rfl rfl rfl⟩

theorem feed_cliRec (w : W) (rx : List RxCall) (g : Nat) : cliRec (feed w rx) g = cliRec w g := rfl

/-- the completions a run reports for client `g`, in order -/
def runFinsX : W → List PassX → Nat → List (Bytes × ActErr)
  | _, [], _ => []
  | w, q :: qs, g => passFins (feed w q.rx) q.p g ++ runFinsX (stepX w q) qs g

/-- no pass of the run ends in a modelled assertion -/
def AliveX : W → List PassX → Prop
  | _, [] => True
  | w, q :: qs => passDead (feed w q.rx) q.p = false ∧ AliveX (stepX w q) qs

theorem runFinsX_append (w : W) (qs rs : List PassX) (g : Nat) :
    runFinsX w (qs ++ rs) g = runFinsX w qs g ++ runFinsX (runX w qs) rs g := by
  induction qs generalizing w with
  | nil => rfl
  | cons q qs ih => rw [List.cons_append, runFinsX, runFinsX, ih, runX_cons, List.append_assoc]

theorem AliveX.append {w : W} {qs rs : List PassX} (h : AliveX w (qs ++ rs)) : AliveX w qs ∧ AliveX (runX w qs) rs := by
  induction qs generalizing w with
  | nil => exact ⟨trivial, h⟩
  | cons q qs ih =>
    obtain ⟨h1, h2⟩ := h
    obtain ⟨i1, i2⟩ := ih h2
    exact ⟨⟨h1, i1⟩, i2⟩

theorem AliveX.of_append {w : W} {qs rs : List PassX} (h1 : AliveX w qs) (h2 : AliveX (runX w qs) rs) : AliveX w (qs ++ rs) := by
  induction qs generalizing w with
  | nil => exact h2
  | cons q qs ih => exact ⟨h1.1, ih h1.2 h2⟩

theorem runFinsX_plain (w : W) (ps : List PassIn) (g : Nat) : runFinsX w (ps.map PassX.plain) g = runFins w ps g := by
  induction ps generalizing w with
  | nil => rfl
  | cons p r ih =>
    rw [List.map_cons, runFinsX, runFins, stepX_plain, ih]
    show passFins (feed w []) p g ++ _ = _
    rw [feed_nil]

theorem aliveX_plain (w : W) (ps : List PassIn) : AliveX w (ps.map PassX.plain) ↔ Alive w ps := by
  induction ps generalizing w with
  | nil => exact Iff.rfl
  | cons p r ih =>
    rw [List.map_cons]
    show (passDead (feed w []) p = false ∧ AliveX (stepX w (.plain p)) _) ↔ (passDead w p = false ∧ Alive (daemonPass w p).1 r)
    rw [feed_nil, stepX_plain, ih]

theorem stepX_inv (w : W) (q : PassX) (h : Inv w) (hd : passDead (feed w q.rx) q.p = false) : Inv (stepX w q) :=
  daemonPass_inv _ _ (feed_inv q.rx h) hd

/-- **the invariant over a run, whatever the regex engine answers in every pass** -/
theorem runX_inv (w : W) (qs : List PassX) (h : Inv w) (ha : AliveX w qs) : Inv (runX w qs) := by
  induction qs generalizing w with
  | nil => exact h
  | cons q qs ih => rw [runX_cons]; exact ih _ (stepX_inv w q h ha.1) ha.2

theorem stepX_alNext (w : W) (q : PassX) (h : Inv w) : w.alNext ≤ (stepX w q).alNext :=
  daemonPass_alNext (feed w q.rx) q.p (feed_inv q.rx h)

theorem runX_alNext (w : W) (qs : List PassX) (h : Inv w) (ha : AliveX w qs) : w.alNext ≤ (runX w qs).alNext := by
  induction qs generalizing w with
  | nil => exact Nat.le_refl _
  | cons q qs ih => rw [runX_cons]; exact Nat.le_trans (stepX_alNext w q h) (ih _ (stepX_inv w q h ha.1) ha.2)

theorem stepX_over (g A : Nat) (w : W) (q : PassX) (hinv : Inv w) (h : Over g A w) : Over g A (stepX w q) :=
  daemonPass_over g A (feed w q.rx) q.p (feed_inv q.rx hinv) h

theorem runX_over (g A : Nat) (w : W) (qs : List PassX) (h : Inv w) (ha : AliveX w qs) (ho : Over g A w) : Over g A (runX w qs) := by
  induction qs generalizing w with
  | nil => exact ho
  | cons q qs ih => rw [runX_cons]; exact ih _ (stepX_inv w q h ha.1) ha.2 (stepX_over g A w q h ho)

/-- **tracking a command over a run.**  Client `g` has command `k` at the start; if after the run it still has a command with
    the same arglist id, that command is `k` with `pending` lowered by the number of completions the run reported for `g` —
    fewer than `pending` — and the error flag or-ed with "one of them failed". -/
theorem run_trackX (g : Nat) : ∀ (qs : List PassX) (w : W) (c : Cli) (k : CmdC), Inv w → AliveX w qs →
    cliRec w g = some c → c.cmd = some k →
    ∀ c' k', cliRec (runX w qs) g = some c' → c'.cmd = some k' → k'.al = k.al →
      (runFinsX w qs g).length < k.pending ∧
      k' = { k with error := k.error || (runFinsX w qs g).any failed, pending := k.pending - (runFinsX w qs g).length } := by
  intro qs
  induction qs with
  | nil =>
    intro w c k hinv _ hc hk c' k' hc' hk' _
    have : cliRec (runX w []) g = cliRec w g := rfl
    rw [this, hc] at hc'; cases hc'
    rw [hk] at hk'; cases hk'
    exact ⟨hinv.2.pos g c k hc hk, by cases k; simp [runFinsX]⟩
  | cons q qs ih =>
    intro w c k hinv ha hc hk c' k' hc' hk' hal
    obtain ⟨ha1, ha2⟩ := ha
    have hinv' := stepX_inv w q hinv ha1
    rw [runX_cons] at hc'
    have hA : k.al < (stepX w q).alNext := Nat.lt_of_lt_of_le (hinv.1.2.cmds g c k hc hk) (stepX_alNext w q hinv)
    have hover : cliRec (stepX w q) g = none ∨ (∃ c2, cliRec (stepX w q) g = some c2 ∧ c2.cmd = none) → False := by
      intro hgone
      have ho : Over g k.al (stepX w q) := by
        refine ⟨hA, ?_⟩
        intro c2 k2 h1 h2
        rcases hgone with hn | ⟨c3, h3, h4⟩
        · rw [hn] at h1; cases h1
        · rw [h3] at h1; cases h1; rw [h4] at h2; cases h2
      exact (runX_over g k.al _ qs hinv' ha2 ho).2 c' k' hc' hk' hal
    rcases daemonPass_view (feed w q.rx) q.p g c k (feed_inv q.rx hinv) ha1 hc hk with ⟨_, hn⟩ | ⟨c1, _, _, ⟨hlt, hrec⟩ | ⟨_, r, _, hrec⟩⟩
    · exact absurd (Or.inl hn) hover
    · obtain ⟨i1, i2⟩ := ih _ _ _ hinv' ha2 hrec rfl c' k' hc' hk' hal
      simp only at i1 i2
      refine ⟨by rw [runFinsX, List.length_append]; omega, ?_⟩
      rw [i2, runFinsX]
      simp only [List.any_append, List.length_append, Bool.or_assoc, Nat.sub_sub]
    · exact absurd (Or.inr ⟨_, hrec, rfl⟩) hover

/-- **the pass that answers the command** (`run_answer` for `runX`).  Client `g` has command `k0` at the start of a run none
    of whose passes ends in an assertion; before the last pass `q` the command (identified by its arglist id) is still in
    progress, after it the client is there and idle.  Then the run reported exactly `k0.pending` completions for `g`, and in
    pass `q` the client — `c1` is its record when the client phase of `q` is over — was sent the lines of that pass, then
    the terminal reply `r` computed from `k0`'s targets, the flag `k0.error ∨ some completion of the run failed` and the
    arglist as it stands after the pass, then the prompt, and nothing else. -/
theorem run_answerX (w0 : W) (qs : List PassX) (q : PassX) (g : Nat) (c0 : Cli) (k0 : CmdC) (c' : Cli)
    (hinv : Inv w0) (ha : AliveX w0 (qs ++ [q])) (hc0 : cliRec w0 g = some c0) (hk0 : c0.cmd = some k0)
    (hbusy : ∃ c k, cliRec (runX w0 qs) g = some c ∧ c.cmd = some k ∧ k.al = k0.al)
    (hidle : cliRec (runX w0 (qs ++ [q])) g = some c') (hnone : c'.cmd = none) :
    (runFinsX w0 (qs ++ [q]) g).length = k0.pending ∧
    ∃ c1 r, cliRec (cliPostPoll (feed (runX w0 qs) q.rx) q.p.acc q.p.envs) g = some c1 ∧
      finalReply c1.exprange { k0 with error := k0.error || (runFinsX w0 (qs ++ [q]) g).any failed,
                                       args := (storeArgs (runX w0 (qs ++ [q])) k0.al).map argC } = some r ∧
      c'.toBuf = c1.toBuf ++ passText (feed (runX w0 qs) q.rx) q.p g ++ r ++ prompt := by
  obtain ⟨ha1, ha2⟩ := ha.append
  obtain ⟨c, k, hc, hk, hal⟩ := hbusy
  obtain ⟨t1, t2⟩ := run_trackX g qs w0 c0 k0 hinv ha1 hc0 hk0 c k hc hk hal
  have hinv1 := runX_inv w0 qs hinv ha1
  have hlast : runX w0 (qs ++ [q]) = (daemonPass (feed (runX w0 qs) q.rx) q.p).1 := by rw [runX_append]; rfl
  rw [hlast] at hidle ⊢
  have hF : runFinsX w0 (qs ++ [q]) g = runFinsX w0 qs g ++ passFins (feed (runX w0 qs) q.rx) q.p g := by
    rw [runFinsX_append]; simp [runFinsX]
  rcases daemonPass_view (feed (runX w0 qs) q.rx) q.p g c k (feed_inv q.rx hinv1) ha2.1 hc hk with
    ⟨_, hn⟩ | ⟨c1, h1, _, ⟨_, hrec⟩ | ⟨hn, r, hr, hrec⟩⟩
  · rw [hn] at hidle; cases hidle
  · rw [hrec] at hidle; cases hidle; cases hnone
  · rw [hrec] at hidle
    simp only [Option.some.injEq] at hidle
    subst hidle
    rw [t2] at hn hr
    simp only at hn hr
    refine ⟨by rw [hF, List.length_append]; omega, c1, r, h1, ?_, rfl⟩
    rw [← hr]
    apply Reply.finalReply_congr <;> simp only [hF, List.any_append, Bool.or_assoc]

/-- **what can become of a command over a run** (`run_outcome` for `runX`): it is still in progress at the end; or there is
    a pass `q` of the run before which it is in progress and after which the client is gone (destroyed: the completions of
    its actions are dropped) or idle (answered: `run_answerX` says with what) -/
theorem run_outcomeX (g : Nat) : ∀ (qs : List PassX) (w : W) (c : Cli) (k : CmdC), Inv w → AliveX w qs →
    cliRec w g = some c → c.cmd = some k →
    (∃ c' k', cliRec (runX w qs) g = some c' ∧ c'.cmd = some k' ∧ k'.al = k.al) ∨
    (∃ qs1 q qs2, qs = qs1 ++ q :: qs2 ∧
      (∃ c1 k1, cliRec (runX w qs1) g = some c1 ∧ c1.cmd = some k1 ∧ k1.al = k.al) ∧
      (cliRec (runX w (qs1 ++ [q])) g = none ∨ ∃ c2, cliRec (runX w (qs1 ++ [q])) g = some c2 ∧ c2.cmd = none)) := by
  intro qs
  induction qs with
  | nil => intro w c k _ _ hc hk; exact Or.inl ⟨c, k, hc, hk, rfl⟩
  | cons q qs ih =>
    intro w c k hinv ha hc hk
    obtain ⟨ha1, ha2⟩ := ha
    have hhere : ∃ c1 k1, cliRec (runX w []) g = some c1 ∧ c1.cmd = some k1 ∧ k1.al = k.al := ⟨c, k, hc, hk, rfl⟩
    rcases daemonPass_view (feed w q.rx) q.p g c k (feed_inv q.rx hinv) ha1 hc hk with ⟨_, hn⟩ | ⟨c1, _, _, ⟨_, hrec⟩ | ⟨_, r, _, hrec⟩⟩
    · exact Or.inr ⟨[], q, qs, rfl, hhere, Or.inl hn⟩
    · rcases ih _ _ _ (stepX_inv w q hinv ha1) ha2 hrec rfl with h | ⟨qs1, q', qs2, e, ⟨c2, k2, h1, h2, h3⟩, h4⟩
      · exact Or.inl h
      · exact Or.inr ⟨q :: qs1, q', qs2, by rw [e]; rfl, ⟨c2, k2, h1, h2, h3⟩, h4⟩
    · exact Or.inr ⟨[], q, qs, rfl, hhere, Or.inr ⟨_, hrec, rfl⟩⟩

/-- **soundness, regex answers arbitrary in every pass.**  (Hypotheses as in `run_answerX`; the command is a power command.)
    If the client's output buffer ends with `102 Command completed successfully` and the prompt after the answering pass,
    then: the error flag was clear at the start; the run reported exactly `pending` completions for the client — as many as
    it had actions queued at the start —; every one of them is a success; and no result cell of a target is `unknown` in
    the arglist as it stands after the pass. -/
theorem soundX (w0 : W) (qs : List PassX) (q : PassX) (g : Nat) (c0 : Cli) (k0 : CmdC) (c' : Cli)
    (hinv : Inv w0) (ha : AliveX w0 (qs ++ [q])) (hc0 : cliRec w0 g = some c0) (hk0 : c0.cmd = some k0)
    (hp : isPower k0.com = true)
    (hbusy : ∃ c k, cliRec (runX w0 qs) g = some c ∧ c.cmd = some k ∧ k.al = k0.al)
    (hidle : cliRec (runX w0 (qs ++ [q])) g = some c') (hnone : c'.cmd = none)
    (h102 : okLine ++ prompt <:+ c'.toBuf) :
    k0.error = false ∧ (runFinsX w0 (qs ++ [q]) g).length = k0.pending ∧ k0.pending = totalQ g w0.devs ∧
    (∀ x ∈ runFinsX w0 (qs ++ [q]) g, x.2 = .success) ∧ ResultsOk (runX w0 (qs ++ [q])) k0 := by
  obtain ⟨hlen, c1, r, _, hr, hbuf⟩ := run_answerX w0 qs q g c0 k0 c' hinv ha hc0 hk0 hbusy hidle hnone
  obtain ⟨hiff, helse⟩ := power_reply c1.exprange k0 _ _ r hp hr
  have hrok : r = okLine := by
    apply Classical.byContradiction
    intro hne
    rw [hbuf, helse hne] at h102
    exact not_ok_suffix_err _ h102
  obtain ⟨e1, e2, e3⟩ := hiff.mp hrok
  have hcnt : pendingOf c0 = totalQ g w0.devs := hinv.2.count g c0 hc0
  unfold pendingOf at hcnt
  rw [hk0] at hcnt
  exact ⟨e1, hlen, hcnt, e2, e3⟩

/-- **completeness, regex answers arbitrary in every pass.**  (Hypotheses as in `run_answerX`; a power command.)  If the error
    flag was clear at the start, every completion the run reported for the client is a success, and no result cell of a
    target is `unknown` after the pass, the client was sent — after the lines of that pass — `102 Command completed
    successfully` and the prompt. -/
theorem completeX (w0 : W) (qs : List PassX) (q : PassX) (g : Nat) (c0 : Cli) (k0 : CmdC) (c' : Cli)
    (hinv : Inv w0) (ha : AliveX w0 (qs ++ [q])) (hc0 : cliRec w0 g = some c0) (hk0 : c0.cmd = some k0)
    (hp : isPower k0.com = true)
    (hbusy : ∃ c k, cliRec (runX w0 qs) g = some c ∧ c.cmd = some k ∧ k.al = k0.al)
    (hidle : cliRec (runX w0 (qs ++ [q])) g = some c') (hnone : c'.cmd = none)
    (herr : k0.error = false) (hall : ∀ x ∈ runFinsX w0 (qs ++ [q]) g, x.2 = .success)
    (hres : ResultsOk (runX w0 (qs ++ [q])) k0) :
    ∃ c1, cliRec (cliPostPoll (feed (runX w0 qs) q.rx) q.p.acc q.p.envs) g = some c1 ∧
      c'.toBuf = c1.toBuf ++ passText (feed (runX w0 qs) q.rx) q.p g ++ okLine ++ prompt := by
  obtain ⟨_, c1, r, h1, hr, hbuf⟩ := run_answerX w0 qs q g c0 k0 c' hinv ha hc0 hk0 hbusy hidle hnone
  obtain ⟨hiff, _⟩ := power_reply c1.exprange k0 _ _ r hp hr
  have hrok : r = okLine := hiff.mpr ⟨herr, hall, hres⟩
  exact ⟨c1, h1, by rw [hbuf, hrok]⟩

/-- **errors, regex answers arbitrary in every pass.**  (Hypotheses as in `run_answerX`; a power command.)  If the error flag
    was set at the start, or some completion the run reported for the client is a failure, or some result cell of a target
    is `unknown` after the pass, the client was sent — after the lines of that pass — `210 Command completed with errors` and
    the prompt; and every failed completion of that pass has its line `308 <device>: <reason>` among those lines. -/
theorem errorsX (w0 : W) (qs : List PassX) (q : PassX) (g : Nat) (c0 : Cli) (k0 : CmdC) (c' : Cli)
    (hinv : Inv w0) (ha : AliveX w0 (qs ++ [q])) (hc0 : cliRec w0 g = some c0) (hk0 : c0.cmd = some k0)
    (hp : isPower k0.com = true)
    (hbusy : ∃ c k, cliRec (runX w0 qs) g = some c ∧ c.cmd = some k ∧ k.al = k0.al)
    (hidle : cliRec (runX w0 (qs ++ [q])) g = some c') (hnone : c'.cmd = none)
    (hbad : k0.error = true ∨ (∃ x ∈ runFinsX w0 (qs ++ [q]) g, x.2 ≠ .success) ∨ ¬ ResultsOk (runX w0 (qs ++ [q])) k0) :
    (∃ c1, cliRec (cliPostPoll (feed (runX w0 qs) q.rx) q.p.acc q.p.envs) g = some c1 ∧
      c'.toBuf = c1.toBuf ++ passText (feed (runX w0 qs) q.rx) q.p g ++ errLine ++ prompt) ∧
    ∀ x ∈ passFins (feed (runX w0 qs) q.rx) q.p g, x.2 ≠ .success →
      ∃ u v reason, passText (feed (runX w0 qs) q.rx) q.p g = u ++ (bstr "308 " ++ (x.1 ++ reason) ++ crlf) ++ v := by
  obtain ⟨_, c1, r, h1, hr, hbuf⟩ := run_answerX w0 qs q g c0 k0 c' hinv ha hc0 hk0 hbusy hidle hnone
  obtain ⟨hiff, helse⟩ := power_reply c1.exprange k0 _ _ r hp hr
  have hrne : r ≠ okLine := by
    intro hrok
    obtain ⟨e1, e2, e3⟩ := hiff.mp hrok
    rcases hbad with h | ⟨x, hx, hf⟩ | h
    · rw [e1] at h; cases h
    · exact hf (e2 x hx)
    · exact h e3
  exact ⟨⟨c1, h1, by rw [hbuf, helse hrne]⟩, fun x hx hf => passText_failure _ q.p g x hx hf⟩

/-! ### the `runPasses` statements of `Pm/EndToEnd.lean` as corollaries (`qs := ps.map PassX.plain`) -/

theorem plain_snoc (ps : List PassIn) (p : PassIn) : (ps ++ [p]).map PassX.plain = ps.map PassX.plain ++ [PassX.plain p] := by
  rw [List.map_append]; rfl

/-- `runPasses_inv` from `runX_inv` -/
theorem runPasses_inv_plain (w : W) (ps : List PassIn) (h : Inv w) (ha : Alive w ps) : Inv (Isolation.runPasses w ps) := by
  rw [← runX_runPasses]; exact runX_inv w _ h ((aliveX_plain w ps).mpr ha)

/-- `run_track` from `run_trackX` -/
theorem run_track_plain (g : Nat) (ps : List PassIn) (w : W) (c : Cli) (k : CmdC) (hinv : Inv w) (ha : Alive w ps)
    (hc : cliRec w g = some c) (hk : c.cmd = some k) (c' : Cli) (k' : CmdC)
    (hc' : cliRec (Isolation.runPasses w ps) g = some c') (hk' : c'.cmd = some k') (hal : k'.al = k.al) :
    (runFins w ps g).length < k.pending ∧
    k' = { k with error := k.error || (runFins w ps g).any failed, pending := k.pending - (runFins w ps g).length } := by
  rw [← runX_runPasses] at hc'
  have := run_trackX g _ w c k hinv ((aliveX_plain w ps).mpr ha) hc hk c' k' hc' hk' hal
  rwa [runFinsX_plain] at this

/-- `run_outcome` from `run_outcomeX` -/
theorem run_outcome_plain (g : Nat) (ps : List PassIn) (w : W) (c : Cli) (k : CmdC) (hinv : Inv w) (ha : Alive w ps)
    (hc : cliRec w g = some c) (hk : c.cmd = some k) :
    (∃ c' k', cliRec (Isolation.runPasses w ps) g = some c' ∧ c'.cmd = some k' ∧ k'.al = k.al) ∨
    (∃ ps1 p ps2, ps = ps1 ++ p :: ps2 ∧
      (∃ c1 k1, cliRec (Isolation.runPasses w ps1) g = some c1 ∧ c1.cmd = some k1 ∧ k1.al = k.al) ∧
      (cliRec (Isolation.runPasses w (ps1 ++ [p])) g = none ∨
        ∃ c2, cliRec (Isolation.runPasses w (ps1 ++ [p])) g = some c2 ∧ c2.cmd = none)) := by
  rcases run_outcomeX g _ w c k hinv ((aliveX_plain w ps).mpr ha) hc hk with h | ⟨qs1, q, qs2, e, h1, h2⟩
  · rw [runX_runPasses] at h; exact Or.inl h
  · obtain ⟨ps1, r, e1, rfl, e2⟩ := List.map_eq_append_iff.mp e
    obtain ⟨p, ps2, rfl, rfl, rfl⟩ := List.map_eq_cons_iff.mp e2
    rw [runX_runPasses] at h1
    rw [← plain_snoc, runX_runPasses] at h2
    exact Or.inr ⟨ps1, p, ps2, e1, h1, h2⟩

/-- `sound` from `soundX` -/
theorem sound_plain (w0 : W) (ps : List PassIn) (p : PassIn) (g : Nat) (c0 : Cli) (k0 : CmdC) (c' : Cli)
    (hinv : Inv w0) (ha : Alive w0 (ps ++ [p])) (hc0 : cliRec w0 g = some c0) (hk0 : c0.cmd = some k0)
    (hp : isPower k0.com = true)
    (hbusy : ∃ c k, cliRec (Isolation.runPasses w0 ps) g = some c ∧ c.cmd = some k ∧ k.al = k0.al)
    (hidle : cliRec (Isolation.runPasses w0 (ps ++ [p])) g = some c') (hnone : c'.cmd = none)
    (h102 : okLine ++ prompt <:+ c'.toBuf) :
    k0.error = false ∧ (runFins w0 (ps ++ [p]) g).length = k0.pending ∧ k0.pending = totalQ g w0.devs ∧
    (∀ x ∈ runFins w0 (ps ++ [p]) g, x.2 = .success) ∧ ResultsOk (Isolation.runPasses w0 (ps ++ [p])) k0 := by
  rw [← runX_runPasses] at hbusy hidle
  rw [← aliveX_plain] at ha
  rw [plain_snoc] at ha hidle
  have := soundX w0 _ (.plain p) g c0 k0 c' hinv ha hc0 hk0 hp hbusy hidle hnone h102
  rwa [← plain_snoc, runFinsX_plain, runX_runPasses] at this

/-- `complete` from `completeX` -/
theorem complete_plain (w0 : W) (ps : List PassIn) (p : PassIn) (g : Nat) (c0 : Cli) (k0 : CmdC) (c' : Cli)
    (hinv : Inv w0) (ha : Alive w0 (ps ++ [p])) (hc0 : cliRec w0 g = some c0) (hk0 : c0.cmd = some k0)
    (hp : isPower k0.com = true)
    (hbusy : ∃ c k, cliRec (Isolation.runPasses w0 ps) g = some c ∧ c.cmd = some k ∧ k.al = k0.al)
    (hidle : cliRec (Isolation.runPasses w0 (ps ++ [p])) g = some c') (hnone : c'.cmd = none)
    (herr : k0.error = false) (hall : ∀ x ∈ runFins w0 (ps ++ [p]) g, x.2 = .success)
    (hres : ResultsOk (Isolation.runPasses w0 (ps ++ [p])) k0) :
    ∃ c1, cliRec (cliPostPoll (Isolation.runPasses w0 ps) p.acc p.envs) g = some c1 ∧
      c'.toBuf = c1.toBuf ++ passText (Isolation.runPasses w0 ps) p g ++ okLine ++ prompt := by
  rw [← runX_runPasses] at hbusy hidle hres
  rw [← aliveX_plain] at ha
  rw [← runFinsX_plain] at hall
  rw [plain_snoc] at ha hidle hall hres
  have := completeX w0 _ (.plain p) g c0 k0 c' hinv ha hc0 hk0 hp hbusy hidle hnone herr hall hres
  rw [runX_runPasses] at this
  show ∃ c1, cliRec (cliPostPoll (Isolation.runPasses w0 ps) p.acc p.envs) g = some c1 ∧ _
  have e : feed (Isolation.runPasses w0 ps) (PassX.plain p).rx = Isolation.runPasses w0 ps := feed_nil _
  rw [e] at this
  exact this

/-- `errors` from `errorsX` -/
theorem errors_plain (w0 : W) (ps : List PassIn) (p : PassIn) (g : Nat) (c0 : Cli) (k0 : CmdC) (c' : Cli)
    (hinv : Inv w0) (ha : Alive w0 (ps ++ [p])) (hc0 : cliRec w0 g = some c0) (hk0 : c0.cmd = some k0)
    (hp : isPower k0.com = true)
    (hbusy : ∃ c k, cliRec (Isolation.runPasses w0 ps) g = some c ∧ c.cmd = some k ∧ k.al = k0.al)
    (hidle : cliRec (Isolation.runPasses w0 (ps ++ [p])) g = some c') (hnone : c'.cmd = none)
    (hbad : k0.error = true ∨ (∃ x ∈ runFins w0 (ps ++ [p]) g, x.2 ≠ .success) ∨
      ¬ ResultsOk (Isolation.runPasses w0 (ps ++ [p])) k0) :
    (∃ c1, cliRec (cliPostPoll (Isolation.runPasses w0 ps) p.acc p.envs) g = some c1 ∧
      c'.toBuf = c1.toBuf ++ passText (Isolation.runPasses w0 ps) p g ++ errLine ++ prompt) ∧
    ∀ x ∈ passFins (Isolation.runPasses w0 ps) p g, x.2 ≠ .success →
      ∃ u v reason, passText (Isolation.runPasses w0 ps) p g = u ++ (bstr "308 " ++ (x.1 ++ reason) ++ crlf) ++ v := by
  rw [← runX_runPasses] at hbusy hidle hbad
  rw [← aliveX_plain] at ha
  rw [← runFinsX_plain] at hbad
  rw [plain_snoc] at ha hidle hbad
  have := errorsX w0 _ (.plain p) g c0 k0 c' hinv ha hc0 hk0 hp hbusy hidle hnone hbad
  rw [runX_runPasses] at this
  have e : feed (Isolation.runPasses w0 ps) (PassX.plain p).rx = Isolation.runPasses w0 ps := feed_nil _
  rw [e] at this
  exact this

end Pm.Daemon.E2E

section AxiomChecks
open Pm.Daemon.E2E
/-- info: 'Pm.Daemon.E2E.soundX' depends on axioms: [propext, Classical.choice, Quot.sound] -/
#guard_msgs in #print axioms soundX
/-- info: 'Pm.Daemon.E2E.completeX' depends on axioms: [propext, Classical.choice, Quot.sound] -/
#guard_msgs in #print axioms completeX
/-- info: 'Pm.Daemon.E2E.errorsX' depends on axioms: [propext, Classical.choice, Quot.sound] -/
#guard_msgs in #print axioms errorsX
/-- info: 'Pm.Daemon.E2E.run_outcomeX' depends on axioms: [propext, Classical.choice, Quot.sound] -/
#guard_msgs in #print axioms run_outcomeX
/-- info: 'Pm.Daemon.E2E.run_trackX' depends on axioms: [propext, Classical.choice, Quot.sound] -/
#guard_msgs in #print axioms run_trackX
/-- info: 'Pm.Daemon.E2E.run_answerX' depends on axioms: [propext, Classical.choice, Quot.sound] -/
#guard_msgs in #print axioms run_answerX
/-- info: 'Pm.Daemon.E2E.runX_inv' depends on axioms: [propext, Classical.choice, Quot.sound] -/
#guard_msgs in #print axioms runX_inv
/-- info: 'Pm.Daemon.E2E.sound_plain' depends on axioms: [propext, Classical.choice, Quot.sound] -/
#guard_msgs in #print axioms sound_plain
/-- info: 'Pm.Daemon.E2E.complete_plain' depends on axioms: [propext, Classical.choice, Quot.sound] -/
#guard_msgs in #print axioms complete_plain
/-- info: 'Pm.Daemon.E2E.errors_plain' depends on axioms: [propext, Classical.choice, Quot.sound] -/
#guard_msgs in #print axioms errors_plain
/-- info: 'Pm.Daemon.E2E.run_outcome_plain' depends on axioms: [propext, Classical.choice, Quot.sound] -/
#guard_msgs in #print axioms run_outcome_plain
end AxiomChecks
