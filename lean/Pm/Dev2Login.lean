import Pm.Dev2Count
namespace Pm.Dev2

/-- what a statement may change in the device: buffers, match object, arglists, wake — never the connection state,
    the login flag or the queue -/
structure SameLink (d d' : Dev) : Prop where
  conn : d'.conn = d.conn
  loggedIn : d'.loggedIn = d.loggedIn

theorem SameLink.rfl' (d : Dev) : SameLink d d := ⟨rfl, rfl⟩
theorem SameLink.trans {a b c : Dev} (h1 : SameLink a b) (h2 : SameLink b c) : SameLink a c :=
  ⟨h2.conn.trans h1.conn, h2.loggedIn.trans h1.loggedIn⟩

@[simp] theorem setTop_com (a : Action) (e : ExecCtx) : (setTop a e).com = a.com := rfl
@[simp] theorem setArgs_conn (d id as) : (setArgs d id as).conn = d.conn := rfl
@[simp] theorem setArgs_loggedIn (d id as) : (setArgs d id as).loggedIn = d.loggedIn := rfl

theorem stmtExpect_link (d a o pat) : SameLink d (stmtExpect d a o pat).dev ∧ (stmtExpect d a o pat).act.com = a.com := by
  unfold stmtExpect; constructor
  · constructor <;> grind
  · grind
theorem stmtSend_link (d a o e fmt) : SameLink d (stmtSend d a o e fmt).dev ∧ (stmtSend d a o e fmt).act.com = a.com := by
  unfold stmtSend; constructor
  · constructor <;> grind [setTop]
  · grind [setTop]
theorem stmtDelay_link (d a o e now us) : SameLink d (stmtDelay d a o e now us).dev ∧ (stmtDelay d a o e now us).act.com = a.com := by
  unfold stmtDelay; constructor
  · constructor <;> grind [setTop]
  · grind [setTop]
theorem stmtSetplugstate_link (d a o e l p s i) : SameLink d (stmtSetplugstate d a o e l p s i).dev ∧ (stmtSetplugstate d a o e l p s i).act.com = a.com := by
  unfold stmtSetplugstate; constructor
  · constructor <;> grind [setArgs]
  · grind
theorem stmtSetresult_link (d a o p s i) : SameLink d (stmtSetresult d a o p s i).dev ∧ (stmtSetresult d a o p s i).act.com = a.com := by
  unfold stmtSetresult; constructor
  · constructor <;> grind [setArgs]
  · grind
theorem stmtForeach_link (d a o e b n) : SameLink d (stmtForeach d a o e b n).dev ∧ (stmtForeach d a o e b n).act.com = a.com := by
  unfold stmtForeach; constructor
  · constructor <;> grind [setTop]
  · grind [setTop]
theorem stmtIf_link (d a o e b n) : SameLink d (stmtIf d a o e b n).dev ∧ (stmtIf d a o e b n).act.com = a.com := by
  unfold stmtIf; constructor
  · constructor <;> grind [setTop]
  · grind [setTop]

theorem processStmt_link (d : Dev) (a : Action) (o : Oracle) (now : Time) :
    SameLink d (processStmt d a o now).dev ∧ (processStmt d a o now).act.com = a.com := by
  unfold processStmt
  dsimp only
  split
  · exact ⟨SameLink.rfl' d, rfl⟩
  all_goals first
    | exact stmtExpect_link _ _ _ _
    | exact stmtSend_link _ _ _ _ _
    | exact stmtDelay_link _ _ _ _ _ _
    | exact stmtSetplugstate_link _ _ _ _ _ _ _ _
    | exact stmtSetresult_link _ _ _ _ _ _
    | exact stmtForeach_link _ _ _ _ _ _
    | exact stmtIf_link _ _ _ _ _ _

theorem innerLoop_link (now : Time) (fuel : Nat) (d : Dev) (a : Action) (o : Oracle) (acc : List Out) :
    SameLink d (innerLoop now fuel d a o acc).dev ∧ (innerLoop now fuel d a o acc).act.com = a.com := by
  induction fuel generalizing d a o acc with
  | zero => simpa [innerLoop] using processStmt_link d a o now
  | succ n ih =>
    unfold innerLoop; dsimp only
    have hp := processStmt_link d a o now
    split
    · have := ih (processStmt d a o now).dev (processStmt d a o now).act (processStmt d a o now).oracle (acc ++ (processStmt d a o now).out)
      exact ⟨hp.1.trans this.1, this.2.trans hp.2⟩
    · simpa using hp

/-- C10, the invariant behind "login comes first": a device that is connected but not yet logged in has the login
    action (script kind 0) at the head of its queue — so whatever `_process_action` sends on that connection before
    `logged_in` becomes true is sent by the login script. -/
def LoginHead (d : Dev) : Prop := d.conn = 2 → d.loggedIn = false → ∃ a r, d.acts = a :: r ∧ a.com = 0

theorem LoginHead.of_not_connected {d : Dev} (h : d.conn ≠ 2) : LoginHead d := fun h2 => absurd h2 h

theorem advance_com (a : Action) : (advance a).com = a.com := by
  unfold advance; dsimp only; split <;> rfl
theorem stamp_com (now : Time) (a : Action) : (stamp now a).com = a.com := by
  unfold stamp; split <;> rfl

theorem enqueueLogin_head (d : Dev) : ∃ a r, (enqueueLogin d).acts = a :: r ∧ a.com = 0 := by
  unfold enqueueLogin; exact ⟨_, _, rfl, rfl⟩

theorem tcpConnect_flag (c : CS) (h0 : c.dev.conn = 0) : (tcpConnect c).2 = ((tcpConnect c).1.dev.conn == 2) := by
  unfold tcpConnect; simp [h0]; split <;> simp_all
theorem pipeConnect_flag (c : CS) (h0 : c.dev.conn = 0) : (pipeConnect c).2 = ((pipeConnect c).1.dev.conn == 2) := by
  unfold pipeConnect; simp [h0]; split
  · simp_all
  · split <;> simp_all

theorem connect_tail (r : CS × Bool) (hflag : r.2 = (r.1.dev.conn == 2))
    (hna : (if (r.2 && !r.1.aborted) = true then { r.1 with dev := enqueueLogin r.1.dev } else r.1).aborted = false) :
    LoginHead (if (r.2 && !r.1.aborted) = true then { r.1 with dev := enqueueLogin r.1.dev } else r.1).dev := by
  obtain ⟨c2, connected⟩ := r
  simp only at hflag hna ⊢
  split
  · intro _ _; exact enqueueLogin_head _
  · rename_i hh
    intro hc2 _
    have hcon : connected = true := by simp [hflag, hc2]
    subst hcon
    cases hab : c2.aborted
    · simp [hab] at hh
    · simp [hab] at hna

theorem connectDev_loginHead (c : CS) (h0 : c.dev.conn = 0) (hna : (connectDev c).aborted = false) :
    LoginHead (connectDev c).dev := by
  unfold connectDev at hna ⊢
  dsimp only at hna ⊢
  cases hp : c.dev.isPipe
  · simp only [hp, Bool.false_eq_true, ↓reduceIte] at hna ⊢
    exact connect_tail _ (tcpConnect_flag _ h0) hna
  · simp only [hp, ↓reduceIte] at hna ⊢
    exact connect_tail _ (pipeConnect_flag _ h0) hna

theorem disconnectDev_conn (c : CS) : (disconnectDev c).dev.conn = 0 := by
  unfold disconnectDev; rfl

theorem reconnectDev_loginHead (c : CS) (tmo : Option Time) (hna : (reconnectDev c tmo).1.aborted = false) :
    LoginHead (reconnectDev c tmo).1.dev := by
  unfold reconnectDev at hna ⊢
  dsimp only at hna ⊢
  have h0 : (if (c.dev.conn != 0) = true then disconnectDev c else c).dev.conn = 0 := by
    split
    · exact disconnectDev_conn c
    · rename_i h; simpa using h
  generalize (if (c.dev.conn != 0) = true then disconnectDev c else c) = c1 at *
  split at hna
  · rename_i heq; simp only [heq]; exact connectDev_loginHead c1 h0 (by simpa [heq] using hna)
  · rename_i heq; simp only [heq]; exact LoginHead.of_not_connected (by simp [h0])
  · rename_i heq; simp only [heq]; exact LoginHead.of_not_connected (by simp [h0])

theorem failAll_loginHead (rest : List Action) (c : CS) (a : Action) (o : Oracle) (out : List Out) (tmo : Option Time)
    (hna : (failAll rest c a o out tmo).1.aborted = false) : LoginHead (failAll rest c a o out tmo).1.dev := by
  unfold failAll at hna ⊢
  dsimp only at hna ⊢
  split
  · rename_i h2
    simp only [h2, ↓reduceIte] at hna
    exact reconnectDev_loginHead _ _ hna
  · rename_i h2
    exact LoginHead.of_not_connected (by simpa using h2)

theorem onTimeout_loginHead (rest : List Action) (c : CS) (a : Action) (o : Oracle) (out : List Out) (tmo : Option Time)
    (hna : (onTimeout rest c a o out tmo).1.aborted = false) : LoginHead (onTimeout rest c a o out tmo).1.dev := by
  unfold onTimeout at hna ⊢
  dsimp only at hna ⊢
  generalize (if a.telemetry = true then
      (if (c.dev.conn != 2) = true then [Out.telemetry a.clientId (str "connect(dev): timeout")]
       else teleMem a.clientId "recv(dev): '" c.dev.fromBuf) else []) = tele at *
  cases hh : hasAbort tele
  · simp only [hh, Bool.false_eq_true, ↓reduceIte] at hna ⊢
    exact failAll_loginHead _ _ _ _ _ _ hna
  · simp [hh] at hna

theorem onRun_loginHead (k : CS → Oracle → List Out → Option Time → PA) (rest : List Action) (c : CS) (a : Action) (o : Oracle)
    (out : List Out) (tmo : Option Time) (left : Time)
    (hpre : c.dev.conn = 2 → c.dev.loggedIn = false → a.com = 0)
    (hk : ∀ c' o' out' tmo', LoginHead c'.dev → (k c' o' out' tmo').1.aborted = false → LoginHead (k c' o' out' tmo').1.dev)
    (hna : (onRun k rest c a o out tmo left).1.aborted = false) :
    LoginHead (onRun k rest c a o out tmo left).1.dev := by
  unfold onRun at hna ⊢
  dsimp only at hna ⊢
  have hL := innerLoop_link c.env.now (loopBound a) { c.dev with wake := none } a o []
  generalize innerLoop c.env.now (loopBound a) { c.dev with wake := none } a o [] = r at *
  have hadv := advance_com r.act
  generalize advance r.act = a' at *
  obtain ⟨⟨hconn, hlog⟩, hcom⟩ := hL
  simp only at hconn hlog
  split
  · rename_i h; simp [h] at hna
  · rename_i h1
    simp only [h1] at hna
    split
    · intro h2 h3; exact ⟨r.act, rest, rfl, by rw [hcom]; exact hpre (by simpa [hconn] using h2) (by simpa [hlog] using h3)⟩
    · rename_i h2
      simp only [h2] at hna
      split
      · rename_i h3
        simp only [h3] at hna
        split
        · rename_i h4
          simp only [h4] at hna
          apply hk _ _ _ _ _ (by simpa using hna)
          intro hc2 hl
          exfalso
          simp at hc2 hl
          have := hpre (by rw [← hconn]; exact hc2) (by rw [← hlog]; exact hl.1)
          rw [hadv, hcom, this] at hl; simp at hl
        · rename_i h4
          simp only [h4] at hna
          apply hk _ _ _ _ _ (by simpa using hna)
          intro hc2 hl
          exact ⟨a', rest, rfl, by rw [hadv, hcom]; exact hpre (by simpa [hconn] using hc2) (by simpa [hlog] using hl)⟩
      · rename_i h3
        simp only [h3] at hna
        exact failAll_loginHead _ _ _ _ _ _ (by simpa using hna)

/-- C10 `login first`, device half, on the validated mirror: a pass of `_process_action` that does not end in a
    modelled abort preserves `LoginHead` — ∀ fuel, queue, scripts, oracle answers, environment. -/
theorem loginHead_preserved (fuel : Nat) (c : CS) (o : Oracle) (out : List Out) (tmo : Option Time)
    (h : LoginHead c.dev) (hna : (processActionF fuel c o out tmo).1.aborted = false) :
    LoginHead (processActionF fuel c o out tmo).1.dev := by
  induction fuel generalizing c o out tmo with
  | zero => simp [processActionF] at hna
  | succ n ih =>
    unfold processActionF processActionBody at hna ⊢
    by_cases hab : c.aborted = true
    · simp only [hab, ↓reduceIte] at hna ⊢; exact h
    · simp only [hab, Bool.false_eq_true, ↓reduceIte] at hna ⊢
      cases hacts : c.dev.acts with
      | nil => simp only [hacts] at hna ⊢; exact h
      | cons a0 rest =>
        simp only [hacts] at hna ⊢
        have hs := stamp_com c.env.now a0
        generalize stamp c.env.now a0 = a at *
        have hpre : c.dev.conn = 2 → c.dev.loggedIn = false → a.com = 0 := by
          intro h2 h3
          obtain ⟨x, r, hx, hx0⟩ := h h2 h3
          rw [hacts] at hx; cases hx; rw [hs]; exact hx0
        split
        · rename_i ht; simp only [ht, ↓reduceIte] at hna; exact onTimeout_loginHead _ _ _ _ _ _ hna
        · rename_i ht
          simp only [ht, ↓reduceIte] at hna
          split
          · rename_i hc; exact LoginHead.of_not_connected (by simpa using hc)
          · rename_i hc
            simp only [hc, ↓reduceIte] at hna
            exact onRun_loginHead _ _ _ _ _ _ _ _ hpre (fun c' o' out' tmo' hl hn => ih c' o' out' tmo' hl hn) hna

