import Pm.Sort2
import Pm.Cbuf
/- spike: Dev.lean extended with the connection layer of device.c / device_tcp.c (one tcp device):
   `_enqueue_targeted_actions`, `_process_action` and every `_process_*`, with the regex engine
   as an oracle.  Written for execution (compared with the real code), not yet for proof. -/
namespace Pm.Dev2

abbrev Bytes := List UInt8
abbrev Time := Nat          -- microseconds

inductive PState where | unknown | off | on deriving DecidableEq, Repr
inductive PResult where | none | unknown | success deriving DecidableEq, Repr

inductive Stmt where
  | send (fmt : Bytes)
  | expect (pat : Nat)
  | setplugstate (plugName : Option Bytes) (plugMp : Int) (statMp : Int) (interps : List (PState × Nat))
  | setresult (plugMp : Int) (statMp : Int) (interps : List (PResult × Nat))
  | delay (us : Time)
  | foreachplug (body : List Stmt)
  | foreachnode (body : List Stmt)
  | ifoff (body : List Stmt)
  | ifon (body : List Stmt)
deriving Repr, Inhabited

structure Plug where
  name : Bytes
  node : Option Bytes
deriving Repr, DecidableEq, Inhabited

/-- script slots as in device_private.h -/
def LOG_IN := 0
def nScripts := 28

structure Arg where
  node : Bytes
  val : Option Bytes
  state : PState
  result : PResult
deriving Repr

structure ExecCtx where
  block : List Stmt
  pos : Nat
  plugs : Option (List Plug)
  plugItr : Option Nat
  plugCopy : Option (List Plug)
  processing : Bool
deriving Repr, Inhabited

inductive ActErr where | success | expfail | abort | connectTimeout | loginTimeout deriving DecidableEq, Repr, Inhabited

structure Action where
  uid : Nat
  com : Nat
  exec : List ExecCtx
  clientId : Nat
  telemetry : Bool
  errnum : ActErr
  timeStamp : Option Time
  delayStart : Time
  arglist : Nat
deriving Repr, Inhabited

/-- one recorded call of regexec: pattern, subject, answer (offset pairs, none = no match) -/
structure RxCall where
  pat : Nat
  subject : Bytes
  answer : Option (List (Int × Int))
deriving Repr

structure Dev where
  plugs : List Plug
  scripts : Nat → Option (List Stmt)
  timeout : Time
  acts : List Action
  toBuf : Bytes
  fromBuf : Bytes
  xmStr : Option Bytes                     -- xmatch: subject copy of the last successful exec
  xmOffs : List (Int × Int)
  xmResult : Bool
  xmUsed : Bool
  args : List (Nat × List Arg)             -- arglists by id
  nextUid : Nat
  shortCircuitDelay : Bool
  wake : Option Time := none             -- scratch: time left registered by a stalled delay in this pass
  connected : Bool := true               -- legacy flag of Dev.lean (unused here)
  retryCount : Nat := 0
  lastRetry : Time := 0
  conn : Nat := 0                        -- 0 NOT_CONNECTED, 1 CONNECTING, 2 CONNECTED
  loggedIn : Bool := false
  fd : Option Nat := none                -- dev->fd; may be stale (F6)
  naddr : Nat := 1                       -- length of tcp->addrs (what getaddrinfo gave; tcp_create exits on an empty list)
  cur : Option Nat := some 0             -- tcp->cur as an index into tcp->addrs; none = NULL (list exhausted)
  tstate : Nat := 0                      -- telnet: 0 NONE, 1 CMD, 2 OPT
  tcmd : UInt8 := 0
  statConnects : Nat := 0
  statActions : Nat := 0                 -- stat_successful_actions
  isPipe : Bool := false                 -- coprocess transport (device_pipe.c) instead of tcp
  cpid : Option Nat := none
  pingPeriod : Time := 0                 -- 0 = none
  lastPing : Option Time := none         -- none = never (timerclear: the epoch)
  fromSize : Nat := 1024                 -- dev->from->size: MIN_DEV_BUF at dev_create, grows up to MAX_DEV_BUF, never shrinks, survives reconnects

inductive Out where
  | sent (b : Bytes)
  | finish (cid : Nat) (err : ActErr)
  | telemetry (cid : Nat) (text : Bytes)
  | diag (cid : Nat) (text : Bytes)
  | rxMismatch (want : RxCall) (got : Nat × Bytes)      -- the mirror asked the oracle something else
  | abortAssert (site : String)
deriving Repr

/-! ### helpers -/
def str (s : String) : Bytes := s.toUTF8.toList

def isPrint (b : UInt8) : Bool := 32 ≤ b.toNat && b.toNat ≤ 126

def octal (n : Nat) : Bytes := (Nat.toDigits 8 n).map fun c => c.toNat.toUInt8
/-- `dbg_memstr`: visible text only (the byte is converted through `unsigned char`) -/
def memstr (bs : Bytes) : Bytes :=
  bs.flatMap fun b =>
    if b == 13 then str "\\r" else if b == 10 then str "\\n" else if b == 9 then str "\\t"
    else if isPrint b then [b]
    else
      let ds := octal b.toNat
      let ds := List.replicate (3 - ds.length) (48 : UInt8) ++ ds
      (92 : UInt8) :: ds

/-- does `dbg_memstr` write past its `4*len+1` bytes?  Every escape is at most `\\ooo` plus the terminator
    `sprintf`/`strcpy` append: 5 bytes written at an offset that advances by 4 (2+1 for `\\r`, `\\n`, `\\t`).
    (Before the repair of F2 a byte ≥ 0x80 was printed as 11 octal digits; `memstrOverflows_false` in
    `Props/C07` shows the repaired arithmetic never overflows.) -/
def memstrOverflows (bs : Bytes) : Bool :=
  let cap := 4 * bs.length + 1
  (bs.foldl (fun (acc : Nat × Bool) b =>
      let (j, bad) := acc
      if b == 13 || b == 10 || b == 9 then (j + 2, bad || j + 3 > cap)
      else if isPrint b then (j + 1, bad || j + 1 > cap)
      else (j + 4, bad || j + 5 > cap)) (0, false)).2

def teleMem (cid : Nat) (pre : String) (bs : Bytes) : List Out :=
  if memstrOverflows bs then [Out.abortAssert "dbg_memstr writes past its buffer (F2)"]
  else [Out.telemetry cid (str pre ++ memstr bs ++ str "'")]

/-- `hsprintf(fmt, arg)` for the single optional string argument -/
def hsprintf : Bytes → Option Bytes → Bytes
  | [], _ => []
  | 37 :: 37 :: r, a => 37 :: hsprintf r a
  | 37 :: 115 :: r, some arg => arg ++ hsprintf r none
  | 37 :: 115 :: r, none => str "(null)" ++ hsprintf r none
  | c :: r, a => c :: hsprintf r a

/-- `xregex_match_sub_strdup`: `NULL` when nothing was matched yet (`!xm_used`; no longer an assert), when the last match
    failed, when the index is out of range or the group is unset -/
def subOf (d : Dev) (i : Int) : Option Bytes :=
  if !d.xmUsed || !d.xmResult || i < 0 then none else
  match d.xmOffs[i.toNat]? with
  | some (so, eo) => if so == -1 then none else
      (d.xmStr.map fun s => (s.drop so.toNat).take (eo - so).toNat)
  | none => none

def findPlug (d : Dev) (name : Bytes) : Option Plug :=
  match d.plugs.find? (·.name == name) with
  | some p => if p.node.isSome then some p else none
  | none => none

def getArgs (d : Dev) (id : Nat) : List Arg := (d.args.lookup id).getD []
def setArgs (d : Dev) (id : Nat) (as : List Arg) : Dev := { d with args := (id, as) :: d.args.filter (·.1 ≠ id) }

/-- the oracle: answers are consumed in call order and checked against what the mirror asks -/
structure Oracle where
  calls : List RxCall

def askRx (o : Oracle) (pat : Nat) (subject : Bytes) : Oracle × Option (List (Int × Int)) × List Out :=
  match o.calls with
  | c :: rest =>
    if c.pat == pat && c.subject == subject then ({ calls := rest }, c.answer, [])
    else ({ calls := rest }, c.answer, [.rxMismatch c (pat, subject)])
  | [] => (o, none, [.rxMismatch ⟨0, [], none⟩ (pat, subject)])

def isRanged (com : Nat) : Bool := com == 8 || com == 11 || com == 14 || com == 17 || com == 24 || com == 26

/-- the `%s` argument of a ranged send: `hostlist_create(NULL)`, `hostlist_push` of every plug name,
    `hostlist_sort`, `hostlist_ranged_string` — through the hostlist mirror; `none` = the sort assert (F19) -/
def rangedNames (names : List Bytes) : Option Bytes :=
  let toChars (b : Bytes) : List Char := b.map fun x => Char.ofNat x.toNat
  match Pm.sortHL ((names.map toChars).foldl Pm.pushHost []) with
  | .ok hl => some ((Pm.rangedString hl).map fun c => c.toNat.toUInt8)
  | .abort => none
  | .fuel => none      -- modelling artefact (iteration bound of the sort mirror exhausted, never observed): treated like the assert


def pickState (askf : Oracle → Nat → Bytes → Oracle × Option (List (Int × Int)) × List Out) (s : Bytes) :
    List (PState × Nat) → Oracle → List Out → Oracle × PState × List Out
  | [], o, errs => (o, .unknown, errs)
  | (st, pat) :: r, o, errs =>
    let (o, ans, e2) := askf o pat s
    if ans.isSome then (o, st, errs ++ e2) else pickState askf s r o (errs ++ e2)

def pickResult (askf : Oracle → Nat → Bytes → Oracle × Option (List (Int × Int)) × List Out) (s : Bytes) :
    List (PResult × Nat) → Oracle → List Out → Oracle × PResult × List Out
  | [], o, errs => (o, .unknown, errs)
  | (res, pat) :: r, o, errs =>
    let (o, ans, e2) := askf o pat s
    if ans.isSome then (o, res, errs ++ e2) else pickResult askf s r o (errs ++ e2)

def nextPlug (isNode : Bool) (lst : List Plug) : Nat → Nat → Option (Plug × Nat)
  | _, 0 => none
  | k, f + 1 => match lst[k]? with
    | none => none
    | some p => if isNode && p.node.isNone then nextPlug isNode lst (k + 1) f else some (p, k + 1)

structure StepR where
  dev : Dev
  act : Action
  oracle : Oracle
  out : List Out
  finished : Bool

def topCtx (a : Action) : ExecCtx := a.exec.headD default
def setTop (a : Action) (e : ExecCtx) : Action := { a with exec := e :: a.exec.drop 1 }

/-- `xregex_match_recycle(dev->xmatch)`: `xm_str := NULL; xm_result := -1; xm_used := false` (the offsets array is left as it is) -/
def recycle (d : Dev) : Dev := { d with xmStr := none, xmResult := false, xmUsed := false }

/-- `_process_expect` -/
def stmtExpect (d : Dev) (a : Action) (o : Oracle) (pat : Nat) : StepR :=
  -- xregex_match_recycle; _getregex_buf
  let d := { d with xmStr := none, xmResult := false, xmUsed := false }
  if d.fromBuf.isEmpty then ⟨d, a, o, [], false⟩ else
  let subject := d.fromBuf.map fun b => if b == 0 then 255 else b
  let (o, ans, errs) := askRx o pat subject
  let d := { d with xmUsed := true }
  match ans with
  | none => ⟨{ d with xmResult := false }, a, o, errs, false⟩
  | some offs =>
    let eo := (offs.headD (0, 0)).2.toNat
    let d := { d with xmResult := true, xmStr := some subject, xmOffs := offs, fromBuf := d.fromBuf.drop eo }
    let tele := if a.telemetry then teleMem a.clientId "recv(dev): '" (subject.take eo) else []
    ⟨d, a, o, errs ++ tele, true⟩

/-- what `cbuf_peek(dev->to)` shows after `cbuf_write(dev->to, …)` made the buffer hold `b` = (what was queued ++ what is
    written): `dev->to` is a `cbuf_create(MIN_DEV_BUF, MAX_DEV_BUF)` in liblsd's default overwrite mode (`CBUF_WRAP_MANY`), it
    grows up to `MAX_DEV_BUF` = 65536 bytes and then the oldest unsent bytes give way to the new ones (`cbuf_writer`:
    `i_out = i_rep = i_in + 1`, `used = size`); of a single write longer than the buffer only the last 65536 bytes survive.
    Equal to `b.drop (b.length - 65536)` (`Pm/ToBuf.lean`: `clipTo_eq_drop`); written with the comparison first because
    the kernel evaluates `n - 65536` for an unknown `n` by 65536 nested `Nat.pred`s ("deep recursion") wherever it has to
    look into the result, while `65536 < n` gets stuck at once. -/
def clipTo (b : Bytes) : Bytes := if 65536 < b.length then b.drop (b.length - 65536) else b

/-- `dropped > 0` after `cbuf_write(dev->to, s, |s|, &dropped)` with `old` queued: `cbuf_grow` gives room up to
    `MAX_DEV_BUF`, so `dropped = max 0 (|old| + |s| - 65536)` -/
def toOverrun (old s : Bytes) : Bool := 65536 < (old ++ s).length

/-- `_process_send` -/
def stmtSend (d : Dev) (a : Action) (o : Oracle) (e : ExecCtx) (fmt : Bytes) : StepR :=
  if !e.processing then
    let so : Option Bytes := match e.plugs with
      | some (p :: q :: r) => (rangedNames ((p :: q :: r).map (·.name))).map fun n => hsprintf fmt (some n)
      | some [p] => some (hsprintf fmt (some p.name))
      | _ => some (hsprintf fmt none)
    match so with
    | none => ⟨d, a, o, [.abortAssert "hostlist_sort assert in _process_send"], true⟩
    | some s =>
    -- `written = cbuf_write(dev->to, str, strlen(str), &dropped)`: an overrun (`dropped > 0`) is logged and the telemetry
    -- line is *not* produced (`else if (dropped > 0) err(…) else { … vpf_fun(…) }`)
    let tele := if toOverrun d.toBuf s then [] else if a.telemetry then teleMem a.clientId "send(dev): '" s else []
    let d := { d with toBuf := clipTo (d.toBuf ++ s) }
    let a := setTop a { e with processing := true }
    if d.toBuf.isEmpty then ⟨d, setTop a { e with processing := false }, o, [.sent s] ++ tele, true⟩
    else ⟨d, a, o, [.sent s] ++ tele, false⟩
  else if d.toBuf.isEmpty then ⟨d, setTop a { e with processing := false }, o, [], true⟩
  else ⟨d, a, o, [], false⟩

/-- `_process_delay` -/
def stmtDelay (d : Dev) (a : Action) (o : Oracle) (e : ExecCtx) (now : Time) (us : Time) : StepR :=
  let (a, tele) := if !e.processing then
      (setTop { a with delayStart := now } { e with processing := true },
       if a.telemetry then [Out.telemetry a.clientId (str s!"delay(dev): {us / 1000000}.{String.mk (List.replicate (6 - (toString (us % 1000000)).length) '0')}{us % 1000000}")] else [])
    else (a, [])
  if d.shortCircuitDelay || now ≥ a.delayStart + us then ⟨d, setTop a { (topCtx a) with processing := false }, o, tele, true⟩
  else ⟨{ d with wake := some (a.delayStart + us - now) }, a, o, tele, false⟩

/-- `_process_setplugstate` -/
def stmtSetplugstate (d : Dev) (a : Action) (o : Oracle) (e : ExecCtx) (lit : Option Bytes) (plugMp statMp : Int) (interps : List (PState × Nat)) : StepR :=
  let plugName : Option Bytes := match lit with
    | some n => some n
    | none => match subOf d plugMp with
      | some n => some n
      | none => match e.plugs with
        | some (p :: _) => some p.name
        | _ => none
  match plugName with
  | none => ⟨d, a, o, [], true⟩
  | some pn =>
    match subOf d statMp, findPlug d pn with
    | some s, some plug =>
      -- first matching interpretation
      let (o, st, errs) := pickState askRx s interps o []
      let node := plug.node.getD []
      let as := (getArgs d a.arglist).map fun g => if g.node == node then { g with state := st, val := some s } else g
      ⟨setArgs d a.arglist as, a, o, errs, true⟩
    | _, _ => ⟨d, a, o, [], true⟩

/-- `_process_setresult` -/
def stmtSetresult (d : Dev) (a : Action) (o : Oracle) (plugMp statMp : Int) (interps : List (PResult × Nat)) : StepR :=
  match subOf d plugMp with
  | none => ⟨d, a, o, [], true⟩
  | some pn =>
    match subOf d statMp, findPlug d pn with
    | some s, some plug =>
      let (o, res, errs) := pickResult askRx s interps o []
      let node := plug.node.getD []
      let found := (getArgs d a.arglist).any (·.node == node)
      let as := (getArgs d a.arglist).map fun g => if g.node == node then { g with result := res, val := some s } else g
      let dg := if found && res != .success then
          let txt := s.takeWhile fun b => b != 13 && b != 10
          [Out.diag a.clientId (node ++ str ": " ++ txt.take 1023)] else []
      ⟨setArgs d a.arglist as, a, o, errs ++ dg, true⟩
    | _, _ => ⟨d, a, o, [], true⟩

/-- `_process_foreach` -/
def stmtForeach (d : Dev) (a : Action) (o : Oracle) (e : ExecCtx) (body : List Stmt) (isNode : Bool) : StepR :=
  let (lst, e1) :=
    if e.plugItr.isNone && isRanged a.com then
      let cp := e.plugCopy.getD (e.plugs.getD [])
      (cp, { e with plugCopy := some cp, plugItr := some 0 })
    else if e.plugItr.isNone then (d.plugs, { e with plugItr := some 0 })
    else (if isRanged a.com then e.plugCopy.getD [] else d.plugs, e)
  match nextPlug isNode lst (e1.plugItr.getD 0) (lst.length + 1) with
  | some (p, k) =>
    let newCtx : ExecCtx := { block := body, pos := 0, plugs := some [p], plugItr := none, plugCopy := none, processing := false }
    ⟨d, { a with exec := newCtx :: { e1 with plugItr := some k } :: a.exec.drop 1 }, o, [], true⟩
  | none => ⟨d, setTop a { e1 with plugItr := none }, o, [], true⟩

/-- `_process_ifonoff` -/
def stmtIf (d : Dev) (a : Action) (o : Oracle) (e : ExecCtx) (body : List Stmt) (wantOn : Bool) : StepR :=
  if e.processing then ⟨d, setTop a { e with processing := false }, o, [], true⟩ else
  let st : PState := match e.plugs with
    | some (p :: _) => match p.node with
      | some n => match (getArgs d a.arglist).find? (fun (g : Arg) => g.node == n) with
        | some g => g.state
        | none => PState.unknown
      | none => PState.unknown
    | _ => PState.unknown
  if (wantOn && st == .on) || (!wantOn && st == .off) then
    let newCtx : ExecCtx := { block := body, pos := 0, plugs := some (e.plugs.getD []), plugItr := none, plugCopy := none, processing := false }
    ⟨d, { a with exec := newCtx :: { e with processing := true } :: a.exec.drop 1 }, o, [], true⟩
  else if st == .unknown then ⟨d, { a with errnum := .expfail }, o, [], true⟩
  else ⟨d, a, o, [], true⟩

/-- `_process_stmt` on the top context -/
def processStmt (d : Dev) (a : Action) (o : Oracle) (now : Time) : StepR :=
  let e := topCtx a
  match e.block[e.pos]? with
  | none => ⟨d, a, o, [.abortAssert "cur == NULL"], true⟩
  | some (.expect pat) => stmtExpect d a o pat
  | some (.send fmt) => stmtSend d a o e fmt
  | some (.delay us) => stmtDelay d a o e now us
  | some (.setplugstate lit plugMp statMp interps) => stmtSetplugstate d a o e lit plugMp statMp interps
  | some (.setresult plugMp statMp interps) => stmtSetresult d a o plugMp statMp interps
  | some (.foreachplug body) => stmtForeach d a o e body false
  | some (.foreachnode body) => stmtForeach d a o e body true
  | some (.ifon body) => stmtIf d a o e body true
  | some (.ifoff body) => stmtIf d a o e body false

def rtab : List Nat := [1, 2, 4, 8, 15, 30, 60]

/-- what the kernel answers during one pass, consumed in call order -/
structure Env where
  now : Time
  revents : Nat                        -- XPOLLIN 1, OUT 2, HUP 4, ERR 8, NVAL 16
  sockets : List Nat                   -- descriptors returned by socket()
  connects : List Nat                  -- 0 connected at once, 1 EINPROGRESS, 2 failed at once
  soerrs : List Nat                    -- getsockopt(SO_ERROR)
  read : Option (Option Bytes)         -- none: not asked; some none: error; some (some []): EOF
  writeOk : Bool
  pairs : List Nat := []               -- first descriptor of each socketpair()
  pids : List Nat := []                -- fork() results
  wcap : Nat := 1 <<< 30               -- bytes the descriptor takes in this pass when `writeOk` (0: EAGAIN)

inductive Sys where
  | socket (fd : Nat) | connect (ans : Nat) | soerror (e : Nat) | close (fd : Nat)
  | read (n : Int) | write (b : Bytes) (ok : Bool)
  | abort (site : String)
  | socketpair (a b : Nat) | fork (pid : Nat) | kill (pid : Nat) | waitpid (pid : Nat)
deriving Repr

structure CS where
  dev : Dev
  env : Env
  sys : List Sys
  aborted : Bool := false

def upd (t : Option Time) (left : Time) : Option Time := match t with | some x => some (min x left) | none => some left

/-- `_rewind_action`: inner contexts dropped, outer block back to its first statement, `processing` cleared
    and the plug iterator dropped (the plug copy of a ranged action is kept: it is a copy of `plugs`) -/
def rewind (a : Action) : Action :=
  match a.exec.getLast? with
  | some outer => { a with exec := [{ outer with pos := 0, processing := false, plugItr := none }] }
  | none => a

def loginAction (d : Dev) : Action :=
  { uid := 0, com := 0, exec := [{ block := (d.scripts 0).getD [], pos := 0, plugs := none, plugItr := none, plugCopy := none, processing := false }],
    clientId := 0, telemetry := false, errnum := .success, timeStamp := none, delayStart := 0, arglist := 0 }

def enqueueLogin (d : Dev) : Dev :=
  let acts := match d.acts with | a :: r => rewind a :: r | [] => []
  { d with acts := loginAction d :: acts }

/-- `tcp_finish_connect_one` -/
def finishConnectOne (c : CS) : CS × Bool :=
  match c.env.soerrs with
  | e :: r =>
    let c := { c with env := { c.env with soerrs := r }, sys := c.sys ++ [.soerror e] }
    if e == 0 then ({ c with dev := { c.dev with conn := 2, statConnects := c.dev.statConnects + 1, tstate := 0, tcmd := 0 } }, true)
    else (c, false)
  | [] => ({ c with sys := c.sys ++ [.abort "no SO_ERROR answer"], aborted := true }, false)

/-- `tcp_connect_one` on the current address: `socket`, `setsockopt`, `nonblock_set`, `connect` → 0 (then `SO_ERROR` decides) /
    EINPROGRESS / error; on every failure the socket just opened is closed -/
def connectOne (c : CS) : CS × Bool :=
  match c.env.sockets, c.env.connects with
  | fd :: fr, ans :: ar =>
    let c := { c with env := { c.env with sockets := fr, connects := ar }, sys := c.sys ++ [.socket fd, .connect ans],
                      dev := { c.dev with fd := some fd } }
    if ans == 0 then
      let (c, ok) := finishConnectOne c
      if ok then (c, true) else ({ c with sys := c.sys ++ [.close fd], dev := { c.dev with fd := none } }, false)
    else if ans == 1 then (c, true)
    else ({ c with sys := c.sys ++ [.close fd], dev := { c.dev with fd := none } }, false)   -- close(dev->fd); dev->fd = NO_FD
  | _, _ => ({ c with sys := c.sys ++ [.abort "no socket/connect answer"], aborted := true }, false)

/-- `cur->ai_next` in a list of `naddr` addresses -/
def aiNext (naddr i : Nat) : Option Nat := if i + 1 < naddr then some (i + 1) else none

/-- `while (tcp->cur && !tcp_connect_one(dev, tcp->cur)) tcp->cur = tcp->cur->ai_next;`
    Structurally recursive on a fuel argument: the loop makes at most one iteration per address (`naddr` of them, the fuel
    both callers give); with the fuel used up the list is exhausted (`Pm/CurInv.lean`, `connectWalk_fuel`: with `cur` inside the
    list and `naddr` fuel the last clause is reached only with `cur = NULL` already). -/
def connectWalk : Nat → CS → CS
  | 0, c => { c with dev := { c.dev with cur := none } }
  | fuel + 1, c =>
    match c.dev.cur with
    | none => c
    | some i =>
      if (connectOne c).2 then (connectOne c).1
      else connectWalk fuel { (connectOne c).1 with dev := { (connectOne c).1.dev with cur := aiNext c.dev.naddr i } }

/-- `tcp_connect`: every attempt starts over at the first address (fix b7c4c70) -/
def tcpConnect (c : CS) : CS × Bool :=
  if c.dev.conn != 0 then ({ c with sys := c.sys ++ [.abort "assert connect_state == NOT_CONNECTED"], aborted := true }, false) else
  if c.dev.fd.isSome then ({ c with sys := c.sys ++ [.abort "assert fd == NO_FD"], aborted := true }, false) else
  let c := { c with dev := { c.dev with conn := 1, cur := some 0 } }    -- tcp->cur = tcp->addrs
  let c := connectWalk c.dev.naddr c
  let c := if c.dev.cur.isNone then { c with dev := { c.dev with conn := 0 } } else c   -- "connection refused"
  (c, c.dev.conn == 2)

/-- `pipe_connect`: socketpair, fork, the parent closes its half of the child's end; connected at once -/
def pipeConnect (c : CS) : CS × Bool :=
  if c.dev.conn != 0 then ({ c with sys := c.sys ++ [.abort "assert connect_state == NOT_CONNECTED"], aborted := true }, false) else
  if c.dev.fd.isSome then ({ c with sys := c.sys ++ [.abort "assert fd == NO_FD"], aborted := true }, false) else
  match c.env.pairs, c.env.pids with
  | fa :: pr, pid :: qr =>
    ({ c with env := { c.env with pairs := pr, pids := qr },
              sys := c.sys ++ [.socketpair fa (fa + 1), .fork pid, .close (fa + 1)],
              dev := { c.dev with fd := some fa, conn := 2, statConnects := c.dev.statConnects + 1, cpid := some pid } }, true)
  | _, _ => ({ c with sys := c.sys ++ [.abort "no socketpair/fork answer"], aborted := true }, false)

/-- `_connect` -/
def connectDev (c : CS) : CS :=
  let c := { c with dev := { c.dev with lastRetry := c.env.now, retryCount := c.dev.retryCount + 1 } }
  let (c, connected) := if c.dev.isPipe then pipeConnect c else tcpConnect c
  if connected && !c.aborted then { c with dev := enqueueLogin c.dev } else c

/-- `_disconnect` (with `tcp_disconnect` / `pipe_disconnect`: the coprocess is sent SIGTERM and waited for) -/
def disconnectDev (c : CS) : CS :=
  let c := match c.dev.fd with
    | some fd => { c with sys := c.sys ++ [Sys.close fd], dev := { c.dev with fd := none } }
    | none => c
  let c := match c.dev.isPipe, c.dev.cpid with
    | true, some pid => { c with sys := c.sys ++ [Sys.kill pid, Sys.waitpid pid], dev := { c.dev with cpid := none } }
    | _, _ => c
  let acts := match c.dev.acts with | a :: r => if a.com == 0 then r else a :: r | [] => []
  { c with dev := { c.dev with toBuf := [], fromBuf := [], conn := 0, loggedIn := false, acts := acts } }

def timeToReconnect (d : Dev) (now : Time) : Bool × Option Time :=
  if d.retryCount > 0 then
    let wait := (rtab.getD (min (d.retryCount - 1) 6) 60) * 1000000
    if now ≥ d.lastRetry + wait then (true, none) else (false, some (d.lastRetry + wait - now))
  else (true, none)

/-- `_reconnect` -/
def reconnectDev (c : CS) (tmo : Option Time) : CS × Option Time :=
  let c := if c.dev.conn != 0 then disconnectDev c else c
  match timeToReconnect c.dev c.env.now with
  | (true, _) => (connectDev c, tmo)
  | (false, some left) => (c, upd tmo left)
  | (false, none) => (c, tmo)

/-- `_telnet_preprocess`: only the bytes that arrived with this read go through the state machine -/
def telnetStep (st : Nat) (cmd : UInt8) (b : UInt8) : Nat × UInt8 × List UInt8 × List UInt8 :=   -- state, cmd, kept, reply
  if st == 0 then (if b == 255 then (1, cmd, [], []) else (0, cmd, [b], []))
  else if st == 1 then
    (if b == 255 then (0, cmd, [b], [])
     else if b == 254 || b == 253 || b == 252 || b == 251 then (2, b, [], [])
     else (0, cmd, [], []))
  else
    let reply : List UInt8 :=
      if cmd == 253 then
        (if b == 3 || b == 6 then [255, 251, b]
         else if b == 24 || b == 31 || b == 39 || b == 35 || b == 32 || b == 1 || b == 33 || b == 0 then [255, 252, b]
         else [])
      else []
    (0, cmd, [], reply)

def telnetFilter (d : Dev) (new : Bytes) : Dev :=
  let (st, cmd, kept, reply) := new.foldl (fun (acc : Nat × UInt8 × List UInt8 × List UInt8) b =>
      let (st, cmd, kept, reply) := acc
      let (st', cmd', k, r) := telnetStep st cmd b
      (st', cmd', kept ++ k, reply ++ r)) (d.tstate, d.tcmd, [], [])
  -- every answer is one `cbuf_write(dev->to, str, 3, NULL)` (`_telnet_sendopt`): what survives of a sequence of overwriting
  -- writes is what survives of their concatenation (`Pm/ToBuf.lean`: `clipTo_clipTo_append`)
  { d with tstate := st, tcmd := cmd, fromBuf := d.fromBuf ++ kept, toBuf := clipTo (d.toBuf ++ reply) }

/-- `MAX_DEV_BUF` -/
def devBufMax : Nat := 65536

/-- what `cbuf_write_from_fd(dev->from, dev->fd, -1, &dropped)` decides before any byte lands (`Pm.Cbuf.readPlan`):
    `(n, size', dropped)` for what the kernel has (nothing on an error) -/
def devReadPlan (d : Dev) (r : Option Bytes) : Nat × Nat × Nat :=
  Pm.Cbuf.readPlan d.fromSize d.fromBuf.length devBufMax (match r with | some bs => bs.length | none => 0)

/-- the capacity half of `_handle_read`: the buffer is grown if it is full (also when the `read` then fails), the kernel's
    answer is cut to the `n` bytes asked for, and the `dropped` oldest unread bytes give way (only a full buffer at
    `MAX_DEV_BUF` overwrites).  What the rest of `_handle_ready_device` sees as "the bytes read" is the clipped answer. -/
def clipRead (c : CS) : CS :=
  match c.env.read with
  | some r =>
    { c with env := { c.env with read := some (r.map fun bs => bs.take (devReadPlan c.dev r).1) },
             dev := { c.dev with fromSize := (devReadPlan c.dev r).2.1, fromBuf := c.dev.fromBuf.drop (devReadPlan c.dev r).2.2 } }
  | none => c

/-- `close(dev->fd); dev->fd = NO_FD` -/
def closeFd (c : CS) : CS :=
  match c.dev.fd with
  | some fd => { c with sys := c.sys ++ [Sys.close fd], dev := { c.dev with fd := none } }
  | none => c

/-- `tcp_finish_connect` when `SO_ERROR` reports a failure: `close(dev->fd); dev->fd = NO_FD; tcp->cur = tcp->cur->ai_next;` the
    walk goes on with the remaining addresses; `cur == NULL` afterwards: `DEV_NOT_CONNECTED` ("connection refused") -/
def finishConnectFail (c : CS) : CS :=
  match (closeFd c).dev.cur with
  | none =>       -- `tcp->cur->ai_next` with `cur == NULL` (never: CONNECTING implies `cur != NULL`, `Pm/CurInv.lean`): the process is gone
    { closeFd c with sys := (closeFd c).sys ++ [Sys.abort "tcp->cur == NULL in tcp_finish_connect"], aborted := true,
                     dev := { (closeFd c).dev with conn := 0 } }
  | some i =>
    let c := connectWalk (closeFd c).dev.naddr { closeFd c with dev := { (closeFd c).dev with cur := aiNext (closeFd c).dev.naddr i } }
    if c.dev.cur.isNone then { c with dev := { c.dev with conn := 0 } } else c

/-- `_handle_ready_device`: returns ioerr -/
def handleReady (c : CS) : CS × Bool :=
  let f := c.env.revents
  if c.dev.conn == 0 then ({ c with sys := c.sys ++ [.abort "assert connect_state != NOT_CONNECTED"], aborted := true }, false) else
  if c.dev.fd.isNone then ({ c with sys := c.sys ++ [.abort "assert fd != NO_FD"], aborted := true }, false) else
  if f &&& 4 != 0 || f &&& 8 != 0 || f &&& 16 != 0 then (c, true) else
  -- ready for writing
  let (c, ioerr, skipRead) :=
    if f &&& 2 != 0 then
      if c.dev.conn == 1 then
        -- `assert(dev->finish_connect != NULL)`: only a tcp device has the method (a coprocess is connected at once, never CONNECTING)
        if c.dev.isPipe then ({ c with sys := c.sys ++ [.abort "assert finish_connect != NULL"], aborted := true }, false, true) else
        let (c, ok) := finishConnectOne c
        let c := if ok then c else finishConnectFail c
        if c.dev.conn == 0 then (c, true, true)
        else if c.dev.conn == 2 then ({ c with dev := enqueueLogin c.dev }, false, true)
        else (c, false, true)
      else
        if c.dev.toBuf.isEmpty then (c, true, false)        -- cbuf_read_to_fd with nothing to write returns 0 → "write sent no data" → ioerr
        else if c.env.writeOk then
          -- `cbuf_read_to_fd(dev->to, fd, -1)`: the kernel takes `wcap` bytes, the rest stays queued; EAGAIN is an error
          if c.env.wcap == 0 then ({ c with sys := c.sys ++ [.write [] true] }, true, false)
          else ({ c with sys := c.sys ++ [.write (c.dev.toBuf.take c.env.wcap) true], dev := { c.dev with toBuf := c.dev.toBuf.drop c.env.wcap } }, false, false)
        else ({ c with sys := c.sys ++ [.write c.dev.toBuf false] }, true, false)
    else (c, false, false)
  if ioerr then (c, true) else
  if skipRead then (c, false) else
  if f &&& 1 != 0 then
    let c := clipRead c
    match c.env.read with
    | some (some bs) =>
      if bs.isEmpty then ({ c with sys := c.sys ++ [.read 0] }, true)
      else ({ c with sys := c.sys ++ [.read bs.length],
                     dev := if c.dev.isPipe then { c.dev with fromBuf := c.dev.fromBuf ++ bs } else telnetFilter c.dev bs }, false)
    | some none => ({ c with sys := c.sys ++ [.read (-1)] }, true)
    | none => ({ c with sys := c.sys ++ [.abort "no read answer"], aborted := true }, false)
  else (c, false)

/-- do { e = top; stalled = !process(e) } while (e != top) -/
def innerLoop (now : Time) : Nat → Dev → Action → Oracle → List Out → StepR
  | 0, d, a, o, acc => let r := processStmt d a o now; { r with out := acc ++ r.out }
  | fuel + 1, d, a, o, acc =>
    let depth := a.exec.length
    let r := processStmt d a o now
    if r.finished && r.act.exec.length > depth then innerLoop now fuel r.dev r.act r.oracle (acc ++ r.out)
    else { r with out := acc ++ r.out }

mutual
/-- nesting depth of block statements: 0 for a statement without a block -/
def depthS : Stmt → Nat
  | .foreachplug b => depthB b + 1
  | .foreachnode b => depthB b + 1
  | .ifon b => depthB b + 1
  | .ifoff b => depthB b + 1
  | _ => 0
def depthB : List Stmt → Nat
  | [] => 0
  | s :: r => max (depthS s) (depthB r)
end

/-- fuel for the `do … while` of `_process_action` (which has no bound in C): every iteration but the last pushes the
    body of a block statement of the block the action stands in, so the loop makes at most `depthB` + 1 iterations and
    this fuel is never used up (`Pm/InterpPass.lean`: `innerLoop_trip`) -/
def loopBound (a : Action) : Nat := depthB (topCtx a).block + 1

mutual
/-- upper bound on the statements one run of a block can execute with `np` plugs -/
def weight (np : Nat) : Stmt → Nat
  | .foreachplug b => 2 + (np + 1) * (weights np b + 1)
  | .foreachnode b => 2 + (np + 1) * (weights np b + 1)
  | .ifon b => 2 + weights np b
  | .ifoff b => 2 + weights np b
  | _ => 1
def weights (np : Nat) : List Stmt → Nat
  | [] => 0
  | s :: r => weight np s + weights np r
end

/-- iterations of `_process_action`'s loop that one pass can need: every iteration but the last one executes a
    statement to completion or ends a block -/
def passFuel (d : Dev) : Nat :=
  d.acts.foldl (fun n a => n + 2 * (weights d.plugs.length ((d.scripts a.com).getD []) + 2)) 2

abbrev PA := CS × Oracle × List Out × Option Time

def hasAbort (l : List Out) : Bool := l.any fun x => match x with | .abortAssert _ => true | _ => false

/-- error branch of `_process_action`: the head and everything queued behind it are completed with an error (the match object is
    recycled when the head is destroyed: fix e0ac8ce), then — if connected — `_reconnect` and leave the loop -/
def failAll (rest : List Action) (c : CS) (a : Action) (o : Oracle) (out : List Out) (tmo : Option Time) : PA :=
  let res := a.errnum
  let fin := (if a.clientId != 0 then [Out.finish a.clientId res] else []) ++
    (rest.filter (·.clientId != 0)).map fun b => Out.finish b.clientId (if res == .expfail then .abort else res)
  let c := { c with dev := { c.dev with acts := [], xmStr := none, xmResult := false, xmUsed := false } }
  if c.dev.conn == 2 then
    let (c, tmo) := reconnectDev c tmo
    (c, o, out ++ fin, tmo)                                   -- break
  else (c, o, out ++ fin, tmo)

/-- the head's deadline has passed -/
def onTimeout (rest : List Action) (c : CS) (a : Action) (o : Oracle) (out : List Out) (tmo : Option Time) : PA :=
  let d := c.dev
  let err : ActErr := if d.conn != 2 then .connectTimeout else if !d.loggedIn then .loginTimeout else .expfail
  let tele := if a.telemetry then
      (if d.conn != 2 then [Out.telemetry a.clientId (str "connect(dev): timeout")]
       else teleMem a.clientId "recv(dev): '" d.fromBuf) else []
  if hasAbort tele then ({ c with aborted := true }, o, out ++ tele, tmo)
  else failAll rest c { a with errnum := err } o (out ++ tele) tmo

/-- `e->cur = list_next(e->stmtitr)`; at the end of the block the context is popped -/
def advance (a : Action) : Action :=
  let e := topCtx a
  let e' := { e with pos := e.pos + 1 }
  if e'.block[e'.pos]?.isNone then { a with exec := a.exec.drop 1 } else setTop a e'

/-- connected and in time: run statements; `k` is the rest of the while loop -/
def onRun (k : CS → Oracle → List Out → Option Time → PA) (rest : List Action) (c : CS) (a : Action) (o : Oracle)
    (out : List Out) (tmo : Option Time) (left : Time) : PA :=
  let d := c.dev
  let r := innerLoop c.env.now (loopBound a) { d with wake := none } a o []
  let out := out ++ r.out
  if hasAbort r.out then
    ({ c with dev := { r.dev with acts := r.act :: rest }, aborted := true }, r.oracle, out, tmo) else
  if !r.finished then ({ c with dev := { r.dev with acts := r.act :: rest } }, r.oracle, out,
    upd (match r.dev.wake with | some w => upd tmo w | none => tmo) left)
  else if r.act.errnum == .success then
    let a' := advance r.act
    if a'.exec.isEmpty then
      let fin := if a'.clientId != 0 then [Out.finish a'.clientId .success] else []
      -- `_destroy_action(list_dequeue(dev->acts)); dev->stat_successful_actions++; xregex_match_recycle(dev->xmatch)` (fix e0ac8ce)
      let dev := { r.dev with acts := rest, loggedIn := r.dev.loggedIn || a'.com == 0, statActions := r.dev.statActions + 1, xmStr := none, xmResult := false, xmUsed := false }
      k { c with dev := dev } r.oracle (out ++ fin) tmo
    else k { c with dev := { r.dev with acts := a' :: rest } } r.oracle out tmo
  else failAll rest { c with dev := r.dev } r.act r.oracle out tmo

/-- `if (!timerisset(&act->time_stamp)) gettimeofday(&act->time_stamp)` -/
def stamp (now : Time) (a : Action) : Action := if a.timeStamp.isNone then { a with timeStamp := some now } else a

/-- one iteration of `_process_action`'s while loop; `k` is the rest of the loop -/
def processActionBody (k : CS → Oracle → List Out → Option Time → PA) (c : CS) (o : Oracle) (out : List Out) (tmo : Option Time) : PA :=
  if c.aborted then (c, o, out, tmo) else
  match c.dev.acts with
  | [] => (c, o, out, tmo)
  | a0 :: rest =>
    let now := c.env.now
    let a := stamp now a0
    let deadline := a.timeStamp.getD now + c.dev.timeout
    if now ≥ deadline then onTimeout rest c a o out tmo
    else if c.dev.conn != 2 then
      ({ c with dev := { c.dev with acts := a :: rest } }, o, out, upd tmo (deadline - now))     -- stalled: not connected
    else onRun k rest c a o out tmo (deadline - now)

/-- `_process_action`, structurally recursive on a fuel argument; running out of fuel is reported, never silent -/
def processActionF : Nat → CS → Oracle → List Out → Option Time → PA
  | 0, c, o, out, tmo => ({ c with aborted := true }, o, out ++ [Out.abortAssert "model: fuel exhausted"], tmo)
  | fuel + 1, c, o, out, tmo => processActionBody (processActionF fuel) c o out tmo

def processAction (c : CS) (o : Oracle) (out : List Out) (tmo : Option Time) : CS × Oracle × List Out × Option Time :=
  processActionF (passFuel c.dev) c o out tmo

/-- `dev_post_poll` for the one device -/
def postPoll (d : Dev) (env : Env) (o : Oracle) : CS × Oracle × List Out × Option Time :=
  let c : CS := { dev := d, env := env, sys := [] }
  let flags := if c.dev.fd.isSome then env.revents else 0
  let (c, ioerr) := if flags != 0 then handleReady { c with env := { env with revents := flags } } else (c, false)
  if c.aborted then (c, o, [], none) else
  let (c, tmo) := if ioerr || c.dev.conn == 0 then reconnectDev c none else (c, none)
  -- `_enqueue_ping`: appended every period while connected, whether or not an earlier ping is still queued
  let (c, tmo) :=
    if c.dev.conn == 2 && (c.dev.scripts 6).isSome && c.dev.pingPeriod > 0 then
      match c.dev.lastPing with
      | some t =>
        if env.now ≥ t + c.dev.pingPeriod then
          ({ c with dev := { c.dev with acts := c.dev.acts ++ [{ loginAction c.dev with com := 6, exec := [{ block := (c.dev.scripts 6).getD [], pos := 0, plugs := none, plugItr := none, plugCopy := none, processing := false }] }], lastPing := some env.now } }, tmo)
        else (c, upd tmo (t + c.dev.pingPeriod - env.now))
      | none =>
        ({ c with dev := { c.dev with acts := c.dev.acts ++ [{ loginAction c.dev with com := 6, exec := [{ block := (c.dev.scripts 6).getD [], pos := 0, plugs := none, plugItr := none, plugCopy := none, processing := false }] }], lastPing := some env.now } }, tmo)
    else (c, tmo)
  processAction c o [] tmo

/-- `dev_pre_poll`: interest flags for the device descriptor -/
def prePoll (d : Dev) : Option (Nat × Nat) :=
  match d.fd with
  | none => none
  | some fd => some (fd, 1 ||| (if d.conn == 2 && !d.toBuf.isEmpty then 2 else 0) ||| (if d.conn == 1 then 2 else 0))

end Pm.Dev2
