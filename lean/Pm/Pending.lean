/- pilot for C04 / C02 / C11: the bookkeeping between device queues and client commands.
   Abstracts everything except who owns which queued action and who is owed a completion. -/
namespace Pm.Pending

structure Action where
  cid : Nat                -- client id; 0 = internal (login, ping): no callback
deriving DecidableEq

structure Cmd where
  pending : Nat
  error : Bool

structure Client where
  id : Nat
  cmd : Option Cmd
  terminals : Nat          -- ghost: terminal replies written for accepted commands
  accepted : Nat           -- ghost: commands accepted so far

structure State where
  clients : List Client
  queues : List (List Action)       -- one FIFO per device
  nextId : Nat

def queued (s : State) (cid : Nat) : Nat := (s.queues.map fun q => q.countP (·.cid = cid)).sum

/-- `_act_finish(client_id, err)` -/
def finishOne (cid : Nat) (err : Bool) (cl : List Client) : List Client :=
  cl.map fun c =>
    if c.id = cid then
      match c.cmd with
      | some cmd =>
        if cmd.pending = 1 then { c with cmd := none, terminals := c.terminals + 1 }     -- reply + prompt
        else { c with cmd := some { pending := cmd.pending - 1, error := cmd.error || err } }
      | none => c            -- would be `assert(c->cmd != NULL)`: shown unreachable below
    else c

inductive Ev where
  | newClient
  | gone (cid : Nat)                               -- client destroyed at any moment
  | request (cid : Nat) (perDev : List Nat)        -- accepted line: perDev[i] actions appended to queue i
  | complete (dev : Nat) (err : Bool)              -- head of queue `dev` leaves (success or error)
  | login (dev : Nat)                              -- internal action prepended

def appendN (q : List Action) (cid n : Nat) : List Action := q ++ List.replicate n ⟨cid⟩

def zipAppend (cid : Nat) : List (List Action) → List Nat → List (List Action)
  | q :: qs, n :: ns => appendN q cid n :: zipAppend cid qs ns
  | qs, [] => qs
  | [], _ => []

def totalFor : List (List Action) → List Nat → Nat
  | _ :: qs, n :: ns => n + totalFor qs ns
  | _, _ => 0

def setNth {α} : List α → Nat → α → List α
  | [], _, _ => []
  | _ :: xs, 0, a => a :: xs
  | x :: xs, n + 1, a => x :: setNth xs n a

def step (s : State) : Ev → State
  | .newClient => { s with clients := s.clients ++ [⟨s.nextId, none, 0, 0⟩], nextId := s.nextId + 1 }
  | .gone cid => { s with clients := s.clients.filter (·.id ≠ cid) }
  | .request cid perDev =>
    match s.clients.find? (·.id = cid) with
    | some c =>
      if c.cmd.isSome ∨ cid = 0 then s                                   -- busy: 208, nothing enqueued
      else
        let n := totalFor s.queues perDev
        if n = 0 then s                                                  -- 213, no command installed
        else { s with queues := zipAppend cid s.queues perDev,
                      clients := s.clients.map fun c => if c.id = cid then { c with cmd := some ⟨n, false⟩, accepted := c.accepted + 1 } else c }
    | none => s
  | .complete dev err =>
    match s.queues[dev]? with
    | some (a :: rest) =>
      { s with queues := setNth s.queues dev rest, clients := if a.cid = 0 then s.clients else finishOne a.cid err s.clients }
    | _ => s
  | .login dev =>
    match s.queues[dev]? with
    | some q => { s with queues := setNth s.queues dev (⟨0⟩ :: q) }
    | none => s

/-- the invariant: what a client is owed is exactly what is queued in its name -/
structure Inv (s : State) : Prop where
  owed : ∀ c ∈ s.clients, c.id ≠ 0 ∧ match c.cmd with
    | some cmd => cmd.pending = queued s c.id ∧ 0 < cmd.pending
    | none => queued s c.id = 0
  uniq : s.clients.Pairwise (·.id ≠ ·.id)
  fresh : (∀ c ∈ s.clients, c.id < s.nextId) ∧ (∀ q ∈ s.queues, ∀ a ∈ q, a.cid < s.nextId) ∧ 0 < s.nextId
  ghost : ∀ c ∈ s.clients, c.accepted = c.terminals + (if c.cmd.isSome then 1 else 0)

def init (ndev : Nat) : State := { clients := [], queues := List.replicate ndev [], nextId := 1 }

theorem inv_init (ndev : Nat) : Inv (init ndev) := by
  refine ⟨by simp [init], by simp [init], ⟨by simp [init], ?_, by simp [init]⟩, by simp [init]⟩
  intro q hq a ha
  simp only [init] at hq
  rw [(List.mem_replicate.mp hq).2] at ha
  cases ha

/-! ### list lemmas -/
def cnt (cid : Nat) (qs : List (List Action)) : Nat := (qs.map fun q => q.countP (·.cid = cid)).sum

theorem queued_eq (s : State) (cid : Nat) : queued s cid = cnt cid s.queues := rfl

theorem cnt_setNth_tail (cid : Nat) : ∀ (qs : List (List Action)) (dev : Nat) (a : Action) (rest : List Action),
    qs[dev]? = some (a :: rest) → cnt cid (setNth qs dev rest) + (if a.cid = cid then 1 else 0) = cnt cid qs
  | [], _, _, _, h => by simp at h
  | q :: qs, 0, a, rest, h => by
    simp only [List.getElem?_cons_zero, Option.some.injEq] at h
    subst h
    simp only [setNth, cnt, List.map_cons, List.sum_cons, List.countP_cons]
    split <;> simp_all <;> omega
  | q :: qs, dev + 1, a, rest, h => by
    simp only [List.getElem?_cons_succ] at h
    have := cnt_setNth_tail cid qs dev a rest h
    simp only [setNth, cnt, List.map_cons, List.sum_cons] at this ⊢
    omega

theorem cnt_setNth_cons (cid : Nat) (x : Action) : ∀ (qs : List (List Action)) (dev : Nat) (q : List Action),
    qs[dev]? = some q → cnt cid (setNth qs dev (x :: q)) = cnt cid qs + (if x.cid = cid then 1 else 0)
  | [], _, _, h => by simp at h
  | q0 :: qs, 0, q, h => by
    simp only [List.getElem?_cons_zero, Option.some.injEq] at h
    subst h
    simp only [setNth, cnt, List.map_cons, List.sum_cons, List.countP_cons]
    split <;> simp_all <;> omega
  | q0 :: qs, dev + 1, q, h => by
    simp only [List.getElem?_cons_succ] at h
    have := cnt_setNth_cons cid x qs dev q h
    simp only [setNth, cnt, List.map_cons, List.sum_cons] at this ⊢
    omega

theorem countP_replicate_cid (cid c n : Nat) :
    (List.replicate n (⟨c⟩ : Action)).countP (·.cid = cid) = if c = cid then n else 0 := by
  induction n with
  | zero => simp
  | succ n ih => rw [List.replicate_succ, List.countP_cons, ih]; split <;> simp_all

theorem cnt_zipAppend (cid c : Nat) : ∀ (qs : List (List Action)) (ns : List Nat),
    cnt cid (zipAppend c qs ns) = cnt cid qs + (if c = cid then totalFor qs ns else 0)
  | [], [] => by simp [zipAppend, totalFor, cnt]
  | [], _ :: _ => by simp [zipAppend, totalFor, cnt]
  | _ :: _, [] => by simp [zipAppend, totalFor]
  | q :: qs, n :: ns => by
    have := cnt_zipAppend cid c qs ns
    simp only [zipAppend, totalFor, cnt, appendN, List.map_cons, List.sum_cons, List.countP_append,
      countP_replicate_cid] at this ⊢
    split <;> simp_all <;> omega

theorem mem_setNth {α} : ∀ (l : List α) (n : Nat) (a x : α), x ∈ setNth l n a → x = a ∨ x ∈ l
  | [], _, _, _, h => by simp [setNth] at h
  | _ :: xs, 0, a, x, h => by
    simp only [setNth, List.mem_cons] at h ⊢
    rcases h with h | h
    · exact Or.inl h
    · exact Or.inr (Or.inr h)
  | y :: xs, n + 1, a, x, h => by
    simp only [setNth, List.mem_cons] at h ⊢
    rcases h with h | h
    · exact Or.inr (Or.inl h)
    · rcases mem_setNth xs n a x h with h | h
      · exact Or.inl h
      · exact Or.inr (Or.inr h)

theorem uniq_eq {cl : List Client} (hu : cl.Pairwise (·.id ≠ ·.id)) {a b : Client} (ha : a ∈ cl) (hb : b ∈ cl)
    (h : a.id = b.id) : a = b := by
  induction cl with
  | nil => cases ha
  | cons x xs ih =>
    rw [List.pairwise_cons] at hu
    rcases List.mem_cons.mp ha with rfl | ha' <;> rcases List.mem_cons.mp hb with rfl | hb'
    · rfl
    · exact absurd h (hu.1 b hb')
    · exact absurd h.symm (hu.1 a ha')
    · exact ih hu.2 ha' hb'

theorem cnt_zero_of_fresh (cid : Nat) : ∀ (qs : List (List Action)), (∀ q ∈ qs, ∀ a ∈ q, a.cid ≠ cid) → cnt cid qs = 0
  | [], _ => rfl
  | q :: qs, h => by
    have h1 : q.countP (·.cid = cid) = 0 := by
      apply List.countP_eq_zero.mpr
      intro a ha
      simpa using h q (by simp) a ha
    have h2 := cnt_zero_of_fresh cid qs (fun q' hq' a ha => h q' (by simp [hq']) a ha)
    simp only [cnt, List.map_cons, List.sum_cons] at h2 ⊢
    omega

/-! ### the invariant is inductive -/

theorem inv_newClient (s : State) (h : Inv s) : Inv (step s .newClient) := by
  obtain ⟨howed, huniq, ⟨hf1, hf2, hf3⟩, hghost⟩ := h
  have hq0 : queued s s.nextId = 0 := by
    rw [queued_eq]
    exact cnt_zero_of_fresh s.nextId s.queues (fun q hq a ha => by have := hf2 q hq a ha; omega)
  refine ⟨?_, ?_, ⟨?_, ?_, ?_⟩, ?_⟩
  · intro c hc
    simp only [step, List.mem_append, List.mem_singleton] at hc
    rcases hc with hc | rfl
    · exact howed c hc
    · exact ⟨by simp; omega, hq0⟩
  · simp only [step]
    rw [List.pairwise_append]
    refine ⟨huniq, by simp, ?_⟩
    intro a ha b hb
    simp only [List.mem_singleton] at hb; subst hb
    have := hf1 a ha
    simp; omega
  · intro c hc
    simp only [step, List.mem_append, List.mem_singleton] at hc
    rcases hc with hc | rfl
    · have := hf1 c hc; simp [step]; omega
    · simp [step]
  · intro q hq a ha; have := hf2 q hq a ha; simp [step]; omega
  · simp [step]
  · intro c hc
    simp only [step, List.mem_append, List.mem_singleton] at hc
    rcases hc with hc | rfl
    · exact hghost c hc
    · simp

theorem inv_gone (s : State) (cid : Nat) (h : Inv s) : Inv (step s (.gone cid)) := by
  obtain ⟨howed, huniq, ⟨hf1, hf2, hf3⟩, hghost⟩ := h
  refine ⟨?_, ?_, ⟨?_, hf2, hf3⟩, ?_⟩
  · intro c hc; exact howed c (List.mem_filter.mp hc).1
  · exact huniq.filter _
  · intro c hc; exact hf1 c (List.mem_filter.mp hc).1
  · intro c hc; exact hghost c (List.mem_filter.mp hc).1

theorem inv_login (s : State) (dev : Nat) (h : Inv s) : Inv (step s (.login dev)) := by
  obtain ⟨howed, huniq, ⟨hf1, hf2, hf3⟩, hghost⟩ := h
  simp only [step]
  cases hq : s.queues[dev]? with
  | none => exact ⟨howed, huniq, ⟨hf1, hf2, hf3⟩, hghost⟩
  | some q =>
    simp only
    have hcnt : ∀ cid, cid ≠ 0 → cnt cid (setNth s.queues dev (⟨0⟩ :: q)) = cnt cid s.queues := by
      intro cid hne
      rw [cnt_setNth_cons cid ⟨0⟩ s.queues dev q hq]
      have : ¬ (0 = cid) := fun h => hne h.symm
      simp [this]
    refine ⟨?_, huniq, ⟨hf1, ?_, hf3⟩, hghost⟩
    · intro c hc
      obtain ⟨hne, ho⟩ := howed c hc
      refine ⟨hne, ?_⟩
      simp only [queued_eq] at ho ⊢
      rw [hcnt c.id hne]; exact ho
    · intro q' hq' a ha
      rcases mem_setNth _ _ _ _ hq' with rfl | hq'
      · rcases List.mem_cons.mp ha with rfl | ha
        · exact hf3
        · exact hf2 q (List.mem_of_getElem? hq) a ha
      · exact hf2 q' hq' a ha

theorem mem_zipAppend (cid : Nat) : ∀ (qs : List (List Action)) (ns : List Nat) (q' : List Action) (a : Action),
    q' ∈ zipAppend cid qs ns → a ∈ q' → a.cid = cid ∨ ∃ q ∈ qs, a ∈ q
  | [], [], _, _, h, _ => by simp [zipAppend] at h
  | [], _ :: _, _, _, h, _ => by simp [zipAppend] at h
  | q :: qs, [], q', a, h, ha => by simp only [zipAppend] at h; exact Or.inr ⟨q', h, ha⟩
  | q :: qs, n :: ns, q', a, h, ha => by
    simp only [zipAppend, List.mem_cons] at h
    rcases h with rfl | h
    · simp only [appendN, List.mem_append] at ha
      rcases ha with ha | ha
      · exact Or.inr ⟨q, by simp, ha⟩
      · rw [(List.mem_replicate.mp ha).2]; exact Or.inl rfl
    · rcases mem_zipAppend cid qs ns q' a h ha with h' | ⟨q0, hq0, ha0⟩
      · exact Or.inl h'
      · exact Or.inr ⟨q0, by simp [hq0], ha0⟩

theorem pairwise_map_id {cl : List Client} (f : Client → Client) (hf : ∀ c, (f c).id = c.id)
    (hu : cl.Pairwise (·.id ≠ ·.id)) : (cl.map f).Pairwise (·.id ≠ ·.id) := by
  rw [List.pairwise_map]
  exact hu.imp (fun {a b} h => by rw [hf a, hf b]; exact h)

theorem inv_request (s : State) (cid : Nat) (perDev : List Nat) (h : Inv s) : Inv (step s (.request cid perDev)) := by
  obtain ⟨howed, huniq, ⟨hf1, hf2, hf3⟩, hghost⟩ := h
  simp only [step]
  cases hfind : s.clients.find? (·.id = cid) with
  | none => exact ⟨howed, huniq, ⟨hf1, hf2, hf3⟩, hghost⟩
  | some c =>
    simp only
    have hcmem : c ∈ s.clients := List.mem_of_find?_eq_some hfind
    have hcid : c.id = cid := by simpa using List.find?_some hfind
    split
    · exact ⟨howed, huniq, ⟨hf1, hf2, hf3⟩, hghost⟩
    · rename_i hfree
      have hnone : c.cmd = none := by
        cases hcc : c.cmd with
        | none => rfl
        | some _ => exact absurd (Or.inl (by simp [hcc])) hfree
      split
      · exact ⟨howed, huniq, ⟨hf1, hf2, hf3⟩, hghost⟩
      · rename_i hn
        have hq0 : queued s cid = 0 := by
          have := (howed c hcmem).2; rw [hnone] at this; rw [← hcid]; exact this
        let f : Client → Client := fun c => if c.id = cid then { c with cmd := some ⟨totalFor s.queues perDev, false⟩, accepted := c.accepted + 1 } else c
        have hfid : ∀ x, (f x).id = x.id := by intro x; simp only [f]; split <;> rfl
        refine ⟨?_, pairwise_map_id f hfid huniq, ⟨?_, ?_, hf3⟩, ?_⟩
        · intro c' hc'
          obtain ⟨c0, hc0, rfl⟩ := List.mem_map.mp hc'
          obtain ⟨hne, ho⟩ := howed c0 hc0
          by_cases hid : c0.id = cid
          · simp only [hid, if_true]
            refine ⟨by rw [← hid]; exact hne, ?_⟩
            simp only [queued_eq] at hq0 ⊢
            rw [cnt_zipAppend, hq0]
            simp
            omega
          · simp only [hid, if_false]
            refine ⟨hne, ?_⟩
            simp only [queued_eq] at ho ⊢
            rw [cnt_zipAppend]
            have : ¬ (cid = c0.id) := fun h => hid h.symm
            simpa [this] using ho
        · intro c' hc'
          obtain ⟨c0, hc0, rfl⟩ := List.mem_map.mp hc'
          have := hf1 c0 hc0
          split <;> exact this
        · intro q' hq' a ha
          rcases mem_zipAppend cid _ _ q' a hq' ha with h' | ⟨q0, hq0', ha0⟩
          · rw [h', ← hcid]; exact hf1 c hcmem
          · exact hf2 q0 hq0' a ha0
        · intro c' hc'
          obtain ⟨c0, hc0, rfl⟩ := List.mem_map.mp hc'
          have hg := hghost c0 hc0
          by_cases hid : c0.id = cid
          · have : c0 = c := uniq_eq huniq hc0 hcmem (by rw [hid, hcid])
            subst this
            simp only [hid, if_true]
            rw [hnone] at hg
            simp at hg ⊢
            omega
          · simp only [hid, if_false]; exact hg

theorem inv_complete (s : State) (dev : Nat) (err : Bool) (h : Inv s) : Inv (step s (.complete dev err)) := by
  obtain ⟨howed, huniq, ⟨hf1, hf2, hf3⟩, hghost⟩ := h
  simp only [step]
  split
  next a rest hq =>
    have hcnt := fun cid => cnt_setNth_tail cid s.queues dev a rest hq
    have hfq : ∀ q ∈ setNth s.queues dev rest, ∀ x ∈ q, x.cid < s.nextId := by
      intro q' hq' x hx
      rcases mem_setNth _ _ _ _ hq' with rfl | hq'
      · exact hf2 _ (List.mem_of_getElem? hq) x (by simp [hx])
      · exact hf2 q' hq' x hx
    by_cases h0 : a.cid = 0
    · simp only [h0, if_true]
      refine ⟨?_, huniq, ⟨hf1, hfq, hf3⟩, hghost⟩
      intro c hc
      obtain ⟨hne, ho⟩ := howed c hc
      refine ⟨hne, ?_⟩
      have := hcnt c.id
      have hne' : ¬ (a.cid = c.id) := by rw [h0]; exact fun h => hne h.symm
      simp only [hne', if_false, Nat.add_zero] at this
      simp only [queued_eq] at ho ⊢
      rw [this]; exact ho
    · simp only [h0, if_false]
      let g : Client → Client := fun c =>
        if c.id = a.cid then
          match c.cmd with
          | some cmd =>
            if cmd.pending = 1 then { c with cmd := none, terminals := c.terminals + 1 }
            else { c with cmd := some { pending := cmd.pending - 1, error := cmd.error || err } }
          | none => c
        else c
      have hgid : ∀ x, (g x).id = x.id := by
        intro x; simp only [g]; split
        · split
          · split <;> rfl
          · rfl
        · rfl
      have hfin : finishOne a.cid err s.clients = s.clients.map g := rfl
      rw [hfin]
      refine ⟨?_, pairwise_map_id g hgid huniq, ⟨?_, hfq, hf3⟩, ?_⟩
      · intro c' hc'
        obtain ⟨c0, hc0, rfl⟩ := List.mem_map.mp hc'
        obtain ⟨hne, ho⟩ := howed c0 hc0
        rw [hgid]
        refine ⟨hne, ?_⟩
        have hc := hcnt c0.id
        simp only [queued_eq] at ho ⊢
        by_cases hid : c0.id = a.cid
        · have e1 : cnt a.cid (setNth s.queues dev rest) + 1 = cnt a.cid s.queues := by simpa using hcnt a.cid
          rw [hid] at ho
          simp only [g, hid, if_true]
          cases hcmd : c0.cmd with
          | none => rw [hcmd] at ho; simp only at ho; omega
          | some cmd =>
            rw [hcmd] at ho
            simp only at ho ⊢
            by_cases hp1 : cmd.pending = 1
            · simp only [hp1, if_true]; omega
            · simp only [hp1, if_false]; omega
        · have hid' : ¬ (a.cid = c0.id) := fun h => hid h.symm
          simp only [hid', if_false, Nat.add_zero] at hc
          simp only [g, hid, if_false]
          rw [hc]; exact ho
      · intro c' hc'
        obtain ⟨c0, hc0, rfl⟩ := List.mem_map.mp hc'
        rw [hgid]; exact hf1 c0 hc0
      · intro c' hc'
        obtain ⟨c0, hc0, rfl⟩ := List.mem_map.mp hc'
        have hg := hghost c0 hc0
        simp only [g]
        split
        · split
          · rename_i cmd hcmd
            rw [hcmd] at hg
            split <;> simp at hg ⊢ <;> omega
          · exact hg
        · exact hg
  next => exact ⟨howed, huniq, ⟨hf1, hf2, hf3⟩, hghost⟩

/-- C04 / C02 / C11 backbone: over every interleaving of connects, departures, accepted and busy
    request lines, device completions (successful or failed) and login insertions, what each live
    client is owed equals what is queued in its name. -/
theorem inv_run (ndev : Nat) (evs : List Ev) : Inv (evs.foldl step (init ndev)) := by
  have : ∀ s, Inv s → Inv (evs.foldl step s) := by
    induction evs with
    | nil => intro s h; exact h
    | cons e es ih =>
      intro s h
      apply ih
      cases e with
      | newClient => exact inv_newClient s h
      | gone cid => exact inv_gone s cid h
      | request cid pd => exact inv_request s cid pd h
      | complete d e => exact inv_complete s d e h
      | login d => exact inv_login s d h
  exact this _ (inv_init ndev)

/-- the `assert(c->cmd != NULL)` in `_act_finish` is unreachable: a completion that still finds its
    client finds it with a command -/
theorem act_finish_assert_safe (s : State) (h : Inv s) (dev : Nat) (a : Action) (rest : List Action)
    (hq : s.queues[dev]? = some (a :: rest)) (c : Client) (hc : c ∈ s.clients) (hid : c.id = a.cid) :
    c.cmd.isSome = true := by
  obtain ⟨hne, ho⟩ := h.owed c hc
  have hcnt := cnt_setNth_tail c.id s.queues dev a rest hq
  simp only [hid.symm, if_true] at hcnt
  cases hcmd : c.cmd with
  | some _ => rfl
  | none => rw [hcmd] at ho; simp only [queued_eq] at ho; omega

/-- exactly one terminal reply per accepted command: at any time, accepted = answered + (1 if one is
    in progress) -/
theorem one_reply_per_command (ndev : Nat) (evs : List Ev) :
    ∀ c ∈ (evs.foldl step (init ndev)).clients, c.accepted = c.terminals + (if c.cmd.isSome then 1 else 0) :=
  (inv_run ndev evs).ghost

end Pm.Pending

