import Pm.Daemon
import Pm.EnqProof
/-! Helper lemmas for C02 / C03: the terminal reply (`finalReply`), the completion callback (`actFinish`,
    `applyOuts`) and the creation of a command (`install`) of `Pm/Daemon.lean`, cut into pieces. -/
namespace Pm.Daemon.Reply
open Pm Pm.Client
open Pm.Dev2 (Dev Action Arg PState PResult ActErr)
abbrev DOut := Pm.Dev2.Out

/-! ## 1. `finalReply` cut into pieces -/

/-- the arglist entries in iteration order: `arglist_next` walks the target hostlist and looks each name up -/
def entriesOf (c : CmdC) : List ArgC := c.names.filterMap fun n => c.args.find? (·.node == n)

def isPower : Com → Bool
  | .on | .off | .cycle | .reset | .flash | .unflash => true
  | _ => false

def okLine : Bytes := bstr "102 Command completed successfully" ++ crlf
def errLine : Bytes := bstr "210 Command completed with errors" ++ crlf
/-- the terminal line of a query -/
def qTerm (err : Bool) : Bytes := (if err then bstr "211 Query completed with errors" else bstr "103 Query complete") ++ crlf

def onNodes (c : CmdC) : List Name := ((entriesOf c).filter (·.state == 2)).map (·.node)
def offNodes (c : CmdC) : List Name := ((entriesOf c).filter (·.state == 1)).map (·.node)
def unkNodes (c : CmdC) : List Name := ((entriesOf c).filter (·.state == 0)).map (·.node)

def statusBody (on off unk : Bytes) : Bytes :=
  bstr "302 on:      " ++ on ++ crlf ++ bstr "302 off:     " ++ off ++ crlf ++ bstr "302 unknown: " ++ unk ++ crlf

/-- the word shown by the expanded rendering -/
def clsName (s : Nat) : String := if s == 2 then "on" else if s == 1 then "off" else "unknown"
/-- one line of the expanded (`-x`) rendering -/
def xLine (a : ArgC) : Bytes := bstr "303 " ++ ofChars a.node ++ bstr ": " ++ bstr (clsName a.state) ++ crlf

/-- one line of the temperature reply for an entry with a value; nothing for an entry without -/
def tempLine (a : ArgC) : Bytes := match a.val with
  | some v => bstr "303 " ++ ofChars a.node ++ bstr ": " ++ firstLine v ++ crlf
  | none => []
def tempMissing (c : CmdC) : List Name := ((entriesOf c).filter (·.val.isNone)).map (·.node)
def tempTail (r : Bytes) : Bytes := bstr "303 " ++ r ++ bstr ": unknown" ++ crlf

theorem okLine_ne_errLine : okLine ≠ errLine := by decide +kernel

theorem finalReply_power (ex : Bool) (c : CmdC) (h : isPower c.com = true) :
    finalReply ex c = some (if c.error || (entriesOf c).any (·.result == 1) then errLine else okLine) := by
  unfold finalReply
  cases hc : c.com <;> simp [hc, isPower] at h <;> simp only [] <;>
  · show some ((if (c.error || (entriesOf c).any (·.result == 1)) = true then _ else _) ++ crlf) = _
    cases (c.error || (entriesOf c).any (·.result == 1)) <;> rfl

theorem finalReply_status_x (c : CmdC) (h : c.com = .status ∨ c.com = .beacon) :
    finalReply true c = some ((entriesOf c).flatMap xLine ++ qTerm c.error) := by
  unfold finalReply xLine clsName
  rcases h with h | h <;> simp [h, entriesOf, qTerm, List.append_assoc]

theorem finalReply_status_ranged (c : CmdC) (h : c.com = .status ∨ c.com = .beacon) :
    finalReply false c =
      match sortedRanged (unkNodes c), sortedRanged (onNodes c), sortedRanged (offNodes c) with
      | some unk, some on, some off => some (statusBody on off unk ++ qTerm c.error)
      | _, _, _ => none := by
  unfold finalReply
  rcases h with h | h <;> simp only [h, onNodes, offNodes, unkNodes, entriesOf] <;>
  · generalize sortedRanged _ = a
    generalize sortedRanged _ = b
    generalize sortedRanged _ = d
    cases a <;> cases b <;> cases d <;> simp [statusBody, qTerm, List.append_assoc]

theorem finalReply_temp (ex : Bool) (c : CmdC) (h : c.com = .temp) :
    finalReply ex c =
      if tempMissing c = [] then some ((entriesOf c).flatMap tempLine ++ qTerm c.error)
      else match sortedRanged (tempMissing c) with
        | some r => some ((entriesOf c).flatMap tempLine ++ tempTail r ++ qTerm c.error)
        | none => none := by
  unfold finalReply
  simp only [h]
  show (do
    let tail ← if (tempMissing c).isEmpty then some [] else (sortedRanged (tempMissing c)).map tempTail
    pure ((entriesOf c).flatMap tempLine ++ tail ++ (if c.error then bstr "211 Query completed with errors" else bstr "103 Query complete") ++ crlf)) = _
  cases hm : tempMissing c with
  | nil => simp [qTerm, List.append_assoc]
  | cons x xs =>
    simp only [List.isEmpty_cons, Bool.false_eq_true, if_false]
    cases sortedRanged (x :: xs) <;> simp [qTerm, List.append_assoc]

/-! ## 2. list-level facts about the entries -/

theorem mem_entriesOf {c : CmdC} {a : ArgC} :
    a ∈ entriesOf c ↔ a.node ∈ c.names ∧ c.args.find? (·.node == a.node) = some a := by
  unfold entriesOf
  rw [List.mem_filterMap]
  constructor
  · rintro ⟨n, hn, hf⟩
    have hp := List.find?_some hf
    have : a.node = n := by simpa using hp
    subst this
    exact ⟨hn, hf⟩
  · rintro ⟨hn, hf⟩
    exact ⟨a.node, hn, hf⟩

/-- an entry is an element of the arglist, and its node is a target -/
theorem entriesOf_sub {c : CmdC} {a : ArgC} (h : a ∈ entriesOf c) : a ∈ c.args ∧ a.node ∈ c.names :=
  ⟨List.mem_of_find?_eq_some (mem_entriesOf.mp h).2, (mem_entriesOf.mp h).1⟩

/-- two entries for the same node are the same arglist element (a repeated target is looked up twice) -/
theorem entriesOf_unique {c : CmdC} {a b : ArgC} (ha : a ∈ entriesOf c) (hb : b ∈ entriesOf c)
    (h : a.node = b.node) : a = b := by
  have h1 := (mem_entriesOf.mp ha).2
  have h2 := (mem_entriesOf.mp hb).2
  rw [h] at h1
  exact Option.some.inj (h1.symm.trans h2)

/-- the nodes of the entries are the targets that have an arglist element, in target order, repetitions kept -/
theorem entriesOf_nodes (c : CmdC) :
    (entriesOf c).map (·.node) = c.names.filter fun n => (c.args.find? (·.node == n)).isSome := by
  unfold entriesOf
  induction c.names with
  | nil => rfl
  | cons n ns ih =>
    rw [List.filterMap_cons, List.filter_cons]
    cases hf : c.args.find? (·.node == n) with
    | none => simpa using ih
    | some a =>
      have : a.node = n := by simpa using List.find?_some hf
      simp [ih, this]

/-- every target has an arglist element -/
def Covered (c : CmdC) : Prop := ∀ n ∈ c.names, ∃ a ∈ c.args, a.node = n

theorem entriesOf_nodes_covered (c : CmdC) (h : Covered c) : (entriesOf c).map (·.node) = c.names := by
  rw [entriesOf_nodes, List.filter_eq_self]
  intro n hn
  obtain ⟨a, ha, hna⟩ := h n hn
  rw [List.find?_isSome]
  exact ⟨a, ha, by simp [hna]⟩

theorem length_entriesOf_covered (c : CmdC) (h : Covered c) : (entriesOf c).length = c.names.length := by
  rw [← entriesOf_nodes_covered c h, List.length_map]

/-- every entry goes to exactly one of the three lists -/
theorem three_way_perm (l : List ArgC) (h : ∀ a ∈ l, a.state ≤ 2) :
    (((l.filter (·.state == 2)).map (·.node)) ++ ((l.filter (·.state == 1)).map (·.node)) ++
      ((l.filter (·.state == 0)).map (·.node))).Perm (l.map (·.node)) := by
  induction l with
  | nil => simp
  | cons a as ih =>
    have ih := ih fun x hx => h x (List.mem_cons_of_mem _ hx)
    have ha := h a List.mem_cons_self
    have : a.state = 0 ∨ a.state = 1 ∨ a.state = 2 := by omega
    rcases this with h0 | h0 | h0 <;> simp only [List.filter_cons, h0, List.map_cons] <;>
      simp only [Nat.reduceBEq, Bool.false_eq_true, if_false, if_true, List.map_cons, List.cons_append]
    · exact List.perm_middle.trans (List.Perm.cons _ ih)
    · rw [List.append_assoc] at ih ⊢
      exact List.perm_middle.trans (List.Perm.cons _ ih)
    · exact List.Perm.cons _ ih

theorem partition_perm (c : CmdC) (h : ∀ a ∈ c.args, a.state ≤ 2) :
    (onNodes c ++ offNodes c ++ unkNodes c).Perm ((entriesOf c).map (·.node)) :=
  three_way_perm _ fun a ha => h a (entriesOf_sub ha).1

theorem mem_onNodes {c : CmdC} {n : Name} : n ∈ onNodes c ↔ ∃ a ∈ entriesOf c, a.node = n ∧ a.state = 2 := by
  simp [onNodes, and_assoc, and_comm]
theorem mem_offNodes {c : CmdC} {n : Name} : n ∈ offNodes c ↔ ∃ a ∈ entriesOf c, a.node = n ∧ a.state = 1 := by
  simp [offNodes, and_assoc, and_comm]
theorem mem_unkNodes {c : CmdC} {n : Name} : n ∈ unkNodes c ↔ ∃ a ∈ entriesOf c, a.node = n ∧ a.state = 0 := by
  simp [unkNodes, and_assoc, and_comm]

/-- as sets of names the three lists are pairwise disjoint (no state hypothesis needed) -/
theorem lists_disjoint (c : CmdC) (n : Name) :
    ¬ (n ∈ onNodes c ∧ n ∈ offNodes c) ∧ ¬ (n ∈ onNodes c ∧ n ∈ unkNodes c) ∧ ¬ (n ∈ offNodes c ∧ n ∈ unkNodes c) := by
  simp only [mem_onNodes, mem_offNodes, mem_unkNodes]
  refine ⟨?_, ?_, ?_⟩ <;>
  · rintro ⟨⟨a, ha, rfl, hs⟩, ⟨b, hb, hn, hs'⟩⟩
    have := entriesOf_unique hb ha hn
    subst this
    omega

/-! ## 3. expanded rendering agrees with the three lists; terminal line; temperature reply -/

theorem clsName_on (s : Nat) : clsName s = "on" ↔ s = 2 := by
  unfold clsName
  by_cases h2 : s = 2
  · simp [h2]
  · by_cases h1 : s = 1 <;> simp [h1, h2]
theorem clsName_off (s : Nat) : clsName s = "off" ↔ s = 1 := by
  unfold clsName
  by_cases h2 : s = 2
  · simp [h2]
  · by_cases h1 : s = 1 <;> simp [h1, h2]
theorem clsName_unknown (s : Nat) : clsName s = "unknown" ↔ (s ≠ 2 ∧ s ≠ 1) := by
  unfold clsName
  by_cases h2 : s = 2
  · simp [h2]
  · by_cases h1 : s = 1 <;> simp [h1, h2]

/-- the word the expanded rendering shows for an entry names the list its node is in -/
theorem cls_agree (c : CmdC) (a : ArgC) (ha : a ∈ entriesOf c) :
    (clsName a.state = "on" ↔ a.node ∈ onNodes c) ∧ (clsName a.state = "off" ↔ a.node ∈ offNodes c) ∧
    (a.state ≤ 2 → (clsName a.state = "unknown" ↔ a.node ∈ unkNodes c)) := by
  rw [clsName_on, clsName_off, clsName_unknown, mem_onNodes, mem_offNodes, mem_unkNodes]
  refine ⟨⟨fun h => ⟨a, ha, rfl, h⟩, ?_⟩, ⟨fun h => ⟨a, ha, rfl, h⟩, ?_⟩, fun h2 => ⟨fun h => ⟨a, ha, rfl, by omega⟩, ?_⟩⟩ <;>
  · rintro ⟨b, hb, hn, hs⟩
    have := entriesOf_unique hb ha hn
    subst this
    omega

/-- an entry whose state is none of the three enumerators: shown as unknown by `-x`, in none of the three lists -/
theorem cls_out_of_range (c : CmdC) (a : ArgC) (ha : a ∈ entriesOf c) (h : 2 < a.state) :
    clsName a.state = "unknown" ∧ a.node ∉ onNodes c ∧ a.node ∉ offNodes c ∧ a.node ∉ unkNodes c := by
  rw [clsName_unknown, mem_onNodes, mem_offNodes, mem_unkNodes]
  refine ⟨by omega, ?_, ?_, ?_⟩ <;>
  · rintro ⟨b, hb, hn, hs⟩
    have := entriesOf_unique hb ha hn
    subst this
    omega

theorem qTerm_true_not_suffix_false : ¬ (qTerm true <:+ qTerm false) := by
  intro h
  have := h.length_le
  revert this
  decide +kernel
theorem qTerm_false_not_suffix_true : ¬ (qTerm false <:+ qTerm true) := by decide +kernel

/-- a reply that ends with the terminal line for `e` ends with the 211 line iff `e`, with the 103 line iff not `e` -/
theorem qTerm_suffix_iff (r : Bytes) (e : Bool) (h : qTerm e <:+ r) :
    (qTerm true <:+ r ↔ e = true) ∧ (qTerm false <:+ r ↔ e = false) := by
  cases e
  · refine ⟨⟨fun h' => ?_, fun h' => by cases h'⟩, ⟨fun _ => rfl, fun _ => h⟩⟩
    exact absurd (List.suffix_of_suffix_length_le h h' (by decide +kernel)) qTerm_false_not_suffix_true
  · refine ⟨⟨fun _ => rfl, fun _ => h⟩, ⟨fun h' => ?_, fun h' => by cases h'⟩⟩
    exact absurd (List.suffix_of_suffix_length_le h' h (by decide +kernel)) qTerm_false_not_suffix_true

def isQueryCom : Com → Bool
  | .status | .beacon | .temp => true
  | _ => false

theorem isQueryCom_or_isPower (c : Com) : isQueryCom c = !isPower c := by cases c <;> rfl

theorem finalReply_query_suffix (ex : Bool) (c : CmdC) (h : isQueryCom c.com = true) (r : Bytes)
    (hr : finalReply ex c = some r) : qTerm c.error <:+ r := by
  cases hc : c.com <;> simp [hc, isQueryCom] at h
  · cases ex
    · rw [finalReply_status_ranged c (Or.inl hc)] at hr
      split at hr
      · cases hr; exact List.suffix_append _ _
      · cases hr
    · rw [finalReply_status_x c (Or.inl hc)] at hr
      cases hr; exact List.suffix_append _ _
  · rw [finalReply_temp ex c hc] at hr
    split at hr
    · cases hr; exact List.suffix_append _ _
    · split at hr
      · cases hr; exact List.suffix_append _ _
      · cases hr
  · cases ex
    · rw [finalReply_status_ranged c (Or.inr hc)] at hr
      split at hr
      · cases hr; exact List.suffix_append _ _
      · cases hr
    · rw [finalReply_status_x c (Or.inr hc)] at hr
      cases hr; exact List.suffix_append _ _

def valLine (n : Name) (v : Bytes) : Bytes := bstr "303 " ++ ofChars n ++ bstr ": " ++ firstLine v ++ crlf

theorem tempLine_some {a : ArgC} {v : Bytes} (h : a.val = some v) : tempLine a = valLine a.node v := by
  simp [tempLine, valLine, h]
theorem tempLine_none {a : ArgC} (h : a.val = none) : tempLine a = [] := by simp [tempLine, h]

/-- the per-node lines are those of the entries that have a value, in target order -/
theorem temp_lines (c : CmdC) :
    (entriesOf c).flatMap tempLine = ((entriesOf c).filter (·.val.isSome)).flatMap tempLine := by
  induction entriesOf c with
  | nil => rfl
  | cons a as ih =>
    cases hv : a.val with
    | none => simp [hv, tempLine_none hv, ih]
    | some v => simp [hv, ih]

def tempValued (c : CmdC) : List Name := ((entriesOf c).filter (·.val.isSome)).map (·.node)

theorem temp_perm (c : CmdC) : (tempValued c ++ tempMissing c).Perm ((entriesOf c).map (·.node)) := by
  unfold tempValued tempMissing
  rw [← List.map_append]
  apply List.Perm.map
  have := List.filter_append_perm (fun a : ArgC => a.val.isSome) (entriesOf c)
  simpa using this

theorem temp_disjoint (c : CmdC) (n : Name) : ¬ (n ∈ tempValued c ∧ n ∈ tempMissing c) := by
  simp only [tempValued, tempMissing, List.mem_map, List.mem_filter]
  rintro ⟨⟨a, ⟨ha, hs⟩, rfl⟩, ⟨b, ⟨hb, hn⟩, hbn⟩⟩
  have := entriesOf_unique hb ha hbn
  subst this
  cases hv : b.val <;> simp [hv] at hs hn

/-! ## 4. `actFinish` cut into pieces -/

def errText (err : ActErr) (name : Bytes) : Bytes := match err with
  | .expfail => name ++ bstr ": action timed out waiting for expected response"
  | .abort => name ++ bstr ": action aborted due to previous action timeout"
  | .connectTimeout => name ++ bstr ": connect timeout"
  | .loginTimeout => name ++ bstr ": login timeout"
  | .success => []
/-- what a completion writes at once: a `308 <device>: <reason>` line for a failure, nothing for a success -/
def errPre (err : ActErr) (name : Bytes) : Bytes := if err != .success then bstr "308 " ++ errText err name ++ crlf else []
/-- the command as the reply functions see it when the last completion `err` arrives -/
def withStore (w : W) (k : CmdC) (err : ActErr) : CmdC :=
  { k with error := k.error || (err != .success), args := (storeArgs w k.al).map argC }
/-- the client `_find_client` finds -/
def cliOf (w : W) (id : Nat) : Option Cli := w.clients.find? (·.id == id)

theorem actFinish_eq (w : W) (id : Nat) (err : ActErr) (name : Bytes) :
    actFinish w id err name =
      match cliOf w id with
      | none => (w, false)
      | some c =>
        match c.cmd with
        | none => (w, true)
        | some k =>
          if k.pending == 1 then
            match finalReply c.exprange (withStore w k err) with
            | some r => (updCli w c.id fun c => put { c with cmd := none } (errPre err name ++ r ++ prompt), false)
            | none => (w, true)
          else (updCli w c.id fun c => put { c with cmd := some { k with error := k.error || (err != .success), pending := k.pending - 1 } } (errPre err name), false) := by
  unfold actFinish cliOf errPre errText withStore
  rfl

theorem cliOf_id {w : W} {id : Nat} {c : Cli} (h : cliOf w id = some c) : c.id = id := by
  simpa using List.find?_some h

theorem find_map_upd (xs : List Cli) (id id' : Nat) (f : Cli → Cli) (hf : ∀ c, (f c).id = c.id) :
    (xs.map fun c => if c.id == id then f c else c).find? (·.id == id') =
      if id' = id then (xs.find? (·.id == id)).map f else xs.find? (·.id == id') := by
  induction xs with
  | nil => simp
  | cons x xs ih =>
    simp only [List.map_cons, List.find?_cons]
    by_cases hx : x.id = id <;> by_cases hi : id' = id <;> grind

theorem cliOf_updCli (w : W) (id id' : Nat) (f : Cli → Cli) (hf : ∀ c, (f c).id = c.id) :
    cliOf (updCli w id f) id' = if id' = id then (cliOf w id).map f else cliOf w id' :=
  find_map_upd w.clients id id' f hf

/-- everything but the client table is left alone -/
theorem actFinish_frame (w : W) (id : Nat) (err : ActErr) (name : Bytes) :
    ∃ cl, (actFinish w id err name).1 = { w with clients := cl } := by
  rw [actFinish_eq]
  split
  · exact ⟨w.clients, rfl⟩
  · split
    · exact ⟨w.clients, rfl⟩
    · split
      · split
        · exact ⟨_, rfl⟩
        · exact ⟨w.clients, rfl⟩
      · exact ⟨_, rfl⟩

/-- a completion for a client that has gone away is dropped -/
theorem actFinish_absent (w : W) (id : Nat) (err : ActErr) (name : Bytes) (h : cliOf w id = none) :
    actFinish w id err name = (w, false) := by
  rw [actFinish_eq, h]

/-- `assert(c->cmd != NULL)` -/
theorem actFinish_nocmd (w : W) (id : Nat) (err : ActErr) (name : Bytes) (c : Cli) (h : cliOf w id = some c)
    (hc : c.cmd = none) : actFinish w id err name = (w, true) := by
  rw [actFinish_eq, h]
  simp only [hc]

/-- more completions outstanding: count down, remember a failure, write only the 308 line (if any) -/
theorem actFinish_more (w : W) (id : Nat) (err : ActErr) (name : Bytes) (c : Cli) (k : CmdC) (h : cliOf w id = some c)
    (hc : c.cmd = some k) (hp : k.pending ≠ 1) :
    (actFinish w id err name).2 = false ∧
    cliOf (actFinish w id err name).1 id =
      some { c with cmd := some { k with error := k.error || (err != .success), pending := k.pending - 1 },
                    toBuf := c.toBuf ++ errPre err name } := by
  have hid := cliOf_id h
  rw [actFinish_eq, h]
  simp only [hc]
  have : (k.pending == 1) = false := by simpa using hp
  simp only [this, Bool.false_eq_true, if_false, true_and]
  rw [cliOf_updCli]
  · simp [hid, h, put]
  · intro _; rfl

/-- the last completion: the command is dropped and the client gets, in this order, the 308 line (if any),
    the reply computed from the arglist as it is now, and the prompt -/
theorem actFinish_last (w : W) (id : Nat) (err : ActErr) (name : Bytes) (c : Cli) (k : CmdC) (r : Bytes)
    (h : cliOf w id = some c) (hc : c.cmd = some k) (hp : k.pending = 1)
    (hr : finalReply c.exprange (withStore w k err) = some r) :
    (actFinish w id err name).2 = false ∧
    cliOf (actFinish w id err name).1 id =
      some { c with cmd := none, toBuf := c.toBuf ++ (errPre err name ++ r ++ prompt) } := by
  have hid := cliOf_id h
  rw [actFinish_eq, h]
  simp only [hc, hp, hr, beq_self_eq_true, if_true, true_and]
  rw [cliOf_updCli]
  · simp [hid, h, put]
  · intro _; rfl

/-- the last completion when a list handed to `hostlist_sort` trips its assert (F19): the daemon is gone -/
theorem actFinish_last_abort (w : W) (id : Nat) (err : ActErr) (name : Bytes) (c : Cli) (k : CmdC)
    (h : cliOf w id = some c) (hc : c.cmd = some k) (hp : k.pending = 1)
    (hr : finalReply c.exprange (withStore w k err) = none) :
    actFinish w id err name = (w, true) := by
  rw [actFinish_eq, h]
  simp only [hc, hp, hr, beq_self_eq_true, if_true]

/-- other clients are not touched -/
theorem actFinish_other (w : W) (id id' : Nat) (err : ActErr) (name : Bytes) (hne : id' ≠ id) :
    cliOf (actFinish w id err name).1 id' = cliOf w id' := by
  rw [actFinish_eq]
  split
  · rfl
  · rename_i c hc
    have hid := cliOf_id hc
    split
    · rfl
    · split
      · split
        · rw [cliOf_updCli]
          · simp [hid, hne]
          · intro _; rfl
        · rfl
      · rw [cliOf_updCli]
        · simp [hid, hne]
        · intro _; rfl

/-! ## 5. a whole list of device callbacks folded through `actFinish` (`applyOuts`) -/

/-- the text of a telemetry line -/
def teleLine (name t : Bytes) : Bytes :=
  bstr "305 " ++ ((String.fromUTF8! ⟨t.toArray⟩).replace "(dev)" ("(" ++ String.fromUTF8! ⟨name.toArray⟩ ++ ")")).toUTF8.toList ++ crlf

/-- one callback of `applyOuts` -/
def outStep (name : Bytes) (acc : W × List String) (o : DOut) : W × List String :=
  match o with
  | .finish cid e => ((actFinish acc.1 cid e name).1, if (actFinish acc.1 cid e name).2 then acc.2 ++ ["O ABORT act_finish"] else acc.2)
  | .telemetry cid t => (updCli acc.1 cid fun c => put c (teleLine name t), acc.2)
  | .diag cid t => (updCli acc.1 cid fun c => put c (bstr "309 " ++ t ++ crlf), acc.2)
  | .sent _ => acc
  | .rxMismatch want got => (acc.1, acc.2 ++ [s!"O RXMISMATCH want pat {want.pat} subj {hexOf want.subject} asked pat {got.1} subj {hexOf got.2}"])
  | .abortAssert site => (acc.1, acc.2 ++ [s!"O ABORT {site}"])

theorem applyOuts_eq (w : W) (name : Bytes) (outs : List DOut) :
    applyOuts w name outs = outs.foldl (outStep name) (w, []) := by
  unfold applyOuts
  congr 1

/-- what one callback writes to client `id` apart from a terminal reply -/
def outText (name : Bytes) (id : Nat) : DOut → Bytes
  | .finish cid e => if cid = id then errPre e name else []
  | .telemetry cid t => if cid = id then teleLine name t else []
  | .diag cid t => if cid = id then bstr "309 " ++ t ++ crlf else []
  | _ => []
/-- a completion for client `id` that carries an error -/
def finErr (id : Nat) : DOut → Bool
  | .finish cid e => cid == id && e != .success
  | _ => false
/-- a completion for client `id` -/
def isFin (id : Nat) : DOut → Bool
  | .finish cid _ => cid == id
  | _ => false

theorem outStep_store (name : Bytes) (acc : W × List String) (o : DOut) : (outStep name acc o).1.store = acc.1.store := by
  cases o <;> simp only [outStep, updCli]
  obtain ⟨cl, h⟩ := actFinish_frame acc.1 ‹_› ‹_› name
  rw [h]

theorem outStep_msgs_mono (name : Bytes) (acc : W × List String) (o : DOut) (m : String) (h : m ∈ acc.2) :
    m ∈ (outStep name acc o).2 := by
  cases o <;> simp only [outStep] <;> try exact h
  · split
    · exact List.mem_append_left _ h
    · exact h
  · exact List.mem_append_left _ h
  · exact List.mem_append_left _ h

theorem fold_msgs_mono (name : Bytes) (outs : List DOut) : ∀ (acc : W × List String) (m : String), m ∈ acc.2 →
    m ∈ (outs.foldl (outStep name) acc).2 := by
  induction outs with
  | nil => intro acc m h; exact h
  | cons o os ih => intro acc m h; exact ih _ m (outStep_msgs_mono name acc o m h)

/-- one callback, seen from a client with a command that this callback does not complete -/
theorem outStep_client (name : Bytes) (id : Nat) (acc : W × List String) (o : DOut) (c : Cli) (k : CmdC)
    (h : cliOf acc.1 id = some c) (hc : c.cmd = some k) (hp : isFin id o = true → k.pending ≠ 1) :
    cliOf (outStep name acc o).1 id =
      some { c with cmd := some { k with error := k.error || finErr id o, pending := k.pending - (if isFin id o then 1 else 0) },
                    toBuf := c.toBuf ++ outText name id o } := by
  have hself : c = { c with cmd := some { k with error := k.error || false, pending := k.pending - 0 }, toBuf := c.toBuf ++ [] } := by
    cases c; cases k; simp_all
  cases o with
  | finish cid e =>
    simp only [outStep, finErr, isFin, outText]
    by_cases hid : cid = id
    · subst hid
      have := (actFinish_more acc.1 cid e name c k h hc (hp (by simp [isFin]))).2
      simpa using this
    · rw [actFinish_other _ _ _ _ _ (fun h' => hid h'.symm), h]
      have hb : (cid == id) = false := by simpa using hid
      simpa [hid, hb] using hself
  | telemetry cid t =>
    simp only [outStep, finErr, isFin, outText]
    rw [cliOf_updCli]
    · by_cases hid : cid = id
      · subst hid; simp [h, put]; cases c; cases k; simp_all
      · have : ¬ id = cid := fun h' => hid h'.symm
        simpa [hid, this, h] using hself
    · intro _; rfl
  | diag cid t =>
    simp only [outStep, finErr, isFin, outText]
    rw [cliOf_updCli]
    · by_cases hid : cid = id
      · subst hid; simp [h, put]; cases c; cases k; simp_all
      · have : ¬ id = cid := fun h' => hid h'.symm
        simpa [hid, this, h] using hself
    · intro _; rfl
  | sent b => simpa [outStep, finErr, isFin, outText, h] using hself
  | rxMismatch a b => simpa [outStep, finErr, isFin, outText, h] using hself
  | abortAssert s => simpa [outStep, finErr, isFin, outText, h] using hself

theorem fold_store (name : Bytes) (outs : List DOut) : ∀ (acc : W × List String),
    (outs.foldl (outStep name) acc).1.store = acc.1.store := by
  induction outs with
  | nil => intro acc; rfl
  | cons o os ih => intro acc; rw [List.foldl_cons, ih, outStep_store]

/-- a run of callbacks that leaves at least one completion outstanding: the client's command stays, `pending` has
    gone down by the number of completions, `error` is the old flag or-ed with every completion's error bit, and
    the client was sent exactly the 308 / 305 / 309 lines in callback order — no terminal line, no prompt -/
theorem fold_pending (name : Bytes) (id : Nat) (outs : List DOut) : ∀ (acc : W × List String) (c : Cli) (k : CmdC),
    cliOf acc.1 id = some c → c.cmd = some k → outs.countP (isFin id) < k.pending →
    cliOf (outs.foldl (outStep name) acc).1 id =
      some { c with cmd := some { k with error := k.error || outs.any (finErr id), pending := k.pending - outs.countP (isFin id) },
                    toBuf := c.toBuf ++ outs.flatMap (outText name id) } := by
  induction outs with
  | nil =>
    intro acc c k h hc _
    rw [List.foldl_nil, h]
    cases c; cases k; simp_all
  | cons o os ih =>
    intro acc c k h hc hlt
    rw [List.countP_cons] at hlt
    have hp : isFin id o = true → k.pending ≠ 1 := by
      intro hf; rw [hf] at hlt; simp at hlt; omega
    have h1 := outStep_client name id acc o c k h hc hp
    rw [List.foldl_cons]
    rw [ih _ _ _ h1 rfl (by simp only; split <;> simp_all <;> omega)]
    simp only [List.any_cons, List.countP_cons, List.flatMap_cons, List.append_assoc, Bool.or_assoc, Nat.sub_sub]
    congr 5
    omega

/-- the reply reads only the command code, the targets, the error flag and the arglist -/
theorem finalReply_congr (ex : Bool) (c c' : CmdC) (h1 : c.com = c'.com) (h2 : c.names = c'.names)
    (h3 : c.error = c'.error) (h4 : c.args = c'.args) : finalReply ex c = finalReply ex c' := by
  unfold finalReply
  rw [h1, h2, h3, h4]

/-- a run of callbacks ending with the completion that brings `pending` to zero -/
theorem fold_final (name : Bytes) (id : Nat) (pre : List DOut) (e : ActErr) (acc : W × List String) (c : Cli) (k : CmdC)
    (h : cliOf acc.1 id = some c) (hc : c.cmd = some k) (hn : pre.countP (isFin id) + 1 = k.pending) :
    let k' : CmdC := { k with error := k.error || pre.any (finErr id) || (e != .success), args := (storeArgs acc.1 k.al).map argC }
    let res := (pre ++ [Dev2.Out.finish id e]).foldl (outStep name) acc
    match finalReply c.exprange k' with
    | some r => cliOf res.1 id = some { c with cmd := none, toBuf := c.toBuf ++ pre.flatMap (outText name id) ++ errPre e name ++ r ++ prompt }
    | none => "O ABORT act_finish" ∈ res.2 := by
  intro k' res
  have h1 := fold_pending name id pre acc c k h hc (by omega)
  have hst := fold_store name pre acc
  have hres : res = outStep name (pre.foldl (outStep name) acc) (.finish id e) := by
    simp only [res, List.foldl_append, List.foldl_cons, List.foldl_nil]
  generalize pre.foldl (outStep name) acc = mid at h1 hst hres
  have hk : finalReply c.exprange (withStore mid.1 { k with error := k.error || pre.any (finErr id), pending := k.pending - pre.countP (isFin id) } e) =
      finalReply c.exprange k' := by
    apply finalReply_congr <;> simp only [withStore, storeArgs, hst, k']
  cases hr : finalReply c.exprange k' with
  | some r =>
    simp only
    have := (actFinish_last mid.1 id e name _ _ r h1 rfl (by simp only; omega) (by rw [hk]; exact hr)).2
    rw [hres]
    simp only [outStep]
    rw [this]
    simp [List.append_assoc]
  | none =>
    simp only
    have := actFinish_last_abort mid.1 id e name _ _ h1 rfl (by simp only; omega) (by rw [hk]; exact hr)
    rw [hres]
    simp only [outStep, this, if_true]
    exact List.mem_append_right _ (List.mem_singleton.mpr rfl)

/-! ## 6. the error flag is sticky -/

theorem errPre_success (name : Bytes) : errPre .success name = [] := rfl

theorem errPre_failure (err : ActErr) (name : Bytes) (h : err ≠ .success) :
    ∃ reason, errPre err name = bstr "308 " ++ (name ++ reason) ++ crlf := by
  cases err <;> first | exact absurd rfl h | exact ⟨_, rfl⟩

/-- with the error flag set, the terminal line is the 'completed with errors' one of the command's kind -/
theorem finalReply_error (ex : Bool) (c : CmdC) (r : Bytes) (he : c.error = true) (hr : finalReply ex c = some r) :
    (isPower c.com = true ∧ r = errLine) ∨ (isQueryCom c.com = true ∧ qTerm true <:+ r) := by
  by_cases hp : isPower c.com = true
  · left
    rw [finalReply_power ex c hp, he] at hr
    simp only [Bool.true_or, if_true] at hr
    exact ⟨hp, (Option.some.inj hr).symm⟩
  · right
    have hq : isQueryCom c.com = true := by rw [isQueryCom_or_isPower]; simpa using hp
    have := finalReply_query_suffix ex c hq r hr
    rw [he] at this
    exact ⟨hq, this⟩

/-- one completion (for any client) never clears the flag of a command in progress: afterwards the command is
    still there with the flag set, or this was its last completion and the reply carries the error line -/
theorem actFinish_error_mono (w : W) (id id' : Nat) (err : ActErr) (name : Bytes) (c : Cli) (k : CmdC)
    (h : cliOf w id = some c) (hc : c.cmd = some k) (he : k.error = true) :
    match cliOf (actFinish w id' err name).1 id with
    | none => False
    | some c' =>
      match c'.cmd with
      | some k' => k'.error = true ∧ k'.al = k.al ∧ k'.com = k.com ∧ k'.names = k.names
      | none => id' = id ∧ k.pending = 1 ∧ ∃ r, finalReply c.exprange (withStore w k err) = some r ∧
                  c'.toBuf = c.toBuf ++ (errPre err name ++ r ++ prompt) ∧
                  ((isPower k.com = true ∧ r = errLine) ∨ (isQueryCom k.com = true ∧ qTerm true <:+ r)) := by
  by_cases hid : id' = id
  · subst hid
    by_cases hp : k.pending = 1
    · cases hr : finalReply c.exprange (withStore w k err) with
      | none =>
        rw [actFinish_last_abort w id' err name c k h hc hp hr, h]
        simp only [hc, he, and_self]
      | some r =>
        rw [(actFinish_last w id' err name c k r h hc hp hr).2]
        simp only
        refine ⟨trivial, hp, r, rfl, rfl, ?_⟩
        have := finalReply_error c.exprange (withStore w k err) r (by simp [withStore, he]) hr
        simpa [withStore] using this
    · rw [(actFinish_more w id' err name c k h hc hp).2]
      simp [he]
  · rw [actFinish_other w id' id err name (fun h' => hid h'.symm), h]
    simp only [hc, he, and_self]

/-! ## 7. `install` cut into pieces -/

/-- the distinct target names in first-occurrence order: what `hash_insert` keeps of a list with repetitions -/
def distinctOf (bnames : List Bytes) : List Bytes :=
  bnames.foldl (fun acc x => if acc.contains x then acc else acc ++ [x]) []
/-- `arglist_create` -/
def freshArgs (bnames : List Bytes) : List Arg :=
  (distinctOf bnames).map fun n => { node := n, val := none, state := .unknown, result := .none }
/-- the body of the loop of `dev_enqueue_actions` -/
def enqStep (com : Nat) (bnames : List Bytes) (cid : Nat) (tele : Bool) (al : Nat)
    (acc : List (Bytes × Dev) × Nat) (nd : Bytes × Dev) : List (Bytes × Dev) × Nat :=
  let (d1, n) := enqueue nd.2 com bnames cid tele al
  let d1 := if n > 0 && d1.conn != 2 then { d1 with retryCount := 0 } else d1
  (acc.1 ++ [(nd.1, d1)], acc.2 + n)
/-- the request is refused with code 213 -/
def refused (w : W) (c : Cli) : W × Cli := (w, put c (codeLine 213 ++ crlf ++ (if c.quit then [] else prompt)))

theorem install_eq (w : W) (c : Cli) (com : Com) (names : List Name) :
    install w c com names =
      if w.devs.any (fun (nd : Bytes × Dev) => needsDev nd.2 (names.map ofChars) && !handles nd.2 (comIdx com) (names.map ofChars)) then refused w c else
      let r := w.devs.foldl (enqStep (comIdx com) (names.map ofChars) c.id c.telemetry w.alNext) ([], 0)
      if r.2 == 0 then refused w c else
      ({ w with devs := r.1, store := (w.alNext, freshArgs (names.map ofChars)) :: w.store, alNext := w.alNext + 1 },
       { c with cmd := some { com, names, pending := r.2, error := false, al := w.alNext } }) := by
  rfl

theorem mem_dedup_fold (l : List Bytes) : ∀ (acc : List Bytes) (x : Bytes),
    x ∈ l.foldl (fun acc x => if acc.contains x then acc else acc ++ [x]) acc ↔ x ∈ acc ∨ x ∈ l := by
  induction l with
  | nil => intro acc x; simp
  | cons y ys ih =>
    intro acc x
    rw [List.foldl_cons, ih]
    by_cases hy : acc.contains y = true
    · simp only [hy, if_true, List.mem_cons]
      have : y ∈ acc := by simpa using hy
      constructor
      · rintro (h | h)
        · exact Or.inl h
        · exact Or.inr (Or.inr h)
      · rintro (h | h | h)
        · exact Or.inl h
        · exact Or.inl (h ▸ this)
        · exact Or.inr h
    · simp only [hy, Bool.false_eq_true, if_false, List.mem_append, List.mem_cons, List.not_mem_nil, or_false]
      constructor
      · rintro ((h | h) | h)
        · exact Or.inl h
        · exact Or.inr (Or.inl h)
        · exact Or.inr (Or.inr h)
      · rintro (h | h | h)
        · exact Or.inl (Or.inl h)
        · exact Or.inl (Or.inr h)
        · exact Or.inr h

theorem mem_distinctOf (l : List Bytes) (x : Bytes) : x ∈ distinctOf l ↔ x ∈ l := by
  unfold distinctOf
  rw [mem_dedup_fold]
  simp

theorem nodup_dedup_fold (l : List Bytes) : ∀ (acc : List Bytes), acc.Nodup →
    (l.foldl (fun acc x => if acc.contains x then acc else acc ++ [x]) acc).Nodup := by
  induction l with
  | nil => intro acc h; exact h
  | cons y ys ih =>
    intro acc h
    rw [List.foldl_cons]
    apply ih
    by_cases hy : acc.contains y = true
    · simp only [hy, if_true]; exact h
    · simp only [hy, Bool.false_eq_true, if_false]
      have : y ∉ acc := by simpa using hy
      rw [List.nodup_append]
      refine ⟨h, by simp, ?_⟩
      intro a ha b hb
      rw [List.mem_singleton] at hb
      subst hb
      intro hab
      exact this (hab ▸ ha)

/-- one arglist element per distinct name -/
theorem nodup_distinctOf (l : List Bytes) : (distinctOf l).Nodup := nodup_dedup_fold l [] List.nodup_nil

theorem freshArgs_nodes (b : List Bytes) : (freshArgs b).map (·.node) = distinctOf b := by
  simp [freshArgs, Function.comp_def]

theorem freshArgs_fresh (b : List Bytes) (a : Arg) (h : a ∈ freshArgs b) :
    a.state = .unknown ∧ a.result = .none ∧ a.val = none := by
  simp only [freshArgs, List.mem_map] at h
  obtain ⟨n, _, rfl⟩ := h
  exact ⟨rfl, rfl, rfl⟩

theorem freshArgs_cover (b : List Bytes) (n : Bytes) (h : n ∈ b) : ∃ a ∈ freshArgs b, a.node = n := by
  have := (mem_distinctOf b n).mpr h
  exact ⟨{ node := n, val := none, state := .unknown, result := .none }, List.mem_map.mpr ⟨n, this, rfl⟩, rfl⟩

/-- `dev_enqueue_actions` on one device only appends actions, all carrying the given arglist and client -/
theorem enqueue_acts (d : Dev) (com : Nat) (tg : List Bytes) (cid : Nat) (tele : Bool) (al : Nat) (a : Action)
    (h : a ∈ (enqueue d com tg cid tele al).1.acts) : a ∈ d.acts ∨ (a.arglist = al ∧ a.clientId = cid) := by
  unfold enqueue at h
  simp only at h
  split at h
  · exact Or.inl h
  · simp only [List.mem_append] at h
    rcases h with h | h
    · exact Or.inl h
    · right
      repeat' split at h
      all_goals first
        | (simp only [List.mem_map] at h; obtain ⟨p, _, rfl⟩ := h; exact ⟨rfl, rfl⟩)
        | (simp only [List.mem_singleton] at h; subst h; exact ⟨rfl, rfl⟩)
        | cases h

theorem enqStep_acts (com : Nat) (bn : List Bytes) (cid : Nat) (tele : Bool) (al : Nat) (devs : List (Bytes × Dev)) :
    ∀ (acc : List (Bytes × Dev) × Nat) (nd' : Bytes × Dev) (a : Action),
    nd' ∈ (devs.foldl (enqStep com bn cid tele al) acc).1 → a ∈ nd'.2.acts →
    (nd' ∈ acc.1) ∨ (∃ nd ∈ devs, a ∈ nd.2.acts) ∨ (a.arglist = al ∧ a.clientId = cid) := by
  induction devs with
  | nil => intro acc nd' a h _; exact Or.inl h
  | cons nd ds ih =>
    intro acc nd' a h ha
    rw [List.foldl_cons] at h
    rcases ih _ nd' a h ha with h1 | ⟨x, hx, hax⟩ | h3
    · simp only [enqStep, List.mem_append, List.mem_singleton] at h1
      rcases h1 with h1 | h1
      · exact Or.inl h1
      · subst h1
        simp only at ha
        have ha' : a ∈ (enqueue nd.2 com bn cid tele al).1.acts := by
          split at ha
          · exact ha
          · exact ha
        rcases enqueue_acts _ _ _ _ _ _ _ ha' with h4 | h4
        · exact Or.inr (Or.inl ⟨nd, List.mem_cons_self, h4⟩)
        · exact Or.inr (Or.inr h4)
    · exact Or.inr (Or.inl ⟨x, List.mem_cons_of_mem _ hx, hax⟩)
    · exact Or.inr (Or.inr h3)

/-- the freshness invariant: every arglist id in use is below the counter.  `c` is the client being served
    (`cliPostPoll` holds it outside the table while `parseLine` runs).  Internal actions (login, ping:
    `clientId = 0`) carry the dummy id 0 and are exempt. -/
structure Fresh (w : W) (c : Cli) : Prop where
  store : ∀ p ∈ w.store, p.1 < w.alNext
  clients : ∀ x ∈ w.clients, ∀ k, x.cmd = some k → k.al < w.alNext
  cli : ∀ k, c.cmd = some k → k.al < w.alNext
  acts : ∀ nd ∈ w.devs, ∀ a ∈ nd.2.acts, a.clientId ≠ 0 → a.arglist < w.alNext

/-- under the invariant nothing refers to the id the next command will get -/
theorem Fresh.unreferenced {w : W} {c : Cli} (h : Fresh w c) :
    (w.store.lookup w.alNext = none) ∧ (∀ x ∈ w.clients, ∀ k, x.cmd = some k → k.al ≠ w.alNext) ∧
    (∀ k, c.cmd = some k → k.al ≠ w.alNext) ∧
    (∀ nd ∈ w.devs, ∀ a ∈ nd.2.acts, a.clientId ≠ 0 → a.arglist ≠ w.alNext) := by
  refine ⟨?_, fun x hx k hk => Nat.ne_of_lt (h.clients x hx k hk), fun k hk => Nat.ne_of_lt (h.cli k hk),
    fun nd hnd a ha hc => Nat.ne_of_lt (h.acts nd hnd a ha hc)⟩
  rw [List.lookup_eq_none_iff]
  intro p hp
  have := h.store p hp
  simp only [bne_iff_ne, ne_eq]
  omega

theorem refused_fresh {w : W} {c : Cli} (h : Fresh w c) : Fresh (refused w c).1 (refused w c).2 :=
  ⟨h.store, h.clients, h.cli, h.acts⟩

theorem install_fresh (w : W) (c : Cli) (com : Com) (names : List Name) (h : Fresh w c) :
    Fresh (install w c com names).1 (install w c com names).2 := by
  rw [install_eq]
  split
  · exact refused_fresh h
  · simp only
    split
    · exact refused_fresh h
    · refine ⟨?_, ?_, ?_, ?_⟩
      · intro p hp
        simp only [List.mem_cons] at hp
        rcases hp with rfl | hp
        · exact Nat.lt_succ_self _
        · exact Nat.lt_succ_of_lt (h.store p hp)
      · intro x hx k hk
        exact Nat.lt_succ_of_lt (h.clients x hx k hk)
      · intro k hk
        simp only [Option.some.injEq] at hk
        subst hk
        exact Nat.lt_succ_self _
      · intro nd' hnd a ha hc
        simp only at hnd
        rcases enqStep_acts _ _ _ _ _ _ _ nd' a hnd ha with h1 | ⟨nd, hnd0, ha0⟩ | h3
        · cases h1
        · exact Nat.lt_succ_of_lt (h.acts nd hnd0 a ha0 hc)
        · simp only [h3.1]; exact Nat.lt_succ_self _

/-- what an accepted request leaves behind -/
theorem install_creates (w : W) (c : Cli) (com : Com) (names : List Name) (hc : c.cmd = none) (k : CmdC)
    (hk : (install w c com names).2.cmd = some k) :
    k.com = com ∧ k.names = names ∧ k.error = false ∧ k.pending ≠ 0 ∧ k.al = w.alNext ∧
    (install w c com names).1.alNext = w.alNext + 1 ∧
    storeArgs (install w c com names).1 k.al = freshArgs (names.map ofChars) := by
  rw [install_eq] at hk ⊢
  split at hk
  · simp [refused, put, hc] at hk
  · simp only at hk
    split at hk
    · simp [refused, put, hc] at hk
    · rename_i h1 h2
      simp only [Option.some.injEq] at hk
      subst hk
      simp only [h1, h2, Bool.false_eq_true, if_false, storeArgs, List.lookup_cons, beq_self_eq_true, Option.getD_some,
        and_self, true_and]
      simpa using h2

/-! ## 8. names are byte strings: the arglist of an accepted request covers its targets -/

/-- a name all of whose characters are bytes (true of everything that came through `toChars`) -/
def ByteName (n : Name) : Prop := ∀ ch ∈ n, ch.toNat < 256

theorem toChars_ofChars (n : Name) (h : ByteName n) : toChars (ofChars n) = n := by
  unfold toChars ofChars
  rw [List.map_map]
  conv => rhs; rw [← List.map_id n]
  apply List.map_congr_left
  intro ch hch
  have hlt := h ch hch
  have : ch.toNat.toUInt8.toNat = ch.toNat := by
    rw [Nat.toUInt8_eq, UInt8.toNat_ofNat']
    omega
  simp only [Function.comp_apply, this, Char.ofNat_toNat, id]

theorem toNat_ofNat_small (n : Nat) (h : n < 256) : (Char.ofNat n).toNat = n := by
  have hv : n.isValidChar := Or.inl (by omega)
  unfold Char.ofNat
  rw [dif_pos hv]
  simp [Char.ofNatAux, Char.toNat]

theorem byteName_toChars (b : Bytes) : ByteName (toChars b) := by
  intro ch hch
  simp only [toChars, List.mem_map] at hch
  obtain ⟨x, _, rfl⟩ := hch
  rw [toNat_ofNat_small _ x.toNat_lt]
  exact x.toNat_lt

/-- an arglist that has an element for the byte form of every target covers the targets -/
theorem covered_of_nodes (k : CmdC) (as : List Arg) (hb : ∀ n ∈ k.names, ByteName n)
    (h : ∀ n ∈ k.names, ∃ a ∈ as, a.node = ofChars n) (e : Bool) :
    Covered { k with error := e, args := as.map argC } := by
  intro n hn
  obtain ⟨a, ha, han⟩ := h n hn
  refine ⟨argC a, List.mem_map.mpr ⟨a, ha, rfl⟩, ?_⟩
  simp only [argC, han]
  exact toChars_ofChars n (hb n hn)

/-- the command an accepted request creates, read back through the store: every target has an arglist element,
    and every element is in its initial state -/
theorem install_covered (w : W) (c : Cli) (com : Com) (names : List Name) (hc : c.cmd = none) (k : CmdC)
    (hk : (install w c com names).2.cmd = some k) (hb : ∀ n ∈ names, ByteName n) (err : ActErr) :
    Covered (withStore (install w c com names).1 k err) ∧
    ∀ a ∈ (withStore (install w c com names).1 k err).args, a.state = 0 ∧ a.result = 0 ∧ a.val = none := by
  obtain ⟨_, hn, _, _, _, _, hst⟩ := install_creates w c com names hc k hk
  unfold withStore
  rw [hst]
  constructor
  · apply covered_of_nodes k _ (by rw [hn]; exact hb)
    intro n hnn
    rw [hn] at hnn
    exact freshArgs_cover _ _ (List.mem_map.mpr ⟨n, hnn, rfl⟩)
  · intro a ha
    simp only [List.mem_map] at ha
    obtain ⟨g, hg, rfl⟩ := ha
    obtain ⟨h1, h2, h3⟩ := freshArgs_fresh _ g hg
    simp [argC, h1, h2, h3, psNum, prNum]

/-- whatever the devices wrote, the states the reply functions see are one of the three enumerators -/
theorem argC_state_le (a : Arg) : (argC a).state ≤ 2 := by
  unfold argC psNum; cases a.state <;> simp

theorem withStore_state_le (w : W) (k : CmdC) (err : ActErr) : ∀ a ∈ (withStore w k err).args, a.state ≤ 2 := by
  intro a ha
  simp only [withStore, List.mem_map] at ha
  obtain ⟨g, _, rfl⟩ := ha
  exact argC_state_le g

/-! ## 9. statements assembled for the property files -/

instance (c : CmdC) : Decidable (Covered c) := by unfold Covered; infer_instance
instance (n : Name) : Decidable (ByteName n) := by unfold ByteName; infer_instance

theorem isPower_iff (c : Com) : isPower c = true ↔ c ∈ [Com.on, .off, .cycle, .reset, .flash, .unflash] := by
  cases c <;> decide
theorem isQueryCom_iff (c : Com) : isQueryCom c = true ↔ c ∈ [Com.status, .beacon, .temp] := by
  cases c <;> decide

/-- an entry: the arglist element found for a target name -/
theorem any_entry_iff (c : CmdC) (p : ArgC → Bool) :
    (entriesOf c).any p = true ↔ ∃ n ∈ c.names, ∃ a, c.args.find? (·.node == n) = some a ∧ p a = true := by
  simp only [List.any_eq_true, entriesOf, List.mem_filterMap]
  constructor
  · rintro ⟨a, ⟨n, hn, hf⟩, hp⟩; exact ⟨n, hn, a, hf, hp⟩
  · rintro ⟨n, hn, a, hf, hp⟩; exact ⟨a, ⟨n, hn, hf⟩, hp⟩

theorem finalReply_power_iff (ex : Bool) (c : CmdC) (hp : isPower c.com = true) :
    (finalReply ex c = some okLine ↔
      c.error = false ∧ ∀ n ∈ c.names, ∀ a, c.args.find? (·.node == n) = some a → a.result ≠ 1) ∧
    (finalReply ex c ≠ some okLine → finalReply ex c = some errLine) := by
  rw [finalReply_power ex c hp]
  cases hb : (c.error || (entriesOf c).any (·.result == 1))
  · simp only [Bool.false_eq_true, if_false, true_iff, ne_eq, not_true_eq_false, false_implies, and_true]
    rw [Bool.or_eq_false_iff] at hb
    refine ⟨hb.1, ?_⟩
    intro n hn a hf hr
    have : (entriesOf c).any (·.result == 1) = true := (any_entry_iff c _).mpr ⟨n, hn, a, hf, by simp [hr]⟩
    rw [hb.2] at this
    cases this
  · simp only [if_true, Option.some.injEq, implies_true, and_true]
    constructor
    · intro h; exact absurd h.symm okLine_ne_errLine
    · rintro ⟨he, hall⟩
      rw [he, Bool.false_or, any_entry_iff] at hb
      obtain ⟨n, hn, a, hf, hr⟩ := hb
      exact absurd (by simpa using hr) (hall n hn a hf)

/-- `fold_final` when some completion of the command carried an error (or the flag was already set): either the
    sort assert fired while the reply was built (F19), or the reply ends with the error line of its kind -/
theorem fold_final_error (name : Bytes) (id : Nat) (pre : List DOut) (e : ActErr) (acc : W × List String) (c : Cli) (k : CmdC)
    (h : cliOf acc.1 id = some c) (hc : c.cmd = some k) (hn : pre.countP (isFin id) + 1 = k.pending)
    (herr : k.error = true ∨ (pre ++ [Dev2.Out.finish id e]).any (finErr id) = true) :
    "O ABORT act_finish" ∈ ((pre ++ [Dev2.Out.finish id e]).foldl (outStep name) acc).2 ∨
    ∃ r, cliOf ((pre ++ [Dev2.Out.finish id e]).foldl (outStep name) acc).1 id =
           some { c with cmd := none, toBuf := c.toBuf ++ pre.flatMap (outText name id) ++ errPre e name ++ r ++ prompt } ∧
         ((isPower k.com = true ∧ r = errLine) ∨ (isQueryCom k.com = true ∧ qTerm true <:+ r)) := by
  have hf := fold_final name id pre e acc c k h hc hn
  simp only at hf
  have hflag : (k.error || pre.any (finErr id) || (e != .success)) = true := by
    rcases herr with h1 | h1
    · simp [h1]
    · simp only [List.any_append, List.any_cons, List.any_nil, Bool.or_false, finErr, beq_self_eq_true, Bool.true_and,
        Bool.or_eq_true] at h1
      rcases h1 with h1 | h1 <;> simp [h1]
  split at hf
  · rename_i r hr
    right
    refine ⟨r, hf, ?_⟩
    have := finalReply_error c.exprange _ r (by simpa using hflag) hr
    simpa using this
  · exact Or.inl hf

/-- `fold_final` for a power command when no completion carried an error: success exactly when no entry of the
    arglist (as it is in the store at that moment) is classified unsuccessful -/
theorem fold_final_power_clean (name : Bytes) (id : Nat) (pre : List DOut) (e : ActErr) (acc : W × List String) (c : Cli) (k : CmdC)
    (h : cliOf acc.1 id = some c) (hc : c.cmd = some k) (hn : pre.countP (isFin id) + 1 = k.pending)
    (hp : isPower k.com = true) (hclean : k.error = false ∧ (pre ++ [Dev2.Out.finish id e]).any (finErr id) = false) :
    let bad := (entriesOf (withStore acc.1 k .success)).any (·.result == 1)
    cliOf ((pre ++ [Dev2.Out.finish id e]).foldl (outStep name) acc).1 id =
      some { c with cmd := none, toBuf := c.toBuf ++ pre.flatMap (outText name id) ++ (if bad then errLine else okLine) ++ prompt } := by
  intro bad
  have hf := fold_final name id pre e acc c k h hc hn
  simp only at hf
  obtain ⟨h1, h2⟩ := hclean
  simp only [List.any_append, List.any_cons, List.any_nil, Bool.or_false, finErr, beq_self_eq_true, Bool.true_and,
    Bool.or_eq_false_iff] at h2
  have he : e = .success := by simpa using h2.2
  subst he
  rw [finalReply_power _ _ (by simpa using hp)] at hf
  simp only [h1, h2.1, Bool.or_self, bne_self_eq_false, Bool.false_or] at hf
  rw [hf]
  have : (entriesOf { k with error := false, args := (storeArgs acc.1 k.al).map argC }).any (·.result == 1) = bad := by
    rfl
  rw [this]
  simp [errPre_success, List.append_assoc]

/-- a state outside the three enumerators would be dropped by the range-compressed rendering -/
theorem partition_out_of_range_counterexample :
    let c : CmdC := { com := .status, names := ["a".toList, "b".toList], pending := 1, error := false,
                      args := [{ node := "a".toList, state := 3, result := 0, val := none }, { node := "b".toList, state := 2, result := 0, val := none }] }
    Covered c ∧ onNodes c ++ offNodes c ++ unkNodes c = ["b".toList] ∧
    finalReply true c = some (bstr "303 a: unknown\r\n303 b: on\r\n103 Query complete\r\n") := by decide +kernel

end Pm.Daemon.Reply

/-! axiom audit (expected: at most `propext`, `Classical.choice`, `Quot.sound`) -/
